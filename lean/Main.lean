import ICal.Driver.Text
import ICal.Driver.Fold
import ICal.Driver.Line
import ICal.Driver.Tree
import ICal.Driver.StartEnd
import ICal.Driver.Codec
import ICal.Driver.CDict
import ICal.Driver.Walk
import ICal.Driver.Tz
import ICal.Driver.Alarm
import ICal.Driver.Recur
import ICal.Driver.Encode
import ICal.Driver.Zoned
import ICal.Driver.Bodies
import ICal.Driver.BodiesParser
import ICal.Driver.BodiesLine
import ICal.Driver.BodiesFold
import ICal.Driver.BodiesText
import ICal.Driver.BodiesAlarm
import ICal.Driver.BodiesWalk
import ICal.Driver.BodiesSer
import ICal.Driver.BodiesCDict
import ICal.Driver.BodiesSE
import ICal.Driver.BodiesParse
import ICal.Driver.BodiesAlarmTimes
import ICal.Driver.BodiesSerLines
import ICal.Driver.BodiesSEFull
import ICal.Driver.BodiesSEDesc
import ICal.Driver.BodiesDDD
import ICal.Driver.BodiesRecur
import ICal.Driver.BodiesAdd
import ICal.Driver.BodiesTzUse
import ICal.Driver.BodiesCDictSort
import ICal.Driver.BodiesTz
open ICal.Driver

def handlers : List (String → List String → Option String) := [handleText, handleFold, handleLine, handleTree, handleStartEnd, handleCodec, handleCDict, handleWalk, handleTz, handleAlarm, handleRecur, handleEncode, handleZoned, handleBodies, handleBodiesParser, handleBodiesLine, handleBodiesFold, handleBodiesText, handleBodiesAlarm, handleBodiesWalk, handleBodiesSer, handleBodiesCDict, handleBodiesSE, handleBodiesParse, handleBodiesAlarmTimes, handleBodiesSerLines, handleBodiesSEFull, handleBodiesDDD, handleBodiesRecur, handleBodiesAdd, handleBodiesTzUse, handleBodiesCDictSort, handleBodiesTz, handleBodiesSEDesc]

def step (line : String) : String :=
  let l := line.dropRightWhile (fun c => c == (Char.ofNat 10) || c == (Char.ofNat 13))
  match l.splitOn "\t" with
  | [] => "bad-op"
  | op :: args =>
    match handlers.findSome? (fun h => h op args) with
    | some r => r
    | none => "bad-op"

partial def loop (h : IO.FS.Stream) (out : IO.FS.Stream) : IO Unit := do
  let line ← h.getLine
  if line.isEmpty then return ()
  out.putStrLn (step line)
  loop h out

def main : IO Unit := do
  let out ← IO.getStdout
  loop (← IO.getStdin) out
