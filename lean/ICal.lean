import ICal.Model.PyStr
import ICal.Gen.Parser
import ICal.Model.Text
import ICal.Lemmas.PyStr
import ICal.Lemmas.Text
import ICal.Props.C07
import ICal.Driver.Text
