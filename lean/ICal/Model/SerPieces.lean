/-
  The external pieces of the regenerated serialiser methods of cal.Component (ICal/Gen/BodiesSer.lean,
  tools/py2lean.py: `property_items`, `content_line`, `content_lines`, `to_ical`) as the hand model of
  ICal/Model/Ser.lean has them: `vText(name).to_ical()` = `escapeChar name`, `sorted_keys()` = `canonsort` of the keys by
  the class's canonical order, `keys()` = the stored names, `self[name]` = the entry (KeyError without one); of a value
  of a pair: its `.params` (none for bytes), whether it is bytes, `types_factory['inline'](bytes)` (the same bytes, no
  parameters), the text `from_parts` writes; `Contentline.from_parts` = the model's `fromParts` (C05), whose
  AssertionError / ValueError are the Python exceptions; `Contentlines.to_ical()` = `linesToIcal` (C06).
  Shared by ICal/Lemmas/BodiesSer.lean, ICal/Lemmas/BodiesSerLines.lean (the equality proofs) and
  ICal/Driver/BodiesSerLines.lean (the differential ops).  The pieces are given BY NAME where they are applied.
-/
import ICal.Gen.BodiesSer
import ICal.Model.Ser
namespace ICal.Bodies
open ICal ICal.PyRT ICal.Gen.BodiesSer

def nameToIcalP (n : Str) : Str := escapeChar n
def keysP (c : Comp) : List Str := c.props.map (·.name)
def sortedKeysP (c : Comp) : List Str := CDict.canonsort (keysP c) (canonicalOrderOf c.name)

/-- the values of an entry as `self[name]` hands them out -/
def entryVals (e : Entry) : PyVals :=
  if e.isList then .many e.vals else
    match e.vals with
    | [v] => .one v
    | vs => .many vs

def getitemP (c : Comp) (k : Str) : Py PyVals :=
  match c.props.find? (fun e => e.name == k) with
  | some e => .ok (entryVals e)
  | none => .error .keyError

/-- what the serialiser observes of a pair -/
def ivItem : PyItem → Item
  | (n, .bytes b) => ⟨n, b, []⟩
  | (n, .obj v) => ⟨n, v.text, v.params⟩
  | (n, .list _) => ⟨n, [], []⟩

/-- a result of the line layer as a result of translated code -/
def liftL {α : Type} : Except LineErr α → Py α
  | .ok v => .ok v
  | .error .assertion => .error .assertionError
  | .error .value => .error .valueError

def paramsOfP : PyIV → Params
  | .obj v => v.params
  | _ => []
def isBytesP : PyIV → Bool
  | .bytes _ => true
  | _ => false
/-- `types_factory['inline'](b)`: an object whose `to_ical()` is `b` and that has no parameters; `params` was read before -/
def inlineOfP (v : PyIV) : PyIV := v
def textOfP : PyIV → Str
  | .bytes b => b
  | .obj v => v.text
  | .list _ => []
def fromPartsP (n : Str) (p : Params) (v : PyIV) (sorted : Bool) : Py Str := liftL (fromParts n p (textOfP v) sorted)

/-- the translated `content_line` / `content_lines` / `to_ical` with these pieces -/
def contentLineP (c : Comp) (n : Str) (v : PyIV) (sorted : Bool) : Py Str :=
  Component_content_line (params_of := paramsOfP) (is_bytes := isBytesP) (inline_of := inlineOfP) (from_parts := fromPartsP) c n v sorted
def contentLinesP (c : Comp) (sorted : Bool) : Py (List Str) :=
  Component_content_lines (name_to_ical := nameToIcalP) (sorted_keys := sortedKeysP) (keys := keysP) (getitem := getitemP)
    (params_of := paramsOfP) (is_bytes := isBytesP) (inline_of := inlineOfP) (from_parts := fromPartsP) c sorted
def toIcalP (c : Comp) (sorted : Bool) : Py Str :=
  Component_to_ical (name_to_ical := nameToIcalP) (sorted_keys := sortedKeysP) (keys := keysP) (getitem := getitemP)
    (params_of := paramsOfP) (is_bytes := isBytesP) (inline_of := inlineOfP) (from_parts := fromPartsP)
    (lines_to_ical := linesToIcal) c sorted

end ICal.Bodies
