/-
  The PARTIAL runtime functions of the translated decoder bodies (ICal/Gen/BodiesDec.lean): the
  Python builtins and `datetime` constructors that can raise.  Nothing is re-implemented here: they
  are the definitions of the hand model (ICal/Model/Codec.lean: `pyInt`, `validDate`, `okTime`),
  given the `Py` result type of the translated code.

    int(s)              `intOfStr`      CPython's `int()` on an ASCII str (`pyInt`); ValueError
    int(s or k)         `intOfStrOr`    `s` if it is true, else the int literal `k`; for a str-or-None
                                        regex group `intOfOptStrOr`
    date(y, m, d)       `mkPyDate`      ValueError outside `validDate`
    time(h, m, s)       `mkPyTime`      ValueError outside `okTime`
    datetime(y,..,s)    `mkPyDateTime`  both
  Arguments beyond a C int (OverflowError instead of ValueError) are not distinguished: every use
  in the source is inside `except Exception`.  Import-free apart from ICal.Model.*: linked into the driver.
-/
import ICal.Model.PyRT
import ICal.Model.Codec
namespace ICal.PyRT

def intOfStr (s : Str) : Py Int :=
  match pyInt s with
  | some z => .ok z
  | none => .error .valueError

def intOfStrOr (s : Str) (k : Int) : Py Int := if truthy s then intOfStr s else .ok k

def intOfOptStrOr (s : Option Str) (k : Int) : Py Int :=
  match s with
  | some t => intOfStrOr t k
  | none => .ok k

def mkPyDate (y m d : Int) : Py PyDate :=
  if 0 ≤ y ∧ 0 ≤ m ∧ 0 ≤ d ∧ validDate y.toNat m.toNat d.toNat = true then .ok ⟨y, m, d⟩
  else .error .valueError

def mkPyTime (h m s : Int) : Py PyTime :=
  if okTime h m s then .ok ⟨h, m, s⟩ else .error .valueError

def mkPyDateTime (y m d h mi s : Int) : Py PyDateTime :=
  if 0 ≤ y ∧ 0 ≤ m ∧ 0 ≤ d ∧ validDate y.toNat m.toNat d.toNat = true then
    if okTime h mi s then .ok ⟨y, m, d, h, mi, s⟩ else .error .valueError
  else .error .valueError

/-! ## `DURATION_REGEX.match(t).groups()`

  The translated `vDuration.from_ical` takes the match object as a parameter.  This is the hand
  model of what the regex answers - the same scanner as `durFrom` of the hand model, returning the
  group TEXTS instead of their values (`none` = the group did not take part) - so that the two can
  be composed and compared with `durFrom`; it is compared with the real `re` module every run
  (op `body_dur_groups`). -/

/-- `(?:(\d+)U)?` : the text of the group and the rest -/
def optUnitS (u : Char) (l : Str) : Option Str × Str :=
  let r := spanDigits l
  match r.1, r.2 with
  | [], _ => (none, l)
  | ds, c :: rest => if c = u then (some ds, rest) else (none, l)
  | _, [] => (none, l)

/-- `(?:T(?:(\d+)H)?(?:(\d+)M)?(?:(\d+)S)?)?` -/
def parseTS : Str → Option Str × Option Str × Option Str × Str
  | 'T' :: l =>
    let r1 := optUnitS 'H' l
    let r2 := optUnitS 'M' r1.2
    let r3 := optUnitS 'S' r2.2
    (r1.1, r2.1, r3.1, r3.2)
  | r => (none, none, none, r)

def durBodyGroups : Str → Option (Option Str × Option Str × Option Str × Option Str × Option Str)
  | 'P' :: l =>
    let r1 := optUnitS 'W' l
    let r2 := optUnitS 'D' r1.2
    let t := parseTS r2.2
    if t.2.2.2 = [] ∨ t.2.2.2 = ['\n'] then some (r1.1, r2.1, t.1, t.2.1, t.2.2.1) else none
  | _ => none

/-- `DURATION_REGEX.match(t)`: `none`, or the six groups (sign weeks days hours minutes seconds);
    the sign group `([-+]?)` always takes part (`''` when there is no sign) -/
def durGroups : Str → Option (Option Str × Option Str × Option Str × Option Str × Option Str × Option Str)
  | '-' :: r => (durBodyGroups r).map (fun g => (some ['-'], g))
  | '+' :: r => (durBodyGroups r).map (fun g => (some ['+'], g))
  | r => (durBodyGroups r).map (fun g => (some [], g))

/-! ## wave 6 -/

/-- `a, b = xs` for a list: ValueError unless it has exactly two elements -/
def listUnpack2 {α : Type} (xs : List α) : Py (α × α) :=
  match xs with
  | [a, b] => .ok (a, b)
  | _ => .error .valueError

end ICal.PyRT
