/-
  The external pieces of the regenerated `Component.add` (ICal/Gen/BodiesAdd.lean, tools/py2lean.py) as the hand model
  of ICal/Model/Encode.lean has them: the mapping is the list of stored entries; the argument is one `PyVal` or a list of
  them; `self._encode(name, x, parameters, 1)` is the TRANSLATED `_encode` for an object (proved equal to `encodeOne`) and the
  model's `encodeWhole` for a list handed over as a whole; `isinstance(value, datetime)` holds of a datetime atom, `tzp.localize_utc` is `DT.toUtc`; `name in self`,
  `self[name]`, `self[name] = v` work on the upper-cased name (a stored entry that is no list holds one value).
  The model's marker `unmodelled` travels as `Exc.fuel` (no Python exception).  Shared by ICal/Lemmas/BodiesAdd.lean and
  ICal/Driver/BodiesAdd.lean.  The pieces are given BY NAME.
-/
import ICal.Gen.BodiesAdd
import ICal.Model.Encode
namespace ICal.Bodies
open ICal ICal.PyRT ICal.Enc ICal.Gen.BodiesAdd

def liftEnc {α : Type} : Res α → Py α
  | .ok v => .ok v
  | .error .valueError => .error .valueError
  | .error .typeError => .error .typeError
  | .error .unmodelled => .error .fuel

def argU : PyArg → PyOneMany PyVal
  | .one v => .one v
  | .list xs => .many xs
def isDatetimeU : PyOneMany PyVal → Bool
  | .one (.atom (.dt _)) => true
  | _ => false
def localizeUtcU : PyOneMany PyVal → PyOneMany PyVal
  | .one (.atom (.dt t)) => .one (.atom (.dt t.toUtc))
  | u => u
/-! ### `Component._encode` -/

/-- what `_encode` handles: the caller's value, or the value object made of it -/
inductive EncObj where
  | raw (v : PyVal)
  | obj (o : Val)

/-- the value object an `EncObj` stands for (an instance of `types_factory.all_types` is its own object) -/
def EncObj.val : EncObj → Val
  | .raw v => (keptTyped v).getD default
  | .obj o => o
def isTypedE : EncObj → Bool
  | .raw v => (keptTyped v).isSome
  | .obj _ => true
def constructE (klass : Str) : EncObj → Py EncObj
  | .raw v => liftEnc ((construct1 klass v).map EncObj.obj)
  | .obj o => .ok (.obj o)
def paramsHasE (o : EncObj) (k : Str) : Bool := o.val.params.any (fun e => e.1 == upper k)
def paramsDelE (o : EncObj) (k : Str) : EncObj := .obj { o.val with params := o.val.params.filter (fun e => e.1 != upper k) }
def paramsSetE (o : EncObj) (k : Str) (v : PVal) : EncObj := .obj { o.val with params := Params.put o.val.params (upper k) v }

/-- the translated `Component._encode(name, value, parameters, 1)`: `parameters` is the list of its items (empty: None or {}) -/
def encodeOneP (name : Str) (v : PyVal) (upd : List (Str × Option PVal)) : Py EncObj :=
  Component_encode (name := name) (value := EncObj.raw v) (parameters := upd) (encode := 1) (is_typed := isTypedE)
    (for_property := forProperty) (construct := constructE) (has_parameters := fun u => !u.isEmpty)
    (has_params := fun _ => true) (no_params := ([] : Params)) (set_params := fun o _ => o) (items_of := fun u => u)
    (params_has := paramsHasE) (params_del := paramsDelE) (params_set := paramsSetE)

def encodeU (upd : List (Str × Option PVal)) (name : Str) (u : PyOneMany PyVal) (_ : Unit) (_ : Int) : Py Val :=
  match u with
  | .one v => (encodeOneP name v upd).map EncObj.val       -- the translated `_encode`
  | .many xs => liftEnc (encodeWhole name (.list xs) upd)
def hasKeyU (props : List Entry) (name : Str) : Bool := (props.find? (fun e => e.name == upper name)).isSome
def getItemU (props : List Entry) (name : Str) : Py (PyOneMany Val) :=
  match props.find? (fun e => e.name == upper name) with
  | some e => .ok (if e.isList then .many e.vals else match e.vals with | [x] => .one x | vs => .many vs)
  | none => .error .keyError
def setItemU (props : List Entry) (name : Str) : PyOneMany Val → List Entry
  | .one v => setEntry props (upper name) false [v]
  | .many vs => setEntry props (upper name) true vs

/-- the translated `Component.add(name, value, parameters)` (encode=1) on the stored entries -/
def componentAddP (props : List Entry) (name : Str) (a : PyArg) (upd : List (Str × Option PVal)) : Py (List Entry) :=
  Component_add (self_ := props) (name := name) (value := argU a) (parameters := ()) (encode := 1)
    (is_datetime := isDatetimeU) (localize_utc := localizeUtcU) (encode_value := encodeU upd)
    (has_key := hasKeyU) (get_item := getItemU) (set_item := setItemU)

/-! ### `vDDDLists.__init__` -/

def hasTzidL (o : Val) : Bool := (Params.get? o.params kTZID).isSome
def tzidOfL (o : Val) : PVal := (Params.get? o.params kTZID).getD (.one [])
def valueOfL (o : Val) : Option PVal := Params.get? o.params kVALUE
def tzidTruthyL : Option PVal → Bool
  | some z => Enc.truthy z
  | none => false
/-- `self.params[key] = x` (a stored None is outside the model: the source guards it) -/
def paramsSetL (ps : Params) (k : Str) : Option PVal → Params
  | some v => Params.put ps k v
  | none => ps

/-- the translated `vDDDLists.__init__`: the parameters it derives and the list of value objects -/
def dddListsInitP (l : PyOneMany PyVal) : Py (Params × List Val) :=
  vDDDLists_init (dt_list := l) (params := ([] : Params)) (dts := ([] : List Val)) (make_ddd := fun v => liftEnc (mkDDD v))
    (has_tzid := hasTzidL) (tzid_of := tzidOfL) (no_params := ([] : Params)) (value_of := valueOfL)
    (tzid_truthy := tzidTruthyL) (params_set := paramsSetL)

/-! ### `vDDDTypes.__init__` -/

/-- a value of the model as the object `vDDDTypes` wraps (the time zone of a datetime is not among the fields: it comes
    back through `tzid_from_dt`, a function parameter) -/
def atomObjE : PyAtom → PyDDD
  | .date d => .date ⟨d.y, d.m, d.d⟩
  | .dt t => .dt ⟨t.wall.d.y, t.wall.d.m, t.wall.d.d, t.wall.h, t.wall.mi, t.wall.s⟩
  | .dur s => .dur (TD.ofSeconds s)
  | .time t => .time ⟨t.h, t.mi, t.s⟩

/-- the translated `vDDDTypes.__init__`: the parameters it derives -/
def dddInitParamsP (tz : PyDDD → Option Str) (d : PyDDD) : Params :=
  (vDDDTypes_init (dt := d) (params := ([] : Params)) (dt_ := d) (params_none := ([] : Params))
    (params_date := [(kVALUE, .one "DATE".toList)]) (params_time := [(kVALUE, .one "TIME".toList)])
    (params_period := [(kVALUE, .one "PERIOD".toList)]) (tzid_from_dt := tz)
    (params_with_tzid := fun ps z => ps ++ [(kTZID, .one z)])).1

/-! ### `vPeriod.__init__` -/

/-- what `vPeriod.__init__` handles: a member of the pair, the end it computes from a duration (`start + duration`, not
    evaluated: only its order against the start matters), or a duration it computes (`end - start`, not observed) -/
inductive PerObj where
  | atom (a : PyAtom)
  | endOf (a : PyAtom) (s : Int)
  | span

def perIsDatetime : PerObj → Bool
  | .atom (.dt _) => true
  | _ => false
def perIsDate : PerObj → Bool          -- a datetime is a date
  | .atom (.date _) => true
  | .atom (.dt _) => true
  | _ => false
def perIsTimedelta : PerObj → Bool
  | .atom (.dur _) => true
  | _ => false
def perAdd : PerObj → PerObj → Py PerObj
  | .atom (.date d), .atom (.dur s) => .ok (.endOf (.date d) s)
  | .atom (.dt t), .atom (.dur s) => .ok (.endOf (.dt t) s)
  | _, _ => .error .typeError
/-- `end - start`: two dates, or two datetimes that are both naive or both aware -/
def perSub : PerObj → PerObj → Py PerObj
  | .atom (.date _), .atom (.date _) => .ok .span
  | .atom (.dt y), .atom (.dt x) => if x.tzid.isSome == y.tzid.isSome then .ok .span else .error .typeError
  | _, _ => .error .typeError
/-- `start > end` -/
def perGt : PerObj → PerObj → Py Bool
  | .atom _, .endOf _ s => .ok (decide (s < 0))
  | .atom (.date x), .atom (.date y) => .ok (keyLt (PDate.key y) (PDate.key x))
  | .atom (.dt x), .atom (.dt y) => match dtGt x y with | some r => .ok r | none => .error .typeError
  | _, _ => .error .typeError
def perTzid : PerObj → Option Str
  | .atom (.dt t) => t.tzid
  | _ => none

/-- the translated `vPeriod.__init__((a, b))`: the parameters it derives (or the exception) -/
def periodInitParamsP (a b : PyAtom) : Py Params :=
  (vPeriod_init (per := (PerObj.atom a, PerObj.atom b)) (params := ([] : Params)) (start_ := PerObj.span) (end_ := PerObj.span)
    (by_duration_ := 0) (duration_ := PerObj.span) (start_is_datetime := perIsDatetime) (start_is_date := perIsDate)
    (other_is_datetime := perIsDatetime) (other_is_date := perIsDate) (other_is_timedelta := perIsTimedelta)
    (add := perAdd) (sub := perSub) (start_gt_end := perGt) (params_period := [(kVALUE, .one "PERIOD".toList)])
    (tzid_from_dt := perTzid) (params_set := fun ps k z => ps ++ [(k, .one z)])).map (fun r => r.1)

end ICal.Bodies
