/-
  The external pieces of the regenerated `Component.add` (ICal/Gen/BodiesAdd.lean, tools/py2lean.py) as the hand model
  of ICal/Model/Encode.lean has them: the mapping is the list of stored entries; the argument is one `PyVal` or a list of
  them; `self._encode(name, x, parameters, 1)` is `encodeOne` for an object and `encodeWhole` for a list handed over as a
  whole; `isinstance(value, datetime)` holds of a datetime atom, `tzp.localize_utc` is `DT.toUtc`; `name in self`,
  `self[name]`, `self[name] = v` work on the upper-cased name (a stored entry that is no list holds one value).
  The model's marker `unmodelled` travels as `Exc.fuel` (no Python exception).  Shared by ICal/Lemmas/BodiesAdd.lean and
  ICal/Driver/BodiesAdd.lean.  The pieces are given BY NAME.
-/
import ICal.Gen.BodiesAdd
import ICal.Model.Encode
namespace ICal.Bodies
open ICal ICal.PyRT ICal.Enc ICal.Gen.BodiesAdd

def liftEnc {α : Type} : Res α → Py α
  | .ok v => .ok v
  | .error .valueError => .error .valueError
  | .error .typeError => .error .typeError
  | .error .unmodelled => .error .fuel

def argU : PyArg → PyOneMany PyVal
  | .one v => .one v
  | .list xs => .many xs
def isDatetimeU : PyOneMany PyVal → Bool
  | .one (.atom (.dt _)) => true
  | _ => false
def localizeUtcU : PyOneMany PyVal → PyOneMany PyVal
  | .one (.atom (.dt t)) => .one (.atom (.dt t.toUtc))
  | u => u
def encodeU (upd : List (Str × Option PVal)) (name : Str) (u : PyOneMany PyVal) (_ : Unit) (_ : Int) : Py Val :=
  match u with
  | .one v => liftEnc (encodeOne name v upd)
  | .many xs => liftEnc (encodeWhole name (.list xs) upd)
def hasKeyU (props : List Entry) (name : Str) : Bool := (props.find? (fun e => e.name == upper name)).isSome
def getItemU (props : List Entry) (name : Str) : Py (PyOneMany Val) :=
  match props.find? (fun e => e.name == upper name) with
  | some e => .ok (if e.isList then .many e.vals else match e.vals with | [x] => .one x | vs => .many vs)
  | none => .error .keyError
def setItemU (props : List Entry) (name : Str) : PyOneMany Val → List Entry
  | .one v => setEntry props (upper name) false [v]
  | .many vs => setEntry props (upper name) true vs

/-- the translated `Component.add(name, value, parameters)` (encode=1) on the stored entries -/
def componentAddP (props : List Entry) (name : Str) (a : PyArg) (upd : List (Str × Option PVal)) : Py (List Entry) :=
  Component_add (self_ := props) (name := name) (value := argU a) (parameters := ()) (encode := 1)
    (is_datetime := isDatetimeU) (localize_utc := localizeUtcU) (encode_value := encodeU upd)
    (has_key := hasKeyU) (get_item := getItemU) (set_item := setItemU)

end ICal.Bodies
