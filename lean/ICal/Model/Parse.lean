/-
  Model of `Component.from_ical` in src/icalendar/cal.py: the line loop as a stack machine.

  Typed value decoding is a parameter: `dec kind text tz` is what the loop observes of
  `factory(factory.from_ical(text[, tz]))` - `none` for ValueError, otherwise the `to_ical()`
  text of the resulting value object.  The decoders themselves are the subject of C03 (and are
  library calls for float/base64); this file models which decoder is called with which
  arguments, where the result is stored, and what happens on failure.
-/
import ICal.Model.Ser
import ICal.Gen.Prop
namespace ICal

abbrev Dec := Str → Str → Option PVal → Option Str

/-- `types_factory.for_property(name)`: both lookups are caseless -/
def forProperty (name : Str) : Str :=
  let key := match (Gen.typesMap.reverse.find? (fun kv => upper kv.1 == upper name)) with
    | some (_, t) => t
    | none => Gen.typesDefault
  match Gen.typeRegistry.reverse.find? (fun kv => upper kv.1 == upper key) with
  | some (_, cls) => cls
  | none => []   -- KeyError cannot happen for the generated tables (checked by `forProperty_total`)

/-- an open or finished component during parsing: a `Comp` plus `component.errors` -/
inductive PComp where
  | mk (name : Str) (props : List Entry) (subs : List PComp) (errs : List Str)
deriving Repr, Inhabited

structure PState where
  stack : List PComp         -- open components, innermost first
  comps : List PComp         -- finished top-level components, in order
  stopped : Bool             -- `break` on a top-level X-COMMENT
deriving Repr

def PState.init : PState := ⟨[], [], false⟩

/-- `component.add(name, value, encode=0)` on the stored entries -/
def addEntry (props : List Entry) (uname : Str) (v : Val) : List Entry :=
  if props.any (fun e => e.name == uname) then
    props.map (fun e => if e.name == uname then { e with isList := true, vals := e.vals ++ [v] } else e)
  else props ++ [⟨uname, false, [v]⟩]

def addToTop (st : PState) (uname : Str) (vs : List Val) : PState :=
  match st.stack with
  | .mk n props subs errs :: rest =>
    { st with stack := .mk n (vs.foldl (fun p v => addEntry p uname v) props) subs errs :: rest }
  | [] => st

/-- `component.errors.append((uname, ...))`; an unparseable line is recorded with the name `None` (here "") -/
def logToTop (st : PState) (uname : Str) : PState :=
  match st.stack with
  | .mk n props subs errs :: rest => { st with stack := .mk n props subs (errs ++ [uname]) :: rest }
  | [] => st

mutual
/-- forget the error lists -/
def PComp.toComp : PComp → Comp
  | .mk n props subs _ => .mk n props (PComp.toComps subs)
def PComp.toComps : List PComp → List Comp
  | [] => []
  | c :: cs => c.toComp :: PComp.toComps cs
end

/-- the END branch's `tzp.cache_timezone_component(component)` raises (re-raised as ValueError
    "Invalid VTIMEZONE"): the line reads `END:VTIMEZONE`, the popped component was opened by
    `BEGIN:VTIMEZONE` (`isinstance(component, Timezone)`), it has a TZID, and building the time zone
    object fails. `tzok c` abstracts "caching the time zone of this VTIMEZONE does not fail" (the
    provider knows the id, or it is cached already, or several TZID lines, or `to_tz` succeeds). -/
def tzFails (tzok : Comp → Bool) (endName : Str) : PComp → Bool
  | .mk n props subs errs =>
    endName == ['V','T','I','M','E','Z','O','N','E'] && n == ['V','T','I','M','E','Z','O','N','E'] &&
    props.any (fun e => e.name == ['T','Z','I','D']) && !tzok (PComp.toComp (.mk n props subs errs))

def textKinds : List Str := [['v','T','e','x','t'], ['v','C','a','t','e','g','o','r','y']]

/-- one line of the loop; `none` = ValueError escapes from `from_ical`.
    (In cal.py the popped component is attached to its parent / appended to the result before the
    caching call of the END branch; a failure there aborts the whole parse, so the order is
    unobservable.) -/
def pstep (tzok : Comp → Bool) (dec : Dec) (st : PState) (line : Str) : Option PState :=
  if st.stopped || line.isEmpty then some st else
  match parts line with
  | none =>
    match st.stack with
    | .mk n _ _ _ :: _ => if lenientName n then some (logToTop st []) else none
    | [] => none
  | some (name, params, vals) =>
    let uname := upper name
    if uname == ['B','E','G','I','N'] then
      some { st with stack := .mk (upper vals) [] [] [] :: st.stack }
    else if uname == ['E','N','D'] then
      match st.stack with
      | [] => none
      | c :: rest =>
        if tzFails tzok (upper vals) c then none else
        match rest with
        | [] => some { st with stack := [], comps := st.comps ++ [c] }
        | .mk pn pp ps pe :: rest => some { st with stack := .mk pn pp (ps ++ [c]) pe :: rest }
    else
      let kind := forProperty name
      let vals := if Gen.fromIcalTextRaw && textKinds.contains kind then rawValue line else vals
      match st.stack with
      | [] => if uname == ['X','-','C','O','M','M','E','N','T'] then some { st with stopped := true } else none
      | .mk cn _ _ _ :: _ =>
        let tz := Params.get? params ['T','Z','I','D']
        let dname := if Gen.fromIcalFreebusyOnUname then uname else name
        let decoded : Option (List Str) :=
          if dname == ['F','R','E','E','B','U','S','Y'] then
            (splitOnChar ',' vals).mapM (fun v => dec kind v tz)
          else if Gen.datetimeNames.contains (if Gen.fromIcalDatetimeOnUname then uname else name) && tz.isSome then
            (dec kind vals tz).map ([·])
          else (dec kind vals none).map ([·])
        match decoded with
        | none => if lenientName cn then some (logToTop st uname) else none
        | some texts => some (addToTop st uname (texts.map (fun t => ⟨kind, t, params⟩)))

def prun (tzok : Comp → Bool) (dec : Dec) : PState → List Str → Option PState
  | st, [] => some st
  | st, l :: ls => match pstep tzok dec st l with
    | none => none
    | some st' => prun tzok dec st' ls

mutual
/-- `[(c.name, e) for c in comp.walk() for e in c.errors]` -/
def PComp.errLog : PComp → List (Str × Str)
  | .mk n _ subs errs => errs.map (fun e => (n, e)) ++ PComp.errLogs subs
def PComp.errLogs : List PComp → List (Str × Str)
  | [] => []
  | c :: cs => c.errLog ++ PComp.errLogs cs
end

/-- `Component.from_ical(st, multiple)` on the unfolded lines -/
def parseLinesP (tzok : Comp → Bool) (dec : Dec) (multiple : Bool) (lines : List Str) : Option (List PComp) :=
  match prun tzok dec PState.init lines with
  | none => none
  | some st =>
    if multiple then some st.comps
    else if st.comps.length == 1 then some st.comps else none

/-- components + error log -/
def parseLines (tzok : Comp → Bool) (dec : Dec) (multiple : Bool) (lines : List Str) :
    Option (List Comp × List (Str × Str)) :=
  (parseLinesP tzok dec multiple lines).map (fun cs => (PComp.toComps cs, PComp.errLogs cs))

/-- from text: `Contentlines.from_ical` then the loop -/
def parseText (tzok : Comp → Bool) (dec : Dec) (multiple : Bool) (t : Str) :
    Option (List Comp × List (Str × Str)) :=
  parseLines tzok dec multiple (linesFromIcal t)

end ICal
