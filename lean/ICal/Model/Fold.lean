/-
  Model of line folding in src/icalendar/parser.py:
  foldline, uFOLD.sub (unfolding), NEWLINE.split, Contentline.to_ical/from_ical,
  Contentlines.to_ical/from_ical.   Constants come from ICal.Gen (regenerated every run).
-/
import ICal.Model.PyStr
import ICal.Gen.Parser
namespace ICal

/-- UTF-8 octet count of one character / of a string -/
def w (c : Char) : Nat := c.utf8Size
def octets (l : Str) : Nat := (l.map w).sum

/-- `line.encode('ascii')` succeeds -/
def isAscii (l : Str) : Bool := l.all (fun c => c.toNat < 128)

/-- UTF-8 encoding -/
def utf8 (l : Str) : List UInt8 := l.flatMap String.utf8EncodeChar

/-- `[line[i:i+n] for i in range(0, len(line), n)]` -/
def chunks (n : Nat) (l : Str) : List Str :=
  if h : n = 0 ∨ l = [] then [] else
    l.take n :: chunks n (l.drop n)
termination_by l.length
decreasing_by
  have h1 : n ≠ 0 := fun e => h (Or.inl e)
  have h2 : l ≠ [] := fun e => h (Or.inr e)
  have : 0 < l.length := List.length_pos_iff.mpr h2
  simp only [List.length_drop]; omega

/-- segments joined by the fold separator -/
def joinSegs (sep : Str) : List Str → Str
  | [] => []
  | [s] => s
  | s :: t :: ss => s ++ sep ++ joinSegs sep (t :: ss)

/-- non-ASCII path of `foldline`: per-character octet counting;
    `cnt` is `byte_count` before the current character -/
def foldUni (limit : Nat) (sep : Str) : Nat → Str → Str
  | _, [] => []
  | cnt, c :: cs =>
    if cnt + w c ≥ limit then sep ++ c :: foldUni limit sep (w c) cs
    else c :: foldUni limit sep (cnt + w c) cs

/-- `foldline(line, limit, fold_sep)` -/
def foldlineWith (limit : Nat) (sep : Str) (line : Str) : Str :=
  if isAscii line then joinSegs sep (chunks (limit - Gen.foldSliceMinus) line)
  else foldUni limit sep 0 line

/-- `foldline(line)` with the defaults of the source -/
def foldline (line : Str) : Str := foldlineWith Gen.foldLimit Gen.foldSep line

/-- strip a maximal run of `(\r?\n)` units; `none` if there is not even one unit -/
def eatNL : Str → Option Str
  | '\r' :: '\n' :: cs => some ((eatNL cs).getD cs)
  | '\n' :: cs => some ((eatNL cs).getD cs)
  | _ => none

theorem eatNL_length : ∀ (l r : Str), eatNL l = some r → r.length < l.length := by
  intro l
  fun_induction eatNL l with
  | case1 cs ih =>
    intro r h; simp at h; subst h
    cases h' : eatNL cs with
    | none => simp; omega
    | some r' => have := ih r' h'; simp; omega
  | case2 cs ih =>
    intro r h; simp at h; subst h
    cases h' : eatNL cs with
    | none => simp
    | some r' => have := ih r' h'; simp; omega
  | case3 l h1 h2 => intro r h; simp at h

/-- `uFOLD.sub('', s)` for uFOLD = `(\r?\n)+[ \t]`: at each position try the greedy run of line
    breaks followed by one of `Gen.foldWs`; backtracking to a shorter run cannot succeed because
    a shorter run is followed by CR or LF, never by SP/HT. -/
def unfold : Str → Str
  | [] => []
  | c :: cs =>
    match h : eatNL (c :: cs) with
    | some (x :: rest) => if Gen.foldWs.contains x then unfold rest else c :: unfold cs
    | _ => c :: unfold cs
termination_by l => l.length
decreasing_by
  · have := eatNL_length _ _ h; simp at this ⊢; omega
  · simp
  · simp

/-- `NEWLINE.split(s)` for NEWLINE = `\r?\n` -/
def splitNewline : Str → List Str
  | [] => [[]]
  | c :: cs =>
    if c = LF then [] :: splitNewline cs
    else if c = CR ∧ cs.head? = some LF then [] :: splitNewline (cs.drop 1)
    else match splitNewline cs with
      | [] => [[c]]
      | hd :: tl => (c :: hd) :: tl
termination_by l => l.length
decreasing_by all_goals (simp only [List.length_drop, List.length_cons]; omega)

/-- `Contentline.from_ical(ical)`: unfold one line -/
def lineFromIcal (t : Str) : Str := unfold t

def BOM : Char := Char.ofNat 0xFEFF

/-- a leading byte-order mark is dropped: bytes are decoded with utf-8-sig, a str loses a
    leading U+FEFF in `Contentlines.from_ical` -/
def stripBOM : Str → Str
  | [] => []
  | c :: cs => if c = BOM then cs else c :: cs

/-- unfold, split on CRLF/LF, drop empty lines
    (the trailing '' appended by the code is not represented) -/
def linesFromText (t : Str) : List Str := (splitNewline (unfold t)).filter (fun l => !l.isEmpty)

/-- `Contentlines.from_ical(st)` -/
def linesFromIcal (t : Str) : List Str := linesFromText (stripBOM t)

/-- `Contentlines.to_ical()` as text: CRLF-join of the folded non-empty lines, plus a final CRLF -/
def linesToIcal (ls : List Str) : Str :=
  joinWith [CR, LF] ((ls.filter (fun l => !l.isEmpty)).map foldline) ++ [CR, LF]

end ICal
