/-
  The pieces of the regenerated second half of `Timezone.get_transitions` (ICal/Gen/BodiesTz.lean, tools/py2lean.py wave 8)
  as the hand model of ICal/Model/Tz.lean has them: a transition tuple `(transtime, osfrom, osto, name)` is a `Tr` (instants
  and offsets in seconds), the dict `dst` is the model's function from a name to "is daylight" and `dst[name]` never fails
  on it (every name in `transitions` was entered into `dst` by the first half of the function).
  Shared by ICal/Lemmas/BodiesTz.lean and ICal/Driver/BodiesTz.lean; pieces are given BY NAME.
-/
import ICal.Gen.BodiesTz
import ICal.Model.Tz
namespace ICal.Bodies
open ICal ICal.PyRT ICal.Tz ICal.Gen.BodiesTz

def trTuple (t : Tr) : Int × Int × Int × Str := (t.loc, t.osfrom, t.osto, t.name)
def dstOfP (dst : Str → Bool) (_d : Unit) (n : Str) : Py Bool := .ok (dst n)

/-- the translated fragment on the model's transitions -/
def transitionsInfoP (dst : Str → Bool) (trs : List Tr) : Py (List Int × List (Int × Int × Str)) :=
  get_transitions_info (DST := Unit) (transitions := trs.map trTuple) (dst := ()) (dst_of := dstOfP dst)

/-- what the model's `infoGo` says, in the shape of the two lists the function returns; `none` = AssertionError -/
def infoView (r : Option (List Ent)) : Py (List Int × List (Int × Int × Str)) :=
  match r with
  | some es => .ok (es.map (·.utc), es.map (fun e => (e.off, e.dst, e.name)))
  | none => .error .assertionError

end ICal.Bodies
