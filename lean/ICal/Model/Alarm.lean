/-
  Model of src/icalendar/alarms.py (AlarmTime, Alarms) and of the VALARM accessors in cal.py
  (Alarm.TRIGGER / TRIGGER_RELATED / REPEAT / DURATION / ACKNOWLEDGED / triggers,
   create_utc_property for DTSTAMP / X-MOZ-LASTACK / X-MOZ-SNOOZE-TIME, Component.is_thunderbird).
  Imports only ICal.Model.PyStr (`upper`): linked into the native driver.

  Conventions (DESIGN.md section 3)
  * an instant is an `Int` (UTC seconds); a `timedelta` is an `Int` (whole seconds);
  * a `date`/`datetime` value the alarm code handles is a `Trig`:
      aware i     datetime with tzinfo, identified with its instant
      floating w  naive datetime, wall-clock seconds
      date d      datetime.date, day number (floating midnight of `date d` is `d * 86400`);
  * `aware + timedelta` is *exact elapsed time*: this is what pytz gives after `normalize`, and what
    any provider gives for UTC and fixed offsets. Under zoneinfo the same `+` is wall-clock arithmetic;
    `wallAdd` below models that, `Props/C14.lean` proves when the two agree (known finding
    zoneinfo-wallclock-dst is the complement);
  * the start and the end of the parent component are *inputs* (`Option Trig`; `none` = the
    IncompleteComponent that `add_component` tolerates). Their derivation from DTSTART/DTEND/DUE/
    DURATION is property C16;
  * the local time zone is an abstract `localize : Int → Int` (naive wall seconds to instant:
    `tzp.localize` followed by `normalize_pytz`).
-/
import ICal.Model.PyStr
namespace ICal.Alarms

/-- a `date` or `datetime` as seen by the alarm code -/
inductive Trig where
  | aware (i : Int)
  | floating (w : Int)
  | date (d : Int)
  deriving DecidableEq, Repr, Inhabited

/-- `getattr(t, "tzinfo", None) is not None` -/
def Trig.isAware : Trig → Bool
  | .aware _ => true
  | _ => false

/-- `is_date(t)` -/
def Trig.isDate : Trig → Bool
  | .date _ => true
  | _ => false

/-- the three IncompleteAlarmInformation subclasses -/
inductive AErr where
  | componentStartMissing
  | componentEndMissing
  | localTimezoneMissing
  deriving DecidableEq, Repr

instance {ε α : Type} [DecidableEq ε] [DecidableEq α] : DecidableEq (Except ε α) := fun x y =>
  match x, y with
  | .ok a, .ok b => if h : a = b then isTrue (by rw [h]) else isFalse (fun h' => h (Except.ok.inj h'))
  | .error a, .error b => if h : a = b then isTrue (by rw [h]) else isFalse (fun h' => h (Except.error.inj h'))
  | .ok _, .error _ => isFalse (fun h => nomatch h)
  | .error _, .ok _ => isFalse (fun h => nomatch h)

/-- `tools.to_datetime` -/
def toDatetime : Trig → Trig
  | .date d => .floating (d * 86400)
  | t => t

/-- Python `dt + td`: a date only uses `td.days` (floor division), a naive datetime moves on the
    wall clock, an aware one by exact elapsed time (see the header). -/
def pyAdd : Trig → Int → Trig
  | .aware i, td => .aware (i + td)
  | .floating w, td => .floating (w + td)
  | .date d, td => .date (d + td / 86400)

/-- `Alarms._add(dt, td)`: `td.seconds == 0` is "whole days" (`td.seconds` is the non-negative remainder) -/
def add (dt : Trig) (td : Int) : Trig :=
  match dt with
  | .date _ => if td % 86400 = 0 then pyAdd dt td else pyAdd (toDatetime dt) td
  | _ => pyAdd dt td

/-! ### VALARM accessors (cal.py) -/

/-- what `Alarm.TRIGGER` returns: a timedelta or a datetime (a DATE value makes the getter raise
    InvalidCalendar and is outside the model) -/
inductive TriggerV where
  | rel (td : Int)
  | absAware (i : Int)
  | absFloating (w : Int)
  deriving DecidableEq, Repr

/-- `isinstance(trigger, date)` -/
def TriggerV.isAbs : TriggerV → Bool
  | .rel _ => false
  | _ => true

def TriggerV.toTrig : TriggerV → Trig
  | .rel td => .floating td      -- not used for relative triggers
  | .absAware i => .aware i
  | .absFloating w => .floating w

structure VAlarm where
  /-- TRIGGER (absent = `none`) -/
  trigger : Option TriggerV := none
  /-- the RELATED parameter of TRIGGER as stored -/
  related : Option (List Char) := none
  /-- `int(self.get("REPEAT", 0))` -/
  rep : Int := 0
  /-- DURATION -/
  duration : Option Int := none
  /-- ACKNOWLEDGED (UTC instant) -/
  acknowledged : Option Int := none
  deriving DecidableEq, Repr

def START : List Char := ['S', 'T', 'A', 'R', 'T']

/-- `Alarm.TRIGGER_RELATED`: "START" without a TRIGGER or without the parameter, else the parameter
    value upper-cased (`str(...).upper()`; ASCII upper-casing here, the driver answers `unmodelled`
    for a non-ASCII value). Every value other than "START" then counts as END. -/
def VAlarm.triggerRelated (a : VAlarm) : List Char :=
  match a.trigger with
  | none => START
  | some _ => upper (a.related.getD START)

/-- the loop `for _ in range(n): add.append(add[-1] + duration)` started from `[x]` -/
def cumul {α : Type} (plus : α → Int → α) (d : Int) : Nat → α → List α
  | 0, x => [x]
  | n + 1, x => x :: cumul plus d n (plus x d)

structure Triggers where
  start : List Int
  end_ : List Int
  absolute : List Trig
  deriving DecidableEq, Repr

/-- `Alarm.triggers` (cumulative addition; `range(self.REPEAT)` only when DURATION is present) -/
def VAlarm.triggers (a : VAlarm) : Triggers :=
  match a.trigger with
  | none => ⟨[], [], []⟩
  | some t =>
    let n : Nat := match a.duration with
      | some _ => a.rep.toNat
      | none => 0
    let d : Int := a.duration.getD 0
    match t with
    | .rel td =>
      if a.triggerRelated = START then ⟨cumul (· + ·) d n td, [], []⟩
      else ⟨[], cumul (· + ·) d n td, []⟩
    | abs => ⟨[], [], cumul pyAdd d n abs.toTrig⟩

/-! ### AlarmTime -/

structure AlarmTime where
  alarm : VAlarm
  /-- `_trigger` -/
  trig : Trig
  /-- `_last_ack` -/
  lastAck : Option Int := none
  /-- `_snooze_until` -/
  snooze : Option Int := none
  deriving DecidableEq, Repr

/-- the later of two optional instants -/
def optMax : Option Int → Option Int → Option Int
  | none, b => b
  | some a, none => some a
  | some a, some b => some (max a b)

/-- `AlarmTime.acknowledged` -/
def AlarmTime.acknowledged (a : AlarmTime) : Option Int :=
  optMax a.alarm.acknowledged a.lastAck

/-- `AlarmTime.trigger` (property): the snooze rule -/
def AlarmTime.trigger (a : AlarmTime) : Except AErr Trig :=
  match a.snooze with
  | none => .ok a.trig
  | some s =>
    match toDatetime a.trig with
    | .aware t => if s > t then .ok (.aware s) else .ok a.trig
    | _ => .error .localTimezoneMissing

/-- `AlarmTime.is_active()`. `if not acknowledged` is `acknowledged is None` (a datetime is never falsy). -/
def AlarmTime.isActive (a : AlarmTime) : Except AErr Bool :=
  match a.acknowledged with
  | none => .ok true
  | some ack =>
    let snoozedLater : Bool := match a.snooze with
      | some s => decide (s > ack)
      | none => false
    if snoozedLater then .ok true
    else
      match a.trigger with
      | .error e => .error e
      | .ok t =>
        match toDatetime t with
        | .aware i => .ok (decide (i > ack))
        | _ => .error .localTimezoneMissing

/-! ### Alarms -/

structure State where
  absoluteAlarms : List VAlarm := []
  startAlarms : List VAlarm := []
  endAlarms : List VAlarm := []
  start : Option Trig := none
  end_ : Option Trig := none
  lastAck : Option Int := none
  snooze : Option Int := none
  /-- `_local_tzinfo is not None` -/
  localTz : Bool := false
  deriving DecidableEq, Repr

/-- `Alarms.add_alarm` -/
def addAlarm (s : State) (a : VAlarm) : State :=
  match a.trigger with
  | none => s
  | some t =>
    if t.isAbs then { s with absoluteAlarms := s.absoluteAlarms ++ [a] }
    else if a.triggerRelated = START then { s with startAlarms := s.startAlarms ++ [a] }
    else { s with endAlarms := s.endAlarms ++ [a] }

def setStart (s : State) (dt : Option Trig) : State := { s with start := dt }
def setEnd (s : State) (dt : Option Trig) : State := { s with end_ := dt }
/-- `acknowledge_until` (the argument is already a UTC instant) -/
def acknowledgeUntil (s : State) (dt : Option Int) : State := { s with lastAck := dt }
def snoozeUntil (s : State) (dt : Option Int) : State := { s with snooze := dt }
def setLocalTimezone (s : State) (present : Bool) : State := { s with localTz := present }

/-- the parent's acknowledgement properties -/
structure Parent where
  dtstamp : Option Int := none
  /-- X-MOZ-LASTACK -/
  lastack : Option Int := none
  /-- X-MOZ-SNOOZE-TIME -/
  snoozeTime : Option Int := none
  /-- some other property whose name starts with `X-MOZ-` -/
  otherMoz : Bool := false
  deriving DecidableEq, Repr

/-- `Component.is_thunderbird()` -/
def Parent.isThunderbird (p : Parent) : Bool :=
  p.lastack.isSome || p.snoozeTime.isSome || p.otherMoz

/-- `Alarms.add_component(parent)` for an Event/Todo whose `.start`/`.end` are `start`/`end_`
    (`none` = IncompleteComponent) and whose `walk("VALARM")` is `alarms` -/
def addComponent (s : State) (p : Parent) (start end_ : Option Trig) (alarms : List VAlarm) : State :=
  let s := setEnd (setStart s start) end_
  let s := if p.isThunderbird then snoozeUntil (acknowledgeUntil s p.lastack) p.snoozeTime
           else acknowledgeUntil s p.dtstamp
  alarms.foldl addAlarm s

/-- `Alarms(component)` -/
def ofComponent (p : Parent) (start end_ : Option Trig) (alarms : List VAlarm) : State :=
  addComponent {} p start end_ alarms

/-- `Alarms._repeat(first, alarm)`: `first`, then `first + duration * i` for `i = 1..repeat`
    when `repeat` is truthy and DURATION is present -/
def repeatTimes (first : Trig) (a : VAlarm) : List Trig :=
  first :: (match a.duration with
    | some d => if a.rep ≠ 0 then (List.range' 1 a.rep.toNat).map (fun (i : Nat) => add first (d * (i : Int))) else []
    | none => [])

/-- the local-tz application of `_alarm_time` on the trigger alone:
    `if getattr(trigger, "tzinfo", None) is None and self._local_tzinfo is not None:
         trigger = normalize_pytz(tzp.localize(to_datetime(trigger), self._local_tzinfo))` -/
def applyLocal (localize : Int → Int) (localTz : Bool) (t : Trig) : Trig :=
  match t with
  | .aware i => .aware i
  | .floating w => if localTz then .aware (localize w) else t
  | .date d => if localTz then .aware (localize (d * 86400)) else t

/-- `Alarms._alarm_time` -/
def alarmTime (localize : Int → Int) (s : State) (a : VAlarm) (t : Trig) : AlarmTime :=
  { alarm := a, trig := applyLocal localize s.localTz t, lastAck := s.lastAck, snooze := s.snooze }

def absoluteTimes (localize : Int → Int) (s : State) : List AlarmTime :=
  s.absoluteAlarms.flatMap fun a =>
    match a.trigger with
    | some t => (repeatTimes t.toTrig a).map (alarmTime localize s a)
    | none => []

/-- the comprehension shared by `_get_start_alarm_times` / `_get_end_alarm_times` -/
def relativeTimes (localize : Int → Int) (s : State) (anchor : Trig) (alarms : List VAlarm) : List AlarmTime :=
  alarms.flatMap fun a =>
    match a.trigger with
    | some (.rel td) => (repeatTimes (add anchor td) a).map (alarmTime localize s a)
    | _ => []

def startTimes (localize : Int → Int) (s : State) : Except AErr (List AlarmTime) :=
  match s.start with
  | none => if s.startAlarms.isEmpty then .ok [] else .error .componentStartMissing
  | some st => .ok (relativeTimes localize s st s.startAlarms)

def endTimes (localize : Int → Int) (s : State) : Except AErr (List AlarmTime) :=
  match s.end_ with
  | none => if s.endAlarms.isEmpty then .ok [] else .error .componentEndMissing
  | some en => .ok (relativeTimes localize s en s.endAlarms)

/-- `Alarms.times`: end alarms, start alarms, absolute alarms, evaluated in that order -/
def times (localize : Int → Int) (s : State) : Except AErr (List AlarmTime) :=
  match endTimes localize s with
  | .error e => .error e
  | .ok es =>
    match startTimes localize s with
    | .error e => .error e
    | .ok ss => .ok (es ++ ss ++ absoluteTimes localize s)

/-- a list comprehension with a raising condition: stops at the first error -/
def filterE {α ε : Type} (p : α → Except ε Bool) : List α → Except ε (List α)
  | [] => .ok []
  | x :: xs =>
    match p x with
    | .error e => .error e
    | .ok b =>
      match filterE p xs with
      | .error e => .error e
      | .ok r => .ok (if b then x :: r else r)

/-- `Alarms.active` -/
def active (localize : Int → Int) (s : State) : Except AErr (List AlarmTime) :=
  match times localize s with
  | .error e => .error e
  | .ok ts => filterE AlarmTime.isActive ts

/-! ### zoneinfo: `aware + timedelta` on the wall clock

  A zoneinfo datetime is its wall fields plus the zone; its instant is `w - offW w`, where `offW w`
  is the offset the zone assigns to the wall time `w` (fold = 0). `dt + td` adds on the wall fields. -/

/-- the instant of wall time `w` -/
def instantOf (offW : Int → Int) (w : Int) : Int := w - offW w

/-- the instant of `dt + td` under zoneinfo, `dt` having wall time `w` -/
def wallAdd (offW : Int → Int) (w td : Int) : Int := instantOf offW (w + td)

/-- Europe/Berlin around 2020-03-29: +01:00 for wall times before 03:00 (fold = 0), then +02:00;
    wall times are seconds since 1970-01-01T00:00 on the wall clock -/
def berlinSpring2020 (w : Int) : Int := if w < 1585450800 then 3600 else 7200

end ICal.Alarms
