/-
  The external pieces of the regenerated `Alarms.times` (ICal/Gen/BodiesAlarm.lean, tools/py2lean.py) as the hand
  model of ICal/Model/Alarm.lean has them: an alarm component is a `VAlarm`; its TRIGGER is a datetime object for an
  absolute alarm and a timedelta (seconds) for a relative one; the local time zone is present or not (`Option Unit`)
  and `tzp.localize` followed by `normalize_pytz` is the model's `localize` on the wall seconds; an `AlarmTime(..)`
  object is the tuple of what it was given (the parent is not observed).  The pieces are given BY NAME (several parameters have one type and the generated
  order follows the first use in the source).  Shared by
  ICal/Lemmas/BodiesAlarmTimes.lean (the equality proof) and ICal/Driver/BodiesAlarmTimes.lean (the op `body_al_times`).
-/
import ICal.Gen.BodiesAlarm
namespace ICal.Bodies
open ICal ICal.PyRT ICal.Alarms ICal.Gen.BodiesAlarm

/-- what `AlarmTime(alarm, trigger, last_ack, snooze_until, parent)` keeps -/
abbrev ATup := VAlarm × Trig × Option Trig × Option Trig

/-- `alarm.TRIGGER` of an absolute alarm -/
def trigAbsP (a : VAlarm) : Trig :=
  match a.trigger with
  | some t => t.toTrig
  | none => .floating 0
/-- `alarm.TRIGGER` of a relative alarm -/
def trigRelP (a : VAlarm) : Int :=
  match a.trigger with
  | some (.rel td) => td
  | _ => 0
def localizeP (loc : Int → Int) (t : Trig) (_ : Unit) : Trig :=
  match t with
  | .floating w => .aware (loc w)
  | t => t
def mkATP (a : VAlarm) (t : Trig) (la sn : Option Trig) (_ : Unit) : ATup := (a, t, la, sn)
def awareOpt (o : Option Int) : Option Trig := o.map Trig.aware
def localTzP (s : State) : Option Unit := if s.localTz then some () else none

/-- the translated `Alarms.times` on a state of the hand model -/
def timesP (loc : Int → Int) (s : State) : Py (List ATup) :=
  Alarms_times (end_ := s.end_) (end_alarms := s.endAlarms) (start := s.start) (start_alarms := s.startAlarms)
    (absolute_alarms := s.absoluteAlarms) (alarm_trigger_rel := trigRelP) (alarm_trigger_abs := trigAbsP)
    (alarm_repeat := fun a => a.rep) (alarm_duration := fun a => a.duration) (to_datetime := toDatetime) (normalize_pytz := id)
    (local_tzinfo := localTzP s) (localize := localizeP loc) (last_ack := awareOpt s.lastAck) (snooze_until := awareOpt s.snooze)
    (parent := ()) (mk_alarm_time := mkATP)

/-! ### `Alarms.add_component` and the setters: the attributes it writes -/

/-- what `add_component` looks at of an Event / Todo: the acknowledgement properties, `.start` / `.end` (`none`: the
    property raises IncompleteComponent), `walk("VALARM")` -/
structure CompView where
  parent : Parent
  start : Option Trig
  end_ : Option Trig
  alarms : List VAlarm

/-- the attributes of an `Alarms` object that `add_component` writes: `_absolute_alarms`, `_start_alarms`, `_end_alarms`,
    `_start`, `_end`, `_last_ack`, `_snooze_until`, `_parent` -/
abbrev Fields := List VAlarm × List VAlarm × List VAlarm × Option Trig × Option Trig × Option Trig × Option Trig × Option CompView

def fieldsOf (s : State) (par : Option CompView) : Fields :=
  (s.absoluteAlarms, s.startAlarms, s.endAlarms, s.start, s.end_, awareOpt s.lastAck, awareOpt s.snooze, par)

def startP (c : CompView) : Py Trig :=
  match c.start with
  | some t => .ok t
  | none => .error .incompleteComponent
def endP (c : CompView) : Py Trig :=
  match c.end_ with
  | some t => .ok t
  | none => .error .incompleteComponent
def relatedIsStartP (a : VAlarm) : Bool := decide (a.triggerRelated = START)

/-- the translated `Alarms.add_alarm` on the three lists -/
def addAlarmP (a : VAlarm) (abs st en : List VAlarm) : List VAlarm × List VAlarm × List VAlarm :=
  Alarms_add_alarm (alarm := a) (absolute_alarms := abs) (start_alarms := st) (end_alarms := en)
    (alarm_trigger := fun a => a.trigger) (trigger_is_date := TriggerV.isAbs) (related_is_start := relatedIsStartP)

/-- the translated `Alarms.add_component` on the attributes; the model has one parent, so `self._parent is not parent`
    is false; `tzp.localize_utc` is the identity on the model's UTC instants -/
def alarmsAddComponentP (c : CompView) (f : Fields) : Py Fields :=
  Alarms_add_component (component := c) (absolute_alarms := f.1) (start_alarms := f.2.1) (end_alarms := f.2.2.1)
    (start := f.2.2.2.1) (end_ := f.2.2.2.2.1) (last_ack := f.2.2.2.2.2.1) (snooze_until_ := f.2.2.2.2.2.2.1)
    (parent_now := f.2.2.2.2.2.2.2) (is_event_or_todo := fun _ => true) (parent_differs := fun _ _ => false)
    (component_start := startP) (component_end := endP) (is_thunderbird := fun c => c.parent.isThunderbird)
    (x_moz_lastack := fun c => awareOpt c.parent.lastack) (x_moz_snooze_time := fun c => awareOpt c.parent.snoozeTime)
    (dtstamp := fun c => awareOpt c.parent.dtstamp) (localize_utc := id) (walk_valarm := fun c => c.alarms)
    (alarm_trigger := fun a => a.trigger) (trigger_is_date := TriggerV.isAbs) (related_is_start := relatedIsStartP)

/-- the translated `Alarms.times` on the attributes (and the local time zone, which `add_component` does not write) -/
def timesF (loc : Int → Int) (localTz : Bool) (f : Fields) : Py (List ATup) :=
  Alarms_times (end_ := f.2.2.2.2.1) (end_alarms := f.2.2.1) (start := f.2.2.2.1) (start_alarms := f.2.1)
    (absolute_alarms := f.1) (alarm_trigger_rel := trigRelP) (alarm_trigger_abs := trigAbsP)
    (alarm_repeat := fun a => a.rep) (alarm_duration := fun a => a.duration) (to_datetime := toDatetime) (normalize_pytz := id)
    (local_tzinfo := if localTz then some () else none) (localize := localizeP loc) (last_ack := f.2.2.2.2.2.1)
    (snooze_until := f.2.2.2.2.2.2.1) (parent := ()) (mk_alarm_time := mkATP)

end ICal.Bodies
