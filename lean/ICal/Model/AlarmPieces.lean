/-
  The external pieces of the regenerated `Alarms.times` (ICal/Gen/BodiesAlarm.lean, tools/py2lean.py) as the hand
  model of ICal/Model/Alarm.lean has them: an alarm component is a `VAlarm`; its TRIGGER is a datetime object for an
  absolute alarm and a timedelta (seconds) for a relative one; the local time zone is present or not (`Option Unit`)
  and `tzp.localize` followed by `normalize_pytz` is the model's `localize` on the wall seconds; an `AlarmTime(..)`
  object is the tuple of what it was given (the parent is not observed).  The pieces are given BY NAME (several parameters have one type and the generated
  order follows the first use in the source).  Shared by
  ICal/Lemmas/BodiesAlarmTimes.lean (the equality proof) and ICal/Driver/BodiesAlarmTimes.lean (the op `body_al_times`).
-/
import ICal.Gen.BodiesAlarm
namespace ICal.Bodies
open ICal ICal.PyRT ICal.Alarms ICal.Gen.BodiesAlarm

/-- what `AlarmTime(alarm, trigger, last_ack, snooze_until, parent)` keeps -/
abbrev ATup := VAlarm × Trig × Option Trig × Option Trig

/-- `alarm.TRIGGER` of an absolute alarm -/
def trigAbsP (a : VAlarm) : Trig :=
  match a.trigger with
  | some t => t.toTrig
  | none => .floating 0
/-- `alarm.TRIGGER` of a relative alarm -/
def trigRelP (a : VAlarm) : Int :=
  match a.trigger with
  | some (.rel td) => td
  | _ => 0
def localizeP (loc : Int → Int) (t : Trig) (_ : Unit) : Trig :=
  match t with
  | .floating w => .aware (loc w)
  | t => t
def mkATP (a : VAlarm) (t : Trig) (la sn : Option Trig) (_ : Unit) : ATup := (a, t, la, sn)
def awareOpt (o : Option Int) : Option Trig := o.map Trig.aware
def localTzP (s : State) : Option Unit := if s.localTz then some () else none

/-- the translated `Alarms.times` on a state of the hand model -/
def timesP (loc : Int → Int) (s : State) : Py (List ATup) :=
  Alarms_times (end_ := s.end_) (end_alarms := s.endAlarms) (start := s.start) (start_alarms := s.startAlarms)
    (absolute_alarms := s.absoluteAlarms) (alarm_trigger_rel := trigRelP) (alarm_trigger_abs := trigAbsP)
    (alarm_repeat := fun a => a.rep) (alarm_duration := fun a => a.duration) (to_datetime := toDatetime) (normalize_pytz := id)
    (local_tzinfo := localTzP s) (localize := localizeP loc) (last_ack := awareOpt s.lastAck) (snooze_until := awareOpt s.snooze)
    (parent := ()) (mk_alarm_time := mkATP)

end ICal.Bodies
