/-
  Model of the zoned date-time path (C11):
    timezone/tzid.py   tzid_from_tzinfo / tzid_from_dt            -> `Provider.key`, `tzidFromDt`
    timezone/tzp.py    TZP.clean_timezone_id / TZP.timezone        -> `cleanTzid`, `tzpTimezone`
                       TZP.localize / localize_utc                 -> `dtFrom`, `localizeUtc`
    prop.py            vDatetime.__init__/to_ical/from_ical        -> `vdtTzid`, `dtText`, `dtFrom`
                       vDDDTypes.__init__/to_ical/from_ical        -> `itemParams`, `itemText`, `dddFromZ`
                       vDDDLists.__init__/to_ical/from_ical        -> `listParams`, `listText`, `listFromZ`
                       vPeriod.__init__/to_ical/from_ical          -> `periodParams`, `periodFromZ`
    cal.py             Component.add (UTC forcing), create_utc_property.p_set,
                       Component.from_ical (which names hand TZID to the decoder)
                                                                   -> `addValue`, `setUtcProperty`, `passesTzid`,
                                                                      `readDdd`, `readList`, `readFreebusy`
  as the code is NOW (after the fix: commits): uniform VALUE on lists, period TZID from its start, no TZID=UTC.

  Conventions (DESIGN section 3)
    * a `datetime` is its wall-clock fields (`Wall` = `PDateTime` without the `Z` flag) plus `tzinfo`
      (`Option Z`); "is UTC" is not a flag of the value: it means `tzid_from_tzinfo(tzinfo) == "UTC"`,
      i.e. `P.key z = "UTC"`.  PEP 495 `fold` is not representable in the text and is not modelled: `off`
      is the offset of the wall time with `fold = 0` (for an *input* object: whatever `dt.utcoffset()` says).
    * the time zone library is a parameter (`Provider Z`): which ids it knows, the id of a zone object,
      the offset a zone assigns to a wall time.  Nothing about it is assumed here; the laws the theorems
      need are hypotheses (Lemmas/Zoned.lean `ProviderLaws`), checked on zoneinfo and pytz by
      harness/props/C11.py for every id of the tz database.
    * the text codec of DATE-TIME / DATE / DURATION is ICal.Model.Codec (C03); this file adds the zone.
    * `datetime - timedelta` (`astimezone(UTC)`) needs the proleptic Gregorian day count: `toDays`/`ofDays`.
      `ofSec` re-checks its own answer (`toSec (ofSec n) = n` and the fields are a valid date), so the theorems
      about instants need no trust in the closed formula; that it answers exactly on the `datetime` range (years
      1..9999) is proved in Lemmas/Civil.lean (`ofSec_isSome_iff`) and also run against CPython by correspondence.
  Import-free apart from ICal.Model.Codec / ICal.Gen.Cal: linked into the native driver.
-/
import ICal.Model.Codec
import ICal.Gen.Cal
namespace ICal.Zoned
open ICal

/-! ## wall-clock time -/

/-- the fields of a `datetime` without its `tzinfo` -/
structure Wall where
  date : PDate
  h : Nat
  mi : Nat
  s : Nat
deriving DecidableEq, Repr, Inhabited

/-- the DATE-TIME value the text codec sees: the fields and whether `Z` is written -/
def Wall.toP (w : Wall) (utc : Bool) : PDateTime := ⟨w.date, w.h, w.mi, w.s, utc⟩
def Wall.ofP (p : PDateTime) : Wall := ⟨p.date, p.h, p.mi, p.s⟩
def Wall.valid (w : Wall) : Bool := w.date.valid && validTime w.h w.mi w.s

/-- days since 0000-03-01 of a proleptic Gregorian date (`1 ≤ y`, `1 ≤ m ≤ 12`, `1 ≤ d`) -/
def toDays (y m d : Nat) : Nat :=
  let y' := if m ≤ 2 then y - 1 else y
  let era := y' / 400
  let yoe := y' % 400
  let mp := if m > 2 then m - 3 else m + 9
  let doy := (153 * mp + 2) / 5 + d - 1
  era * 146097 + (yoe * 365 + yoe / 4 - yoe / 100 + doy)

/-- the date of a day number (inverse of `toDays`) -/
def ofDays (z : Nat) : PDate :=
  let era := z / 146097
  let doe := z % 146097
  let yoe := (doe - doe / 1460 + doe / 36524 - doe / 146096) / 365
  let doy := doe - (365 * yoe + yoe / 4 - yoe / 100)
  let mp := (5 * doy + 2) / 153
  let d := doy - (153 * mp + 2) / 5 + 1
  let m := if mp < 10 then mp + 3 else mp - 9
  let y := yoe + era * 400
  ⟨if m ≤ 2 then y + 1 else y, m, d⟩

/-- seconds on the wall clock since 0000-03-01T00:00:00 -/
def toSec (w : Wall) : Int :=
  ((toDays w.date.y w.date.m w.date.d * 86400 + w.h * 3600 + w.mi * 60 + w.s : Nat) : Int)

/-- the wall time of a second count; `none` when it is not a `datetime` (year outside 1..9999:
    CPython raises OverflowError) -/
def ofSec (n : Int) : Option Wall :=
  if n < 0 then none else
  let k := n.toNat
  let r := k % 86400
  let w : Wall := ⟨ofDays (k / 86400), r / 3600, r % 3600 / 60, r % 60⟩
  if w.valid = true ∧ toSec w = n then some w else none

/-! ## the time zone provider -/

/-- what icalendar asks of the time zone library and of its own proxy `TZP` -/
structure Provider (Z : Type) where
  /-- `provider.timezone(name)`: the library's zone for exactly this name, or None -/
  zone : Str → Option Z
  /-- `tzid_from_tzinfo(tz)` (zoneinfo `.key`, pytz `.zone`, the dateutil lookup tree; `"UTC"` wins) -/
  key : Z → Str
  /-- `utcoffset()` in seconds of the wall time in that zone (fold = 0) -/
  off : Z → Wall → Int
  /-- the zone `localize_utc` attaches -/
  utc : Z
  /-- `WINDOWS_TO_OLSON.get(id)` -/
  win : Str → Option Str := fun _ => none
  /-- the proxy's cache of zones built from VTIMEZONE components, by clean id (C12) -/
  cache : Str → Option Z := fun _ => none

def UTC : Str := ['U', 'T', 'C']
def sDATE : Str := ['D', 'A', 'T', 'E']
def sTIME : Str := ['T', 'I', 'M', 'E']
def sPERIOD : Str := ['P', 'E', 'R', 'I', 'O', 'D']
def sFREEBUSY : Str := ['F', 'R', 'E', 'E', 'B', 'U', 'S', 'Y']

/-- `str.strip("/")`: `TZP.clean_timezone_id` -/
def cleanTzid (s : Str) : Str :=
  ((s.dropWhile (· == '/')).reverse.dropWhile (· == '/')).reverse

/-- `TZP.timezone(tz_id)`: the clean id, then its Windows name, then the id as written, then the
    cache of parsed VTIMEZONEs -/
def tzpTimezone {Z : Type} (P : Provider Z) (id : Str) : Option Z :=
  let c := cleanTzid id
  match P.zone c with
  | some z => some z
  | none =>
    let viaWin : Option Z := match P.win c with
      | some olson => P.zone olson
      | none => none
    match viaWin with
    | some z => some z
    | none =>
      match P.zone id with
      | some z => some z
      | none => P.cache c

/-- a `datetime`: wall fields and `tzinfo` -/
structure ZDT (Z : Type) where
  wall : Wall
  zone : Option Z
deriving DecidableEq, Repr

/-- `tzid_from_dt(dt)` (for a tzinfo object the lookup identifies; `None` for a naive value) -/
def tzidFromDt {Z : Type} (P : Provider Z) (v : ZDT Z) : Option Str := v.zone.map P.key

/-- `tzid_from_dt(dt) == "UTC"` -/
def isUtc {Z : Type} (P : Provider Z) (v : ZDT Z) : Bool := tzidFromDt P v == some UTC

/-- the instant of a value as wall seconds minus its offset (`none` for a floating time) -/
def instant {Z : Type} (P : Provider Z) (v : ZDT Z) : Option Int :=
  v.zone.map fun z => toSec v.wall - P.off z v.wall

/-! ## writing -/

/-- `vDatetime(dt).to_ical()`: the wall fields, `Z` appended iff the zone id is `UTC` -/
def dtText {Z : Type} (P : Provider Z) (v : ZDT Z) : Str := vDatetimeTo (v.wall.toP (isUtc P v))

/-- the TZID parameter `vDDDTypes.__init__` sets: `tzid is not None and tzid != 'UTC'` -/
def dddTzid {Z : Type} (P : Provider Z) (v : ZDT Z) : Option Str :=
  match tzidFromDt P v with
  | some k => if k = UTC then none else some k
  | none => none

/-- the TZID parameter `vDatetime.__init__` and `vPeriod.__init__` set: `tzid and tzid != 'UTC'`
    (an empty id is dropped as well) -/
def vdtTzid {Z : Type} (P : Provider Z) (v : ZDT Z) : Option Str :=
  match tzidFromDt P v with
  | some k => if k = UTC ∨ k = [] then none else some k
  | none => none

/-- `dtToIcal`: text and TZID parameter of `vDatetime(dt)` -/
def dtToIcal {Z : Type} (P : Provider Z) (v : ZDT Z) : Str × Option Str := (dtText P v, vdtTzid P v)

/-- what a date/time property value holds besides a period -/
inductive Val (Z : Type) where
  | dt (v : ZDT Z)
  | date (d : PDate)
  | dur (s : Int)
  | time (t : PTime)
deriving DecidableEq, Repr

/-- a value of vDDDTypes: scalar or `(start, end_or_duration)` -/
inductive Item (Z : Type) where
  | val (v : Val Z)
  | period (a b : Val Z)
deriving DecidableEq, Repr

/-- the two parameters the constructors derive: VALUE and TZID -/
structure DParams where
  value : Option Str
  tzid : Option Str
deriving DecidableEq, Repr

def valText {Z : Type} (P : Provider Z) : Val Z → Str
  | .dt v => dtText P v
  | .date d => vDateTo d
  | .dur s => durTo s
  | .time t => vTimeTo t

/-- `vDDDTypes(x).to_ical()`; a period is `vPeriod(x).to_ical()`: start and end each written with their
    own wall fields -/
def itemText {Z : Type} (P : Provider Z) : Item Z → Str
  | .val v => valText P v
  | .period a b => valText P a ++ '/' :: valText P b

/-- `vDDDTypes.__init__`: VALUE by kind; TZID of a date-time, for a period that of its start -/
def itemParams {Z : Type} (P : Provider Z) : Item Z → DParams
  | .val (.dt v) => ⟨none, dddTzid P v⟩
  | .val (.date _) => ⟨some sDATE, none⟩
  | .val (.dur _) => ⟨none, none⟩
  | .val (.time _) => ⟨some sTIME, none⟩
  | .period (.dt v) _ => ⟨some sPERIOD, dddTzid P v⟩
  | .period _ _ => ⟨some sPERIOD, none⟩

/-- `vPeriod.__init__` (FREEBUSY): VALUE=PERIOD, TZID of the start unless UTC -/
def periodParams {Z : Type} (P : Provider Z) : Item Z → DParams
  | .period (.dt v) _ => ⟨some sPERIOD, vdtTzid P v⟩
  | _ => ⟨some sPERIOD, none⟩

/-- the loop of `vDDDLists.__init__`: the TZID of the LAST item that has one -/
def lastTzid : List DParams → Option Str → Option Str
  | [], acc => acc
  | p :: ps, acc => lastTzid ps (match p.tzid with | some t => some t | none => acc)

/-- `values = {dt.params.get('VALUE') ...}; len(values) == 1 and None not in values` -/
def uniformValue : List DParams → Option Str
  | [] => none
  | p :: ps => if ps.all (fun q => q.value == p.value) then p.value else none

/-- `vDDDLists.__init__`: one VALUE when all items agree, one TZID: the last one (`if tzid:`) -/
def listParams {Z : Type} (P : Provider Z) (items : List (Item Z)) : DParams :=
  let ps := items.map (itemParams P)
  ⟨uniformValue ps, match lastTzid ps none with
    | some t => if t = [] then none else some t
    | none => none⟩

/-- `vDDDLists.to_ical()` -/
def listText {Z : Type} (P : Provider Z) (items : List (Item Z)) : Str :=
  joinWith [','] (items.map (itemText P))

/-- a property value as it stands in a content line: derived parameters and value text -/
structure Line where
  params : DParams
  text : Str
deriving DecidableEq, Repr

/-- `Component.add(name, value)` for a vDDDTypes property (DTSTART, DTEND, DUE, RECURRENCE-ID, DTSTAMP,
    TRIGGER, ...) -/
def dddLine {Z : Type} (P : Provider Z) (it : Item Z) : Line := ⟨itemParams P it, itemText P it⟩
/-- RDATE / EXDATE -/
def listLine {Z : Type} (P : Provider Z) (items : List (Item Z)) : Line := ⟨listParams P items, listText P items⟩
/-- FREEBUSY with one period -/
def periodLine {Z : Type} (P : Provider Z) (it : Item Z) : Line := ⟨periodParams P it, itemText P it⟩

/-! ## reading -/

/-- `vDatetime.from_ical(text, timezone)` once `timezone` is resolved to `tz`:
    zone found: the six fields, localized (whatever follows them is not looked at);
    otherwise `Z` gives UTC, nothing gives a floating time, anything else is refused -/
def dtFrom {Z : Type} (P : Provider Z) (tz : Option Z) (t : Str) : CRes (ZDT Z) :=
  match tz with
  | some z =>
    match vDatetimeFrom (t.take 15) with
    | .ok p => .ok ⟨Wall.ofP p, some z⟩
    | .error e => .error e
  | none =>
    match vDatetimeFrom t with
    | .ok p => .ok ⟨Wall.ofP p, if p.utc then some P.utc else none⟩
    | .error e => .error e

/-- `dtFromIcal text tzid?`: `vDatetime.from_ical(text, tzid)` -/
def dtFromIcal {Z : Type} (P : Provider Z) (t : Str) (tzid : Option Str) : CRes (ZDT Z) :=
  dtFrom P (tzid.bind (tzpTimezone P)) t

/-- the body of `vDDDTypes.from_ical(t, timezone)`, period decoder as parameter (as Codec.dddCore) -/
def dddCoreZ {Z : Type} (P : Provider Z) (per : Str → CRes (Item Z)) (tz : Option Z) (t : Str) : CRes (Item Z) :=
  let u := upper t
  if startsWith u ['P'] || startsWith u ['-', 'P'] || startsWith u ['+', 'P'] then
    match durFromE t with
    | .ok s => .ok (.val (.dur s))
    | .error e => .error e
  else if u.contains '/' then per t
  else if t.length = 15 ∨ t.length = 16 then
    match dtFrom P tz t with
    | .ok v => .ok (.val (.dt v))
    | .error e => .error e
  else if t.length = 8 then
    match vDateFrom t with
    | .ok d => .ok (.val (.date d))
    | .error e => .error e
  else if t.length = 6 ∨ t.length = 7 then
    match vTimeFrom t with
    | .ok x => .ok (.val (.time x))
    | .error e => .error e
  else .error .valueError

/-- `vPeriod.from_ical(t, timezone)`: both parts with the same zone -/
def periodFromZ {Z : Type} (P : Provider Z) (tz : Option Z) (t : Str) : CRes (Item Z) :=
  match splitOnChar '/' t with
  | [a, b] =>
    match dddCoreZ P (fun _ => .error .valueError) tz a, dddCoreZ P (fun _ => .error .valueError) tz b with
    | .ok (.val x), .ok (.val y) => .ok (.period x y)
    | _, _ => .error .valueError
  | _ => .error .valueError

/-- `vDDDTypes.from_ical(t, timezone)` -/
def dddFromZ {Z : Type} (P : Provider Z) (tz : Option Z) (t : Str) : CRes (Item Z) :=
  dddCoreZ P (periodFromZ P tz) tz t

/-- a list comprehension over a raising function -/
def mapE {α β : Type} (f : α → CRes β) : List α → CRes (List β)
  | [] => .ok []
  | x :: xs =>
    match f x with
    | .error e => .error e
    | .ok v =>
      match mapE f xs with
      | .error e => .error e
      | .ok vs => .ok (v :: vs)

/-- `vDDDLists.from_ical(t, timezone)`: every item with the same zone -/
def listFromZ {Z : Type} (P : Provider Z) (tz : Option Z) (t : Str) : CRes (List (Item Z)) :=
  mapE (dddFromZ P tz) (splitOnChar ',' t)

/-- `uname in datetime_names` or FREEBUSY: the names whose TZID parameter `Component.from_ical`
    hands to the decoder (table generated from cal.py) -/
def passesTzid (uname : Str) : Bool := Gen.datetimeNames.contains uname || uname == sFREEBUSY

/-- the zone `Component.from_ical` decodes a property value with -/
def readZone {Z : Type} (P : Provider Z) (uname : Str) (ln : Line) : Option Z :=
  if passesTzid uname then ln.params.tzid.bind (tzpTimezone P) else none

/-- `Component.from_ical` on a vDDDTypes property -/
def readDdd {Z : Type} (P : Provider Z) (uname : Str) (ln : Line) : CRes (Item Z) :=
  dddFromZ P (readZone P uname ln) ln.text
/-- ... on RDATE / EXDATE -/
def readList {Z : Type} (P : Provider Z) (uname : Str) (ln : Line) : CRes (List (Item Z)) :=
  listFromZ P (readZone P uname ln) ln.text
/-- the checks of `vPeriod.__init__` that need no clock: a date-time start with a date-time end of the same
    awareness (naive with aware is a TypeError, turned into ValueError) or with a non-negative duration; a
    date start with a date end or a non-negative whole number of days is accepted too.  The comparison
    `start > end` of two date-times is NOT modelled (it needs the offsets, and zoneinfo compares the wall
    clocks of values that share a tzinfo object); the driver answers `unmodelled` where it could matter. -/
def periodKindOk {Z : Type} : Item Z → Bool
  | .period (.dt a) (.dt b) => a.zone.isSome == b.zone.isSome
  | .period (.dt _) (.dur s) => decide (0 ≤ s)
  | .period (.date _) (.date _) => true
  | .period (.date _) (.dur s) => decide (0 ≤ s)
  | _ => false

/-- ... on FREEBUSY: split on `,`, each part through `vPeriod.from_ical`, then `vPeriod(...)` again -/
def readFreebusy {Z : Type} (P : Provider Z) (ln : Line) : CRes (List (Item Z)) :=
  mapE (fun t =>
    match periodFromZ P (readZone P sFREEBUSY ln) t with
    | .ok it => if periodKindOk it then .ok it else .error .valueError
    | .error e => .error e) (splitOnChar ',' ln.text)

/-! ## properties the RFC wants in UTC -/

/-- `tzp.localize_utc(dt)`: a naive value is declared UTC, an aware one converted (`astimezone`):
    same instant, wall = wall − offset; `none` = OverflowError (outside years 1..9999) -/
def localizeUtc {Z : Type} (P : Provider Z) (v : ZDT Z) : Option (ZDT Z) :=
  match v.zone with
  | none => some ⟨v.wall, some P.utc⟩
  | some z =>
    match ofSec (toSec v.wall - P.off z v.wall) with
    | some w => some ⟨w, some P.utc⟩
    | none => none

/-- `name.lower() in ('dtstamp', 'created', 'last-modified')` (tuple generated from cal.py) -/
def forcedUtcName (name : Str) : Bool := Gen.addUtcNames.contains (lower name)

/-- `addForcedUtc`: the value `Component.add(name, dt)` stores -/
def addValue {Z : Type} (P : Provider Z) (name : Str) (v : ZDT Z) : Option (ZDT Z) :=
  if forcedUtcName name then localizeUtc P v else some v

/-- the setter made by `create_utc_property` (DTSTAMP, LAST_MODIFIED, ACKNOWLEDGED, X_MOZ_*) -/
def setUtcProperty {Z : Type} (P : Provider Z) (v : ZDT Z) : Option (ZDT Z) := localizeUtc P v

/-- the line `Component.add(name, dt)` produces for a date-time -/
def addLine {Z : Type} (P : Provider Z) (name : Str) (v : ZDT Z) : Option Line :=
  (addValue P name v).map fun x => dddLine P (.val (.dt x))

/-! ## a concrete two-zone provider (witnesses, non-vacuity, driver self-test) -/

inductive Z3 where
  | utc | berlin | newYork
deriving DecidableEq, Repr

def Z3.name : Z3 → Str
  | .utc => UTC
  | .berlin => "Europe/Berlin".toList
  | .newYork => "America/New_York".toList

/-- winter offsets only (enough for the witnesses): Berlin +01:00, New York −05:00 -/
def demo : Provider Z3 where
  zone k := if k = Z3.utc.name then some .utc else if k = Z3.berlin.name then some .berlin
            else if k = Z3.newYork.name then some .newYork else none
  key := Z3.name
  off z _ := match z with
    | .utc => 0
    | .berlin => 3600
    | .newYork => -18000
  utc := .utc
  win k := if k = "W. Europe Standard Time".toList then some Z3.berlin.name else none

end ICal.Zoned
