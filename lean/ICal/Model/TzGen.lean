/-
  Model of `Timezone.from_tzinfo` in src/icalendar/cal.py (C13).
  The source zone is seen on the algorithm's own clock `x : Int` (seconds):
    pytz      - `normalize(end + d)` is absolute arithmetic: the clock is UTC,
                the wall time written into DTSTART/RDATE is `x + off x`;
    zoneinfo  - `end + d` is wall-clock arithmetic with fold = 0: the clock is the wall clock,
                the wall time written is `x` itself.
  `info x` = (utcoffset, dst() == 0, tzname) of the zone at clock value `x`.
  The RFC 5545 reading of the generated component is `ICal.Tz.specAt` on `toObs`.
-/
import ICal.Model.Tz
import ICal.Gen.Cal
namespace ICal.TzGen
open ICal.Tz (Obs)

/-- `Timezone._from_tzinfo_skip_search` in seconds: the *generated* list (regenerated from cal.py on
    every run; also compared with the live attribute by the correspondence run) -/
def skipSearch : List Int := Gen.skipSearch.map Int.ofNat

/-- the coarsest step (64 days in the current source) -/
def maxStep : Int := Int.ofNat (Gen.skipSearch.foldl Nat.max 0)

structure Info where
  off : Int
  isStd : Bool
  name : Str
deriving Repr, DecidableEq

/-- a row of the source zone's table: from clock value `pos` on, `info` holds -/
structure Row where
  pos : Int
  info : Info
deriving Repr, DecidableEq

/-- the table read at `x`: the last row with `pos ≤ x` (rows ascending), else the initial info -/
def infoAt : Info → List Row → Int → Info
  | cur, [], _ => cur
  | cur, r :: rs, x => if r.pos ≤ x then infoAt r.info rs x else cur

structure Zone where
  init : Info
  rows : List Row
  /-- zoneinfo: the clock is the wall clock; pytz: the clock is UTC -/
  wallIsClock : Bool
deriving Repr

def Zone.info (Z : Zone) (x : Int) : Info := infoAt Z.init Z.rows x
def Zone.wall (Z : Zone) (x : Int) : Int := if Z.wallIsClock then x else x + (Z.info x).off

/-- result of one `for add_offset in ...` round -/
inductive Pass where
  | ok (e : Int)      -- retracted to the last probe that still had the offset
  | brk (e : Int)     -- `end + add_offset` overflowed inside the `while`: `break`, no retract
  | raise             -- the first `end + add_offset` of a round overflowed outside the `try`
deriving Repr, DecidableEq

/-- the inner `while end.utcoffset() == offset_to`: `e` = `last_end`, `p` = `end` (the probe).
    `H` is the last clock value a datetime can hold (year 9999). -/
def loop (off : Int → Int) (o d H : Int) : Nat → Int → Int → Pass
  | 0, e, _ => .ok e
  | n + 1, e, p =>
    if off p = o then
      if p + d > H then .brk p else loop off o d H n p (p + d)
    else .ok e

/-- one round with step `d` -/
def pass (off : Int → Int) (o d H : Int) (e : Int) : Pass :=
  if e + d > H then .raise else loop off o d H ((H - e).toNat + 1) e (e + d)

/-- all rounds, coarse to fine -/
def search (off : Int → Int) (o H : Int) : List Int → Int → Pass
  | [], e => .ok e
  | d :: ds, e =>
    match pass off o d H e with
    | .ok e' => search off o H ds e'
    | r => r

/-- one iteration of the outer `while start < last_datetime` contributes one of these -/
structure Seg where
  offFrom : Option Int
  offTo : Int
  name : Str
  isStd : Bool
  start : Int
  wall : Int
deriving Repr, DecidableEq

/-- the outer loop; `none` = OverflowError escapes -/
def outer (info : Int → Info) (wallOf : Int → Int) (steps : List Int) (H last : Int) :
    Nat → Int → Option Int → Option (List Seg)
  | 0, _, _ => some []
  | n + 1, start, prev =>
    if start < last then
      let i := info start
      let seg : Seg := ⟨prev, i.off, i.name, i.isStd, start, wallOf start⟩
      match search (fun x => (info x).off) i.off H steps start with
      | .raise => none
      | .ok e => (outer info wallOf steps H last n (e + 1) (some i.off)).map (seg :: ·)
      | .brk e => (outer info wallOf steps H last n (e + 1) (some i.off)).map (seg :: ·)
    else some []

/-- key of the `offsets` dict -/
structure Key where
  offFrom : Option Int
  offTo : Int
  name : Str
  isStd : Bool
deriving Repr, DecidableEq

def Seg.key (s : Seg) : Key := ⟨s.offFrom, s.offTo, s.name, s.isStd⟩

/-- `offsets[key].append(start)`; a dict keeps the order of first insertion -/
def addSeg : List (Key × List Int) → Key → Int → List (Key × List Int)
  | [], k, w => [(k, [w])]
  | (k', ws) :: r, k, w => if k' = k then (k', ws ++ [w]) :: r else (k', ws) :: addSeg r k w

def group (segs : List Seg) : List (Key × List Int) :=
  segs.foldl (fun g s => addSeg g s.key s.wall) []

def listMin : Int → List Int → Int
  | m, [] => m
  | m, x :: xs => listMin (if x < m then x else m) xs

/-- a generated STANDARD / DAYLIGHT sub-component -/
structure GenObs where
  isStd : Bool
  offFrom : Int
  offTo : Int
  name : Str
  dtstart : Int
  rdates : List Int
deriving Repr, DecidableEq

/-- the emission loop body; `lastWall` = midnight of `last_date` as naive seconds
    (`if first_start.date() == last_date`) -/
def emit (lastWall : Int) (g : Key × List Int) : GenObs :=
  match g.2 with
  | [] => ⟨g.1.isStd, g.1.offFrom.getD g.1.offTo, g.1.offTo, g.1.name, 0, []⟩   -- never: groups are non-empty
  | w :: ws =>
    let first := listMin w ws
    let rest := (w :: ws).erase first
    let first' := if lastWall ≤ first ∧ first < lastWall + 86400 then lastWall else first
    ⟨g.1.isStd, g.1.offFrom.getD g.1.offTo, g.1.offTo, g.1.name, first', rest⟩

/-- `Timezone.from_tzinfo` on an abstract zone -/
def fromInfo (info : Int → Info) (wallOf : Int → Int) (H first last lastWall : Int) : Option (List GenObs) :=
  (outer info wallOf skipSearch H last ((last - first).toNat + 1) first none).map
    fun segs => (group segs).map (emit lastWall)

/-- `Timezone.from_tzinfo(zone, first_date, last_date)` with the window given on the zone's clock -/
def fromTzinfo (Z : Zone) (H first last lastWall : Int) : Option (List GenObs) :=
  fromInfo Z.info Z.wall H first last lastWall

/-- the generated sub-component read as an RFC 5545 observance -/
def toObs (g : GenObs) : Obs := ⟨!g.isStd, g.name, g.offFrom, g.offTo, g.dtstart :: g.rdates⟩

/-! ## applicability check on a table (decided by the driver for every real zone) -/

/-- the rows of a table are strictly ascending -/
def sortedRows : List Row → Bool
  | [] => true
  | [_] => true
  | a :: b :: r => a.pos < b.pos && sortedRows (b :: r)

def persists (rows : List Row) (o : Int) (upto : Int) : Bool :=
  rows.all fun r => !(r.pos < upto) || r.info.off != o

def chainGo (first last : Int) : Info → List Row → Bool
  | _, [] => true
  | prev, r :: rs =>
    if r.pos ≤ first then chainGo first last r.info rs
    else if last ≤ r.pos then true           -- not reached: the loop stops once start ≥ last
    else if r.info = prev then chainGo first last prev rs   -- a row that changes nothing
    else (r.info.off != prev.off) && persists rs prev.off (r.pos + maxStep) && chainGo first last r.info rs

/-- every change of the info (offset, name or dst flag) after `first` and before `last` is an
    offset change, and the old offset does not come back within the coarsest step `maxStep` -/
def chainOK (init : Info) (rows : List Row) (first last : Int) : Bool := chainGo first last init rows

end ICal.TzGen
