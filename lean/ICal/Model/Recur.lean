/-
  Model of `vRecur` in src/icalendar/prop.py (C19): `__init__`, `to_ical`, `parse_type`, `from_ical`,
  the part types it dispatches to (vInt vMonth vWeekday vFrequency vDDDTypes vSkip vText), and - the
  spec side - a recogniser of the RECUR grammar of RFC 5545 section 3.3.10 extended by RFC 7529.

  A rule is the state of the `vRecur` dictionary: an insertion-ordered association list of
  (upper-cased key, list of typed part values).  A scalar value is identified with the one-element
  list (`to_ical` wraps scalars; `__init__` wraps keyword scalars).

  Reused, not duplicated:
    * the part codecs `intTo/intFrom`, `vMonthTo/vMonthFrom`, `vWeekdayNew/vWeekdayFrom/vWeekdayTo`,
      `freqTo/freqFrom`, `atomTo/vPeriodTo/dddFrom` of ICal.Model.Codec (C03);
    * `escapeChar/unescapeChar` of ICal.Model.Text (C07) for `vText` and `vSkip`;
    * `CaselessDict` (`cdInit`, `cdSetitem`, `cdSortedItems`, `canonsort`) of ICal.Model.CDict (C17);
    * the generated tables `Gen.recurCanonicalOrder`, `Gen.recurTypes` (regenerated from prop.py on
      every run).
  Hand-written and tied by correspondence only: the three `vSkip` members (an `Enum` body, not a
  table the translator reads), and the control flow below.

  Conventions: `str.upper()` is ASCII here (the driver answers `unmodelled` for a non-ASCII key or a
  non-ASCII value of a typed part); every exception that leaves `from_ical` is a ValueError (the
  code re-raises ValueError and converts everything else).
-/
import ICal.Model.PyStr
import ICal.Model.Codec
import ICal.Model.CDict
import ICal.Model.Text
import ICal.Gen.Prop
namespace ICal

/-- a typed rule-part value, as `parse_type` produces it / as the caller supplies it -/
inductive PartVal where
  | int (z : Int)                    -- vInt / a Python int
  | month (n : Int) (leap : Bool)    -- vMonth (RFC 7529 leap suffix)
  | weekday (t : Str)                -- vWeekday: the string itself (`relative`, `weekday` derive from it)
  | freq (t : Str)                   -- vFrequency: the string itself
  | until (d : DDD)                  -- what vDDDTypes wraps: date, date-time (floating / UTC), ...
  | skip (t : Str)                   -- vSkip member, by value
  | text (s : Str)                   -- vText (unknown keys, RSCALE)
deriving DecidableEq, Repr, Inhabited

/-- the classes `vRecur.types` may name -/
inductive PType where
  | int | month | weekday | freq | ddd | skip | text
deriving DecidableEq, Repr, Inhabited

abbrev Rule := CDict.Store (List PartVal)

/-- class name in the generated table -> part type; the names are checked to be exactly these by
    `Recur.types_known` (a new class in the table breaks that proof, not the model silently) -/
def ptypeOfName (n : Str) : PType :=
  if n = ['v', 'I', 'n', 't'] then .int
  else if n = ['v', 'M', 'o', 'n', 't', 'h'] then .month
  else if n = ['v', 'W', 'e', 'e', 'k', 'd', 'a', 'y'] then .weekday
  else if n = ['v', 'F', 'r', 'e', 'q', 'u', 'e', 'n', 'c', 'y'] then .freq
  else if n = ['v', 'D', 'D', 'D', 'T', 'y', 'p', 'e', 's'] then .ddd
  else if n = ['v', 'S', 'k', 'i', 'p'] then .skip
  else .text

/-- `vRecur.types = CaselessDict({...})` -/
def recurTypesTable : CDict.Store Str := CDict.cdInit upper Gen.recurTypes

/-- `cls.types.get(key, vText)` : caseless lookup, default vText -/
def recurTypeOf (k : Str) : PType :=
  match CDict.odGet recurTypesTable (upper k) with
  | some n => ptypeOfName n
  | none => .text

/-- the members of `class vSkip(vText, Enum)`, by value -/
def skipValues : List Str :=
  [['O', 'M', 'I', 'T'], ['F', 'O', 'R', 'W', 'A', 'R', 'D'], ['B', 'A', 'C', 'K', 'W', 'A', 'R', 'D']]

/-- `vDDDTypes(x).to_ical()` -/
def dddTo : DDD → Str
  | .atom a => atomTo a
  | .period a b => vPeriodTo a b

/-- the value has the Python type the part class expects (anything else is outside the model; the
    driver answers `unmodelled`) -/
def kindOk : PType → PartVal → Bool
  | .int, .int _ => true
  | .month, .month _ _ => true
  | .weekday, .weekday _ => true
  | .freq, .freq _ => true
  | .ddd, .until _ => true
  | .skip, .skip _ => true
  | .text, .text _ => true
  | _, _ => false

/-- `typ(val).to_ical()` as text.
    vInt: `str(int)`; vMonth: `f"{n}{'L' if leap}"`; vWeekday: the constructor validates
    (WEEKDAY_RULE + table), `to_ical` upper-cases; vFrequency: caseless membership, upper-cased;
    vDDDTypes: by the type of the wrapped value; vSkip: enum lookup by value, then vText.to_ical;
    vText: `escape_char`. -/
def partTo : PType → PartVal → CRes Str
  | .int, .int z => .ok (intTo z)
  | .month, .month n l => .ok (vMonthTo n l)
  | .weekday, .weekday t => (vWeekdayNew t).map vWeekdayTo
  | .freq, .freq t => if frequencies.contains (upper t) then .ok (freqTo t) else .error .valueError
  | .ddd, .until d => .ok (dddTo d)
  | .skip, .skip t => if skipValues.contains t then .ok (escapeChar t) else .error .valueError
  | .text, .text s => .ok (escapeChar s)
  | _, _ => .error .valueError

/-- `[f(x) for x in xs]` where `f` may raise: the first exception wins -/
def mapRes {α β : Type} (f : α → CRes β) : List α → CRes (List β)
  | [] => .ok []
  | a :: as =>
    match f a with
    | .error e => .error e
    | .ok b =>
      match mapRes f as with
      | .error e => .error e
      | .ok bs => .ok (b :: bs)

/-- one iteration of the loop of `to_ical`: `key + b'=' + b','.join(typ(val).to_ical() for val in vals)` -/
def pairTo (k : Str) (vals : List PartVal) : CRes Str :=
  (mapRes (partTo (recurTypeOf k)) vals).map (fun ts => k ++ '=' :: joinWith [','] ts)

/-- `self.sorted_items()` with `canonical_order` of the class -/
def recurItems (r : Rule) : List (Str × List PartVal) :=
  CDict.cdSortedItems upper r Gen.recurCanonicalOrder

/-- `vRecur.to_ical()` as text -/
def recurTo (r : Rule) : CRes Str :=
  (mapRes (fun kv => pairTo kv.1 kv.2) (recurItems r)).map (joinWith [';'])

/-- `vRecur(mapping, **kwargs)` : the items in the order given (scalars already wrapped) through
    `CaselessDict.__init__` -/
def recurNew (items : List (Str × List PartVal)) : Rule := CDict.cdInit upper items

/-- `parser.from_ical(v)` for the class of the key -/
def partFrom : PType → Str → CRes PartVal
  | .int, t => (intFrom t).map .int
  | .month, t => (vMonthFrom t).map (fun p => .month p.1 p.2)
  | .weekday, t => (vWeekdayFrom t).map (fun w => .weekday w.text)
  | .freq, t => (freqFrom t).map .freq
  | .ddd, t => (dddFrom t).map .until
  | .skip, t =>
    let u := unescapeChar t
    if skipValues.contains u then .ok (.skip u) else .error .valueError
  | .text, t => .ok (.text (unescapeChar t))

/-- `vRecur.parse_type(key, values)` : `[parser.from_ical(v) for v in values.split(',')]` -/
def parseType (k v : Str) : CRes (List PartVal) :=
  mapRes (partFrom (recurTypeOf k)) (splitOnChar ',' v)

/-- the loop of `from_ical` over `ical.split(';')`: a pair that does not split into exactly two
    parts on `=` is SKIPPED; `recur[key] = ...` folds the key and overwrites a repeated key in place;
    any exception ends as ValueError -/
def recurFromGo : List Str → Rule → CRes Rule
  | [], m => .ok m
  | p :: ps, m =>
    match splitOnChar '=' p with
    | [k, v] =>
      match parseType k v with
      | .ok vs => recurFromGo ps (CDict.cdSetitem upper m k vs)
      | .error _ => .error .valueError
    | _ => recurFromGo ps m

/-- `vRecur.from_ical(text)` : the loop, then `cls(recur)` -/
def recurFrom (t : Str) : CRes Rule :=
  (recurFromGo (splitOnChar ';' t) []).map (CDict.cdInit upper)

/-- keys in the order `to_ical` writes them, values unchanged -/
def recurCanon (r : Rule) : Rule := recurItems r

/-- what a part class makes of a caller's value: vFrequency and vWeekday upper-case on output, so the
    decoded value is the upper-cased one; every other kind is kept -/
def normVal : PartVal → PartVal
  | .weekday t => .weekday (upper t)
  | .freq t => .freq (upper t)
  | v => v

def normRule (r : Rule) : Rule := r.map (fun kv => (kv.1, kv.2.map normVal))

/-! ## The spec side: RECUR grammar, RFC 5545 section 3.3.10 with the RFC 7529 parts

  recur           = recur-rule-part *( ";" recur-rule-part )
                    ; FREQ is REQUIRED; no part more than once; UNTIL and COUNT not both
  recur-rule-part = ( "FREQ" "=" freq ) / ( "UNTIL" "=" enddate ) / ( "COUNT" "=" 1*DIGIT )
                  / ( "INTERVAL" "=" 1*DIGIT ) / ( "BYSECOND" "=" byseclist ) / ... / ( "WKST" "=" weekday )
                  / ( "RSCALE" "=" rscale ) / ( "SKIP" "=" skip )          ; RFC 7529
  Written from the RFCs, independently of the codec above (shared: `splitOnChar`, `isDigit`,
  `ofDigits` and the value recognisers of ICal.Model.Codec, themselves written from the RFC).
  The recogniser accepts the upper-case spelling of names and enumerated values only (ABNF literals
  are case-insensitive): it is sound for "the encoded text is in the grammar", which is the claim.
-/

/-- `[plus / minus] 1*<k>DIGIT` with the value between `lo` and `hi` (`signed = false`: no sign allowed;
    a sign character then fails the digit test) -/
def rfcOrd (signed : Bool) (maxDigits lo hi : Nat) (t : Str) : Bool :=
  let b := if signed && (t.head? == some '+' || t.head? == some '-') then t.tail else t
  isDigitStr b && decide (b.length ≤ maxDigits) && decide (lo ≤ ofDigits b) && decide (ofDigits b ≤ hi)

/-- `enddate = date / date-time` -/
def rfcEnddate (t : Str) : Bool := dateText t || dateTimeText t

/-- `weekday` without ordinal (WKST) -/
def rfcWeekdayOnly (t : Str) : Bool := weekDays.contains t

/-- `iana-token = 1*(ALPHA / DIGIT / "-")` (RSCALE value) -/
def rfcIanaToken (t : Str) : Bool :=
  !t.isEmpty && t.all (fun c => isDigit c || ('a' ≤ c && c ≤ 'z') || ('A' ≤ c && c ≤ 'Z') || c == '-')

/-- `skip = "OMIT" / "BACKWARD" / "FORWARD"` -/
def rfcSkip (t : Str) : Bool :=
  t = ['O', 'M', 'I', 'T'] || t = ['B', 'A', 'C', 'K', 'W', 'A', 'R', 'D'] || t = ['F', 'O', 'R', 'W', 'A', 'R', 'D']

/-- rule-part name -> (a comma-separated list is allowed, recogniser of one element) -/
def rfcPartSpec (n : Str) : Option (Bool × (Str → Bool)) :=
  if n = ['F', 'R', 'E', 'Q'] then some (false, freqText)
  else if n = ['U', 'N', 'T', 'I', 'L'] then some (false, rfcEnddate)
  else if n = ['C', 'O', 'U', 'N', 'T'] then some (false, isDigitStr)
  else if n = ['I', 'N', 'T', 'E', 'R', 'V', 'A', 'L'] then some (false, isDigitStr)
  else if n = ['B', 'Y', 'S', 'E', 'C', 'O', 'N', 'D'] then some (true, rfcOrd false 2 0 60)
  else if n = ['B', 'Y', 'M', 'I', 'N', 'U', 'T', 'E'] then some (true, rfcOrd false 2 0 59)
  else if n = ['B', 'Y', 'H', 'O', 'U', 'R'] then some (true, rfcOrd false 2 0 23)
  else if n = ['B', 'Y', 'D', 'A', 'Y'] then some (true, weekdayText)
  else if n = ['B', 'Y', 'M', 'O', 'N', 'T', 'H', 'D', 'A', 'Y'] then some (true, rfcOrd true 2 1 31)
  else if n = ['B', 'Y', 'Y', 'E', 'A', 'R', 'D', 'A', 'Y'] then some (true, rfcOrd true 3 1 366)
  else if n = ['B', 'Y', 'W', 'E', 'E', 'K', 'N', 'O'] then some (true, rfcOrd true 2 1 53)
  else if n = ['B', 'Y', 'M', 'O', 'N', 'T', 'H'] then some (true, monthText)
  else if n = ['B', 'Y', 'S', 'E', 'T', 'P', 'O', 'S'] then some (true, rfcOrd true 3 1 366)
  else if n = ['W', 'K', 'S', 'T'] then some (false, rfcWeekdayOnly)
  else if n = ['R', 'S', 'C', 'A', 'L', 'E'] then some (false, rfcIanaToken)
  else if n = ['S', 'K', 'I', 'P'] then some (false, rfcSkip)
  else none

/-- one `recur-rule-part`: its name, if the text is `NAME "=" value *("," value)` of that name -/
def rfcRecurPart (p : Str) : Option Str :=
  match splitOnChar '=' p with
  | [n, v] =>
    match rfcPartSpec n with
    | some (isList, g) =>
      let vs := splitOnChar ',' v
      if (isList || vs.length == 1) && vs.all g then some n else none
    | none => none
  | _ => none

def mapOpt {α β : Type} (f : α → Option β) : List α → Option (List β)
  | [] => some []
  | a :: as =>
    match f a with
    | none => none
    | some b =>
      match mapOpt f as with
      | none => none
      | some bs => some (b :: bs)

/-- the names of the parts of a RECUR text, in order; `none` if some part is not a rule part -/
def rfcRecurNames (t : Str) : Option (List Str) := mapOpt rfcRecurPart (splitOnChar ';' t)

def nodupB : List Str → Bool
  | [] => true
  | a :: as => !as.contains a && nodupB as

/-- the side conditions on the set of names: FREQ required, nothing twice, UNTIL and COUNT not both,
    SKIP only together with RSCALE (RFC 7529 section 4.2) -/
def rfcNamesOk (ns : List Str) : Bool :=
  nodupB ns && ns.contains ['F', 'R', 'E', 'Q'] &&
  !(ns.contains ['U', 'N', 'T', 'I', 'L'] && ns.contains ['C', 'O', 'U', 'N', 'T']) &&
  (!ns.contains ['S', 'K', 'I', 'P'] || ns.contains ['R', 'S', 'C', 'A', 'L', 'E'])

/-- FREQ is the first part, or RSCALE is the first and FREQ the second -/
def freqFirstNames : List Str → Bool
  | n :: rest =>
    n = ['F', 'R', 'E', 'Q'] ||
      (n = ['R', 'S', 'C', 'A', 'L', 'E'] && (match rest with
        | m :: _ => decide (m = ['F', 'R', 'E', 'Q'])
        | [] => false))
  | [] => false

/-- the text is a RECUR value -/
def rfcRecur (t : Str) : Bool :=
  match rfcRecurNames t with
  | some ns => rfcNamesOk ns
  | none => false

/-- the text is a RECUR value whose first part is FREQ (after an optional RSCALE) -/
def rfcRecurFreqFirst (t : Str) : Bool :=
  match rfcRecurNames t with
  | some ns => rfcNamesOk ns && freqFirstNames ns
  | none => false

/-- the name before the first `=` of each `;`-separated part (no validation): what a reader that
    looks only at part names sees -/
def partNames (t : Str) : List Str :=
  (splitOnChar ';' t).map (fun p => (splitOnChar '=' p).headD [])

end ICal
