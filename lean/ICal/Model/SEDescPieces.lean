/-
  The external pieces of the regenerated descriptor closures `p_set` / `p_del` of `create_single_property` and of
  `_set_duration` / `_del_duration` (ICal/Gen/BodiesSEDesc.lean, tools/py2lean.py) as the hand model of
  ICal/Model/StartEnd.lean has them.  The object `self` is the model's `St` (the four stored entries); a key reaches the
  entries through `CaselessDict`'s upper-casing (`upper`) and `keyOfName` (any other name leaves the four entries alone);
  `self.pop(k)` / `self.pop(k, None)` never raise (`CaselessDict.pop` has the default None); `self[k] = v` stores one value.
  The assigned Python object is the model's `Arg` (`None` is Python's None: `argOpt`); `isinstance(value, (datetime, date))`
  is `Val.isDT`, `isinstance(value, timedelta)` is "a `dur`"; the wrappers `vDDDTypes(value)` / `vDuration(value)` give the stored
  slot (they are applied to accepted values only).  `self.exclusive` is the tuple of names regenerated into `Gen.compClasses`.
  Shared by ICal/Lemmas/BodiesSEDesc.lean and ICal/Driver/BodiesSEDesc.lean.  The pieces are given BY NAME.
-/
import ICal.Gen.BodiesSEDesc
import ICal.Model.SEPieces
namespace ICal.Bodies
open ICal ICal.PyRT ICal.SE ICal.Gen.BodiesSEDesc

/-- the first argument of `create_single_property` at the class-level assignment of that name -/
def keyName : Key → Str
  | .dtstart => ['D', 'T', 'S', 'T', 'A', 'R', 'T']
  | .dtend => ['D', 'T', 'E', 'N', 'D']
  | .due => ['D', 'U', 'E']
  | .duration => ['D', 'U', 'R', 'A', 'T', 'I', 'O', 'N']

/-- `self.pop(name)`: the entry is gone afterwards; no KeyError (default None) -/
def sePop (s : St) (n : Str) : St :=
  match keyOfName (upper n) with
  | some k => s.put k .absent
  | none => s

/-- `self.pop(name, None)` -/
def sePopD (s : St) (n : Str) (_ : Unit) : St := sePop s n

/-- `self[name] = v` -/
def seSetItem (s : St) (n : Str) (v : Slot) : St :=
  match keyOfName (upper n) with
  | some k => s.put k v
  | none => s

/-- the assigned object: Python's None, or an object -/
def argOpt : Arg → Option Arg
  | .none => none
  | a => some a

/-- `isinstance(value, value_type)` for `value_type = (datetime, date)` -/
def seIsDT (a : Arg) (_ : Unit) : Bool :=
  match a with
  | .val v => v.isDT
  | _ => false

/-- `isinstance(value, timedelta)` -/
def seIsTd : Arg → Bool
  | .val (.dur _) => true
  | _ => false

/-- `vDDDTypes(value)` on an object (it is applied after the instance test only) -/
def seWrap (_ : Unit) (a : Arg) : Py Slot :=
  match a with
  | .val v => .ok (.one v)
  | _ => .error .typeError

/-- `vDuration(value)` -/
def seWrapDur (a : Arg) : Py Slot := seWrap () a

/-- the class attribute `exclusive` as regenerated from cal.py (the names themselves) -/
def exclNames (c : Cls) : List Str :=
  match Gen.compClasses.find? (fun cc => cc.cls == c.pyName) with
  | some cc => cc.exclusive
  | none => []

/-- the regenerated `p_set` as instantiated for the descriptor `k` of class `c` -/
def pSetB (c : Cls) (s : St) (k : Key) (x : Arg) : Py St :=
  p_set (self_ := s) (value := argOpt x) (prop := keyName k) (value_type := ()) (vProp := ()) (pop := sePop)
    (is_instance := seIsDT) (wrap := seWrap) (set_item := seSetItem) (exclusive := exclNames c) (pop_default := sePopD)

/-- the regenerated `p_del` -/
def pDelB (s : St) (k : Key) : St := p_del (self_ := s) (prop := keyName k) (pop := sePop)

/-- the regenerated `_set_duration` -/
def setDurationB (s : St) (x : Arg) : Py St :=
  set_duration (self_ := s) (value := argOpt x) (pop_default := sePopD) (is_timedelta := seIsTd) (wrap_duration := seWrapDur)
    (set_item := seSetItem) (pop := sePop)

/-- the regenerated `_del_duration` -/
def delDurationB (s : St) : St := del_duration (self_ := s) (pop := sePop)

/-- `SE.step` with every setter and deleter replaced by the regenerated body (what the driver op `body_se` runs) -/
def stepB (c : Cls) (s : St) : Op → Py St
  | .set a x =>
    match target c a with
    | none => .ok s
    | some .duration => setDurationB s x
    | some k => pSetB c s k x
  | .del k => if descr c k then .ok (if k = .duration then delDurationB s else pDelB s k) else .error .attributeError
  | .add k x => seLift (addVal s k x)

def nextB (c : Cls) (s : St) (op : Op) : St :=
  match stepB c s op with
  | .ok s' => s'
  | .error _ => s

end ICal.Bodies
