/-
  Traversal and equality of component trees (C20).
  Mirrors /repo/src/icalendar/cal.py: Component._walk, Component.walk, Calendar.events / todos /
  timezones, Component.__eq__ (with CaselessDict.__eq__ for the property maps).

  Value equality is a parameter `veq : Val → Val → Bool` (the per-type `__eq__` of prop.py);
  the driver instantiates it (Driver/Walk.lean) and correspondence validates that instantiation.
-/
import ICal.Model.Tree
namespace ICal

/-! ### walk -/

mutual
/-- `Component._walk(name, select)`: `name` is already upper-cased (or `None`). -/
def walkAux (name? : Option Str) (sel : Comp → Bool) : Comp → List Comp
  | .mk n p subs =>
    (if (match name? with | none => true | some k => n == k) && sel (.mk n p subs)
      then [Comp.mk n p subs] else []) ++ walkAuxL name? sel subs
/-- the `for subcomponent in self.subcomponents: result += subcomponent._walk(...)` loop -/
def walkAuxL (name? : Option Str) (sel : Comp → Bool) : List Comp → List Comp
  | [] => []
  | c :: cs => walkAux name? sel c ++ walkAuxL name? sel cs
end

/-- `Component.walk(name=None, select=lambda c: True)`: the requested name is upper-cased, the
    stored component names are compared as they are. -/
def walk (name? : Option Str) (sel : Comp → Bool) (t : Comp) : List Comp :=
  walkAux (name?.map upper) sel t

mutual
/-- the specification: the node, then the pre-order listings of its children, left to right -/
def preorder : Comp → List Comp
  | .mk n p subs => Comp.mk n p subs :: preorderL subs
def preorderL : List Comp → List Comp
  | [] => []
  | c :: cs => preorder c ++ preorderL cs
end

mutual
/-- number of components in the tree -/
def size : Comp → Nat
  | .mk _ _ subs => 1 + sizeL subs
def sizeL : List Comp → Nat
  | [] => 0
  | c :: cs => size c + sizeL cs
end

mutual
/-- positions in the tree as child-index paths, in pre-order -/
def positions : Comp → List (List Nat)
  | .mk _ _ subs => [] :: positionsL 0 subs
def positionsL (i : Nat) : List Comp → List (List Nat)
  | [] => []
  | c :: cs => (positions c).map (i :: ·) ++ positionsL (i + 1) cs
end

/-- the component at a position -/
def compAt : Comp → List Nat → Option Comp
  | c, [] => some c
  | .mk _ _ subs, i :: rest =>
    match subs[i]? with
    | some c => compAt c rest
    | none => none
termination_by _ p => p.length

def VEVENT : Str := "VEVENT".toList
def VTODO : Str := "VTODO".toList
def VTIMEZONE : Str := "VTIMEZONE".toList

/-- `Calendar.events` = `self.walk("VEVENT")` -/
def events (t : Comp) : List Comp := walk (some VEVENT) (fun _ => true) t
/-- `Calendar.todos` = `self.walk("VTODO")` -/
def todos (t : Comp) : List Comp := walk (some VTODO) (fun _ => true) t
/-- `Calendar.timezones` = `self.walk("VTIMEZONE")` -/
def timezones (t : Comp) : List Comp := walk (some VTIMEZONE) (fun _ => true) t

/-! ### equality -/

/-- Python `list.__eq__` on two lists of values: same length, element-wise `==` (left operand's
    element on the left). -/
def listEq {α} (eq : α → α → Bool) : List α → List α → Bool
  | [], [] => true
  | a :: as, b :: bs => eq a b && listEq eq as bs
  | _, _ => false

/-- equality of the two objects stored under one key: a `list` never equals a single value
    (every value class answers False / NotImplemented for a list), two lists compare element-wise,
    two single values by their own `__eq__`. A single value is stored as a one-element `vals`. -/
def entryEq (veq : Val → Val → Bool) (a b : Entry) : Bool :=
  a.isList == b.isList && listEq veq a.vals b.vals

/-- `CaselessDict.__eq__` = `dict(self.items()) == dict(CaselessDict(other).items())`, i.e.
    `dict.__eq__`: same number of keys, and every key of the left operand is a key of the right
    operand with an equal value. Keys are already upper-cased in both. -/
def propsEq (veq : Val → Val → Bool) (p q : List Entry) : Bool :=
  p.length == q.length &&
    p.all (fun a => match q.find? (fun b => b.name == a.name) with
      | some b => entryEq veq a b
      | none => false)

/-- scan `remaining` for the first candidate accepted by `p` and delete it
    (`for i, candidate in enumerate(remaining): if sub == candidate: del remaining[i]; break`);
    `none` is the `for ... else: return False` exit. -/
def removeFirst {α} (p : α → Bool) : List α → Option (List α)
  | [] => none
  | x :: xs => if p x then some xs else (removeFirst p xs).map (x :: ·)

/-- the loop over `self.subcomponents`: each predicate (one per subcomponent of `self`, in order)
    must claim a distinct element of `remaining`. -/
def greedy {α} : List (α → Bool) → List α → Bool
  | [], _ => true
  | p :: ps, remaining =>
    match removeFirst p remaining with
    | some r => greedy ps r
    | none => false

mutual
/-- `Component.__eq__(self, other)` for `other` a Component. -/
def compEq (veq : Val → Val → Bool) : Comp → Comp → Bool
  | .mk n p subs, other =>
    n == other.name && subs.length == other.subs.length && propsEq veq p other.props &&
      greedy (compEqL veq subs) other.subs
/-- `subcomponent == ·` for each subcomponent of `self` -/
def compEqL (veq : Val → Val → Bool) : List Comp → List (Comp → Bool)
  | [] => []
  | c :: cs => compEq veq c :: compEqL veq cs
end

/-- property keys pairwise distinct in every component (they are keys of a `dict`) -/
def keysDistinct (p : List Entry) : Prop := (p.map (·.name)).Nodup

mutual
def Comp.WF : Comp → Prop
  | .mk _ p subs => keysDistinct p ∧ Comp.WFL subs
def Comp.WFL : List Comp → Prop
  | [] => True
  | c :: cs => Comp.WF c ∧ Comp.WFL cs
end

/-! ### the structural instantiation of value equality

  The model sees of a value only (class name, `to_ical()` text, parameters).  On that view the
  per-class `__eq__` methods of prop.py are:

  * the TimeBase classes (vDDDTypes, vDate, vDatetime, vDuration, vPeriod, vTime):
    `params == other.params and dt == other.dt` for any two TimeBase objects, i.e. same text and
    the same parameter map (Parameters is a CaselessDict, so insertion order is ignored);
  * vDDDLists compares its element list, each element a vDDDTypes with its own parameters:
    same text and the same parameter map (exact for lists whose elements share one zone, which
    is all a vDDDLists can express in iCalendar text);
  * every other class (str / int / float subclasses, vCategory, vGeo, vUTCOffset, vBinary, vRecur)
    compares the Python value and ignores parameters: same class name and same text.

  This is the one place where the model's equality is *chosen* rather than derived from the
  source; the `w_eq` correspondence op validates it against the real `__eq__` methods on every
  generated pair of trees (copies, permutations, every single-value perturbation).  It is the
  kernel of the function `veqKey`, hence an equivalence relation, so the hypotheses of the C20
  theorems are satisfiable (`ICal.C20.veqStructural_equiv`).
-/

def timeBaseKinds : List Str :=
  ["vDDDTypes", "vDate", "vDatetime", "vDuration", "vPeriod", "vTime"].map String.toList

def insertParam (kv : Str × PVal) : Params → Params
  | [] => [kv]
  | x :: xs => if strLt x.1 kv.1 then x :: insertParam kv xs else kv :: x :: xs

/-- the parameter map as a key-sorted list (keys are distinct) -/
def sortParams (p : Params) : Params := p.foldr insertParam []

/-- what value equality looks at -/
def veqKey (v : Val) : Str × Str × Params :=
  if timeBaseKinds.contains v.kind then ("TimeBase".toList, v.text, sortParams v.params)
  else if v.kind == "vDDDLists".toList then (v.kind, v.text, sortParams v.params)
  else (v.kind, v.text, [])

def veqStructural (a b : Val) : Bool := decide (veqKey a = veqKey b)

end ICal
