/-
  Runtime of the function bodies that tools/py2lean.py translates from the Python source
  (lean/ICal/Gen/Bodies.lean is written in terms of these definitions and nothing else).

  What a generated body may use:
    * Python `int`  = `Int`  : `+ - *` are the Lean operators; `//` and `%` are `floorDiv` and
      `pyMod` (floor semantics, the result of `%` has the sign of the divisor).  The translator
      only emits them with a non-zero literal divisor, so ZeroDivisionError cannot occur.
    * Python `str`  = `Str` (code points).  `bytes` values are represented by the `str` they encode:
      `.encode('utf-8')` is the identity here, bytes literals are ASCII.  The octet level is the
      business of C05/C06, not of these bodies.
    * truthiness: `0`, `''`, `b''`, `False`, `timedelta(0)` are false, everything else is true.
      `a or b` / `a and b` return an OPERAND (`pyOr` / `pyAnd`), not a Bool.
    * `f"{x}"`, `str(x)` on an int = `intToStr`; `f"{x:0w}"` = `fmtZ w x` (sign-aware zero padding,
      never truncates); `fmt % s` with exactly one `%s` in `fmt` = `fmt1`.
    * `datetime.timedelta` restricted to whole seconds = `TD` (`days`, `seconds`) with CPython's
      normal form `0 <= seconds < 86400`; the constructor normalisation is `TD.norm`.  The range
      limit of `timedelta` (|days| <= 999 999 999, OverflowError) is not modelled.
    * `datetime.date` / `datetime.datetime` / `datetime.time` are records of ints (`PyDate`,
      `PyDateTime`, `PyTime`); their range-checking constructors are in ICal/Model/PyRTDec.lean.

  Import-free except ICal.Model.PyStr: this file is linked into the native driver.
-/
import ICal.Model.PyStr
namespace ICal.PyRT

/-! ## int -/

/-- Python `a // b` (floor division) for `b ≠ 0` -/
def floorDiv (a b : Int) : Int := if 0 < b then a / b else (-a) / (-b)

/-- Python `a % b` for `b ≠ 0`: `a - b * (a // b)`, sign of the divisor -/
def pyMod (a b : Int) : Int := if 0 < b then a % b else -((-a) % (-b))

/-- Python `abs(x)` on an int -/
def pyAbs (x : Int) : Int := (x.natAbs : Int)

/-! ## truthiness, `or`, `and` -/

class Truthy (α : Type) where
  truthy : α → Bool

export Truthy (truthy)

instance : Truthy Int := ⟨fun x => x != 0⟩
instance : Truthy Str := ⟨fun s => !s.isEmpty⟩
instance : Truthy Bool := ⟨fun b => b⟩

/-- `a or b`: the first operand if it is true, else the second (the subset has no side effects and
    no exceptions, so evaluating both is the same as Python's short circuit) -/
def pyOr {α : Type} [Truthy α] (a b : α) : α := if truthy a then a else b
/-- `a and b`: the first operand if it is false, else the second -/
def pyAnd {α : Type} [Truthy α] (a b : α) : α := if truthy a then b else a

/-! ## formatting -/

/-- `str(x)` / `f"{x}"` / `'%s' % x` for an int -/
def strInt (x : Int) : Str := intToStr x

/-- `f"{x:0w}"` for an int: zero fill to width `w`, the sign counts towards the width and stays in
    front (`f"{-5:03}" == '-05'`); wider numbers are not truncated. -/
def fmtZ (w : Nat) (x : Int) : Str :=
  if x < 0 then '-' :: pad (w - 1) x.natAbs else pad w x.natAbs

/-- `fmt % s` where `fmt` contains exactly one `%s` and no other `%` (checked by the translator on
    every literal that can reach the operator): the first `%s` is replaced by `s`. -/
def fmt1 : Str → Str → Str
  | [], _ => []
  | '%' :: 's' :: rest, s => s ++ rest
  | c :: rest, s => c :: fmt1 rest s

/-! ## timedelta (whole seconds) -/

structure TD where
  days : Int
  seconds : Nat
deriving DecidableEq, Repr, Inhabited

namespace TD

/-- CPython's normal form -/
def wf (t : TD) : Prop := t.seconds < 86400

instance (t : TD) : Decidable t.wf := by unfold wf; exact inferInstance

/-- `timedelta(days=d, seconds=s)` for ints: `divmod(s, 86400)` carries into the days -/
def norm (d s : Int) : TD := ⟨d + s / 86400, (s % 86400).toNat⟩

def zero : TD := ⟨0, 0⟩

/-- `timedelta(seconds=s)` -/
def ofSeconds (s : Int) : TD := norm 0 s

/-- `td.days * 86400 + td.seconds` (what `td.total_seconds()` is for whole seconds) -/
def toSeconds (t : TD) : Int := t.days * 86400 + (t.seconds : Int)

/-- `-td` : CPython builds `timedelta(-days, -seconds)` -/
def neg (t : TD) : TD := norm (-t.days) (-(t.seconds : Int))

/-- `a - b` : CPython builds `timedelta(a.days - b.days, a.seconds - b.seconds)` -/
def sub (a b : TD) : TD := norm (a.days - b.days) ((a.seconds : Int) - (b.seconds : Int))

/-- `a < b` : CPython compares the `(days, seconds)` tuples -/
def lt (a b : TD) : Bool :=
  decide (a.days < b.days) || (decide (a.days = b.days) && decide (a.seconds < b.seconds))

/-- `td.seconds` as a Python int -/
def secondsI (t : TD) : Int := (t.seconds : Int)

end TD

instance : Truthy TD := ⟨fun t => !(t.days == 0 && t.seconds == 0)⟩

/-! ## date, datetime : records of ints (attribute reads only) -/

structure PyDate where
  year : Int
  month : Int
  day : Int
deriving DecidableEq, Repr, Inhabited

structure PyDateTime where
  year : Int
  month : Int
  day : Int
  hour : Int
  minute : Int
  second : Int
deriving DecidableEq, Repr, Inhabited

structure PyTime where
  hour : Int
  minute : Int
  second : Int
deriving DecidableEq, Repr, Inhabited

/-! ## wave 2: exceptions, slicing, `None`, regex match objects (used by the decoder bodies)

  A function that can raise is translated into `Py α = Except Exc α`.  Exceptions originate only in
  the partial runtime functions (`int(str)`, `date(...)`, `time(...)`, `datetime(...)`,
  `match.groups()` on `None`) and in `raise ValueError(...)`.
  `try: BODY except <classes>: raise ValueError(...)` is `remap <classes> BODY`. -/

inductive Exc where
  | valueError
  | overflowError
  | keyError
  | indexError
  | attributeError
  | typeError
  | unboundLocalError   -- a `for` target read after a loop that never ran
  | fuel                -- NOT a Python exception: a `while` loop did not end within the fuel the translator gave it
  -- ValueError subclasses of icalendar (wave 4); `except ValueError` catches them
  | localTimezoneMissing
  | componentStartMissing
  | componentEndMissing
  | invalidCalendar
  | incompleteComponent
  | assertionError      -- raised by an external piece (`Contentline.from_parts`: a raw line feed in a content line), wave 5
deriving DecidableEq, Repr, Inhabited

abbrev Py (α : Type) := Except Exc α

/-- `except (<classes>): raise ValueError(...)` around a computation -/
def remap {α : Type} (catches : List Exc) : Py α → Py α
  | .ok v => .ok v
  | .error e => if catches.contains e then .error .valueError else .error e

/-- `except Exception:` / bare `except:` : every exception of the subset is caught -/
def remapAll {α : Type} : Py α → Py α
  | .ok v => .ok v
  | .error _ => .error .valueError

/-- `s[a:b]`, `s[a:]`, `s[:b]` for literal `0 ≤ a`, `0 ≤ b` (never raises) -/
def pySlice (s : Str) (a b : Nat) : Str := (s.drop a).take (b - a)
def pySliceFrom (s : Str) (a : Nat) : Str := s.drop a
def pySliceTo (s : Str) (b : Nat) : Str := s.take b

/-- `len(s)` -/
def strLen (s : Str) : Int := (s.length : Int)

/-- `None` is `()`; it is false -/
instance : Truthy Unit := ⟨fun _ => false⟩
/-- a `str` or `None` (a regex group that may not have taken part): `None` and `''` are false -/
instance : Truthy (Option Str) := ⟨fun o => match o with | none => false | some s => !s.isEmpty⟩

/-- `m.groups()` where `m` is the result of `REGEX.match(..)` (`None` = no match: AttributeError) -/
def groupsOf {α : Type} : Option α → Py α
  | some g => .ok g
  | none => .error .attributeError

/-- `a <= b` on timedeltas (tuple comparison, as `TD.lt`) -/
def TD.le (a b : TD) : Bool :=
  decide (a.days < b.days) || (decide (a.days = b.days) && decide (a.seconds ≤ b.seconds))

/-- `timedelta(weeks=w, days=d, hours=h, minutes=m, seconds=s)` on ints (absent keywords are 0).
    CPython sums exactly and normalises; the range limit (OverflowError) is not modelled. -/
def TD.ofUnits (w d h m s : Int) : TD := TD.norm (w * 7 + d) (h * 3600 + m * 60 + s)

/-! ## wave 3: loops, characters, int-indexed slicing, `range`

  A `for ch in s` / `for i, ch in enumerate(s)` loop becomes a structurally recursive definition over
  the characters with the loop's state variables as arguments; a `while i < len(s)` loop becomes a
  recursion on FUEL (`len(s) + 1`): running out of fuel is the distinguished error `Exc.fuel`, never
  a value, and the equality theorems show that it does not happen.  A loop that contains `return`
  answers `Loop σ ρ`.  Iterating a str yields `Char`s (a Python str of length 1).
  A list that is only appended to and only consumed by `''.join(..)` is its concatenation (`Str`). -/

/-- outcome of a loop that contains `return`: fell out of the loop with this state / returned -/
inductive Loop (σ ρ : Type) where
  | fell (s : σ)
  | ret (v : ρ)

/-- reading a `for` target after the loop: unbound if the loop never ran -/
def getBound {α : Type} : Option α → Py α
  | some v => .ok v
  | none => .error .unboundLocalError

/-- an `int` or `None` (`x = None` ... `x = i`): `None` and `0` are false -/
instance : Truthy (Option Int) := ⟨fun o => match o with | none => false | some z => z != 0⟩

/-- `len(ch.encode('utf-8'))` for one character -/
def utf8Len (c : Char) : Int := (c.utf8Size : Int)

/-- `s.encode('ascii')` does not raise -/
def isAsciiStr (s : Str) : Bool := s.all (fun c => c.toNat < 128)

/-- slice bound as CPython clamps it: negative counts from the end, then into `[0, len]` -/
def clampIdx (n : Nat) (i : Int) : Nat :=
  if i < 0 then (i + n).toNat else min i.toNat n

/-- `s[a:b]`, `s[a:]`, `s[:b]` for int expressions (never raises) -/
def pySliceI (s : Str) (a b : Int) : Str :=
  (s.drop (clampIdx s.length a)).take (clampIdx s.length b - clampIdx s.length a)
def pySliceFromI (s : Str) (a : Int) : Str := s.drop (clampIdx s.length a)
def pySliceToI (s : Str) (b : Int) : Str := s.take (clampIdx s.length b)

/-- `s[i]` : IndexError outside `[-len, len)` -/
def strIndex (s : Str) (i : Int) : Py Char :=
  if i < -(s.length : Int) ∨ i ≥ (s.length : Int) then .error .indexError
  else
    match s[clampIdx s.length i]? with
    | some c => .ok c
    | none => .error .indexError

def rangeUp (stop step : Int) : Nat → Int → List Int
  | 0, _ => []
  | fuel + 1, i => if i < stop then i :: rangeUp stop step fuel (i + step) else []

def rangeDown (stop step : Int) : Nat → Int → List Int
  | 0, _ => []
  | fuel + 1, i => if i > stop then i :: rangeDown stop step fuel (i + step) else []

/-- `range(start, stop, step)` as a list; `step == 0` raises ValueError.  At most `|stop - start|`
    elements exist, which is the fuel. -/
def pyRange (start stop step : Int) : Py (List Int) :=
  if step = 0 then .error .valueError
  else if step > 0 then .ok (rangeUp stop step (stop - start).toNat start)
  else .ok (rangeDown stop step (start - stop).toNat start)

/-! ## `int or None` in slices and arithmetic (the split positions of `Contentline.parts`) -/

/-- a slice bound that may be `None` (`None` = the default of that side) -/
def optClamp (n dflt : Nat) : Option Int → Nat
  | none => dflt
  | some i => clampIdx n i

/-- `s[a:b]` where `a`, `b` are ints or `None` -/
def pySliceO (s : Str) (a b : Option Int) : Str :=
  (s.drop (optClamp s.length 0 a)).take (optClamp s.length s.length b - optClamp s.length 0 a)

/-- an `int or None` used as an operand of `+` / `-`: `None` raises TypeError -/
def intOfOpt : Option Int → Py Int
  | some z => .ok z
  | none => .error .typeError

/-! ## wave 4: comprehensions over objects -/

/-- `[x for x in xs if p(x)]` where `p` can raise: the elements are tested in order, the first exception ends it -/
def pyFilterM {α : Type} (p : α → Py Bool) : List α → Py (List α)
  | [] => .ok []
  | x :: xs =>
    match p x with
    | .error e => .error e
    | .ok b =>
      match pyFilterM p xs with
      | .error e => .error e
      | .ok r => .ok (if b then x :: r else r)

/-- what `except ValueError:` catches: ValueError and its icalendar subclasses -/
def valueErrors : List Exc :=
  [.valueError, .localTimezoneMissing, .componentStartMissing, .componentEndMissing, .invalidCalendar, .incompleteComponent]

/-- `timedelta(weeks=, days=, hours=, minutes=, seconds=)` where a timedelta is the hand model's `Int` of seconds -/
def tdsOfUnits (w d h m s : Int) : Int := (w * 7 + d) * 86400 + h * 3600 + m * 60 + s

/-! ## wave 5: Python lists of objects (a stack), general `try`, a result that is a list or one element -/

/-- `xs[-1]` : IndexError on an empty list -/
def listLast {α : Type} (xs : List α) : Py α :=
  match xs.getLast? with
  | some x => .ok x
  | none => .error .indexError

/-- `xs[0]` -/
def listHead {α : Type} (xs : List α) : Py α :=
  match xs with
  | x :: _ => .ok x
  | [] => .error .indexError

/-- `xs.pop()` : the last element and the list without it; IndexError on an empty list -/
def listPop {α : Type} (xs : List α) : Py (α × List α) :=
  match xs.getLast? with
  | some x => .ok (x, xs.dropLast)
  | none => .error .indexError

/-- a method that mutates `xs[-1]` in place (`xs[-1].m(..)`, or `c.m(..)` where `c` is `xs[-1]`): the list with its
    last element replaced by what the method leaves; IndexError on an empty list -/
def modLast {α : Type} (xs : List α) (f : α → α) : Py (List α) :=
  match xs.getLast? with
  | some x => .ok (xs.dropLast ++ [f x])
  | none => .error .indexError

/-- a function that returns a list on one path and one element on another -/
inductive PyResult (α : Type) where
  | many (l : List α)
  | one (x : α)

/-- `try: x except <classes>: ..` : is the exception one of those the handler names -/
def caught (catches : List Exc) (e : Exc) : Bool := catches.contains e

/-! ## wave 6: what `vDDDTypes` holds - a date, a datetime, a time, a timedelta, or a pair of those (a period) -/

inductive PyDDD where
  | date (d : PyDate)
  | dt (t : PyDateTime)
  | time (t : PyTime)
  | dur (d : TD)
  | period (a b : PyDDD)
deriving Repr, Inhabited

/-- what a mapping holds under a key: one value, or a sequence of values (`isinstance(x, (list, tuple))`) -/
inductive PyOneMany (α : Type) where
  | one (x : α)
  | many (xs : List α)
deriving Repr, Inhabited

/-! ## wave 7: a Python `set` as a duplicate-free list (first occurrences, in order) -/

def pyDedup {α : Type} [BEq α] : List α → List α
  | [] => []
  | x :: xs => x :: (pyDedup xs).filter (fun y => !(y == x))

/-- `s.pop()`: an ARBITRARY element; only the one-element set is modelled (anything else ends in `fuel`, which is no
    Python exception) -/
def setPopOnly {α : Type} (s : List α) : Py α :=
  match s with
  | [x] => .ok x
  | _ => .error .fuel

end ICal.PyRT
