/-
  Model of the VTIMEZONE interpretation in src/icalendar/cal.py and timezone/*.py (C12):
    Timezone._extract_offsets, Timezone.get_transitions, PYTZ.create_timezone (a pytz DstTzInfo
    built from the transition table, looked up with bisect_right), and the process-wide zone
    cache of TZP (cache_timezone_component / timezone / clean_timezone_id) as it is driven by
    Component.from_ical.
  RRULE/RDATE expansion is dateutil's (external, assumed): an observance carries its onsets
  already expanded, as naive local seconds. Offsets are seconds (timedelta = Int seconds).
  The RFC 5545 reading of a definition is `specAt`.
-/
import ICal.Model.PyStr
namespace ICal.Tz

/-! ## observances -/

/-- a STANDARD / DAYLIGHT sub-component as it is read by `get_transitions`:
    `tzname = none` when the TZNAME line is missing (then `auto` is the generated candidate
    `f"{zone}_{dtstart}_{from}_{to}"`, a piece of text formatting that belongs to the value codecs) -/
structure ObsIn where
  isDst : Bool
  tzname : Option Str
  auto : Str
  offFrom : Int
  offTo : Int
  onsets : List Int
deriving Repr

/-- an observance with its resolved name -/
structure Obs where
  isDst : Bool
  name : Str
  offFrom : Int
  offTo : Int
  onsets : List Int
deriving Repr, DecidableEq

/-- `_make_unique_tzname`: append `_1` while the name is taken (fuel = number of taken names + 1) -/
def makeUnique : Nat → Str → List Str → Str
  | 0, nm, _ => nm
  | f + 1, nm, taken => if taken.contains nm then makeUnique f (nm ++ ['_', '1']) taken else nm

/-- the name loop of `get_transitions`: only generated names enter `tznames` -/
def resolveNames : List ObsIn → List Str → List Obs
  | [], _ => []
  | o :: os, taken =>
    match o.tzname with
    | some nm => ⟨o.isDst, nm, o.offFrom, o.offTo, o.onsets⟩ :: resolveNames os taken
    | none =>
      let nm := makeUnique (taken.length + 1) o.auto taken
      ⟨o.isDst, nm, o.offFrom, o.offTo, o.onsets⟩ :: resolveNames os (nm :: taken)

/-- `int((td.seconds + 30) / 60) * 60` re-assembled with `td.days`: offsets rounded to the minute -/
def roundMin (x : Int) : Int := (x / 86400) * 86400 + ((x % 86400 + 30) / 60) * 60

/-- a tuple `(transtime, offsetfrom, offsetto, tzname)` of `_extract_offsets` -/
structure Tr where
  loc : Int
  osfrom : Int
  osto : Int
  name : Str
deriving Repr, DecidableEq

/-- `set(transtimes)` (the order is irrelevant: the list is sorted afterwards) -/
def dedup : List Int → List Int
  | [] => []
  | x :: xs => if xs.contains x then dedup xs else x :: dedup xs

/-- `_extract_offsets(component, tzname)[1]` -/
def extractOffsets (o : Obs) : List Tr :=
  (dedup o.onsets).map fun l => ⟨l, roundMin o.offFrom, roundMin o.offTo, o.name⟩

/-- tuple comparison `a <= b` of `transitions.sort()`: local time first -/
def trLe (a b : Tr) : Bool :=
  if a.loc < b.loc then true else if b.loc < a.loc then false
  else if a.osfrom < b.osfrom then true else if b.osfrom < a.osfrom then false
  else if a.osto < b.osto then true else if b.osto < a.osto then false
  else strLe a.name b.name

def insertTr (x : Tr) : List Tr → List Tr
  | [] => [x]
  | y :: ys => if trLe x y then x :: y :: ys else y :: insertTr x ys

/-- `transitions.sort()` (tuples that compare equal are identical, so any sort gives this list) -/
def sortTr : List Tr → List Tr
  | [] => []
  | x :: xs => insertTr x (sortTr xs)

/-- the `dst` dict of `get_transitions`: keyed by *name*, the last component with a name wins -/
def dstOf (obs : List Obs) (nm : Str) : Bool :=
  match obs.reverse.find? (fun o => o.name == nm) with
  | some o => o.isDst
  | none => false

/-- `osto` of the first transition in the list that leads to standard time -/
def firstStd (dst : Str → Bool) : List Tr → Option Int
  | [] => none
  | x :: xs => if dst x.name then firstStd dst xs else some x.osto

/-- the `dst_offset` of one transition: `before` is the reversed prefix, `cur :: after` the rest.
    `if not dst_offset` is also true for `timedelta(0)`: a zero difference found in the past is
    searched again in the future, and kept only if the future has no standard transition either.
    `none` = `assert dst_offset is not False` fails (no standard observance at all). -/
def dstOffset (dst : Str → Bool) (before : List Tr) (cur : Tr) (after : List Tr) : Option Int :=
  if !dst cur.name then some 0
  else match firstStd dst before with
    | some s =>
      if cur.osto - s ≠ 0 then some (cur.osto - s)
      else match firstStd dst (cur :: after) with
        | some s' => some (cur.osto - s')
        | none => some 0
    | none =>
      match firstStd dst (cur :: after) with
      | some s' => some (cur.osto - s')
      | none => none

/-- one row of the pytz table: `_utc_transition_times[i]`, `_transition_info[i]` -/
structure Ent where
  utc : Int
  off : Int
  dst : Int
  name : Str
deriving Repr, DecidableEq

def infoGo (dst : Str → Bool) : List Tr → List Tr → Option (List Ent)
  | _, [] => some []
  | before, cur :: rest =>
    match dstOffset dst before cur rest, infoGo dst (cur :: before) rest with
    | some d, some tl => some (⟨cur.loc - cur.osfrom, cur.osto, d, cur.name⟩ :: tl)
    | _, _ => none

/-- the sorted tuple list of `get_transitions` -/
def sortedTrs (obs : List Obs) : List Tr := sortTr (obs.flatMap extractOffsets)

/-- `Timezone.get_transitions()`, times and infos zipped; `none` = AssertionError -/
def getTransitions (obs : List Obs) : Option (List Ent) :=
  infoGo (dstOf obs) [] (sortedTrs obs)

/-! ## pytz lookup -/

/-- `bisect.bisect_right(a, x)`: the binary search itself (the table may be unsorted, D23) -/
def bisectGo (a : List Int) (x : Int) : Nat → Nat → Nat → Nat
  | 0, lo, _ => lo
  | f + 1, lo, hi =>
    if lo < hi then
      let mid := (lo + hi) / 2
      if x < a.getD mid 0 then bisectGo a x f lo mid else bisectGo a x f (mid + 1) hi
    else lo

def bisectRight (a : List Int) (x : Int) : Nat := bisectGo a x (a.length + 1) 0 a.length

/-- `DstTzInfo.fromutc`: `info[max(0, bisect_right(times, t) - 1)]` -/
def lookup (ts : List Ent) (t : Int) : Option Ent :=
  ts[bisectRight (ts.map (·.utc)) t - 1]?

/-! ## RFC 5545 reading -/

/-- every onset of a definition as a UTC instant (`local − TZOFFSETFROM`) with its observance -/
def specEntries (obs : List Obs) : List (Int × Obs) :=
  obs.flatMap fun o => o.onsets.map fun l => (l - o.offFrom, o)

def better (t : Int) (best : Option (Int × Obs)) (c : Int × Obs) : Option (Int × Obs) :=
  if c.1 ≤ t then
    match best with
    | none => some c
    | some b => if b.1 < c.1 then some c else some b
  else best

/-- the observance in effect at instant `t`: the one with the latest onset not after `t` -/
def specAt (obs : List Obs) (t : Int) : Option (Int × Obs) :=
  (specEntries obs).foldl (better t) none

/-- answer of a zone object at an instant, in comparable form: offset, name, and whether the
    DST amount is zero -/
def entView (e : Ent) : Int × Str × Bool := (e.off, e.name, e.dst == 0)

/-! ## zone cache of the TZP proxy -/

/-- `str.strip("/")` -/
def stripSlash (s : Str) : Str :=
  ((s.dropWhile (· == '/')).reverse.dropWhile (· == '/')).reverse

/-- what the provider says about ids (external, assumed):
    `knows` = `knows_timezone_id`; `provides id` = the provider part of `TZP.timezone(id)` finds a
    zone (clean id, Windows name, or the id as written) -/
structure Prov where
  knows : Str → Bool
  provides : Str → Bool

/-- what a calendar does to the cache, in file order: a VTIMEZONE closes, or a date-time with a
    TZID parameter is read -/
inductive Item (δ : Type) where
  | vtz (tzid : Str) (d : δ)
  | use (tzid : Str)
deriving Repr, DecidableEq

/-- the zone a date-time gets -/
inductive Res (δ : Type) where
  | provider
  | custom (d : δ)
  | naive
deriving Repr, DecidableEq

abbrev Cache (δ : Type) := List (Str × δ)

def cacheGet {δ : Type} (c : Cache δ) (k : Str) : Option δ :=
  match c with
  | [] => none
  | (k', d) :: r => if k' = k then some d else cacheGet r k

/-- `tzp.cache_timezone_component` at END:VTIMEZONE -/
def endVtz {δ : Type} (P : Prov) (c : Cache δ) (tzid : Str) (d : δ) : Cache δ :=
  let id := stripSlash tzid
  if !P.knows id && !P.knows tzid && (cacheGet c id).isNone then c ++ [(id, d)] else c

/-- `tzp.timezone(tzid)` as seen by `vDatetime.from_ical(ical, tzid)`; `naive` when it is None -/
def useTz {δ : Type} (P : Prov) (c : Cache δ) (tzid : Str) : Res δ :=
  if P.provides tzid then .provider
  else match cacheGet c (stripSlash tzid) with
    | some d => .custom d
    | none => .naive

/-- the cache after a calendar -/
def cacheAfter {δ : Type} (P : Prov) : Cache δ → List (Item δ) → Cache δ
  | c, [] => c
  | c, .vtz x d :: r => cacheAfter P (endVtz P c x d) r
  | c, .use _ :: r => cacheAfter P c r

/-- the zones the date-times of a calendar get, in file order -/
def parseCal {δ : Type} (P : Prov) : Cache δ → List (Item δ) → List (Res δ)
  | _, [] => []
  | c, .vtz x d :: r => parseCal P (endVtz P c x d) r
  | c, .use x :: r => useTz P c x :: parseCal P c r

/-- a sequence of calendars parsed in one process -/
def parseAll {δ : Type} (P : Prov) : Cache δ → List (List (Item δ)) → List (List (Res δ))
  | _, [] => []
  | c, cal :: r => parseCal P c cal :: parseAll P (cacheAfter P c cal) r

/-- the definition a calendar itself gives for a (clean) id: its first VTIMEZONE with that id -/
def firstDef {δ : Type} : List (Item δ) → Str → Option δ
  | [], _ => none
  | .vtz x d :: r, id => if stripSlash x = id then some d else firstDef r id
  | .use _ :: r, id => firstDef r id

/-- C12, cache part, as a check of one parse: every date-time whose TZID the provider does not
    serve and the calendar defines gets the calendar's own definition -/
def ownDefGo {δ : Type} [DecidableEq δ] (P : Prov) (cal : List (Item δ)) : Cache δ → List (Item δ) → Bool
  | _, [] => true
  | c, .vtz x d :: r => ownDefGo P cal (endVtz P c x d) r
  | c, .use x :: r =>
    (P.provides x ||
      match firstDef cal (stripSlash x) with
      | none => true
      | some d => useTz P c x == .custom d) && ownDefGo P cal c r

def ownDefOK {δ : Type} [DecidableEq δ] (P : Prov) (c : Cache δ) (cal : List (Item δ)) : Bool :=
  ownDefGo P cal c cal

/-- every date-time that uses a calendar-defined id stands after the first VTIMEZONE of that id -/
def vtzBeforeUse {δ : Type} (cal : List (Item δ)) : List (Item δ) → List (Item δ) → Bool
  | _, [] => true
  | done, .vtz x d :: r => vtzBeforeUse cal (done ++ [.vtz x d]) r
  | done, .use x :: r =>
    ((firstDef cal (stripSlash x)).isNone || (firstDef done (stripSlash x)).isSome)
      && vtzBeforeUse cal (done ++ [.use x]) r

/-- no id the calendar defines is already cached or known to the provider -/
def freshFor {δ : Type} (P : Prov) (c : Cache δ) : List (Item δ) → Bool
  | [] => true
  | .vtz x _ :: r => (cacheGet c (stripSlash x)).isNone && !P.knows (stripSlash x) && !P.knows x && freshFor P c r
  | .use _ :: r => freshFor P c r

end ICal.Tz
