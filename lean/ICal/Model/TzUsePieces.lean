/-
  The external pieces of the regenerated time-zone discovery methods of cal.Calendar (ICal/Gen/BodiesTzUse.lean,
  tools/py2lean.py, wave 8: `timezones`, `get_used_tzids`, `get_missing_tzids`, `add_missing_timezones`) as the hand
  model of ICal/Model/TzUse.lean has them.  `property_items` takes its pieces from ICal/Model/SerPieces.lean.

    hasattr(value, 'params')     a value object has parameters, the bytes of BEGIN / END (and a bare list) have none
    value.params.get('TZID')     the TZID parameter of the value: absent (None), a str, a list of str
    'TZID' in timezone           the component has a TZID entry
    timezone.tz_name             `str(self['TZID'])`: KeyError without the entry; the text of a single vText (the model's
                                 domain; a list-valued TZID is outside it: `tzDomainP`)
    Timezone.from_tzid(k, ..)    the provider: a VTIMEZONE whose TZID is k (`genTz`), or ValueError; the dates are not looked at
    self.add_component(c)        appends to the subcomponents

  Shared by ICal/Lemmas/BodiesTzUse.lean (the equality proofs) and ICal/Driver/BodiesTzUse.lean (the differential ops).
  The pieces are given BY NAME where they are applied.
-/
import ICal.Gen.BodiesTzUse
import ICal.Model.SerPieces
import ICal.Model.TzUse
namespace ICal.Bodies
open ICal ICal.PyRT ICal.Gen.BodiesTzUse

def hasParamsP : PyIV → Bool
  | .obj _ => true
  | _ => false

def tzidParamP : PyIV → PyTzid
  | .obj v =>
    match v.params.get? TZID with
    | some (.one s) => .one (some s)
    | some (.many l) => .many l
    | none => .one none
  | _ => .one none

def hasTzidP (c : Comp) : Bool := (c.props.find? (fun e => e.name == TZID)).isSome

def tzNameP (c : Comp) : Py Str :=
  match c.props.find? (fun e => e.name == TZID) with
  | none => .error .keyError
  | some _ => .ok ((tzName? c).getD [])

def fromTzidP (knows : Str → Bool) (k : Str) (_first _last : Unit) : Py Comp :=
  if knows k then .ok (genTz k) else .error .valueError

def tzAddComponentP : Comp → Comp → Comp
  | .mk n p subs, c => .mk n p (subs ++ [c])

/-- the model's domain: every VTIMEZONE that has a TZID has a single-valued one -/
def tzDomainP (t : Comp) : Bool := (timezones t).all (fun c => !hasTzidP c || (tzName? c).isSome)

/-- the translated methods with these pieces -/
def usedTzidsP (c : Comp) : Py (List Str) :=
  Calendar_get_used_tzids (name_to_ical := nameToIcalP) (sorted_keys := sortedKeysP) (keys := keysP) (getitem := getitemP)
    (has_params := hasParamsP) (tzid_param := tzidParamP) c
def missingTzidsP (c : Comp) : Py (List Str) :=
  Calendar_get_missing_tzids (name_to_ical := nameToIcalP) (sorted_keys := sortedKeysP) (keys := keysP) (getitem := getitemP)
    (has_params := hasParamsP) (tzid_param := tzidParamP) (has_tzid := hasTzidP) (tz_name := tzNameP) c
def addMissingP (knows : Str → Bool) (c : Comp) : Py Comp :=
  Calendar_add_missing_timezones (DT := Unit) (name_to_ical := nameToIcalP) (sorted_keys := sortedKeysP) (keys := keysP)
    (getitem := getitemP) (has_params := hasParamsP) (tzid_param := tzidParamP) (has_tzid := hasTzidP) (tz_name := tzNameP)
    (from_tzid := fromTzidP knows) (add_component := tzAddComponentP) c () ()

end ICal.Bodies
