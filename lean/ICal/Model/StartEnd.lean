/-
  Model of the start / end / duration machinery of VEVENT, VTODO and VJOURNAL
  (/repo/src/icalendar/cal.py):
    create_single_property (p_get / p_set / p_del), _get_duration / _set_duration / _del_duration,
    Event/Todo._get_start_end_duration, .start / .end / .duration (getters and setters),
    Journal.start / .end / .duration, Component.add (only its effect on the four entries below).

  State = the four stored dictionary entries DTSTART, DTEND, DUE, DURATION.  A value is modelled by the
  *kind* of Python object found in `.dt` plus the number that arithmetic needs:
    date d            datetime.date, d = day number                 (instant d * 86400, tagged as a date)
    floating w        naive datetime, w = wall-clock seconds
    utc w             datetime with the UTC tzinfo
    zoned z w off     datetime with the tzinfo of zone number z, wall-clock seconds w, utcoffset() = off seconds
    dur s             datetime.timedelta of s whole seconds
    raw               any other object that vDDDTypes accepts (datetime.time, a period tuple)
  `Slot.many` is a list (produced by a second `add` of the same name); its elements are never looked at.

  Quirks kept on purpose: `pop` has default None, so deleters never raise; `_set_duration` pops DTEND *and* DUE
  whatever the class; assigning to a name that is no descriptor of the class (Todo.DTEND, Event.DUE,
  Journal.DURATION ...) creates a plain instance attribute and leaves the stored entries alone;
  `Journal.end` *is* `Journal.start` (the same property object), so `journal.end = x` writes DTSTART.
  Outside the model: deleting a name that is no descriptor (AttributeError on a fresh instance),
  `del comp.start` (no deleter), arithmetic overflow beyond year 9999, microseconds.

  The class attribute `exclusive` is NOT written here: it is read from `Gen.compClasses`, which
  tools/extract.py regenerates from cal.py on every run (ICal/Gen/Cal.lean).
-/
import ICal.Gen.Cal
namespace ICal.SE

inductive Cls where
  | event | todo | journal
  deriving DecidableEq, Repr

/-- which timezone provider created the tzinfo objects (only `Val.sub` depends on it) -/
inductive Prov where
  | zoneinfo | pytz
  deriving DecidableEq, Repr

inductive Err where
  | invalidCalendar | incompleteComponent | typeError | valueError | attributeError
  deriving DecidableEq, Repr

inductive Val where
  | date (d : Int)
  | floating (w : Int)
  | utc (w : Int)
  | zoned (z : Nat) (w : Int) (off : Int)
  | dur (s : Int)
  | raw
  deriving DecidableEq, Repr

namespace Val

/-- `is_date`: a date that is not a datetime -/
def isDate : Val → Bool
  | date _ => true
  | _ => false

/-- `isinstance(v, datetime)` -/
def isDatetime : Val → Bool
  | floating _ => true
  | utc _ => true
  | zoned _ _ _ => true
  | _ => false

/-- `isinstance(v, (datetime, date))` -/
def isDT (v : Val) : Bool := v.isDate || v.isDatetime

/-- `v.tzinfo is None` (asked of datetimes only) -/
def isFloating : Val → Bool
  | floating _ => true
  | _ => false

def isAware : Val → Bool
  | utc _ => true
  | zoned _ _ _ => true
  | _ => false

/-- `v + timedelta(seconds=x)`.  `date + timedelta` uses `timedelta.days` only, i.e. the floor of x / 86400;
    a datetime keeps its tzinfo object (zoneinfo: wall-clock arithmetic; pytz without normalize: the same
    fixed-offset instance), so the recorded offset is carried along unchanged. -/
def addDur : Val → Int → Val
  | date d, x => date (d + x / 86400)
  | floating w, x => floating (w + x)
  | utc w, x => utc (w + x)
  | zoned z w o, x => zoned z (w + x) o
  | v, _ => v

def wall : Val → Int
  | date d => d * 86400
  | floating w => w
  | utc w => w
  | zoned _ w _ => w
  | _ => 0

def offset : Val → Int
  | zoned _ _ o => o
  | _ => 0

/-- Do the two aware datetimes carry the *same tzinfo object*?  Then CPython subtracts wall clocks.
    zoneinfo caches one object per key.  pytz hands out one object per (zone, offset); with equal offsets
    wall-clock and absolute difference coincide, so `false` is exact for pytz. -/
def sameTz (p : Prov) : Val → Val → Bool
  | utc _, utc _ => true
  | zoned z _ _, zoned z' _ _ => p == Prov.zoneinfo && z == z'
  | _, _ => false

/-- `a - b` as Python evaluates it; mixed kinds are a TypeError -/
def sub (p : Prov) (a b : Val) : Except Err Int :=
  match a, b with
  | date x, date y => .ok ((x - y) * 86400)
  | floating x, floating y => .ok (x - y)
  | _, _ =>
    if a.isAware && b.isAware then
      .ok (if sameTz p a b then a.wall - b.wall else (a.wall - a.offset) - (b.wall - b.offset))
    else .error .typeError

end Val

inductive Slot where
  | absent
  | one (v : Val)
  | many
  deriving DecidableEq, Repr

def Slot.present : Slot → Bool
  | .absent => false
  | _ => true

inductive Key where
  | dtstart | dtend | due | duration
  deriving DecidableEq, Repr

structure St where
  dtstart : Slot
  dtend : Slot
  due : Slot
  duration : Slot
  deriving DecidableEq, Repr

def St.init : St := ⟨.absent, .absent, .absent, .absent⟩

def St.get (s : St) : Key → Slot
  | .dtstart => s.dtstart
  | .dtend => s.dtend
  | .due => s.due
  | .duration => s.duration

def St.put (s : St) (k : Key) (x : Slot) : St :=
  match k with
  | .dtstart => { s with dtstart := x }
  | .dtend => { s with dtend := x }
  | .due => { s with due := x }
  | .duration => { s with duration := x }

/-! ## getters -/

/-- `p_get` of create_single_property(prop, "dt", (datetime, date), ...) -/
def getProp : Slot → Except Err (Option Val)
  | .absent => .ok none
  | .many => .error .invalidCalendar
  | .one v => if v.isDT then .ok (some v) else .error .invalidCalendar

/-- `_get_duration` (after commit 6103c08: a stored non-timedelta is InvalidCalendar) -/
def getDur : Slot → Except Err (Option Int)
  | .absent => .ok none
  | .many => .error .invalidCalendar
  | .one (.dur x) => .ok (some x)
  | .one _ => .error .invalidCalendar

/-- the key behind `.end`: DTEND for Event, DUE for Todo; `Journal.end` is `Journal.start` -/
def endKey : Cls → Key
  | .event => .dtend
  | .todo => .due
  | .journal => .dtstart

/-- "When DTSTART is a date, DURATION must be of days or weeks": `duration.seconds != 0` -/
def dateWithTime : Option Val → Option Int → Bool
  | some (.date _), some x => x % 86400 != 0
  | _, _ => false

/-- `is_date(start) != is_date(end)` -/
def kindMismatch : Option Val → Option Val → Bool
  | some a, some b => a.isDate != b.isDate
  | _, _ => false

/-- both datetimes, `(start.tzinfo is None) != (end.tzinfo is None)` -/
def tzMismatch : Option Val → Option Val → Bool
  | some a, some b => a.isDatetime && b.isDatetime && (a.isFloating != b.isFloating)
  | _, _ => false

/-- the four checks of `_get_start_end_duration`, in source order -/
def forbidden (st en : Option Val) (du : Option Int) : Bool :=
  (du.isSome && en.isSome) || dateWithTime st du || kindMismatch st en || tzMismatch st en

/-- `Event._get_start_end_duration` / `Todo._get_start_end_duration` -/
def getSED (c : Cls) (s : St) : Except Err (Option Val × Option Val × Option Int) := do
  let st ← getProp s.dtstart
  let en ← getProp (s.get (endKey c))
  let du ← getDur s.duration
  if forbidden st en du then .error .invalidCalendar else .ok (st, en, du)

/-- `.start` -/
def getStart (c : Cls) (s : St) : Except Err Val :=
  match c with
  | .journal => do
    match (← getProp s.dtstart) with
    | none => .error .incompleteComponent
    | some v => .ok v
  | _ => do
    let (st, _, _) ← getSED c s
    match st with
    | none => .error .incompleteComponent
    | some v => .ok v

/-- the branch structure of `Event.end` / `Todo.end` after the checks -/
def endOf (st en : Option Val) (du : Option Int) : Except Err Val :=
  match en, du with
  | none, none =>
    match st with
    | none => .error .incompleteComponent
    | some v => if v.isDate then .ok (v.addDur 86400) else .ok v
  | _, some x =>
    match st with
    | some v => .ok (v.addDur x)
    | none => .error .incompleteComponent
  | some e, none => .ok e

/-- `.end` -/
def getEnd (c : Cls) (s : St) : Except Err Val :=
  match c with
  | .journal => getStart .journal s
  | _ => do
    let (st, en, du) ← getSED c s
    endOf st en du

/-- `.duration`: `self.end - self.start` (end is evaluated first); Journal: `timedelta(0)` -/
def getDuration (p : Prov) (c : Cls) (s : St) : Except Err Int :=
  match c with
  | .journal => .ok 0
  | _ => do
    let e ← getEnd c s
    let st ← getStart c s
    Val.sub p e st

/-! ## operations -/

inductive Arg where
  | none            -- Python None
  | wrong           -- an object of an unrelated type (str, int)
  | val (v : Val)
  deriving DecidableEq, Repr

inductive Acc where
  | prop (k : Key)  -- comp.DTSTART, comp.DTEND, comp.DUE, comp.DURATION
  | start
  | «end»
  deriving DecidableEq, Repr

inductive Op where
  | set (a : Acc) (x : Arg)     -- comp.<a> = x
  | del (k : Key)               -- del comp.<K>
  | add (k : Key) (x : Arg)     -- comp.add('<k>', x)
  deriving DecidableEq, Repr

/-- does the class define a descriptor of that name? -/
def descr : Cls → Key → Bool
  | .event, .due => false
  | .todo, .dtend => false
  | .journal, .dtstart => true
  | .journal, _ => false
  | _, _ => true

/-- the stored key an accessor is wired to; `none`: a plain instance attribute -/
def target (c : Cls) : Acc → Option Key
  | .prop k => if descr c k then some k else none
  | .start => some .dtstart
  | .end => some (endKey c)

/-- the Python class name, as it appears in `Gen.compClasses` -/
def Cls.pyName : Cls → Str
  | .event => ['E', 'v', 'e', 'n', 't']
  | .todo => ['T', 'o', 'd', 'o']
  | .journal => ['J', 'o', 'u', 'r', 'n', 'a', 'l']

/-- a property name of the `exclusive` tuple as one of the four modelled entries (other names do not touch them) -/
def keyOfName (n : Str) : Option Key :=
  if n = ['D', 'T', 'S', 'T', 'A', 'R', 'T'] then some .dtstart
  else if n = ['D', 'T', 'E', 'N', 'D'] then some .dtend
  else if n = ['D', 'U', 'E'] then some .due
  else if n = ['D', 'U', 'R', 'A', 'T', 'I', 'O', 'N'] then some .duration
  else none

/-- the class attribute `exclusive`, taken from the table generated from cal.py -/
def exclusive (c : Cls) : List Key :=
  match Gen.compClasses.find? (fun cc => cc.cls == c.pyName) with
  | some cc => cc.exclusive.filterMap keyOfName
  | none => []

/-- `if prop in self.exclusive: for other in self.exclusive: if other != prop: self.pop(other, None)` -/
def popOthers (c : Cls) (k : Key) (s : St) : St :=
  if (exclusive c).contains k then
    (exclusive c).foldl (fun s o => if o != k then s.put o .absent else s) s
  else s

/-- `p_set` -/
def pSet (c : Cls) (s : St) (k : Key) : Arg → Except Err St
  | .none => .ok (s.put k .absent)
  | .val v => if v.isDT then .ok (popOthers c k (s.put k (.one v))) else .error .typeError
  | .wrong => .error .typeError

/-- `_set_duration` -/
def setDuration (s : St) : Arg → Except Err St
  | .none => .ok (s.put .duration .absent)
  | .val (.dur x) => .ok (((s.put .duration (.one (.dur x))).put .dtend .absent).put .due .absent)
  | _ => .error .typeError

/-- `Component.add` on one of the four names: encode (ValueError for None / foreign objects), then append -/
def addVal (s : St) (k : Key) : Arg → Except Err St
  | .val v => .ok (s.put k (match s.get k with
                            | .absent => .one v
                            | _ => .many))
  | _ => .error .valueError

def step (c : Cls) (s : St) : Op → Except Err St
  | .set a x =>
    match target c a with
    | none => .ok s
    | some .duration => setDuration s x
    | some k => pSet c s k x
  | .del k => if descr c k then .ok (s.put k .absent) else .error .attributeError
  | .add k x => addVal s k x

/-- the state after the operation: every operation that raises does so before it mutates anything -/
def next (c : Cls) (s : St) (op : Op) : St :=
  match step c s op with
  | .ok s' => s'
  | .error _ => s

def run (c : Cls) (s : St) (ops : List Op) : St := ops.foldl (next c) s

/-- setter / deleter operations (everything but `add`) -/
def Op.isEdit : Op → Bool
  | .add _ _ => false
  | _ => true

/-- inside the model's stated domain: no `del` of a name that is not a descriptor of the class -/
def Op.inDomain (c : Cls) : Op → Bool
  | .del k => descr c k
  | _ => true

/-- at most one of the end property and DURATION (checked for DTEND and for DUE, whatever the class) -/
def Inv (s : St) : Prop :=
  ¬ (s.dtend.present = true ∧ s.duration.present = true) ∧ ¬ (s.due.present = true ∧ s.duration.present = true)

end ICal.SE
