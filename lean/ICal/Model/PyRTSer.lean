/-
  Runtime of the translated `Component.property_items` (ICal/Gen/BodiesSer.lean, tools/py2lean.py): the Python
  OBJECTS the method handles, on the hand model's types (ICal/Model/Tree.lean).

    self[name]               a parameter `getitem`; its result is a `PyVals`: one value object or a `list` of them
    isinstance(values, list) `PyVals.isList`
    for value in values      `PyVals.elems` (iterating something that is not a list: TypeError)
    (name, x)                an `Item`: the name and a `PyIV` - the bytes of BEGIN/END, a value object, or
                             (never in practice) a list object
  Import-free apart from ICal.Model.*: linked into the driver.
-/
import ICal.Model.PyRT
import ICal.Model.Tree
namespace ICal.PyRT

inductive PyVals where
  | one (v : Val)
  | many (vs : List Val)
deriving Repr, Inhabited

inductive PyIV where
  | bytes (b : Str)
  | obj (v : Val)
  | list (vs : List Val)
deriving Repr, Inhabited

def PyVals.isList : PyVals → Bool
  | .many _ => true
  | .one _ => false

def PyVals.elems : PyVals → Py (List Val)
  | .many vs => .ok vs
  | .one _ => .error .typeError

def PyVals.toIV : PyVals → PyIV
  | .one v => .obj v
  | .many vs => .list vs

abbrev PyItem := Str × PyIV

end ICal.PyRT
