/-
  Runtime of tools/py2lean.py for the group `se` (ICal/Gen/BodiesSE.lean): Python's partial operations on the date /
  datetime objects of ICal/Model/StartEnd.lean (`SE.Val`).
    x.tzinfo is None    `tzinfoIsNone`: a datetime has a `tzinfo`; a date (and anything else) has none: AttributeError
-/
import ICal.Model.PyRT
import ICal.Model.StartEnd
namespace ICal.PyRT.SEOps
open ICal ICal.PyRT

def tzinfoIsNone : SE.Val → Py Bool
  | .floating _ => .ok true
  | .utc _ => .ok false
  | .zoned _ _ _ => .ok false
  | _ => .error .attributeError

end ICal.PyRT.SEOps
