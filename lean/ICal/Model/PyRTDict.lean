/-
  Runtime of the translated `canonsort_keys` (ICal/Gen/BodiesCDictSort.lean, tools/py2lean.py, wave 8): a Python
  `dict` from str to int, keyed `sorted`, `x or []`.

    {k: i for i, k in enumerate(xs)}   `pyDictOfEnum`: `d[k] = i` for i = 0, 1, .. in order; a later duplicate overwrites
                                       the value and keeps the position of the first insertion (`pyDictSet`)
    k in d / k not in d                `pyDictHas`
    d[k]                               `pyDictGet`: KeyError without the key
    sorted(xs, key=lambda k: E)        `pySortedByIntKeyM`: the keys are computed for every element in order (the first
                                       exception ends the call), then a STABLE sort by `<=` of the int keys
                                       (`List.mergeSort` is stable, as Python's sort is)
    x or []                            `pyListOrEmpty` on a list-or-None: None and the empty list give `[]`

  Import-free apart from ICal.Model.*: linked into the driver.
-/
import ICal.Model.PyRTTzUse
namespace ICal.PyRT

abbrev PyDict := List (Str × Int)

def pyDictSet : PyDict → Str → Int → PyDict
  | [], k, v => [(k, v)]
  | (k', v') :: r, k, v => if k' = k then (k', v) :: r else (k', v') :: pyDictSet r k v

def pyDictOfEnumGo : Int → List Str → PyDict → PyDict
  | _, [], m => m
  | i, k :: ks, m => pyDictOfEnumGo (i + 1) ks (pyDictSet m k i)

def pyDictOfEnum (l : List Str) : PyDict := pyDictOfEnumGo 0 l []

def pyDictFind : PyDict → Str → Option Int
  | [], _ => none
  | (k', v) :: r, k => if k' = k then some v else pyDictFind r k

def pyDictHas (m : PyDict) (k : Str) : Bool := (pyDictFind m k).isSome

def pyDictGet (m : PyDict) (k : Str) : Py Int :=
  match pyDictFind m k with
  | some v => .ok v
  | none => .error .keyError

def pySortedByIntKeyM (f : Str → Py Int) (xs : List Str) : Py (List Str) := do
  let ks ← xs.mapM f
  pure (((xs.zip ks).mergeSort (fun a b => decide (a.2 ≤ b.2))).map (·.1))

def pyListOrEmpty {α : Type} : Option (List α) → List α
  | some l => l
  | none => []

end ICal.PyRT
