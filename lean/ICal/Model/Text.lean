/-
  Model of the TEXT codec in src/icalendar/parser.py and prop.py:
  escape_char, unescape_char, split_on_unescaped_comma, vText, vCategory.
  The replace chain, the decoder's escape class and its newline rule are the *generated*
  definitions of ICal.Gen (regenerated from the source on every run).
-/
import ICal.Model.PyStr
import ICal.Gen.Parser
namespace ICal

def inClass (rs : List (Nat × Nat)) (c : Char) : Bool :=
  rs.any (fun r => r.1 ≤ c.toNat && c.toNat ≤ r.2)

/-- `escape_char(text)` -/
def escapeChar (s : Str) : Str := applyChain Gen.escapeCharChain s

/-- the callback of the single-pass decoder for `\\(CLASS)`: `'\n' if char in 'nN' else char` -/
def unescOne (d : Char) : Str :=
  if Gen.unescapeToNewline.contains d then Gen.unescapeNewline else [d]

/-- `_UNESCAPE_STR.sub(...)`: regex `\\(CLASS)|\r\n`, leftmost non-overlapping matches -/
def unescapeSingle : Str → Str
  | [] => []
  | [c] => [c]
  | c :: d :: cs =>
    if c = BS ∧ inClass Gen.unescapeClass d = true then unescOne d ++ unescapeSingle cs
    else if c = CR ∧ d = LF then Gen.unescapeNewline ++ unescapeSingle cs
    else c :: unescapeSingle (d :: cs)

/-- `unescape_char(text)`: the single-pass regex of the repaired code, or the replace chain when
    the source still has one (the generated flag says which) -/
def unescapeChar (s : Str) : Str :=
  if Gen.unescapeSinglePass then unescapeSingle s else applyChain Gen.unescapeCharChain s

/-- `vText(s).to_ical()` as text (UTF-8 encoding is applied at the byte layer, see Model/Fold) -/
def vTextToIcal (s : Str) : Str := escapeChar s
/-- `vText.from_ical(text)` -/
def vTextFromIcal (t : Str) : Str := unescapeChar t

/-- `split_on_unescaped_comma(text)` -/
def splitUnescComma : Str → List Str
  | [] => [[]]
  | [c] => if c = ',' then [[], []] else [[c]]
  | c :: d :: cs =>
    if c = BS then
      -- the character after a backslash is kept, whatever it is
      match splitUnescComma cs with
      | [] => [[c, d]]
      | hd :: tl => (c :: d :: hd) :: tl
    else if c = ',' then [] :: splitUnescComma (d :: cs)
    else
      match splitUnescComma (d :: cs) with
      | [] => [[c]]
      | hd :: tl => (c :: hd) :: tl

/-- `vCategory(cats).to_ical()` -/
def catsToIcal (cats : List Str) : Str := joinWith [','] (cats.map vTextToIcal)
/-- `vCategory.from_ical(text)` -/
def catsFromIcal (t : Str) : List Str := (splitUnescComma t).map unescapeChar

/-- the documented normalisation, in the encoder's order: literal backslash-N -> LF, CRLF -> LF -/
def norm (s : Str) : Str := rep2 CR LF [LF] (rep2 BS 'N' [LF] s)

end ICal
