/-
  Model of content lines in src/icalendar/parser.py:
  escape_string / unescape_string (the %XX placeholder pass), Contentline.__new__ (LF refusal),
  from_parts, parts, raw_value.
-/
import ICal.Model.Params
namespace ICal

inductive LineErr where
  | assertion    -- AssertionError: raw LF in a content line
  | value        -- ValueError
deriving DecidableEq, Repr

def escapeString (s : Str) : Str := applyChain Gen.escapeStringChain s
def unescapeString (s : Str) : Str := applyChain Gen.unescapeStringChain s

def unescapePVal : PVal → PVal
  | .one s => .one (unescapeString s)
  | .many l => .many (l.map unescapeString)

/-- `Contentline(value)`: refuses a raw line feed -/
def mkLine (s : Str) : Except LineErr Str := if s.contains LF then .error .assertion else .ok s

/-- `Contentline.from_parts(name, params, values, sorted)`; `valueText` is `values.to_ical()` -/
def fromParts (name : Str) (params : Params) (valueText : Str) (sorted : Bool := true) : Except LineErr Str :=
  if params.isEmpty then mkLine (name ++ [':'] ++ valueText)
  else mkLine (name ++ [';'] ++ paramsToIcal params sorted ++ [':'] ++ valueText)

/-- Python truthiness of an index variable that starts as `None` -/
def falsy : Option Nat → Bool
  | none => true
  | some 0 => true
  | _ => false

/-- the scanning loop of `parts()` -/
def scanParts : Str → Nat → Bool → Option Nat → Option Nat → Option Nat × Option Nat
  | [], _, _, ns, vs => (ns, vs)
  | ch :: rest, i, inq, ns, vs =>
    let ns' := if !inq && (ch == ':' || ch == ';') && falsy ns then some i else ns
    let vs' := if !inq && ch == ':' && falsy vs then some i else vs
    let inq' := if ch == DQ then !inq else inq
    scanParts rest (i + 1) inq' ns' vs'

/-- `Contentline.parts()`: (name, params, value) or ValueError -/
def parts (line : Str) (strict : Bool := false) : Option (Str × Params × Str) :=
  let st := escapeString line
  let (ns, vs) := scanParts st 0 false none none
  let name := unescapeString (match ns with | none => st | some k => st.take k)
  if name.isEmpty then none else
  if !validToken name then none else
  let vsplit := if falsy vs then st.length else vs.getD 0
  if falsy ns || ns.getD 0 + 1 == vsplit then none else
  let k := ns.getD 0
  match paramsFromIcal ((st.drop (k + 1)).take (vsplit - (k + 1))) strict with
  | none => none
  | some ps =>
    -- Parameters((unescape_string(key), unescape_list_or_string(value)) ...): keys are re-folded
    let ps' := ps.foldl (fun acc kv => Params.put acc (upper (unescapeString kv.1)) (unescapePVal kv.2)) []
    some (name, ps', unescapeString (st.drop (vsplit + 1)))

/-- `Contentline.raw_value()`: the value text as written -/
def rawValueGo : Str → Bool → Str
  | [], _ => []
  | [ch], inq => if ch == ':' && !inq then [] else []
  | ch :: d :: rest, inq =>
    if ch == BS && (d == ',' || d == ':' || d == ';' || d == BS) then rawValueGo rest inq
    else if ch == ':' && !inq then d :: rest
    else rawValueGo (d :: rest) (if ch == DQ then !inq else inq)

def rawValue (line : Str) : Str := rawValueGo line false

end ICal
