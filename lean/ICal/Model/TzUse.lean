/-
  Used / missing time zone ids and add_missing_timezones (C18).
  Mirrors /repo/src/icalendar/cal.py: Calendar.get_used_tzids, get_missing_tzids, timezones,
  Timezone.tz_name, Calendar.add_missing_timezones.

  Python `set`s are modelled as duplicate-free lists sorted by code point (`sorted(set)`), which
  is also the order in which add_missing_timezones appends.

  Domain (the driver answers `unmodelled` outside it): the TZID property of a VTIMEZONE is a
  single vText whose `to_ical()` text equals the string itself (no character that TEXT escapes);
  `str()` of a list-valued TZID is a Python `repr` that the model does not reproduce.
-/
import ICal.Model.Walk
namespace ICal

def TZID : Str := "TZID".toList
def vTextKind : Str := "vText".toList

/-! ### finite sets of strings as sorted duplicate-free lists -/

def dedup : List Str → List Str
  | [] => []
  | x :: xs => if xs.contains x then dedup xs else x :: dedup xs

def insertSorted (k : Str) : List Str → List Str
  | [] => [k]
  | x :: xs => if strLt x k then x :: insertSorted k xs else k :: x :: xs

def sortStr (l : List Str) : List Str := l.foldr insertSorted []

/-- `sorted(set(l))` -/
def toSet (l : List Str) : List Str := sortStr (dedup l)

/-! ### get_used_tzids -/

/-- what one property value adds to the result: `value.params.get("TZID")`; a `str` is added,
    a list/tuple contributes every element, an absent parameter (`None`) is removed at the end. -/
def valTzids (v : Val) : List Str :=
  match v.params.get? TZID with
  | some (.one s) => [s]
  | some (.many l) => l
  | none => []

/-- `property_items(sorted=False)` yields one item per value, also for list-valued properties -/
def entryTzids (e : Entry) : List Str := e.vals.flatMap valTzids

def propsTzids (p : List Entry) : List Str := p.flatMap entryTzids

mutual
/-- TZID parameters in `property_items(sorted=False)` order (recursive) -/
def rawTzids : Comp → List Str
  | .mk _ p subs => propsTzids p ++ rawTzidsL subs
def rawTzidsL : List Comp → List Str
  | [] => []
  | c :: cs => rawTzids c ++ rawTzidsL cs
end

/-- `Calendar.get_used_tzids()` (as `sorted(...)`) -/
def usedTzids (t : Comp) : List Str := toSet (rawTzids t)

/-! ### get_missing_tzids -/

/-- `'TZID' in timezone` and `timezone.tz_name` = `str(timezone['TZID'])`.
    `none`: the component has no TZID (it is skipped by get_missing_tzids), or the TZID is a
    Python list (outside the model's domain: its `str()` is a repr, taken never to be a used id). -/
def tzName? (c : Comp) : Option Str :=
  match c.props.find? (fun e => e.name == TZID) with
  | some e => if e.isList then none else e.vals.head?.map (·.text)
  | none => none

/-- the `tz_name` of every VTIMEZONE that has one, in `walk` order -/
def tzNames (t : Comp) : List Str := (timezones t).filterMap tzName?

/-- `Calendar.get_missing_tzids()`: the used ids with `discard(tz_name)` for each VTIMEZONE that
    has a TZID. `discard` never fails, so the function is total. -/
def missingTzids (t : Comp) : List Str := (usedTzids t).filter (fun k => !(tzNames t).contains k)

/-! ### add_missing_timezones -/

/-- what `Timezone.from_tzid(k)` contributes as far as this property is concerned: a VTIMEZONE
    whose TZID is `k` (added with `tz.add("TZID", tzid)`); its STANDARD/DAYLIGHT content is
    property C13 and carries no TZID parameter. -/
def genTz (k : Str) : Comp :=
  .mk VTIMEZONE [{ name := TZID, isList := false, vals := [{ kind := vTextKind, text := k, params := [] }] }] []

/-- `Calendar.add_missing_timezones()`: `for tzid in sorted(missing)`: skip if `from_tzid` raises
    ValueError (`knows tzid = false`), else `add_component` (append). -/
def addMissing (knows : Str → Bool) : Comp → Comp
  | .mk n p subs => .mk n p (subs ++ ((missingTzids (.mk n p subs)).filter knows).map genTz)

end ICal
