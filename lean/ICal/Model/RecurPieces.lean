/-
  The external pieces of the regenerated `vRecur.parse_type` / `from_ical` / `to_ical` (ICal/Gen/BodiesRecur.lean,
  tools/py2lean.py) as the hand model of ICal/Model/Recur.lean has them: the rule is the model's `Rule` (the state of a
  CaselessDict), a part class is a `PType`, a part value a `PartVal`; `cls.types.get(key, vText)` is `recurTypeOf` (caseless,
  default vText), `parser.from_ical(v)` is `partFrom`, `typ(val).to_ical()` is `partTo`, `recur[key] = ..` is
  `cdSetitem`, `cls()` the empty rule, `cls(recur)` is `cdInit`, `self.sorted_items()` is `recurItems` (every stored value
  a list, as the model has it), `from_unicode` the identity on bytes.  Shared by ICal/Lemmas/BodiesRecur.lean and
  ICal/Driver/BodiesRecur.lean.  The pieces are given BY NAME.
-/
import ICal.Gen.BodiesRecur
import ICal.Model.Recur
namespace ICal.Bodies
open ICal ICal.PyRT ICal.Gen.BodiesRecur

def liftCR {α : Type} : CRes α → Py α
  | .ok v => .ok v
  | .error .valueError => .error .valueError
  | .error .indexError => .error .indexError

def recurParseTypeP (k v : Str) : Py (List PartVal) :=
  vRecur_parse_type (key := k) (values := v) (type_of := recurTypeOf) (part_from := fun ty t => liftCR (partFrom ty t))
def recurFromP (t : Str) : Py Rule :=
  vRecur_from_ical (ical := t) (new_rule := ([] : Rule)) (type_of := recurTypeOf) (part_from := fun ty t => liftCR (partFrom ty t))
    (set_item := fun m k vs => CDict.cdSetitem upper m k vs) (init_rule := fun m => CDict.cdInit upper m)
/-- `to_ical` on given items (each value one object or a sequence) -/
def recurToItemsP (items : List (Str × PyOneMany PartVal)) : Py Str :=
  vRecur_to_ical (sorted_items := items) (type_of := recurTypeOf) (part_to := fun ty v => liftCR (partTo ty v)) (from_unicode := id)
def recurToP (r : Rule) : Py Str := recurToItemsP ((recurItems r).map (fun kv => (kv.1, PyOneMany.many kv.2)))

end ICal.Bodies
