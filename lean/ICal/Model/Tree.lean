/-
  The component tree shared by the tree-level models (C01, C02, C10, C18, C20).

  A component is a name, an insertion-ordered mapping from upper-cased property names to a
  value or a list of values, and a list of subcomponents.  A value is represented by what the
  serialiser can observe of it: the Python class it is an instance of, the text its
  `to_ical()` returns, and its parameter map.
-/
import ICal.Model.PyStr
namespace ICal

/-- a parameter value: a `str`, or a `list` of `str` -/
inductive PVal where
  | one : Str → PVal
  | many : List Str → PVal
deriving DecidableEq, Repr, Inhabited

/-- `Parameters`: keys are stored upper-cased and are pairwise distinct; insertion order kept -/
abbrev Params := List (Str × PVal)

structure Val where
  /-- Python class of the value object, e.g. "vText", "vDDDTypes", "vDDDLists" -/
  kind : Str
  /-- `value.to_ical()` as text -/
  text : Str
  params : Params
deriving DecidableEq, Repr, Inhabited

/-- one item of a component's property mapping -/
structure Entry where
  /-- stored key (always upper-cased by `CaselessDict.__setitem__`) -/
  name : Str
  /-- the mapping holds a Python `list` of values (as opposed to a single value) -/
  isList : Bool
  vals : List Val
deriving DecidableEq, Repr, Inhabited

inductive Comp where
  | mk (name : Str) (props : List Entry) (subs : List Comp)
deriving Repr, Inhabited

namespace Comp
def name : Comp → Str | mk n _ _ => n
def props : Comp → List Entry | mk _ p _ => p
def subs : Comp → List Comp | mk _ _ s => s
end Comp

/-- `params.get(key)` with an upper-cased key -/
def Params.get? (p : Params) (key : Str) : Option PVal := (p.find? (fun kv => kv.1 == key)).map (·.2)

end ICal
