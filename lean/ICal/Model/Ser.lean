/-
  Model of serialisation in src/icalendar/cal.py:
  Component.property_items, content_line, content_lines, to_ical.
  A value is represented by what the serialiser observes of it (`Val`: class, to_ical() text,
  parameters), see Model/Tree.lean.  Per-class tables (`canonical_order`, factory) are generated.
-/
import ICal.Model.Tree
import ICal.Model.Line
import ICal.Model.Fold
import ICal.Model.CDict
import ICal.Gen.Cal
namespace ICal

/-- the class a component name is registered under in `ComponentFactory` -/
def classOfName (n : Str) : Option Gen.CompClass :=
  match Gen.componentFactory.find? (fun kv => kv.1 == n) with
  | some (_, cls) => Gen.compClasses.find? (fun c => c.cls == cls)
  | none => none

/-- `self.canonical_order` of the component's class (`None` for generic components) -/
def canonicalOrderOf (n : Str) : List Str := ((classOfName n).map (·.canonicalOrder)).getD []

/-- `ignore_exceptions` of the component's class -/
def lenientName (n : Str) : Bool := ((classOfName n).map (·.ignoreExceptions)).getD false

/-- one `(name, value)` pair of `property_items`, as the serialiser sees it -/
structure Item where
  name : Str
  text : Str
  params : Params
deriving DecidableEq, Repr

/-- `('BEGIN', vText(self.name).to_ical())`: the encoded name (bytes) is written as it is
    (`content_line` passes bytes values through since e8ab214; before that `from_parts` escaped
    them a second time) -/
def beginItem (name : Str) : Item := ⟨['B','E','G','I','N'], escapeChar name, []⟩
def endItem (name : Str) : Item := ⟨['E','N','D'], escapeChar name, []⟩

/-- `values = self[name]`, one item per value -/
def entryItems (props : List Entry) (n : Str) : List Item :=
  match props.find? (fun e => e.name == n) with
  | some e => e.vals.map (fun v => ⟨n, v.text, v.params⟩)
  | none => []

/-- `sorted_keys()` / `keys()` -/
def propNames (sorted : Bool) (name : Str) (props : List Entry) : List Str :=
  let keys := props.map (·.name)
  if sorted then CDict.canonsort keys (canonicalOrderOf name) else keys

mutual
/-- `Component.property_items(recursive=True, sorted)` -/
def items (sorted : Bool) : Comp → List Item
  | .mk name props subs =>
    beginItem name :: ((propNames sorted name props).flatMap (entryItems props)
      ++ itemsList sorted subs ++ [endItem name])
def itemsList (sorted : Bool) : List Comp → List Item
  | [] => []
  | c :: cs => items sorted c ++ itemsList sorted cs
end

/-- `Component.content_line(name, value, sorted)` -/
def itemLine (sorted : Bool) (it : Item) : Except LineErr Str := fromParts it.name it.params it.text sorted

/-- `Component.content_lines(sorted)` (without the trailing empty string) -/
def contentLines (sorted : Bool) (c : Comp) : Except LineErr (List Str) := (items sorted c).mapM (itemLine sorted)

/-- `Component.to_ical(sorted)` as text -/
def toIcal (sorted : Bool) (c : Comp) : Except LineErr Str := (contentLines sorted c).map linesToIcal

end ICal
