/-
  The pieces of the regenerated `vDDDTypes.from_ical` / `vPeriod.from_ical` (ICal/Gen/BodiesDec.lean, tools/py2lean.py).
  The two functions call each other in the source; each is translated with the other as a function parameter, and the
  knot is tied here: the period decoder hands each of its two parts to the dispatcher, whose own period branch is
  never reached for a part (a part of `split('/')` holds no '/'; ICal/Lemmas/BodiesDDD.lean `ddd_inner_indep` shows that the
  dispatcher does not look at its period parameter then).  `DURATION_REGEX.match` is `durGroups`; `tzp.localize_utc`
  stays a parameter `lu`.  Shared by ICal/Lemmas/BodiesDDD.lean and ICal/Driver/BodiesDDD.lean.  Pieces are given BY NAME.
-/
import ICal.Gen.BodiesDec
import ICal.Gen.Bodies
import ICal.Model.Codec
namespace ICal.Bodies
open ICal ICal.PyRT ICal.Gen.BodiesDec ICal.Gen.Bodies

/-- the dispatcher on a part of a period: its period branch raises (it is not reached) -/
def dddInnerP (lu : PyDateTime → PyDateTime) (t : Str) : Py PyDDD :=
  vDDDTypes_from_ical (ical := t) (m_of := durGroups) (period_from_ical := fun _ _ => .error .valueError) (localize_utc := lu)
def periodFromP (lu : PyDateTime → PyDateTime) (t : Str) : Py (PyDDD × PyDDD) :=
  vPeriod_from_ical (ical := t) (ddd_from_ical := fun s _ => dddInnerP lu s)
/-- `vDDDTypes.from_ical(t)` (timezone=None) -/
def dddFromP (lu : PyDateTime → PyDateTime) (t : Str) : Py PyDDD :=
  vDDDTypes_from_ical (ical := t) (m_of := durGroups) (period_from_ical := fun s _ => periodFromP lu s) (localize_utc := lu)

/-! ### the encoders `vDDDTypes.to_ical` / `vPeriod.to_ical` on the model's atoms -/

/-- a value of the model as the object `vDDDTypes` holds (the UTC flag of a datetime is not part of the fields: it comes
    back through `tzid_from_dt`, a function parameter of the translated code) -/
def atomObj : Atom → PyDDD
  | .date d => .date ⟨d.y, d.m, d.d⟩
  | .dt t => .dt ⟨t.date.y, t.date.m, t.date.d, t.h, t.mi, t.s⟩
  | .time t => .time ⟨t.h, t.mi, t.s⟩
  | .dur s => .dur (TD.ofSeconds s)
/-- `vTime(t).to_ical()` (strftime: not translated) as the model has it -/
def timeToP (t : PyTime) : Str := hmsTo t.hour.toNat t.minute.toNat t.second.toNat
def isDurAtom : Atom → Bool
  | .dur _ => true
  | _ => false
def durSeconds : Atom → Int
  | .dur s => s
  | _ => 0

/-- the translated `vDDDTypes(x).to_ical()` on an atom -/
def atomToP (tz : PyDateTime → Option Str) (a : Atom) : Py Str :=
  vDDDTypes_to_ical (dt := atomObj a) (period_to_ical := fun _ _ => .error .valueError) (time_to_ical := timeToP) (tzid_of := tz)
/-- the translated `vPeriod((a, b)).to_ical()` (the constructor sets `by_duration` when b is a timedelta) -/
def periodToP (tz : PyDateTime → Option Str) (a b : Atom) : Py Str :=
  vPeriod_to_ical (by_duration := if isDurAtom b then 1 else 0) (start := atomObj a) (end_ := atomObj b)
    (duration := TD.ofSeconds (durSeconds b)) (period_to_ical := fun _ _ => .error .valueError) (time_to_ical := timeToP) (tzid_of := tz)

/-! ### wave 8: `vDDDLists.from_ical` / `to_ical` -/

/-- `vDDDLists.from_ical(t)` (timezone=None): every part of `t.split(',')` through the dispatcher -/
def dddListsFromP (lu : PyDateTime → PyDateTime) (t : Str) : Py (List PyDDD) :=
  vDDDLists_from_ical (ical := t) (m_of := durGroups) (period_from_ical := fun s _ => periodFromP lu s) (localize_utc := lu)
/-- `vDDDLists.to_ical()` on elements whose own `to_ical()` is `elem`; `from_unicode` of bytes is the identity -/
def dddListsToP {DO : Type} (elem : DO → Py Str) (dts : List DO) : Py Str :=
  vDDDLists_to_ical (dts := dts) (elem_to_ical := elem) (from_unicode := fun b => b)

end ICal.Bodies
