/-
  Model of property-parameter text in src/icalendar/parser.py:
  dquote, q_join, q_split, param_value, validate_token, validate_param_value,
  Parameters.to_ical / from_ical.  Character classes and the dquote substitution are generated.
-/
import ICal.Model.PyStr
import ICal.Model.Tree
import ICal.Model.Text
import ICal.Gen.Parser
namespace ICal

/-- `dquote(val)` -/
def dquote (v : Str) : Str :=
  let v' := rep1 Gen.dquoteFrom Gen.dquoteTo v
  if v'.any (inClass Gen.quotable) then DQ :: v' ++ [DQ] else v'

/-- `q_join(lst)` -/
def qJoin (l : List Str) : Str := joinWith [','] (l.map dquote)

/-- `param_value(value)` for a str or a list of str -/
def paramValue : PVal → Str
  | .one s => dquote s
  | .many l => qJoin l

/-- the loop of `q_split`; `cur` is `st[cursor:i]` -/
def qSplitGo (sep : Char) (maxsplit : Option Nat) : Bool → Nat → Str → Str → List Str
  | _, _, _, [] => []
  | inq, splits, cur, ch :: rest =>
    let inq' := if ch = DQ then !inq else inq
    let isSplit := !inq' && ch == sep
    let splits' := if isSplit then splits + 1 else splits
    let cur' := if isSplit then [] else cur ++ [ch]
    let emitted := if isSplit then [cur] else []
    if rest.isEmpty || maxsplit == some splits' then emitted ++ [cur' ++ rest]
    else emitted ++ qSplitGo sep maxsplit inq' splits' cur' rest

/-- `q_split(st, sep, maxsplit)`; `none` = the default -1 -/
def qSplit (st : Str) (sep : Char) (maxsplit : Option Nat := none) : List Str :=
  if maxsplit == some 0 then [st] else qSplitGo sep maxsplit false 0 [] st

def isAsciiWord (c : Char) : Bool :=
  ('a' ≤ c && c ≤ 'z') || ('A' ≤ c && c ≤ 'Z') || ('0' ≤ c && c ≤ '9') || c == '_'

/-- `validate_token(name)` for ASCII names: non-empty and every character in `[\w.-]` -/
def validToken (s : Str) : Bool := !s.isEmpty && s.all (fun c => isAsciiWord c || Gen.nameExtra.contains c)

/-- `validate_param_value(value, quoted)` -/
def validParamValue (v : Str) (quoted : Bool) : Bool :=
  !(v.any (inClass (if quoted then Gen.qunsafeChar else Gen.unsafeChar)))

/-- `v.strip('"')` -/
def stripDQ (v : Str) : Str := ((v.dropWhile (· == DQ)).reverse.dropWhile (· == DQ)).reverse

def startsWithDQ (v : Str) : Bool := v.head? == some DQ
def endsWithDQ (v : Str) : Bool := v.getLast? == some DQ

/-- set a key of a CaselessDict-like association list (key already upper-cased) -/
def Params.put (p : Params) (k : Str) (v : PVal) : Params :=
  if p.any (fun kv => kv.1 == k) then p.map (fun kv => if kv.1 == k then (k, v) else kv) else p ++ [(k, v)]

/-- the values of one parameter: `none` = ValueError -/
def parseParamVals (strict : Bool) : List Str → Option (List Str)
  | [] => some []
  | v :: vs =>
    if startsWithDQ v && endsWithDQ v then
      let v' := stripDQ v
      if validParamValue v' true then (parseParamVals strict vs).map (v' :: ·) else none
    else
      if validParamValue v false then (parseParamVals strict vs).map ((if strict then upper v else v) :: ·) else none

/-- one `key=val` item of `Parameters.from_ical` -/
def parseParam (strict : Bool) (param : Str) : Option (Str × PVal) :=
  match qSplit param '=' (some 1) with
  | [key, val] =>
    if !validToken key then none else
    match parseParamVals strict (qSplit val ',') with
    | none => none
    | some [] => some (upper key, .one val)
    | some [x] => some (upper key, .one x)
    | some xs => some (upper key, .many xs)
  | _ => none

/-- `Parameters.from_ical(st, strict)`; `none` = ValueError -/
def paramsFromIcal (st : Str) (strict : Bool := false) : Option Params :=
  (qSplit st ';').foldl (fun acc param =>
    match acc, parseParam strict param with
    | some ps, some (k, v) => some (Params.put ps k v)
    | _, _ => none) (some [])

/-- insertion sort by key in code point order (keys are pairwise distinct, so any sort agrees
    with Python's `items.sort()`) -/
def insertByKey (kv : Str × PVal) : Params → Params
  | [] => [kv]
  | x :: xs => if strLe kv.1 x.1 then kv :: x :: xs else x :: insertByKey kv xs
def sortByKey (p : Params) : Params := p.foldr insertByKey []

/-- `Parameters.to_ical(sorted)` as text -/
def paramsToIcal (p : Params) (sorted : Bool := true) : Str :=
  let items := if sorted then sortByKey p else p
  joinWith [';'] (items.map (fun kv => upper kv.1 ++ ['='] ++ paramValue kv.2))

end ICal
