/-
  Python `str` primitives over `List Char` (a Python str is a sequence of code points).
  Import-free: this file is linked into the native driver `icalmodel`.
-/
namespace ICal

abbrev Str := List Char

def BS : Char := '\\'
def LF : Char := '\n'
def CR : Char := '\r'
def SP : Char := ' '
def HT : Char := '\t'
def DQ : Char := '"'

/-- `s.startswith(p)` -/
def startsWith : Str → Str → Bool
  | _, [] => true
  | [], _ :: _ => false
  | c :: cs, p :: ps => c == p && startsWith cs ps

/-- `str.replace(pat, rep)` for a non-empty pattern: leftmost, non-overlapping, left to right.
    (Python inserts `rep` between all characters for an empty pattern; the translator refuses
    empty patterns, and the model leaves the string unchanged.) -/
def replaceAll (pat rep : Str) (s : Str) : Str :=
  match pat with
  | [] => s
  | _ :: ptl =>
    let rec go (fuel : Nat) (s : Str) : Str :=
      match fuel, s with
      | 0, s => s
      | _, [] => []
      | fuel + 1, c :: cs =>
        if startsWith (c :: cs) pat then rep ++ go fuel (cs.drop ptl.length)
        else c :: go fuel cs
    go s.length s

/-- one-character pattern -/
def rep1 (a : Char) (r : Str) : Str → Str
  | [] => []
  | c :: cs => if c = a then r ++ rep1 a r cs else c :: rep1 a r cs

/-- two-character pattern -/
def rep2 (a b : Char) (r : Str) : Str → Str
  | [] => []
  | [c] => [c]
  | c :: d :: cs => if c = a ∧ d = b then r ++ rep2 a b r cs else c :: rep2 a b r (d :: cs)

/-- a chain of `.replace(p, r)` calls, applied left to right -/
def applyChain (chain : List (Str × Str)) (s : Str) : Str :=
  chain.foldl (fun acc pr => replaceAll pr.1 pr.2 acc) s

/-- `sep.join(parts)` -/
def joinWith (sep : Str) : List Str → Str
  | [] => []
  | [x] => x
  | x :: y :: rest => x ++ sep ++ joinWith sep (y :: rest)

/-- `s.split(c)` for a one-character separator (never returns `[]`) -/
def splitOnChar (sep : Char) : Str → List Str
  | [] => [[]]
  | c :: cs =>
    match splitOnChar sep cs with
    | [] => [[]]   -- unreachable
    | hd :: tl => if c = sep then [] :: hd :: tl else (c :: hd) :: tl

/-- ASCII upper-casing (`str.upper()` restricted to ASCII letters; non-ASCII letters are left
    alone, which differs from Python — generators keep names ASCII, see DESIGN §3). -/
def upperC (c : Char) : Char := if 'a' ≤ c ∧ c ≤ 'z' then Char.ofNat (c.toNat - 32) else c
def upper (s : Str) : Str := s.map upperC
def lowerC (c : Char) : Char := if 'A' ≤ c ∧ c ≤ 'Z' then Char.ofNat (c.toNat + 32) else c
def lower (s : Str) : Str := s.map lowerC

def isDigit (c : Char) : Bool := '0' ≤ c && c ≤ '9'
def digitVal (c : Char) : Nat := c.toNat - '0'.toNat

/-- decimal digits of a natural number, most significant first (`str(n)`) -/
def digitsAux : Nat → Nat → List Char → List Char
  | 0, _, acc => acc
  | fuel + 1, n, acc =>
    let acc' := Char.ofNat ('0'.toNat + n % 10) :: acc
    if n / 10 = 0 then acc' else digitsAux fuel (n / 10) acc'
def natToStr (n : Nat) : Str := digitsAux (n + 1) n []

/-- value of a digit string (no validation) -/
def ofDigits (s : Str) : Nat := s.foldl (fun acc c => acc * 10 + digitVal c) 0

/-- zero-padded to at least `w` digits (`f"{n:0w}"`) -/
def pad (w : Nat) (n : Nat) : Str :=
  let d := natToStr n
  List.replicate (w - d.length) '0' ++ d

def intToStr (z : Int) : Str :=
  if z < 0 then '-' :: natToStr z.natAbs else natToStr z.natAbs

/-- lexicographic `<` on code points (Python `str.__lt__`) -/
def strLt : Str → Str → Bool
  | [], [] => false
  | [], _ :: _ => true
  | _ :: _, [] => false
  | a :: as, b :: bs => if a.toNat < b.toNat then true else if b.toNat < a.toNat then false else strLt as bs
def strLe (a b : Str) : Bool := !strLt b a

end ICal
