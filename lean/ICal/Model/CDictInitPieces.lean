/-
  The external pieces of the regenerated `CaselessDict.update` / `__init__` / `copy` (ICal/Gen/BodiesCDictMeta.lean,
  tools/py2lean.py wave 8) as the hand model of ICal/Model/CDict.lean has them.

    an argument of update / __init__   `MapArg`: a mapping (it has `.items()`) or an iterable of pairs - either way the pairs it
                                       yields; `iter(mapping.items())` yields the same pairs
    self[key] = value                  the model's `cdSetitem up` (proved to be the regenerated `__setitem__`: body_cd_setitem)
    super().__init__(*args, **kwargs)  `OrderedDict.__init__`: every pair, positional mappings first, then the keywords,
                                       through the subclass `__setitem__`
    self.items()                       the entries (a snapshot, as in the hand model)
    super().__delitem__(key)           the plain dict: KeyError without the key
    super().copy()                     `OrderedDict.copy` of a subclass instance is `self.__class__(self)`
    type(self)(x)                      the regenerated `__init__` on the pairs of x

  `up k = upper (to_unicode k)`.  Shared by ICal/Lemmas/BodiesCDictInit.lean and ICal/Driver/BodiesCDictInit.lean; the pieces
  are given BY NAME where they are applied.
-/
import ICal.Gen.BodiesCDictMeta
import ICal.Model.CDict
namespace ICal.Bodies
open ICal ICal.PyRT ICal.CDict ICal.Gen.BodiesCDictMeta

structure MapArg (V : Type) where
  hasItems : Bool
  pairs : List (Str × V)

def foldKey (tu : Str → Str) (k : Str) : Str := upper (tu k)

def mapPairsP {V : Type} (m : MapArg V) : Py (List (Str × V)) := .ok m.pairs
def itemsIterP {V : Type} (m : MapArg V) : MapArg V := { m with hasItems := false }
def allPairs {V : Type} (args : List (MapArg V)) (kw : MapArg V) : List (Str × V) := (args ++ [kw]).flatMap (·.pairs)
def superInitP {V : Type} (tu : Str → Str) (_s : Store V) (args : List (MapArg V)) (kw : MapArg V) : Py (Store V) :=
  .ok (cdUpdate (foldKey tu) [] (allPairs args kw))
def superDelitemP {V : Type} (s : Store V) (k : Str) : Py (Store V) :=
  if odHas s k then .ok (odErase s k) else .error .keyError

def cdUpdateP {V : Type} (tu : Str → Str) (s : Store V) (args : List (MapArg V)) (kw : MapArg V) : Py (Store V) :=
  cd_update (self_ := s) (args := args) (kwargs := kw) (has_items := MapArg.hasItems) (items_iter := itemsIterP)
    (pairs_of := mapPairsP) (set_item := cdSetitem (foldKey tu))
def cdInitP {V : Type} (tu : Str → Str) (args : List (MapArg V)) (kw : MapArg V) : Py (Store V) :=
  cd_init (self_ := ([] : Store V)) (args := args) (kwargs := kw) (super_init := superInitP tu) (items := fun s => s)
    (to_unicode := tu) (super_delitem := superDelitemP) (set_item := cdSetitem (foldKey tu))
def cdCopyP {V : Type} (tu : Str → Str) (s : Store V) : Py (Store V) :=
  cd_copy (self_ := s) (super_copy := fun s => cdInit (foldKey tu) s)
    (construct := fun x => cdInitP tu [⟨true, x⟩] ⟨true, []⟩)

end ICal.Bodies
