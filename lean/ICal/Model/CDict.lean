/-
  Model of src/icalendar/caselessdict.py: `CaselessDict(OrderedDict)` (base of `Parameters` and
  `Component`), `canonsort_keys`, `canonsort_items`.

  The store is an insertion-ordered association list.  `od*` are the primitives of a plain
  (ordered) dictionary; `cd*` are the methods of CaselessDict *as the code writes them*: the
  overridden ones fold the key with `up` (= `to_unicode(key).upper()`) and delegate to the
  dictionary primitive (`move_to_end` included, since 991e646); the inherited ones (`popitem`,
  views, `clear`) take no key.
  `up` is a parameter: Python's `str.upper` is Unicode, the driver instantiates it with ASCII
  `upper`, and the theorems use only `up (up k) = up k`.

  Keys are `Str` *after* `to_unicode` (the bytes/str distinction disappears there; the harness
  passes both kinds to the implementation).  Values are an arbitrary type `V`.
-/
import ICal.Model.PyStr
namespace ICal
namespace CDict

abbrev Store (V : Type) := List (Str × V)

inductive Err where
  | KeyError | TypeError
  deriving DecidableEq, Repr

/-- what a call returns (or raises) -/
inductive Out (V : Type) where
  | none                                -- `None`
  | val (v : V)
  | bool (b : Bool)
  | item (k : Str) (v : V)              -- a `(key, value)` tuple
  | keys (ks : List Str)
  | vals (vs : List V)
  | items (l : List (Str × V))
  | nat (n : Nat)
  | err (e : Err)
  deriving DecidableEq, Repr

/-! ## plain ordered dictionary -/
section prim
variable {V : Type}

def odKeys (s : Store V) : List Str := s.map Prod.fst
def odVals (s : Store V) : List V := s.map Prod.snd

/-- `dict.get(k)` as an option -/
def odGet : Store V → Str → Option V
  | [], _ => none
  | (k', v) :: r, k => if k' = k then some v else odGet r k

/-- `k in d` -/
def odHas (s : Store V) (k : Str) : Bool := (odGet s k).isSome

/-- `d[k] = v`: an existing key keeps its position, a new key goes last -/
def odSet : Store V → Str → V → Store V
  | [], k, v => [(k, v)]
  | (k', v') :: r, k, v => if k' = k then (k', v) :: r else (k', v') :: odSet r k v

/-- remove the entry of `k` (no-op when absent; callers test membership first) -/
def odErase : Store V → Str → Store V
  | [], _ => []
  | (k', v') :: r, k => if k' = k then r else (k', v') :: odErase r k

/-- `for k, v in pairs: d[k] = v` -/
def odSetAll (s : Store V) (l : List (Str × V)) : Store V :=
  l.foldl (fun m p => odSet m p.1 p.2) s

def odFromKeys (ks : List Str) (v : V) : Store V := ks.foldl (fun m k => odSet m k v) []

/-- `OrderedDict.move_to_end(k, last)`; `none` = KeyError -/
def odMoveToEnd (s : Store V) (k : Str) (last : Bool) : Option (Store V) :=
  match odGet s k with
  | none => none
  | some v => some (if last then odErase s k ++ [(k, v)] else (k, v) :: odErase s k)

/-- `dict.__eq__` of two dictionaries (CPython `dict_equal`: same size, and every entry of the
    left one is found with an equal value in the right one) -/
def dictEq [DecidableEq V] (a b : Store V) : Bool :=
  a.length == b.length && a.all (fun p => decide (odGet b p.1 = some p.2))

def outGetitem (s : Store V) (k : Str) : Out V :=
  match odGet s k with
  | some v => .val v
  | none => .err .KeyError

def outGet (s : Store V) (k : Str) (d : Option V) : Out V :=
  match odGet s k with
  | some v => .val v
  | none => match d with
    | some d => .val d
    | none => .none

end prim

/-! ## canonsort_keys -/

/-- `{k: i for i, k in enumerate(order)}` — a later duplicate overwrites the index -/
def canonMapGo : Nat → List Str → Store Nat → Store Nat
  | _, [], m => m
  | i, k :: ks, m => canonMapGo (i + 1) ks (odSet m k i)
def canonMap (order : List Str) : Store Nat := canonMapGo 0 order []

/-- `canonical_map[k]` (only evaluated for keys of the map) -/
def canonIdx (order : List Str) (k : Str) : Nat := (odGet (canonMap order) k).getD 0

/-- `canonsort_keys(keys, canonical_order)`; `None` is passed as `[]` (`canonical_order or []`).
    `sorted` is stable, and so is `List.mergeSort`. -/
def canonsort (keys order : List Str) : List Str :=
  let m := canonMap order
  let head := keys.filter (fun k => odHas m k)
  let tail := keys.filter (fun k => !odHas m k)
  head.mergeSort (fun a b => decide (canonIdx order a ≤ canonIdx order b)) ++ tail.mergeSort strLe

/-! ## CaselessDict methods -/
section methods
variable {V : Type} (up : Str → Str)

def cdSetitem (s : Store V) (k : Str) (v : V) : Store V := odSet s (up k) v
def cdGetitem (s : Store V) (k : Str) : Out V := outGetitem s (up k)
def cdContains (s : Store V) (k : Str) : Bool := odHas s (up k)
def cdDelitem (s : Store V) (k : Str) : Store V × Out V :=
  if odHas s (up k) then (odErase s (up k), .none) else (s, .err .KeyError)

/-- `update(*args, **kwargs)`: `self[key] = value` for every pair, in order -/
def cdUpdate (s : Store V) (l : List (Str × V)) : Store V :=
  l.foldl (fun m p => cdSetitem up m p.1 p.2) s

/-- the loop of `__init__` over `self.items()` (snapshot of the entries):
    `if key != key_upper: super().__delitem__(key); self[key_upper] = value` -/
def cdRekey (s : Store V) : Store V :=
  s.foldl (fun m p => if p.1 ≠ up p.1 then cdSetitem up (odErase m p.1) (up p.1) p.2 else m) s

/-- `__init__(*args, **kwargs)`: `OrderedDict.__init__` stores every pair through the subclass
    `__setitem__` (which folds), then the re-keying loop runs -/
def cdInit (args : List (Str × V)) : Store V := cdRekey up (cdUpdate up [] args)

/-- `copy()`: `type(self)(super().copy())`, and `OrderedDict.copy` of a subclass instance is
    `self.__class__(self)` -/
def cdCopy (s : Store V) : Store V := cdInit up (cdInit up s)

/-- `setdefault`: `OrderedDict.setdefault(self, key.upper(), value)` goes back through the
    subclass `__contains__`, `__getitem__`, `__setitem__`, which fold again -/
def cdSetdefault (s : Store V) (k : Str) (v : V) : Store V × Out V :=
  let K := up k
  if cdContains up s K then (s, cdGetitem up s K) else (cdSetitem up s K v, .val v)

/-- `pop(key, default=None)`: the default is always passed on, so a missing key never raises -/
def cdPop (s : Store V) (k : Str) (d : Option V) : Store V × Out V :=
  match odGet s (up k) with
  | some v => (odErase s (up k), .val v)
  | none => (s, match d with
    | some d => .val d
    | none => .none)

/-- `popitem()` (inherited behaviour, last entry) -/
def cdPopitem (s : Store V) : Store V × Out V :=
  match s.getLast? with
  | some (k, v) => (s.dropLast, .item k v)
  | none => (s, .err .KeyError)

/-- `__eq__` for a mapping `other` (given by its items):
    `dict(self.items()) == dict(CaselessDict(other).items())` -/
def cdEq [DecidableEq V] (s : Store V) (other : List (Str × V)) : Bool :=
  dictEq s (cdInit up other)

/-- `self | other`: `new = type(self)(self)`, then every pair of `other` through `__setitem__` -/
def cdOr (s : Store V) (other : List (Str × V)) : Store V := cdUpdate up (cdInit up s) other
/-- `other | self` for a plain `dict` on the left: `new = type(self)(other)`, then self's pairs -/
def cdRor (s : Store V) (other : List (Str × V)) : Store V := cdUpdate up (cdInit up other) s
/-- `cls.fromkeys(keys, v)`: `d = cls()`, then `d[k] = v` through `__setitem__` -/
def cdFromKeys (ks : List Str) (v : V) : Store V := ks.foldl (fun m k => cdSetitem up m k v) []

/-- `canonsort_items(self, order)`: `[(k, self[k]) for k in canonsort_keys(self.keys(), order)]` -/
def cdSortedItems (s : Store V) (order : List Str) : List (Str × V) :=
  (canonsort (odKeys s) order).filterMap (fun k => (odGet s (up k)).map (fun v => (k, v)))

end methods

/-! ## operations, step, run -/

inductive Op (V : Type) where
  | init (args : List (Str × V))        -- `d = Cls(mapping | pairs, **kw)`
  | getitem (k : Str)
  | setitem (k : Str) (v : V)
  | delitem (k : Str)
  | contains (k : Str)
  | hasKey (k : Str)
  | get (k : Str) (d : Option V)        -- `none`: no default given
  | setdefault (k : Str) (v : V)
  | pop (k : Str) (d : Option V)        -- `none`: no default given
  | popitem
  | update (l : List (Str × V))
  | copy                                -- `d = d.copy()`
  | eq (other : List (Str × V))         -- `d == other`, other a mapping with these items
  | ne (other : List (Str × V))
  | or (other : List (Str × V))         -- `d = d | other`
  | ior (other : List (Str × V))        -- `d |= other`
  | ror (other : List (Str × V))        -- `d = other | d`
  | fromkeys (ks : List Str) (v : V)    -- `d = type(d).fromkeys(ks, v)`
  | moveToEnd (k : Str) (last : Bool)
  | keys | values | items | len | clear | reversed
  | sortedKeys (order : List Str)
  | sortedItems (order : List Str)
  deriving DecidableEq, Repr

section stepdefs
variable {V : Type} [DecidableEq V]

/-- one call on a CaselessDict whose store is `s` -/
def step (up : Str → Str) (s : Store V) : Op V → Store V × Out V
  | .init args => (cdInit up args, .none)
  | .getitem k => (s, cdGetitem up s k)
  | .setitem k v => (cdSetitem up s k v, .none)
  | .delitem k => cdDelitem up s k
  | .contains k => (s, .bool (cdContains up s k))
  | .hasKey k => (s, .bool (odHas s (up k)))
  | .get k d => (s, outGet s (up k) d)
  | .setdefault k v => cdSetdefault up s k v
  | .pop k d => cdPop up s k d
  | .popitem => cdPopitem s
  | .update l => (cdUpdate up s l, .none)
  | .copy => (cdCopy up s, .none)
  | .eq other => (s, .bool (cdEq up s other))
  | .ne other => (s, .bool (!cdEq up s other))
  | .or other => (cdOr up s other, .none)
  | .ior other => (cdUpdate up s other, .none)
  | .ror other => (cdRor up s other, .none)
  | .fromkeys ks v => (cdFromKeys up ks v, .none)
  | .moveToEnd k last =>                       -- overridden since 991e646: folds like the others
    match odMoveToEnd s (up k) last with
    | some s' => (s', .none)
    | none => (s, .err .KeyError)
  | .keys => (s, .keys (odKeys s))
  | .values => (s, .vals (odVals s))
  | .items => (s, .items s)
  | .len => (s, .nat s.length)
  | .clear => ([], .none)
  | .reversed => (s, .keys (odKeys s).reverse)
  | .sortedKeys order => (s, .keys (canonsort (odKeys s) order))
  | .sortedItems order => (s, .items (cdSortedItems up s order))

/-- the same call on a plain ordered dictionary; the caller has folded the keys -/
def stepSpec (s : Store V) : Op V → Store V × Out V
  | .init args => (odSetAll [] args, .none)
  | .getitem k => (s, outGetitem s k)
  | .setitem k v => (odSet s k v, .none)
  | .delitem k => if odHas s k then (odErase s k, .none) else (s, .err .KeyError)
  | .contains k => (s, .bool (odHas s k))
  | .hasKey k => (s, .bool (odHas s k))
  | .get k d => (s, outGet s k d)
  | .setdefault k v => if odHas s k then (s, outGetitem s k) else (odSet s k v, .val v)
  | .pop k d =>
    match odGet s k with
    | some v => (odErase s k, .val v)
    | none => (s, match d with
      | some d => .val d
      | none => .err .KeyError)                 -- a dictionary raises KeyError
  | .popitem => cdPopitem s
  | .update l => (odSetAll s l, .none)
  | .copy => (s, .none)
  | .eq other => (s, .bool (dictEq s (odSetAll [] other)))
  | .ne other => (s, .bool (!dictEq s (odSetAll [] other)))
  | .or other => (odSetAll s other, .none)
  | .ior other => (odSetAll s other, .none)
  | .ror other => (odSetAll (odSetAll [] other) s, .none)
  | .fromkeys ks v => (odFromKeys ks v, .none)
  | .moveToEnd k last =>
    match odMoveToEnd s k last with
    | some s' => (s', .none)
    | none => (s, .err .KeyError)
  | .keys => (s, .keys (odKeys s))
  | .values => (s, .vals (odVals s))
  | .items => (s, .items s)
  | .len => (s, .nat s.length)
  | .clear => ([], .none)
  | .reversed => (s, .keys (odKeys s).reverse)
  | .sortedKeys order => (s, .keys (canonsort (odKeys s) order))
  | .sortedItems order =>
    (s, .items ((canonsort (odKeys s) order).filterMap (fun k => (odGet s k).map (fun v => (k, v)))))

def foldPair (up : Str → Str) (p : Str × V) : Str × V := (up p.1, p.2)

/-- what the caller of the plain dictionary does: fold every key argument -/
def foldOp (up : Str → Str) : Op V → Op V
  | .init args => .init (args.map (foldPair up))
  | .getitem k => .getitem (up k)
  | .setitem k v => .setitem (up k) v
  | .delitem k => .delitem (up k)
  | .contains k => .contains (up k)
  | .hasKey k => .hasKey (up k)
  | .get k d => .get (up k) d
  | .setdefault k v => .setdefault (up k) v
  | .pop k d => .pop (up k) d
  | .update l => .update (l.map (foldPair up))
  | .eq other => .eq (other.map (foldPair up))
  | .ne other => .ne (other.map (foldPair up))
  | .or other => .or (other.map (foldPair up))
  | .ior other => .ior (other.map (foldPair up))
  | .ror other => .ror (other.map (foldPair up))
  | .fromkeys ks v => .fromkeys (ks.map up) v
  | .moveToEnd k last => .moveToEnd (up k) last
  | op => op

def run (up : Str → Str) : Store V → List (Op V) → Store V × List (Out V)
  | s, [] => (s, [])
  | s, op :: ops =>
    let r := step up s op
    let q := run up r.1 ops
    (q.1, r.2 :: q.2)

def runSpec : Store V → List (Op V) → Store V × List (Out V)
  | s, [] => (s, [])
  | s, op :: ops =>
    let r := stepSpec s op
    let q := runSpec r.1 ops
    (q.1, r.2 :: q.2)

/-- the calls on which CaselessDict is known to differ from a dictionary keyed by folded names
    (recorded finding): `pop` of a missing key without default -/
def excluded (up : Str → Str) (s : Store V) : Op V → Bool
  | .pop k none => !odHas s (up k)
  | _ => false

def runExcluded (up : Str → Str) : Store V → List (Op V) → Bool
  | _, [] => false
  | s, op :: ops => excluded up s op || runExcluded up (step up s op).1 ops

/-- trace variant used by the driver: output and key list after every step -/
def trace (up : Str → Str) : Store V → List (Op V) → List (Out V × List Str)
  | _, [] => []
  | s, op :: ops =>
    let r := step up s op
    (r.2, odKeys r.1) :: trace up r.1 ops

end stepdefs

/-- stored keys are pairwise distinct and already folded -/
def Inv {V : Type} (up : Str → Str) (s : Store V) : Prop :=
  (odKeys s).Nodup ∧ ∀ k ∈ odKeys s, up k = k

end CDict
end ICal
