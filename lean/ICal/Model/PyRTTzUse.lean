/-
  Runtime of the translated time-zone discovery methods of cal.Calendar (ICal/Gen/BodiesTzUse.lean,
  tools/py2lean.py, wave 8): Python SETS and what `params.get('TZID')` gives.

    set()                    the empty list; a set is a duplicate-free list in order of first insertion.  Python's
                             iteration order of a set is unspecified and is NOT modelled: the translator refuses
                             `for x in s`; a set is only added to, discarded from, tested, measured and `sorted`
    s.add(x)                 `setAdd`: appended unless already an element (`==` of the elements: `BEq`)
    s.update(xs)             `setUpdate`: `add` of every element of the list, left to right
    s.discard(x)             `setDiscard`: every element equal to x is dropped; never an error
    s - {None}               `setDropNone` on a set whose elements are str or None: the str elements
    sorted(s)                `pySortedStr`: by code point (`strLt` of Model/PyStr.lean); on distinct strings the order is
                             total, so the result does not depend on the order of the elements of `s`
    params.get('TZID')       `PyTzid`: `one none` (absent / None), `one (some s)` (a str), `many l` (a list or tuple)

  Import-free apart from ICal.Model.*: linked into the driver.
-/
import ICal.Model.PyRTSer
namespace ICal.PyRT

inductive PyTzid where
  | one (s : Option Str)
  | many (l : List Str)
deriving Repr, Inhabited

def setAdd {α : Type} [BEq α] (s : List α) (x : α) : List α := if s.contains x then s else s ++ [x]

def setUpdate {α : Type} [BEq α] (s : List α) (xs : List α) : List α := xs.foldl setAdd s

def setDiscard {α : Type} [BEq α] (s : List α) (x : α) : List α := s.filter (fun y => !(y == x))

def setDropNone {α : Type} (s : List (Option α)) : List α := s.filterMap id

def pyInsertStr (k : Str) : List Str → List Str
  | [] => [k]
  | x :: xs => if strLt x k then x :: pyInsertStr k xs else k :: x :: xs

/-- `sorted(..)` of strings (insertion sort by code point) -/
def pySortedStr (l : List Str) : List Str := l.foldr pyInsertStr []

end ICal.PyRT
