/-
  Runtime of the translated second half of `Timezone.get_transitions` (ICal/Gen/BodiesTz.lean, tools/py2lean.py, wave 8).

    xs[i]                         `listGetI`: IndexError outside the list; a negative index counts from the end
    timedelta(weeks=.., seconds=) `tdSeconds`: a timedelta as its int of seconds (the hand model's convention)

  Import-free apart from ICal.Model.*: linked into the driver.
-/
import ICal.Model.PyRT
namespace ICal.PyRT

def listGetI {α : Type} (xs : List α) (i : Int) : Py α :=
  let j : Int := if i < 0 then i + (xs.length : Int) else i
  if j < 0 then .error .indexError
  else match xs[j.toNat]? with
    | some x => .ok x
    | none => .error .indexError

def tdSeconds (weeks days hours minutes seconds : Int) : Int :=
  weeks * 604800 + days * 86400 + hours * 3600 + minutes * 60 + seconds

end ICal.PyRT
