/-
  Runtime of the translated bodies of alarms.py (ICal/Gen/BodiesAlarm.lean, tools/py2lean.py): Python's
  operations on `date` / `datetime` OBJECTS, on the value type of the hand model (`ICal.Alarms.Trig`:
  aware datetime = its instant, naive datetime = wall seconds, date = day number).

    a > b              `dtGt`         TypeError between an aware and a naive datetime and between a
                                      date and a datetime, as CPython
    max(a, b)          `dtMax`        `b if b > a else a`
    x.tzinfo is None   `tzinfoIsNone` a `date` has no `tzinfo`: AttributeError
    dt + td            `Alarms.pyAdd` (the hand model's: a date uses `td.days` only)
    td.seconds == 0    on the model's `Int` seconds: `td % 86400 == 0`
  An optional datetime (`Optional[datetime]`) is `Option Trig`; it is true iff it is not None
  (a datetime is never false).  Import-free apart from ICal.Model.*: linked into the driver.
-/
import ICal.Model.PyRT
import ICal.Model.Alarm
namespace ICal.PyRT
open ICal.Alarms

def dtGt : Trig → Trig → Py Bool
  | .aware a, .aware b => .ok (decide (a > b))
  | .floating a, .floating b => .ok (decide (a > b))
  | .date a, .date b => .ok (decide (a > b))
  | _, _ => .error .typeError

def dtMax (a b : Trig) : Py Trig :=
  match dtGt b a with
  | .ok g => .ok (if g then b else a)
  | .error e => .error e

def tzinfoIsNone : Trig → Py Bool
  | .aware _ => .ok false
  | .floating _ => .ok true
  | .date _ => .error .attributeError

/-- `getattr(x, "tzinfo", None) is None` (never raises) -/
def tzinfoAbsent : Trig → Bool
  | .aware _ => false
  | _ => true

instance : Truthy (Option Trig) := ⟨fun o => o.isSome⟩

end ICal.PyRT
