/-
  The external pieces of the regenerated `_get_start_end_duration`, `.start`, `.end`, `.duration` of cal.Event / cal.Todo
  (ICal/Gen/BodiesSE.lean, tools/py2lean.py) as the hand model of ICal/Model/StartEnd.lean has them: the descriptors
  `self.DTSTART`, `self.DTEND` / `self.DUE`, `self.DURATION` are computations that give an optional value or raise (the
  model's `getProp` / `getDur` of the stored slot); `end - start` of two date / datetime objects is the model's
  `Val.sub` for the time zone provider.  The model's errors are the Python exception classes (`seLift`).
  Shared by ICal/Lemmas/BodiesSEFull.lean and ICal/Driver/BodiesSEFull.lean.  The pieces are given BY NAME.
-/
import ICal.Gen.BodiesSE
namespace ICal.Bodies
open ICal ICal.PyRT ICal.SE ICal.Gen.BodiesSE

def seExc : SE.Err → Exc
  | .invalidCalendar => .invalidCalendar
  | .incompleteComponent => .incompleteComponent
  | .typeError => .typeError
  | .valueError => .valueError
  | .attributeError => .attributeError

def seLift {α : Type} : Except SE.Err α → Py α
  | .ok v => .ok v
  | .error e => .error (seExc e)

/-- the translated checks for a class, on what the three descriptors give -/
def seSedP (c : Cls) (dtstart endprop : Py (Option SE.Val)) (dur : Py (Option Int)) : Py (Option SE.Val × Option SE.Val × Option Int) :=
  match c with
  | .todo => Todo_get_start_end_duration (dtstart := dtstart) (due := endprop) (duration_prop := dur)
  | _ => Event_get_start_end_duration (dtstart := dtstart) (dtend := endprop) (duration_prop := dur)
def seStartP (c : Cls) (dtstart endprop : Py (Option SE.Val)) (dur : Py (Option Int)) : Py SE.Val :=
  match c with
  | .todo => Todo_start (dtstart := dtstart) (due := endprop) (duration_prop := dur)
  | _ => Event_start (dtstart := dtstart) (dtend := endprop) (duration_prop := dur)
def seEndP (c : Cls) (dtstart endprop : Py (Option SE.Val)) (dur : Py (Option Int)) : Py (Option SE.Val) :=
  match c with
  | .todo => Todo_end_full (dtstart := dtstart) (due := endprop) (duration_prop := dur)
  | _ => Event_end_full (dtstart := dtstart) (dtend := endprop) (duration_prop := dur)
def seDurationP (p : Prov) (c : Cls) (dtstart endprop : Py (Option SE.Val)) (dur : Py (Option Int)) : Py Int :=
  match c with
  | .todo => Todo_duration (dtstart := dtstart) (due := endprop) (duration_prop := dur) (dt_sub := fun a b => seLift (SE.Val.sub p a b))
  | _ => Event_duration (dtstart := dtstart) (dtend := endprop) (duration_prop := dur) (dt_sub := fun a b => seLift (SE.Val.sub p a b))

end ICal.Bodies
