/-
  Model of the value codecs of src/icalendar/prop.py (C03):
    vDate vDatetime vTime vDuration (+ DURATION_REGEX) vPeriod vUTCOffset vInt vBoolean
    vWeekday (+ WEEKDAY_RULE) vFrequency vMonth vDDDTypes.from_ical (+ the split of vGeo),
  each `to_ical` / `from_ical` as written (quirks included), and - the spec side - the RFC 5545
  section 3.3 value grammars as decidable recognisers that also return the value the RFC assigns.

  Conventions (DESIGN section 3):
    * `str` = `Str = List Char`; the decoders are modelled for ASCII input (the driver answers
      `unmodelled` for anything else: `int()`, `\d`, `\w`, `str.upper()`, `str.isdigit()` are
      Unicode-aware in Python).
    * `datetime.date` = `PDate` (y, m, d : Nat) valid iff `validDate`; `datetime.time` = `PTime`;
      `datetime.datetime` = `PDateTime`; the only zone information that the *text* of a value
      carries is the `Z` suffix, modelled as the flag `utc` (TZID is a parameter: C11).
    * `timedelta` = `Int` seconds (whole-second domain; microseconds are outside C03).
    * exceptions = `Except CodecErr`; every decoder maps what it catches to `ValueError`.
    * FLOAT, BINARY, URI, CAL-ADDRESS wrap `float()`/`float.__repr__`, `base64`/`binascii` and
      `str`; they are NOT modelled (assumed library laws, DESIGN section 4) and are covered by the
      oracle of harness/props/C03.py only.
  The weekday and frequency tables are the *generated* ones (ICal.Gen.Prop, regenerated from
  prop.py on every run).  Import-free apart from ICal.Model.PyStr / ICal.Gen: this file is linked
  into the native driver.
-/
import ICal.Model.PyStr
import ICal.Gen.Prop
namespace ICal

/-! ## Python primitives used by the codecs -/

inductive CodecErr where
  | valueError
  | indexError
deriving DecidableEq, Repr, Inhabited

abbrev CRes (α : Type) := Except CodecErr α

/-- decidable equality of results (core has no instance for `Except`), so that concrete witnesses
    can be checked by `decide` -/
instance codecResDecEq {ε α : Type} [DecidableEq ε] [DecidableEq α] : DecidableEq (Except ε α)
  | .ok a, .ok b => if h : a = b then isTrue (by rw [h]) else isFalse (by intro e; cases e; exact h rfl)
  | .error a, .error b => if h : a = b then isTrue (by rw [h]) else isFalse (by intro e; cases e; exact h rfl)
  | .ok _, .error _ => isFalse (by intro e; cases e)
  | .error _, .ok _ => isFalse (by intro e; cases e)

/-- `s[i:j]` for `0 ≤ i ≤ j` -/
def slice (s : Str) (i j : Nat) : Str := (s.drop i).take (j - i)

/-- what `int()` strips from an ASCII `str`: SP, HT LF VT FF CR (C `isspace`).  The separators
    FS GS RS US (0x1c-0x1f), for which `str.isspace()` holds, are NOT stripped from an ASCII string:
    CPython maps them to a space only on the non-ASCII path (found by correspondence). -/
def isPySpace (c : Char) : Bool :=
  c.toNat == 32 || (9 ≤ c.toNat && c.toNat ≤ 13)

def lstripSp : Str → Str
  | [] => []
  | c :: cs => if isPySpace c then lstripSp cs else c :: cs

def rstripSp : Str → Str
  | [] => []
  | c :: cs =>
    match rstripSp cs with
    | [] => if isPySpace c then [] else [c]
    | r => c :: r

/-- digits with single underscores between digits (PEP 515); `prev` = the previous character was a
    digit. -/
def pyNatAux : Nat → Bool → Str → Option Nat
  | acc, prev, [] => if prev then some acc else none
  | acc, prev, c :: cs =>
    if isDigit c then pyNatAux (acc * 10 + digitVal c) true cs
    else if c == '_' && prev then pyNatAux acc false cs
    else none

def pyNat (s : Str) : Option Nat := pyNatAux 0 false s

/-- `int(s)` for an ASCII `str`: surrounding whitespace, one optional sign, decimal digits with
    single underscores between digits; `none` = ValueError. -/
def pyInt (s : Str) : Option Int :=
  match rstripSp (lstripSp s) with
  | '-' :: r => (pyNat r).map (fun (n : Nat) => -(Int.ofNat n))
  | '+' :: r => (pyNat r).map (fun (n : Nat) => Int.ofNat n)
  | r => (pyNat r).map (fun (n : Nat) => Int.ofNat n)

def pyIntE (s : Str) : CRes Int :=
  match pyInt s with
  | some z => .ok z
  | none => .error .valueError

/-- `s.isdigit()` restricted to ASCII -/
def isDigitStr (s : Str) : Bool := !s.isEmpty && s.all isDigit

/-! ## Date and time values -/

structure PDate where
  y : Nat
  m : Nat
  d : Nat
deriving DecidableEq, Repr, Inhabited

/-- a `datetime.time`; `utc` = "tzinfo is UTC" -/
structure PTime where
  h : Nat
  mi : Nat
  s : Nat
  utc : Bool
deriving DecidableEq, Repr, Inhabited

structure PDateTime where
  date : PDate
  h : Nat
  mi : Nat
  s : Nat
  utc : Bool
deriving DecidableEq, Repr, Inhabited

def isLeap (y : Nat) : Bool := y % 4 == 0 && (y % 100 != 0 || y % 400 == 0)

def daysInMonth (y m : Nat) : Nat :=
  if m == 2 then (if isLeap y then 29 else 28)
  else if m == 4 || m == 6 || m == 9 || m == 11 then 30
  else 31

/-- the domain of `datetime.date(y, m, d)` -/
def validDate (y m d : Nat) : Bool :=
  1 ≤ y && y ≤ 9999 && 1 ≤ m && m ≤ 12 && 1 ≤ d && d ≤ daysInMonth y m

/-- the domain of `datetime.time(h, m, s)` -/
def validTime (h m s : Nat) : Bool := h < 24 && m < 60 && s < 60

def PDate.valid (d : PDate) : Bool := validDate d.y d.m d.d
def PTime.valid (t : PTime) : Bool := validTime t.h t.mi t.s
def PDateTime.valid (t : PDateTime) : Bool := t.date.valid && validTime t.h t.mi t.s

/-- `date(y, m, d)` on Python ints -/
def mkDate (y m d : Int) : CRes PDate :=
  if 0 ≤ y ∧ 0 ≤ m ∧ 0 ≤ d ∧ validDate y.toNat m.toNat d.toNat = true then
    .ok ⟨y.toNat, m.toNat, d.toNat⟩
  else .error .valueError

/-- the range check of `time(h, m, s)` / the time fields of `datetime(...)` -/
def okTime (h m s : Int) : Bool :=
  decide (0 ≤ h) && decide (0 ≤ m) && decide (0 ≤ s) && validTime h.toNat m.toNat s.toNat

/-! ## DATE -/

/-- `vDate(d).to_ical()` : `f"{year:04}{month:02}{day:02}"` -/
def vDateTo (d : PDate) : Str := pad 4 d.y ++ pad 2 d.m ++ pad 2 d.d

/-- `vDate.from_ical(t)` : fixed-width slices through `int()`, then `date(...)`; the length of the
    text is not checked. -/
def vDateFrom (t : Str) : CRes PDate := do
  let y ← pyIntE (slice t 0 4)
  let m ← pyIntE (slice t 4 6)
  let d ← pyIntE (slice t 6 8)
  mkDate y m d

/-! ## DATE-TIME -/

def hmsTo (h mi s : Nat) : Str := pad 2 h ++ pad 2 mi ++ pad 2 s

/-- `vDatetime(dt).to_ical()`; `Z` is appended iff the zone id is UTC -/
def vDatetimeTo (t : PDateTime) : Str :=
  vDateTo t.date ++ 'T' :: (hmsTo t.h t.mi t.s ++ (if t.utc then ['Z'] else []))

/-- `vDatetime.from_ical(t)` with `timezone=None`.  The character at index 8 is never looked at,
    and nothing after index 16 either. -/
def vDatetimeFrom (t : Str) : CRes PDateTime := do
  let y ← pyIntE (slice t 0 4)
  let m ← pyIntE (slice t 4 6)
  let d ← pyIntE (slice t 6 8)
  let h ← pyIntE (slice t 9 11)
  let mi ← pyIntE (slice t 11 13)
  let s ← pyIntE (slice t 13 15)
  let date ← mkDate y m d
  if okTime h mi s then
    if (t.drop 15).isEmpty then .ok ⟨date, h.toNat, mi.toNat, s.toNat, false⟩
    else if slice t 15 16 = ['Z'] then .ok ⟨date, h.toNat, mi.toNat, s.toNat, true⟩
    else .error .valueError
  else .error .valueError

/-! ## TIME -/

/-- `vTime(t).to_ical()` : `strftime("%H%M%S")`; the zone is dropped (finding D08) -/
def vTimeTo (t : PTime) : Str := hmsTo t.h t.mi t.s

/-- `vTime.from_ical(t)` : a trailing `Z` (anything after index 6) is ignored, the result is always
    naive (finding D08). -/
def vTimeFrom (t : Str) : CRes PTime := do
  let h ← pyIntE (slice t 0 2)
  let mi ← pyIntE (slice t 2 4)
  let s ← pyIntE (slice t 4 6)
  if okTime h mi s then .ok ⟨h.toNat, mi.toNat, s.toNat, false⟩ else .error .valueError

/-! ## DURATION -/

/-- the H/M/S text of `vDuration.to_ical` -/
def hmsText (hours minutes seconds : Nat) : Str :=
  (if hours ≠ 0 then natToStr hours ++ ['H'] else [])
    ++ ((if minutes ≠ 0 ∨ (hours ≠ 0 ∧ seconds ≠ 0) then natToStr minutes ++ ['M'] else [])
    ++ (if seconds ≠ 0 then natToStr seconds ++ ['S'] else []))

/-- `timepart` of `vDuration.to_ical` for `td.seconds = secs` -/
def timepartOf (secs : Nat) : Str :=
  if secs = 0 then [] else 'T' :: hmsText (secs / 3600) (secs % 3600 / 60) (secs % 60)

/-- sign-free text for `|td| = a` seconds: `td.days = a / 86400`, `td.seconds = a % 86400` -/
def durBodyOf (a : Nat) : Str :=
  let days := a / 86400
  let tp := timepartOf (a % 86400)
  if days = 0 ∧ tp ≠ [] then 'P' :: tp else 'P' :: (natToStr days ++ 'D' :: tp)

/-- `vDuration(td).to_ical()` for a whole-second timedelta of `s` seconds
    (`td.days < 0` iff `s < 0`) -/
def durTo (s : Int) : Str :=
  if s < 0 then '-' :: durBodyOf s.natAbs else durBodyOf s.natAbs

/-- longest prefix of ASCII digits (`\d+`, greedy) and the rest -/
def spanDigits : Str → Str × Str
  | [] => ([], [])
  | c :: cs => if isDigit c then let r := spanDigits cs; (c :: r.1, r.2) else ([], c :: cs)

/-- optional regex group `(?:(\d+)U)?` : value (`int(g or 0)`) and the rest.  Greedy matching and
    backtracking coincide here: a group either matches its digits followed by `U` or is skipped. -/
def optUnit (u : Char) (l : Str) : Nat × Str :=
  let r := spanDigits l
  match r.1, r.2 with
  | [], _ => (0, l)
  | ds, c :: rest => if c = u then (ofDigits ds, rest) else (0, l)
  | _, [] => (0, l)

/-- `(?:T(?:(\d+)H)?(?:(\d+)M)?(?:(\d+)S)?)?` -/
def parseT : Str → Nat × Nat × Nat × Str
  | 'T' :: l =>
    let r1 := optUnit 'H' l
    let r2 := optUnit 'M' r1.2
    let r3 := optUnit 'S' r2.2
    (r1.1, r2.1, r3.1, r3.2)
  | r => (0, 0, 0, r)

/-- `P(?:(\d+)W)?(?:(\d+)D)?(?:T...)?$` and the `timedelta(...)` sum in seconds.
    `$` matches at the end of the string and also just before a final LF. -/
def parseDurBody : Str → Option Nat
  | 'P' :: l =>
    let r1 := optUnit 'W' l
    let r2 := optUnit 'D' r1.2
    let t := parseT r2.2
    if t.2.2.2 = [] ∨ t.2.2.2 = ['\n'] then
      some (r1.1 * 604800 + r2.1 * 86400 + t.1 * 3600 + t.2.1 * 60 + t.2.2.1)
    else none
  | _ => none

/-- `DURATION_REGEX.match(t)` + `timedelta(...)` + sign, in seconds; `none` = ValueError -/
def durFrom : Str → Option Int
  | '-' :: r => (parseDurBody r).map (fun (v : Nat) => -(Int.ofNat v))
  | '+' :: r => (parseDurBody r).map (fun (v : Nat) => Int.ofNat v)
  | r => (parseDurBody r).map (fun (v : Nat) => Int.ofNat v)

def durFromE (t : Str) : CRes Int :=
  match durFrom t with
  | some z => .ok z
  | none => .error .valueError

/-- the regex source this matcher implements (tied to `DURATION_REGEX.pattern` by correspondence) -/
def durationRegexSource : String :=
  "([-+]?)P(?:(\\d+)W)?(?:(\\d+)D)?(?:T(?:(\\d+)H)?(?:(\\d+)M)?(?:(\\d+)S)?)?$"

/-! ## UTC-OFFSET -/

/-- `vUTCOffset(td).to_ical()` for `td` = `s` seconds (any magnitude: the encoder does not check
    the 24 h bound) -/
def offTo (s : Int) : Str :=
  let a := s.natAbs
  let hours := a / 3600
  let minutes := a % 3600 / 60
  let seconds := a % 60
  (if s < 0 then '-' else '+') ::
    (if seconds ≠ 0 then pad 2 hours ++ pad 2 minutes ++ pad 2 seconds
     else pad 2 hours ++ pad 2 minutes)

/-- `vUTCOffset.from_ical(t)` (`ignore_exceptions = False`): the sign character is not validated,
    only `'-'` negates; `int(t[5:7] or 0)`; refused iff the unsigned offset is `>= 24 h`. -/
def offFrom (t : Str) : CRes Int := do
  let sign := slice t 0 1
  let h ← pyIntE (slice t 1 3)
  let m ← pyIntE (slice t 3 5)
  let sec ← if (slice t 5 7).isEmpty then pure 0 else pyIntE (slice t 5 7)
  let offset := h * 3600 + m * 60 + sec
  if offset ≥ 86400 then .error .valueError
  else if sign = ['-'] then .ok (-offset) else .ok offset

/-! ## INTEGER, BOOLEAN -/

/-- `vInt(z).to_ical()` : `str(int)` -/
def intTo (z : Int) : Str := intToStr z
/-- `vInt.from_ical(t)` : `int(t)` -/
def intFrom (t : Str) : CRes Int := pyIntE t

def boolTo (b : Bool) : Str := if b then ['T', 'R', 'U', 'E'] else ['F', 'A', 'L', 'S', 'E']
/-- `vBoolean.from_ical(t)` : lookup in a `CaselessDict` (key upper-cased) -/
def boolFrom (t : Str) : CRes Bool :=
  let u := upper t
  if u = ['T', 'R', 'U', 'E'] then .ok true
  else if u = ['F', 'A', 'L', 'S', 'E'] then .ok false
  else .error .valueError

/-! ## weekday, frequency, month -/

/-- `vWeekday.week_days` keys, in table order (generated from the source) -/
def weekDays : List Str := Gen.weekDays.map (fun p => p.1)

/-- `vFrequency.frequencies` keys (generated from the source) -/
def frequencies : List Str := Gen.frequencies

/-- ASCII `\w` -/
def isWordC (c : Char) : Bool :=
  isDigit c || ('a' ≤ c && c ≤ 'z') || ('A' ≤ c && c ≤ 'Z') || c == '_'

/-- a `vWeekday` object: the string itself and its two attributes -/
structure WeekdayV where
  text : Str
  weekday : Str
  relative : Option Int
deriving DecidableEq, Repr, Inhabited

/-- `vWeekday(s)` : `WEEKDAY_RULE = ([+-]?)([\d]{0,2})([\w]{2})$` matched from the start.  After
    the sign the remaining text (less one final LF, which `$` tolerates) must be 0-2 digits
    followed by exactly two word characters, so its length fixes how the groups split. -/
def vWeekdayNew (s : Str) : CRes WeekdayV :=
  let sr : Str × Str := match s with
    | '+' :: r => (['+'], r)
    | '-' :: r => (['-'], r)
    | r => ([], r)
  let body := if sr.2.getLast? = some '\n' then sr.2.dropLast else sr.2
  if 2 ≤ body.length ∧ body.length ≤ 4 then
    let rel := body.take (body.length - 2)
    let wd := body.drop (body.length - 2)
    if rel.all isDigit && wd.all isWordC then
      if weekDays.contains (upper wd) then
        let n := ofDigits rel
        let relative : Option Int :=
          if n = 0 then none else if sr.1 = ['-'] then some (-(n : Int)) else some (n : Int)
        .ok ⟨s, wd, relative⟩
      else .error .valueError
    else .error .valueError
  else .error .valueError

/-- `vWeekday.from_ical(t)` : `cls(t.upper())` -/
def vWeekdayFrom (t : Str) : CRes WeekdayV := vWeekdayNew (upper t)
/-- `vWeekday.to_ical()` : `self.upper()` -/
def vWeekdayTo (v : WeekdayV) : Str := upper v.text

def weekdayRegexSource : String :=
  "(?P<signal>[+-]?)(?P<relative>[\\d]{0,2})(?P<weekday>[\\w]{2})$"

/-- `vFrequency.from_ical(t)` : `cls(t.upper())`, membership in the caseless table -/
def freqFrom (t : Str) : CRes Str :=
  let u := upper t
  if frequencies.contains (upper u) then .ok u else .error .valueError
/-- `vFrequency.to_ical()` -/
def freqTo (s : Str) : Str := upper s

/-- `vMonth(s)` for a `str` : value and leap flag.  As written: a digit string is the month; any
    other string loses its last character, which must be `L` only if the rest is a digit string
    (the `and` in the source), and `int()` of the rest decides.  The empty string raises
    IndexError. No range check. -/
def vMonthNew (s : Str) : CRes (Int × Bool) :=
  if isDigitStr s then .ok ((ofDigits s : Nat), false)
  else
    match s.getLast? with
    | none => .error .indexError
    | some l =>
      let pre := s.dropLast
      if l ≠ 'L' ∧ isDigitStr pre = true then .error .valueError
      else
        match pyInt pre with
        | some z => .ok (z, true)
        | none => .error .valueError

def vMonthFrom (t : Str) : CRes (Int × Bool) := vMonthNew t
/-- `vMonth.to_ical()` : `f"{int(self)}{'L' if self.leap else ''}"` -/
def vMonthTo (n : Int) (leap : Bool) : Str := intToStr n ++ (if leap then ['L'] else [])

/-! ## vDDDTypes and PERIOD -/

inductive Atom where
  | date (d : PDate)
  | dt (t : PDateTime)
  | time (t : PTime)
  | dur (s : Int)
deriving DecidableEq, Repr, Inhabited

inductive DDD where
  | atom (a : Atom)
  | period (a b : Atom)
deriving DecidableEq, Repr, Inhabited

/-- `vDDDTypes(x).to_ical()` for the four scalar kinds -/
def atomTo : Atom → Str
  | .date d => vDateTo d
  | .dt t => vDatetimeTo t
  | .time t => vTimeTo t
  | .dur s => durTo s

/-- `vPeriod((start, end_or_duration)).to_ical()` -/
def vPeriodTo (a b : Atom) : Str := atomTo a ++ '/' :: atomTo b

/-- the body of `vDDDTypes.from_ical(t)`, with the period decoder it calls as a parameter -/
def dddCore (per : Str → CRes DDD) (t : Str) : CRes DDD :=
  let u := upper t
  if startsWith u ['P'] || startsWith u ['-', 'P'] || startsWith u ['+', 'P'] then
    (durFromE t).map (fun s => .atom (.dur s))
  else if u.contains '/' then per t
  else if t.length = 15 ∨ t.length = 16 then (vDatetimeFrom t).map (fun x => .atom (.dt x))
  else if t.length = 8 then (vDateFrom t).map (fun x => .atom (.date x))
  else if t.length = 6 ∨ t.length = 7 then (vTimeFrom t).map (fun x => .atom (.time x))
  else .error .valueError

/-- `vPeriod.from_ical(t)` : exactly two `/`-separated parts, each through `vDDDTypes.from_ical`
    (a part contains no `/`, so the inner call never reaches the period branch) -/
def vPeriodFrom (t : Str) : CRes DDD :=
  match splitOnChar '/' t with
  | [a, b] =>
    match dddCore (fun _ => .error .valueError) a, dddCore (fun _ => .error .valueError) b with
    | .ok (.atom x), .ok (.atom y) => .ok (.period x y)
    | _, _ => .error .valueError
  | _ => .error .valueError

/-- `vDDDTypes.from_ical(t)` with `timezone=None` -/
def dddFrom (t : Str) : CRes DDD := dddCore vPeriodFrom t

/-- `vGeo.from_ical(t)` up to the two `float()` calls: the two parts of `t.split(";")` -/
def geoParts (t : Str) : CRes (Str × Str) :=
  match splitOnChar ';' t with
  | [a, b] => .ok (a, b)
  | _ => .error .valueError

/-! ## The spec side: RFC 5545 section 3.3 value grammars

  Each `rfcX : Str → Option V` is a recogniser for the ABNF of the value type that also returns
  the value the RFC assigns to the text; `xText t = (rfcX t).isSome` is the Bool recogniser.
  Written from the RFC, independently of the decoders above (they share only `isDigit`,
  `ofDigits`, `spanDigits` and the calendar predicates).

  Value-domain restrictions (stated, see harness/props/C03.py ASSUMPTIONS): the ABNF admits year
  `0000`, second `60` (leap second) and arbitrarily long digit strings; `datetime` has no such
  values, so the recognisers are restricted to years 0001-9999 and seconds 00-59 (the property
  quantifies over "every calendar date 0001-9999, every second of the day").
-/

def num2 (a b : Char) : Nat := ofDigits [a, b]
def num4 (a b c d : Char) : Nat := ofDigits [a, b, c, d]

/-- 3.3.4 `date = date-fullyear date-month date-mday` -/
def rfcDate : Str → Option PDate
  | [a, b, c, d, e, f, g, h] =>
    if isDigit a && isDigit b && isDigit c && isDigit d && isDigit e && isDigit f && isDigit g
        && isDigit h && validDate (num4 a b c d) (num2 e f) (num2 g h) then
      some ⟨num4 a b c d, num2 e f, num2 g h⟩
    else none
  | _ => none

/-- 3.3.12 `time = time-hour time-minute time-second [time-utc]` -/
def rfcTime : Str → Option PTime
  | [a, b, c, d, e, f] =>
    if isDigit a && isDigit b && isDigit c && isDigit d && isDigit e && isDigit f
        && validTime (num2 a b) (num2 c d) (num2 e f) then
      some ⟨num2 a b, num2 c d, num2 e f, false⟩
    else none
  | [a, b, c, d, e, f, 'Z'] =>
    if isDigit a && isDigit b && isDigit c && isDigit d && isDigit e && isDigit f
        && validTime (num2 a b) (num2 c d) (num2 e f) then
      some ⟨num2 a b, num2 c d, num2 e f, true⟩
    else none
  | _ => none

/-- 3.3.5 `date-time = date "T" time` (forms 1 and 2; form 3 differs only by the TZID parameter) -/
def rfcDateTime : Str → Option PDateTime
  | a :: b :: c :: d :: e :: f :: g :: h :: 'T' :: rest =>
    match rfcDate [a, b, c, d, e, f, g, h], rfcTime rest with
    | some dt, some tm => some ⟨dt, tm.h, tm.mi, tm.s, tm.utc⟩
    | _, _ => none
  | _ => none

/-- `1*DIGIT` followed by the unit letter `u`: value and the rest -/
def rfcNum (u : Char) (l : Str) : Option (Nat × Str) :=
  match spanDigits l with
  | ([], _) => none
  | (_, []) => none
  | (ds, c :: rest) => if c = u then some (ofDigits ds, rest) else none

/-- `dur-second = 1*DIGIT "S"` -/
def rfcDurSecond (l : Str) : Option Nat :=
  match rfcNum 'S' l with
  | some (n, []) => some n
  | _ => none

/-- `dur-minute = 1*DIGIT "M" [dur-second]` -/
def rfcDurMinute (l : Str) : Option Nat :=
  match rfcNum 'M' l with
  | some (n, []) => some (n * 60)
  | some (n, r) => (rfcDurSecond r).map (fun s => n * 60 + s)
  | none => none

/-- `dur-hour = 1*DIGIT "H" [dur-minute]` -/
def rfcDurHour (l : Str) : Option Nat :=
  match rfcNum 'H' l with
  | some (n, []) => some (n * 3600)
  | some (n, r) => (rfcDurMinute r).map (fun s => n * 3600 + s)
  | none => none

/-- `dur-time = "T" (dur-hour / dur-minute / dur-second)` -/
def rfcDurTime : Str → Option Nat
  | 'T' :: l => (rfcDurHour l).orElse fun _ => (rfcDurMinute l).orElse fun _ => rfcDurSecond l
  | _ => none

/-- `dur-week = 1*DIGIT "W"` -/
def rfcDurWeek (l : Str) : Option Nat :=
  match rfcNum 'W' l with
  | some (n, []) => some (n * 604800)
  | _ => none

/-- `dur-date = dur-day [dur-time]`, `dur-day = 1*DIGIT "D"` -/
def rfcDurDate (l : Str) : Option Nat :=
  match rfcNum 'D' l with
  | some (n, []) => some (n * 86400)
  | some (n, r) => (rfcDurTime r).map (fun s => n * 86400 + s)
  | none => none

/-- `"P" (dur-date / dur-time / dur-week)` -/
def rfcDurBody : Str → Option Nat
  | 'P' :: l => (rfcDurDate l).orElse fun _ => (rfcDurTime l).orElse fun _ => rfcDurWeek l
  | _ => none

/-- 3.3.6 `dur-value = (["+"] / "-") "P" (dur-date / dur-time / dur-week)`, value in seconds -/
def rfcDuration : Str → Option Int
  | '-' :: r => (rfcDurBody r).map (fun (v : Nat) => -(Int.ofNat v))
  | '+' :: r => (rfcDurBody r).map (fun (v : Nat) => Int.ofNat v)
  | r => (rfcDurBody r).map (fun (v : Nat) => Int.ofNat v)

/-- 3.3.14 `utc-offset = ("+" / "-") time-hour time-minute [time-second]`; `-0000` and `-000000`
    are not allowed, the second must not be 60. Value in seconds. -/
def rfcUtcOffset : Str → Option Int
  | [sg, a, b, c, d] =>
    if (sg == '+' || sg == '-') && isDigit a && isDigit b && isDigit c && isDigit d
        && num2 a b < 24 && num2 c d < 60 then
      let v : Nat := num2 a b * 3600 + num2 c d * 60
      if sg == '-' then (if v = 0 then none else some (-(v : Int))) else some (v : Int)
    else none
  | [sg, a, b, c, d, e, f] =>
    if (sg == '+' || sg == '-') && isDigit a && isDigit b && isDigit c && isDigit d && isDigit e
        && isDigit f && num2 a b < 24 && num2 c d < 60 && num2 e f < 60 then
      let v : Nat := num2 a b * 3600 + num2 c d * 60 + num2 e f
      if sg == '-' then (if v = 0 then none else some (-(v : Int))) else some (v : Int)
    else none
  | _ => none

/-- 3.3.8 `integer = (["+"] / "-") 1*DIGIT` -/
def rfcInteger : Str → Option Int
  | '-' :: r => if isDigitStr r then some (-(ofDigits r : Nat)) else none
  | '+' :: r => if isDigitStr r then some (ofDigits r : Nat) else none
  | r => if isDigitStr r then some (ofDigits r : Nat) else none

/-- 3.3.2 `boolean = "TRUE" / "FALSE"` (case-insensitive) -/
def rfcBoolean (t : Str) : Option Bool :=
  if upper t = ['T', 'R', 'U', 'E'] then some true
  else if upper t = ['F', 'A', 'L', 'S', 'E'] then some false
  else none

/-- 3.3.9 `period = period-explicit / period-start`:
    `date-time "/" date-time` or `date-time "/" dur-value` -/
def rfcPeriod (t : Str) : Option DDD :=
  match splitOnChar '/' t with
  | [a, b] =>
    match rfcDateTime a with
    | none => none
    | some s =>
      match rfcDateTime b with
      | some e => some (.period (.dt s) (.dt e))
      | none => (rfcDuration b).map (fun d => .period (.dt s) (.dur d))
  | _ => none

/-- `[plus / minus]` : (some true = minus, some false = plus, none) and the rest -/
def rfcSignSplit : Str → Option Bool × Str
  | '+' :: r => (some false, r)
  | '-' :: r => (some true, r)
  | r => (none, r)

/-- 3.3.10 `weekdaynum = [[plus / minus] ordwk] weekday`, `ordwk = 1*2DIGIT ;1 to 53`:
    (day index in `weekDays`, signed ordinal or none) -/
def rfcWeekdayNum (t : Str) : Option (Nat × Option Int) :=
  let sr := rfcSignSplit t
  let day (w : Str) : Option Nat :=
    let i := weekDays.idxOf w
    if i < 7 then some i else none
  match sr.1, sr.2 with
  | none, [x, y] => (day [x, y]).map (fun i => (i, none))
  | sg, [a, x, y] =>
    if isDigit a && 1 ≤ digitVal a then
      (day [x, y]).map (fun i => (i, some (if sg = some true then -(digitVal a : Int) else (digitVal a : Int))))
    else none
  | sg, [a, b, x, y] =>
    if isDigit a && isDigit b && 1 ≤ num2 a b && num2 a b ≤ 53 then
      (day [x, y]).map (fun i => (i, some (if sg = some true then -(num2 a b : Int) else (num2 a b : Int))))
    else none
  | _, _ => none

/-- 3.3.10 `freq` -/
def rfcFreq (t : Str) : Option Str := if frequencies.contains t then some t else none

/-- 3.3.10 `monthnum = 1*2DIGIT ;1 to 12`, with the RFC 7529 leap-month suffix `L` -/
def rfcMonth (t : Str) : Option (Int × Bool) :=
  let core (r : Str) (leap : Bool) : Option (Int × Bool) :=
    match r with
    | [a] => if isDigit a && 1 ≤ digitVal a then some ((digitVal a : Nat), leap) else none
    | [a, b] => if isDigit a && isDigit b && 1 ≤ num2 a b && num2 a b ≤ 12 then some ((num2 a b : Nat), leap) else none
    | _ => none
  if t.getLast? = some 'L' then core t.dropLast true else core t false

def dateText (t : Str) : Bool := (rfcDate t).isSome
def timeText (t : Str) : Bool := (rfcTime t).isSome
def dateTimeText (t : Str) : Bool := (rfcDateTime t).isSome
def durText (t : Str) : Bool := (rfcDuration t).isSome
def utcOffsetText (t : Str) : Bool := (rfcUtcOffset t).isSome
def integerText (t : Str) : Bool := (rfcInteger t).isSome
def booleanText (t : Str) : Bool := (rfcBoolean t).isSome
def periodText (t : Str) : Bool := (rfcPeriod t).isSome
def weekdayText (t : Str) : Bool := (rfcWeekdayNum t).isSome
def freqText (t : Str) : Bool := (rfcFreq t).isSome
def monthText (t : Str) : Bool := (rfcMonth t).isSome

end ICal
