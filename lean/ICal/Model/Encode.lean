/-
  Model of building a component through the public API (C02), src/icalendar/cal.py and prop.py:
    Component._encode / Component.add (class chosen by property name through
    `types_factory.for_property`, already-typed values kept, `parameters=` merged with None = delete,
    lists encoded element by element except for the names in `Gen.addListNames`, datetimes of the
    names in `Gen.addUtcNames` forced to UTC, repeated adds accumulated into a list),
    item assignment, the descriptors (create_single_property, create_utc_property, _set_duration,
    Alarm.REPEAT), add_component, and the constructors that derive parameters:
    vDDDTypes.__init__ (VALUE=DATE / TIME / PERIOD, TZID), vDDDLists.__init__ (uniform VALUE, one
    TZID), vPeriod.__init__ (validity, VALUE=PERIOD, TZID of the start), vBinary.__init__.
  The result is the tree of Model/Tree.lean: per value its Python class, the text of `to_ical()`
  and its parameter map - exactly what serialisation (Model/Ser.lean) observes.

  Python values (`PyVal`).  A `datetime` carries what the code asks of it: the wall-clock fields,
  `tzid_from_dt(dt)` (`none` = naive, `some "UTC"`, `some id`) and the wall-clock fields of
  `dt.astimezone(UTC)` (library arithmetic, supplied with the value; C11 is about the zone
  provider).  `timedelta` = whole seconds.  `float` = the text of `str(x)` (library).  A recurrence
  rule = the text of `vRecur(d).to_ical()` (C19).  Base64 = library.
  Outside the model (`unmodelled`): `str()` of objects other than str/int/bool/float/date when a
  textual class is chosen, `int(float)`, `float('1')` of the characters of a string given to GEO,
  non-ASCII digits, recurrence dictionaries given to other classes, microseconds, year overflow.

  The spec side (RFC 5545 sections 3.7 and 3.8): `rfc5545Props`, every property name with its
  default value type, the alternative value types and whether the value is a COMMA list.
-/
import ICal.Model.Parse
import ICal.Model.Codec
import ICal.Model.Text
namespace ICal.Enc

/-! ## The spec side: RFC 5545 value types and properties -/

inductive RfcType where
  | binary | boolean | calAddress | date | dateTime | duration | float | integer
  | period | recur | text | time | uri | utcOffset
deriving DecidableEq, Repr, Inhabited

/-- the name written in a `VALUE=` parameter (RFC 5545 section 3.2.20) -/
def RfcType.valueName : RfcType → Str
  | .binary => "BINARY".toList | .boolean => "BOOLEAN".toList | .calAddress => "CAL-ADDRESS".toList
  | .date => "DATE".toList | .dateTime => "DATE-TIME".toList | .duration => "DURATION".toList
  | .float => "FLOAT".toList | .integer => "INTEGER".toList | .period => "PERIOD".toList
  | .recur => "RECUR".toList | .text => "TEXT".toList | .time => "TIME".toList | .uri => "URI".toList
  | .utcOffset => "UTC-OFFSET".toList

structure RfcProp where
  /-- property name, upper case -/
  name : Str
  /-- "Value Type" of the property's section: the default -/
  default : RfcType
  /-- the other value types the section allows (selected with the VALUE parameter) -/
  alts : List RfcType
  /-- the value is a COMMA-separated list of values of the type -/
  multi : Bool
deriving DecidableEq, Repr

private def p (n : String) (d : RfcType) (alts : List RfcType := []) (multi : Bool := false) : RfcProp :=
  ⟨n.toList, d, alts, multi⟩

/-- RFC 5545 sections 3.7.1-3.7.4 and 3.8.1.1-3.8.8.3, in the order of the document.
    (GEO: "FLOAT. The value MUST be two SEMICOLON-separated FLOAT values.") -/
def rfc5545Props : List RfcProp := [
  -- 3.7 calendar properties
  p "CALSCALE" .text, p "METHOD" .text, p "PRODID" .text, p "VERSION" .text,
  -- 3.8.1 descriptive
  p "ATTACH" .uri [.binary], p "CATEGORIES" .text [] true, p "CLASS" .text, p "COMMENT" .text,
  p "DESCRIPTION" .text, p "GEO" .float, p "LOCATION" .text, p "PERCENT-COMPLETE" .integer,
  p "PRIORITY" .integer, p "RESOURCES" .text [] true, p "STATUS" .text, p "SUMMARY" .text,
  -- 3.8.2 date and time
  p "COMPLETED" .dateTime, p "DTEND" .dateTime [.date], p "DUE" .dateTime [.date],
  p "DTSTART" .dateTime [.date], p "DURATION" .duration, p "FREEBUSY" .period [] true, p "TRANSP" .text,
  -- 3.8.3 time zone
  p "TZID" .text, p "TZNAME" .text, p "TZOFFSETFROM" .utcOffset, p "TZOFFSETTO" .utcOffset, p "TZURL" .uri,
  -- 3.8.4 relationship
  p "ATTENDEE" .calAddress, p "CONTACT" .text, p "ORGANIZER" .calAddress,
  p "RECURRENCE-ID" .dateTime [.date], p "RELATED-TO" .text, p "URL" .uri, p "UID" .text,
  -- 3.8.5 recurrence
  p "EXDATE" .dateTime [.date] true, p "RDATE" .dateTime [.date, .period] true, p "RRULE" .recur,
  -- 3.8.6 alarm
  p "ACTION" .text, p "REPEAT" .integer, p "TRIGGER" .duration [.dateTime],
  -- 3.8.7 change management
  p "CREATED" .dateTime, p "DTSTAMP" .dateTime, p "LAST-MODIFIED" .dateTime, p "SEQUENCE" .integer,
  -- 3.8.8 miscellaneous (IANA and X- properties default to TEXT)
  p "REQUEST-STATUS" .text]

def rfcProp? (uname : Str) : Option RfcProp := rfc5545Props.find? (fun r => r.name == uname)

/-- default value type of a property name: the table, TEXT for IANA / X- names (section 3.8.8) -/
def defaultType (uname : Str) : RfcType := ((rfcProp? uname).map (·.default)).getD .text

/-! ## The implementation side of the type table -/

/-- `types_factory.types_map.get(name, 'text')`: the type key of a name (caseless) -/
def typeKey (name : Str) : Str :=
  match Gen.typesMap.reverse.find? (fun kv => upper kv.1 == upper name) with
  | some (_, t) => t
  | none => Gen.typesDefault

/-- the RFC value type a key of `TypesFactory` names (the registry keys are the RFC names in lower
    case; `date-time-list`, `categories` and `geo` are the three keys that are not RFC value
    names: lists of DATE-TIME, lists of TEXT, the FLOAT pair) -/
def keyType (key : Str) : Option RfcType :=
  if key == "binary".toList then some .binary else if key == "boolean".toList then some .boolean
  else if key == "cal-address".toList then some .calAddress else if key == "date".toList then some .date
  else if key == "date-time".toList then some .dateTime else if key == "duration".toList then some .duration
  else if key == "float".toList then some .float else if key == "integer".toList then some .integer
  else if key == "period".toList then some .period else if key == "recur".toList then some .recur
  else if key == "text".toList then some .text else if key == "time".toList then some .time
  else if key == "uri".toList then some .uri else if key == "utc-offset".toList then some .utcOffset
  else if key == "date-time-list".toList then some .dateTime else if key == "categories".toList then some .text
  else if key == "geo".toList then some .float else none

/-- the three keys whose class holds a list of values -/
def keyMulti (key : Str) : Bool :=
  key == "date-time-list".toList || key == "categories".toList

def cText : Str := "vText".toList
def cUri : Str := "vUri".toList
def cCalAddress : Str := "vCalAddress".toList
def cInline : Str := "vInline".toList
def cInt : Str := "vInt".toList
def cBoolean : Str := "vBoolean".toList
def cFloat : Str := "vFloat".toList
def cGeo : Str := "vGeo".toList
def cDDD : Str := "vDDDTypes".toList
def cDDDLists : Str := "vDDDLists".toList
def cPeriod : Str := "vPeriod".toList
def cUTCOffset : Str := "vUTCOffset".toList
def cRecur : Str := "vRecur".toList
def cCategory : Str := "vCategory".toList
def cBinary : Str := "vBinary".toList
def cDuration : Str := "vDuration".toList

/-- the RFC value types whose text a value class reads (`from_ical`) and writes.  vDDDTypes is one
    combined class: it tells DATE, DATE-TIME, TIME, DURATION and PERIOD apart by the shape of the
    text; vDDDLists is a COMMA list of those. -/
def classTypes (cls : Str) : List RfcType :=
  if cls == cText || cls == cCategory || cls == cInline then [.text]
  else if cls == cUri then [.uri] else if cls == cCalAddress then [.calAddress]
  else if cls == cInt then [.integer] else if cls == cBoolean then [.boolean]
  else if cls == cFloat || cls == cGeo then [.float]
  else if cls == cDDD || cls == cDDDLists then [.date, .dateTime, .time, .duration, .period]
  else if cls == cPeriod then [.period] else if cls == cUTCOffset then [.utcOffset]
  else if cls == cRecur then [.recur] else if cls == cBinary then [.binary]
  else if cls == cDuration then [.duration] else []

/-! ## Python values -/

structure Wall where
  d : PDate
  h : Nat
  mi : Nat
  s : Nat
deriving DecidableEq, Repr, Inhabited

def Wall.key (w : Wall) : List Nat := [w.d.y, w.d.m, w.d.d, w.h, w.mi, w.s]
def PDate.key (d : PDate) : List Nat := [d.y, d.m, d.d]

/-- lexicographic `<` on equally long field lists -/
def keyLt : List Nat → List Nat → Bool
  | a :: as, b :: bs => a < b || (a == b && keyLt as bs)
  | _, _ => false

def UTC : Str := "UTC".toList

/-- a `datetime.datetime` -/
structure DT where
  wall : Wall
  /-- `tzid_from_dt(dt)` -/
  tzid : Option Str
  /-- wall-clock fields of `dt.astimezone(UTC)`; the wall fields themselves for a naive value -/
  utcWall : Wall
deriving DecidableEq, Repr, Inhabited

/-- what `vDDDTypes` accepts besides a tuple -/
inductive PyAtom where
  | date (d : PDate)
  | dt (t : DT)
  | dur (s : Int)
  | time (t : PTime)      -- naive `datetime.time`
deriving DecidableEq, Repr, Inhabited

inductive PyVal where
  | text (s : Str)
  | int (z : Int)
  | float (repr : Str)
  | bool (b : Bool)
  | atom (a : PyAtom)
  | period (a b : PyAtom)          -- a 2-tuple of date / datetime / timedelta / time
  | geo (lat lon : Str)            -- a 2-tuple of floats: `str(float(x))` of each
  | recur (text : Str)             -- a dict for vRecur: the text `vRecur(d).to_ical()`
  | binary (b64 : Str)             -- `vBinary(obj)`: the text of its `to_ical()`
  | typed (v : Val)                -- any other instance of `types_factory.all_types`
deriving DecidableEq, Repr, Inhabited

/-- the `value` argument of `add`: one object, or a Python `list` of them -/
inductive PyArg where
  | one (v : PyVal)
  | list (xs : List PyVal)
deriving DecidableEq, Repr, Inhabited

/-- the kind of a Python value as the property text names them -/
inductive Kind where
  | text | int | float | bool | date | naiveDt | utcDt | zonedDt (tzid : Str) | duration | time
  | period (start : Kind) | geo | recur | binary | typed (cls : Str)
deriving DecidableEq, Repr, Inhabited

def DT.kind (t : DT) : Kind :=
  match t.tzid with
  | none => .naiveDt
  | some z => if z == UTC then .utcDt else .zonedDt z

def PyAtom.kind : PyAtom → Kind
  | .date _ => .date | .dt t => t.kind | .dur _ => .duration | .time _ => .time

def valueKind : PyVal → Kind
  | .text _ => .text | .int _ => .int | .float _ => .float | .bool _ => .bool
  | .atom a => a.kind | .period a _ => .period a.kind | .geo _ _ => .geo | .recur _ => .recur
  | .binary _ => .binary | .typed v => .typed v.kind

/-- the RFC value type of an emitted value of this kind, where one exists independently of the
    property (dates, times, durations, periods, binary) -/
def Kind.rfcType : Kind → Option RfcType
  | .date => some .date | .naiveDt => some .dateTime | .utcDt => some .dateTime | .zonedDt _ => some .dateTime
  | .duration => some .duration | .time => some .time | .period _ => some .period | .binary => some .binary
  | _ => none

/-! ## Results -/

inductive EncErr where
  | valueError | typeError | unmodelled
deriving DecidableEq, Repr, Inhabited

abbrev Res (α : Type) := Except EncErr α

/-- what `add` stores under the name before accumulation: one value object or a list of them -/
inductive Stored where
  | one (v : Val)
  | many (vs : List Val)
deriving DecidableEq, Repr, Inhabited

/-- `[f(x) for x in xs]` where `f` may raise: the first error wins -/
def mapRes {α β : Type} (f : α → Res β) : List α → Res (List β)
  | [] => .ok []
  | x :: xs =>
    match f x with
    | .error e => .error e
    | .ok y =>
      match mapRes f xs with
      | .error e => .error e
      | .ok ys => .ok (y :: ys)

def mapOpt {α β : Type} (f : α → Option β) : List α → Option (List β)
  | [] => some []
  | x :: xs =>
    match f x, mapOpt f xs with
    | some y, some ys => some (y :: ys)
    | _, _ => none

/-! ## Constructors of the value classes -/

def kVALUE : Str := "VALUE".toList
def kTZID : Str := "TZID".toList
def kENCODING : Str := "ENCODING".toList

/-- text stored for a value whose `to_ical()` raises ValueError (an invalid period inside
    vDDDTypes / vDDDLists is only detected when it is rendered) -/
def toIcalError : Str := '\x00' :: "to_ical-ValueError".toList

def pad4 (n : Nat) : Str := pad 4 n

/-- `str(value)` for the objects the model covers -/
def pyStr : PyVal → Option Str
  | .text s => some s
  | .int z => some (intToStr z)
  | .bool b => some (if b then "True".toList else "False".toList)
  | .float r => some r
  | .atom (.date d) => some (pad 4 d.y ++ '-' :: pad 2 d.m ++ '-' :: pad 2 d.d)
  | _ => none

def Wall.toP (w : Wall) (utc : Bool) : PDateTime := ⟨w.d, w.h, w.mi, w.s, utc⟩

def DT.isUtc (t : DT) : Bool := t.tzid == some UTC

/-- `vDDDTypes(a).to_ical()` -/
def atomText : PyAtom → Str
  | .date d => vDateTo d
  | .dt t => vDatetimeTo (t.wall.toP t.isUtc)
  | .dur s => durTo s
  | .time t => vTimeTo t

/-- TZID as `vDDDTypes.__init__` sets it: `tzid is not None and tzid != 'UTC'` -/
def tzParamDDD (t : DT) : Params :=
  match t.tzid with
  | some z => if z != UTC then [(kTZID, .one z)] else []
  | none => []

/-- TZID as `vPeriod.__init__` and `vDDDLists.__init__` set it: `tzid and tzid != 'UTC'` -/
def tzParamTruthy (t : DT) : Params :=
  match t.tzid with
  | some z => if !z.isEmpty && z != UTC then [(kTZID, .one z)] else []
  | none => []

/-- `vDDDTypes(a).params` -/
def atomParams : PyAtom → Params
  | .date _ => [(kVALUE, .one "DATE".toList)]
  | .dt t => tzParamDDD t
  | .dur _ => []
  | .time _ => [(kVALUE, .one "TIME".toList)]

/-- `start > end` for two datetimes Python can compare; `none` = TypeError (naive with aware) -/
def dtGt (a b : DT) : Option Bool :=
  match a.tzid, b.tzid with
  | none, none => some (keyLt b.wall.key a.wall.key)
  | some _, some _ => some (keyLt b.utcWall.key a.utcWall.key)
  | _, _ => none

/-- `vPeriod((a, b))`: the checks of `__init__`, then `to_ical()`; `none` = ValueError -/
def periodText (a b : PyAtom) : Option Str :=
  match a, b with
  | .date x, .date y => if keyLt (PDate.key y) (PDate.key x) then none else some (vDateTo x ++ '/' :: vDateTo y)
  | .dt x, .dt y =>
    match dtGt x y with
    | some false => some (atomText a ++ '/' :: atomText b)
    | _ => none
  | .date _, .dur s => if s < 0 then none else some (atomText a ++ '/' :: durTo s)
  | .dt _, .dur s => if s < 0 then none else some (atomText a ++ '/' :: durTo s)
  | _, _ => none      -- date with datetime (TypeError inside), a time, a duration as start

def periodParamsDDD (a : PyAtom) : Params :=
  (kVALUE, .one "PERIOD".toList) :: (match a with | .dt t => tzParamDDD t | _ => [])

def periodParamsV (a : PyAtom) : Params :=
  (kVALUE, .one "PERIOD".toList) :: (match a with | .dt t => tzParamTruthy t | _ => [])

/-- `vDDDTypes(v)` for one object -/
def mkDDD (v : PyVal) : Res Val :=
  match v with
  | .atom a => .ok ⟨cDDD, atomText a, atomParams a⟩
  | .period a b => .ok ⟨cDDD, (periodText a b).getD toIcalError, periodParamsDDD a⟩
  | .geo _ _ => .ok ⟨cDDD, toIcalError, [(kVALUE, .one "PERIOD".toList)]⟩
  | _ => .error .valueError

/-- the objects `vDDDLists.__init__` iterates over -/
def listElems : PyArg → Res (List PyVal)
  | .list xs => .ok xs
  | .one (.atom a) => .ok [.atom a]                 -- no `__iter__`: wrapped
  | .one (.period a b) => .ok [.atom a, .atom b]    -- a tuple is iterated
  | .one (.geo _ _) => .error .valueError           -- two floats
  | .one (.text s) => if s.isEmpty then .ok [] else .error .valueError   -- its characters
  | .one (.int _) => .error .valueError
  | .one (.bool _) => .error .valueError
  | .one (.float _) => .error .valueError
  | .one _ => .error .unmodelled

/-- `values = {dt.params.get('VALUE') for dt in vDDD}; len(values) == 1 and None not in values` -/
def uniformValue : List (Option PVal) → Option PVal
  | [] => none
  | v :: rest => if v.isSome && rest.all (· == v) then v else none

/-- the TZID of the last element that has one -/
def lastTzid (vs : List Val) : Option PVal := (vs.reverse.findSome? (fun v => Params.get? v.params kTZID))

def truthy : PVal → Bool
  | .one s => !s.isEmpty
  | .many l => !l.isEmpty

/-- parameters of `vDDDLists(elements)` -/
def listParams (vs : List Val) : Params :=
  (match uniformValue (vs.map (fun v => Params.get? v.params kVALUE)) with
    | some x => [(kVALUE, x)] | none => [])
  ++ (match lastTzid vs with
    | some z => if truthy z then [(kTZID, z)] else [] | none => [])

def listText (vs : List Val) : Str :=
  if vs.any (fun v => v.text == toIcalError) then toIcalError else joinWith [','] (vs.map (·.text))

def mkDDDLists (a : PyArg) : Res Val :=
  match listElems a with
  | .error e => .error e
  | .ok xs =>
    match mapRes mkDDD xs with
    | .error e => .error e
    | .ok vs => .ok ⟨cDDDLists, listText vs, listParams vs⟩

def isAscii (s : Str) : Bool := s.all (fun c => c.toNat < 128)

/-- `int(v)` as the int subclasses (vInt, vBoolean) and `Alarm.REPEAT` call it -/
def pyIntOf : PyVal → Res Int
  | .int z => .ok z
  | .bool b => .ok (if b then 1 else 0)
  | .text s => if !isAscii s then .error .unmodelled else
      match pyInt s with | some z => .ok z | none => .error .valueError
  | .float _ => .error .unmodelled
  | .typed _ => .error .unmodelled      -- int(vText(..)), int(vFloat(..)), ...: by the base class of the object
  | _ => .error .typeError

/-- vText / vUri / vCalAddress / vInline: `str.__new__(cls, value)`; only vText escapes in `to_ical` -/
def mkTextual (cls : Str) (v : PyVal) : Res Val :=
  match pyStr v with
  | some s => .ok ⟨cls, if cls == cText then escapeChar s else s, []⟩
  | none => .error .unmodelled

def mkInt (cls : Str) (v : PyVal) : Res Val :=
  match pyIntOf v with
  | .ok z => .ok ⟨cls, intTo z, []⟩
  | .error e => .error e

def mkBoolean (cls : Str) (v : PyVal) : Res Val :=
  match pyIntOf v with
  | .ok z => .ok ⟨cls, boolTo (z != 0), []⟩
  | .error e => .error e

def mkFloat (cls : Str) (v : PyVal) : Res Val :=
  match v with
  | .float r => .ok ⟨cls, r, []⟩
  | _ => .error .unmodelled

def mkGeo (cls : Str) (v : PyVal) : Res Val :=
  match v with
  | .geo lat lon => .ok ⟨cls, lat ++ ';' :: lon, []⟩
  | .text s => if s.length < 2 then .error .valueError else .error .unmodelled
  | _ => .error .valueError

def mkPeriod (cls : Str) (v : PyVal) : Res Val :=
  match v with
  | .period a b =>
    match periodText a b with
    | some t => .ok ⟨cls, t, periodParamsV a⟩
    | none => .error .valueError
  | .geo _ _ => .error .valueError
  | .text _ => .error .valueError
  | .recur _ => .error .unmodelled
  | _ => .error .typeError            -- cannot unpack a non-iterable object

def mkUTCOffset (cls : Str) (v : PyVal) : Res Val :=
  match v with
  | .atom (.dur s) => .ok ⟨cls, offTo s, []⟩
  | _ => .error .valueError

def mkRecur (cls : Str) (v : PyVal) : Res Val :=
  match v with
  | .recur t => .ok ⟨cls, t, []⟩
  | _ => .error .unmodelled

/-- `vCategory(x)` for one object that is no list: `[x]`, except that a tuple is iterated -/
def mkCategory1 (cls : Str) (v : PyVal) : Res Val :=
  match v with
  | .period _ _ => .error .unmodelled
  | .geo _ _ => .error .unmodelled
  | _ =>
    match pyStr v with
    | some s => .ok ⟨cls, catsToIcal [s], []⟩
    | none => .error .unmodelled

/-- `klass(value)` for one object: the value class constructors -/
def construct1 (cls : Str) (v : PyVal) : Res Val :=
  if cls == cText || cls == cUri || cls == cCalAddress || cls == cInline then mkTextual cls v
  else if cls == cInt then mkInt cls v
  else if cls == cBoolean then mkBoolean cls v
  else if cls == cFloat then mkFloat cls v
  else if cls == cGeo then mkGeo cls v
  else if cls == cDDD then mkDDD v
  else if cls == cDDDLists then mkDDDLists (.one v)
  else if cls == cPeriod then mkPeriod cls v
  else if cls == cUTCOffset then mkUTCOffset cls v
  else if cls == cRecur then mkRecur cls v
  else if cls == cCategory then mkCategory1 cls v
  else .error .unmodelled

/-- `klass(value)` where `value` may be a Python list (only reached for `Gen.addListNames`) -/
def construct (cls : Str) : PyArg → Res Val
  | .one v => construct1 cls v
  | .list xs =>
    if cls == cDDDLists then mkDDDLists (.list xs)
    else if cls == cCategory then
      match mapOpt pyStr xs with
      | some ss => .ok ⟨cls, catsToIcal ss, []⟩
      | none => .error .unmodelled
    else if cls == cDDD || cls == cUTCOffset || cls == cGeo then .error .valueError
    else .error .unmodelled

/-- `vBinary(obj)`: parameters set by the constructor -/
def binaryVal (b64 : Str) : Val :=
  ⟨cBinary, b64, [(kENCODING, .one "BASE64".toList), (kVALUE, .one "BINARY".toList)]⟩

/-! ## `_encode` -/

/-- `obj.params[key] = item` / `del obj.params[key]` for each item of `parameters` (a dict: the
    list is in insertion order); a key is stored upper-cased, an existing key keeps its place -/
def mergeParams (ps : Params) (upd : List (Str × Option PVal)) : Params :=
  upd.foldl (fun acc kv =>
    match kv.2 with
    | none => acc.filter (fun e => e.1 != upper kv.1)
    | some v => Params.put acc (upper kv.1) v) ps

/-- an instance of `types_factory.all_types` is not encoded again -/
def keptTyped : PyVal → Option Val
  | .typed v => some v
  | .binary b => some (binaryVal b)
  | _ => none

/-- `Component._encode(name, value, parameters, encode=1)` for one object -/
def encodeOne (name : Str) (v : PyVal) (upd : List (Str × Option PVal)) : Res Val :=
  match keptTyped v with
  | some o => .ok { o with params := mergeParams o.params upd }
  | none =>
    match construct1 (forProperty name) v with
    | .ok o => .ok { o with params := mergeParams o.params upd }
    | .error e => .error e

/-- `_encode` of a whole list (the names of `Gen.addListNames`) -/
def encodeWhole (name : Str) (a : PyArg) (upd : List (Str × Option PVal)) : Res Val :=
  match a with
  | .one v => encodeOne name v upd
  | .list xs =>
    match construct (forProperty name) (.list xs) with
    | .ok o => .ok { o with params := mergeParams o.params upd }
    | .error e => .error e

/-- `tzp.localize_utc(value)` -/
def DT.toUtc (t : DT) : DT := ⟨t.utcWall, some UTC, t.utcWall⟩

/-- the first statement of `add`: a datetime of the listed names is converted to UTC -/
def forceUtc (name : Str) (a : PyArg) : PyArg :=
  match a with
  | .one (.atom (.dt t)) => if Gen.addUtcNames.contains (lower name) then .one (.atom (.dt t.toUtc)) else a
  | _ => a

/-- the encoding stage of `Component.add(name, value, parameters, encode=1)` -/
def addValue (name : Str) (a : PyArg) (upd : List (Str × Option PVal)) : Res Stored :=
  match forceUtc name a with
  | .list xs =>
    if Gen.addListNames.contains (lower name) then (encodeWhole name (.list xs) upd).map .one
    else (mapRes (fun v => encodeOne name v upd) xs).map .many
  | .one v => (encodeOne name v upd).map .one

/-! ## The property mapping -/

def hasKey (props : List Entry) (k : Str) : Bool := props.any (fun e => e.name == k)

/-- `self[name] = value` (key already upper-cased): an existing key keeps its place -/
def setEntry (props : List Entry) (k : Str) (isList : Bool) (vals : List Val) : List Entry :=
  if hasKey props k then props.map (fun e => if e.name == k then ⟨k, isList, vals⟩ else e)
  else props ++ [⟨k, isList, vals⟩]

/-- `self.pop(name, None)` -/
def popEntry (props : List Entry) (k : Str) : List Entry := props.filter (fun e => e.name != k)

/-- the "set value" stage of `add` -/
def accumulate (props : List Entry) (k : Str) (s : Stored) : List Entry :=
  match props.find? (fun e => e.name == k), s with
  | none, .one v => setEntry props k false [v]
  | none, .many vs => setEntry props k true vs
  | some old, .one v => setEntry props k true (old.vals ++ [v])
  | some old, .many vs => setEntry props k true (old.vals ++ vs)

/-- `Component.add(name, value, parameters)` -/
def addProp (props : List Entry) (name : Str) (a : PyArg) (upd : List (Str × Option PVal)) : Res (List Entry) :=
  (addValue name a upd).map (accumulate props (upper name))

/-- the values stored under a key, in order -/
def valuesOf (props : List Entry) (k : Str) : List Val :=
  match props.find? (fun e => e.name == k) with
  | some e => e.vals
  | none => []

def isListOf (props : List Entry) (k : Str) : Bool :=
  match props.find? (fun e => e.name == k) with
  | some e => e.isList
  | none => false

/-! ## Descriptors -/

def nDTSTART : Str := "DTSTART".toList
def nDTEND : Str := "DTEND".toList
def nDUE : Str := "DUE".toList
def nDURATION : Str := "DURATION".toList
def nTRIGGER : Str := "TRIGGER".toList
def nTZOFFSETFROM : Str := "TZOFFSETFROM".toList
def nTZOFFSETTO : Str := "TZOFFSETTO".toList
def nREPEAT : Str := "REPEAT".toList
def nSTANDARD : Str := "STANDARD".toList
def nDAYLIGHT : Str := "DAYLIGHT".toList

def isDatetime : PyVal → Bool
  | .atom (.dt _) => true | _ => false
def isDateOrDatetime : PyVal → Bool
  | .atom (.dt _) => true | .atom (.date _) => true | _ => false
def isTimedelta : PyVal → Bool
  | .atom (.dur _) => true | _ => false

/-- `isinstance(value, value_type)` of the `create_single_property` descriptors of cal.py -/
def singleAccepts (comp prop : Str) (v : PyVal) : Bool :=
  if prop == nTZOFFSETFROM || prop == nTZOFFSETTO then isTimedelta v
  else if prop == nTRIGGER then isDatetime v || isTimedelta v
  else if prop == nDTSTART && (comp == nSTANDARD || comp == nDAYLIGHT) then isDatetime v
  else isDateOrDatetime v

def singleClass (prop : Str) : Str :=
  if prop == nTZOFFSETFROM || prop == nTZOFFSETTO then cUTCOffset else cDDD

/-- `self.exclusive` of the component's class -/
def exclusiveOf (comp : Str) : List Str := ((classOfName comp).map (·.exclusive)).getD []

/-- setter of a `create_single_property` descriptor; `none` = assigning None -/
def setSingle (comp : Str) (props : List Entry) (prop : Str) (v : Option PyVal) : Res (List Entry) :=
  match v with
  | none => .ok (popEntry props prop)
  | some v =>
    if !singleAccepts comp prop v then .error .typeError else do
    let obj ← construct1 (singleClass prop) v
    let props := setEntry props prop false [obj]
    let excl := exclusiveOf comp
    pure (if excl.contains prop then (excl.filter (· != prop)).foldl popEntry props else props)

/-- setter of a `create_utc_property` descriptor: pop, then store `vDDDTypes(localize_utc(value))` -/
def setUtc (props : List Entry) (name : Str) (v : PyVal) : Res (List Entry) :=
  match v with
  | .atom (.dt t) => .ok (setEntry (popEntry props name) name false [⟨cDDD, atomText (.dt t.toUtc), []⟩])
  | .atom (.date d) =>
    let t : DT := ⟨⟨d, 0, 0, 0⟩, some UTC, ⟨d, 0, 0, 0⟩⟩
    .ok (setEntry (popEntry props name) name false [⟨cDDD, atomText (.dt t), []⟩])
  | _ => .error .typeError

/-- `_set_duration` -/
def setDuration (props : List Entry) (v : Option PyVal) : Res (List Entry) :=
  match v with
  | none => .ok (popEntry props nDURATION)
  | some (.atom (.dur s)) =>
    .ok (popEntry (popEntry (setEntry props nDURATION false [⟨cDuration, durTo s, []⟩]) nDTEND) nDUE)
  | some _ => .error .typeError

/-- `Alarm.REPEAT = value`: stores the plain `int` (rendered through vText when serialised) -/
def setRepeat (props : List Entry) (v : PyVal) : Res (List Entry) :=
  (pyIntOf v).map (fun z => setEntry props nREPEAT false [⟨"int".toList, intToStr z, []⟩])

/-- `Alarm.TRIGGER_RELATED = value`: `trigger.params["RELATED"] = value`; ValueError without a TRIGGER.
    (With several TRIGGER values the stored object is a list: AttributeError, outside the model.) -/
def setRelated (props : List Entry) (v : Str) : Res (List Entry) :=
  match props.find? (fun e => e.name == nTRIGGER) with
  | none => .error .valueError
  | some e =>
    match e.isList, e.vals with
    | false, [t] => .ok (setEntry props nTRIGGER false [{ t with params := Params.put t.params "RELATED".toList (.one v) }])
    | _, _ => .error .unmodelled

/-! ## Building a tree by API calls -/

inductive Op where
  | add (name : Str) (a : PyArg) (upd : List (Str × Option PVal))
  /-- `comp[name] = obj` / `comp[name] = [obj, ...]`: stored as it is -/
  | setItem (name : Str) (isList : Bool) (vals : List Val)
  | setSingle (prop : Str) (v : Option PyVal)
  | setUtc (name : Str) (v : PyVal)
  | setDuration (v : Option PyVal)
  | setRepeat (v : PyVal)
  | setRelated (v : Str)
deriving Repr, Inhabited

def applyOp (comp : Str) (props : List Entry) : Op → Res (List Entry)
  | .add n a upd => addProp props n a upd
  | .setItem n il vs => .ok (setEntry props (upper n) il vs)
  | .setSingle pr v => setSingle comp props pr v
  | .setUtc n v => setUtc props n v
  | .setDuration v => setDuration props v
  | .setRepeat v => setRepeat props v
  | .setRelated v => setRelated props v

/-- outcome of one call, as the caller sees it -/
inductive Outcome where
  | ok | valueError | typeError
deriving DecidableEq, Repr, Inhabited

/-- run the calls in order; a call that raises leaves the mapping unchanged.  `none` = some call is
    outside the model -/
def runOps (comp : Str) : List Entry → List Op → Option (List Entry × List Outcome)
  | props, [] => some (props, [])
  | props, op :: ops =>
    match applyOp comp props op with
    | .ok props' => (runOps comp props' ops).map (fun r => (r.1, .ok :: r.2))
    | .error .valueError => (runOps comp props ops).map (fun r => (r.1, .valueError :: r.2))
    | .error .typeError => (runOps comp props ops).map (fun r => (r.1, .typeError :: r.2))
    | .error .unmodelled => none

/-- a component under construction: its name, the calls made on it, and the components handed to
    `add_component`, in order -/
inductive Spec where
  | mk (name : Str) (ops : List Op) (subs : List Spec)
deriving Repr, Inhabited

mutual
/-- the tree and the outcomes of all calls (components in `walk()` order) -/
def build : Spec → Option (Comp × List Outcome)
  | .mk name ops subs =>
    match runOps name [] ops, buildList subs with
    | some (props, out), some (cs, outs) => some (.mk name props cs, out ++ outs)
    | _, _ => none
def buildList : List Spec → Option (List Comp × List Outcome)
  | [] => some ([], [])
  | s :: ss =>
    match build s, buildList ss with
    | some (c, o), some (cs, os) => some (c :: cs, o ++ os)
    | _, _ => none
end

end ICal.Enc
