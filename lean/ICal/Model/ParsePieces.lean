/-
  The external pieces of the regenerated `Component.from_ical` (ICal/Gen/BodiesParse.lean, tools/py2lean.py) as the
  hand model of ICal/Model/Parse.lean has them: a component under construction is a `PComp` (name, stored entries,
  subcomponents, `errors`), a parameter map is `Params`, a value class and a component class are their names, a
  parsed value is a `Val`; typed decoding is the model's `Dec` (C03's subject), `cache_timezone_component` is the
  model's `tzok`.  Shared by ICal/Lemmas/BodiesParse.lean (the equality proof) and ICal/Driver/BodiesParse.lean
  (the differential op `body_parse`), so that what is run against `icalendar` is what the theorem speaks of.
  The pieces are given BY NAME: the order of the generated parameters follows their first use in the source, and two
  parameters of one type (`ignore_exceptions`, `is_timezone`) must not change places silently when the source changes.
-/
import ICal.Gen.BodiesParse
import ICal.Model.Parse
namespace ICal.Bodies
open ICal ICal.PyRT ICal.Gen.BodiesParse

/-! ## the external pieces of `Component.from_ical`, as the hand model has them -/

def VTZ : Str := ['V','T','I','M','E','Z','O','N','E']
def TZIDs : Str := ['T','Z','I','D']

def partsP (line : Str) : Py (Str × Params × Str) :=
  match ICal.parts line with
  | some r => .ok r
  | none => .error .valueError
def ignoreP : PComp → Bool | .mk n _ _ _ => lenientName n
def errorsAppendP : PComp → Option Str → PComp | .mk n p s e, o => .mk n p s (e ++ [o.getD []])
def instantiateP (k : Str) : PComp := .mk k [] [] []
def nameOfP : PComp → Str | .mk n _ _ _ => n
def setNameP : PComp → Str → PComp | .mk _ p s e, n => .mk n p s e
def addComponentP : PComp → PComp → PComp | .mk n p s e, c => .mk n p (s ++ [c]) e
def isTimezoneP : PComp → Bool | .mk n _ _ _ => n == VTZ
def hasPropertyP : PComp → Str → Bool | .mk _ p _ _, k => p.any (fun e => e.name == k)
def cacheP (tzok : Comp → Bool) (c : PComp) : Py Unit := if tzok c.toComp then .ok () else .error .typeError
def isTextClassP (k : Str) : Bool := Gen.fromIcalTextRaw && textKinds.contains k
def paramsHasP (p : Params) (k : Str) : Bool := (Params.get? p k).isSome
def decodeTzP (dec : Dec) (kind text : Str) (p : Params) : Py Val :=
  match dec kind text (Params.get? p TZIDs) with
  | some t => .ok ⟨kind, t, []⟩
  | none => .error .valueError
def decodeP (dec : Dec) (kind text : Str) : Py Val :=
  match dec kind text none with
  | some t => .ok ⟨kind, t, []⟩
  | none => .error .valueError
def setParamsP (v : Val) (p : Params) : Val := { v with params := p }
def addP : PComp → Str → Val → PComp | .mk n p s e, nm, v => .mk n (addEntry p (upper nm) v) s e

/-- the translated loop with the model's pieces -/
def loopP (tzok : Comp → Bool) (dec : Dec) : List PComp → List PComp → List Str → Py (List PComp × List PComp) :=
  Component_from_ical_loop1 (parts := partsP) (ignore_exceptions := ignoreP) (errors_append := errorsAppendP) (component_class := id)
    (instantiate := instantiateP) (name_of := nameOfP) (set_name := setNameP) (add_component := addComponentP)
    (is_timezone := isTimezoneP) (has_property := hasPropertyP) (cache_timezone_component := cacheP tzok)
    (for_property := forProperty) (is_text_class := isTextClassP) (raw_value := rawValue) (params_has := paramsHasP)
    (decode_tz := decodeTzP dec) (decode := decodeP dec) (set_params := setParamsP) (add := addP)

/-- `Component.from_ical` with the model's pieces -/
def fromIcalP (tzok : Comp → Bool) (dec : Dec) (st : Str) (multiple : Bool) : Py (PyResult PComp) :=
  Component_from_ical (st := st) (multiple := multiple) (lines_from_ical := linesFromIcal) (parts := partsP)
    (ignore_exceptions := ignoreP) (errors_append := errorsAppendP) (component_class := id)
    (instantiate := instantiateP) (name_of := nameOfP) (set_name := setNameP) (add_component := addComponentP)
    (is_timezone := isTimezoneP) (has_property := hasPropertyP) (cache_timezone_component := cacheP tzok)
    (for_property := forProperty) (is_text_class := isTextClassP) (raw_value := rawValue) (params_has := paramsHasP)
    (decode_tz := decodeTzP dec) (decode := decodeP dec) (set_params := setParamsP) (add := addP)

/-- what the caller observes of the result: the trees and the error log (`parseText`'s view); `none` = it raised -/
def fromIcalTrees (tzok : Comp → Bool) (dec : Dec) (multiple : Bool) (st : Str) : Option (List Comp × List (Str × Str)) :=
  match fromIcalP tzok dec st multiple with
  | .ok (.many cs) => some (PComp.toComps cs, PComp.errLogs cs)
  | .ok (.one c) => some (PComp.toComps [c], PComp.errLogs [c])
  | .error _ => none

end ICal.Bodies
