/-
  Driver for the start/end/duration model.
    se <cls> <prov> <op> <op> ...
      cls   E | T | J                      prov  z (zoneinfo) | p (pytz)
      op    s;<acc>;<arg>   comp.<acc> = arg       acc  DTSTART DTEND DUE DURATION start end
            d;<key>         del comp.<KEY>         key  DTSTART DTEND DUE DURATION
            a;<key>;<arg>   comp.add('<key>', arg)
      arg   N (None) | W (str/int) | R (time/period) | D<day> | F<wall> | U<wall> | Z<zone>:<wall>:<off> | T<seconds>
    se_last <cls> <prov> <op> ...   the record of the final state only (result field "ok")
    answer: one record for the fresh component and one after every op, joined by '|':
      <op result>;<stored keys>;<DTSTART>;<DTEND or DUE>;<DURATION>;<start>;<end>;<duration>
      values: - (None / no such accessor) | D<day> | F<wall> | U<wall> | Z<zone>:<wall> | T<seconds> | R | !IC !INC !TE !VE !AE
-/
import ICal.Driver.Proto
import ICal.Model.StartEnd
namespace ICal.Driver
open ICal.SE

namespace SEP

def tail1 (s : String) : String := String.ofList (s.toList.drop 1)

def decArg (s : String) : Option Arg :=
  match s.toList.head? with
  | some 'N' => some .none
  | some 'W' => some .wrong
  | some 'R' => some (.val .raw)
  | some 'D' => (tail1 s).toInt?.map (fun d => .val (.date d))
  | some 'F' => (tail1 s).toInt?.map (fun d => .val (.floating d))
  | some 'U' => (tail1 s).toInt?.map (fun d => .val (.utc d))
  | some 'T' => (tail1 s).toInt?.map (fun d => .val (.dur d))
  | some 'Z' =>
    match (tail1 s).splitOn ":" with
    | [z, w, o] => do
      let z ← z.toNat?
      let w ← w.toInt?
      let o ← o.toInt?
      pure (.val (.zoned z w o))
    | _ => none
  | _ => none

def decKey (s : String) : Option Key :=
  match s with
  | "DTSTART" => some .dtstart
  | "DTEND" => some .dtend
  | "DUE" => some .due
  | "DURATION" => some .duration
  | _ => none

def decAcc (s : String) : Option Acc :=
  match s with
  | "start" => some .start
  | "end" => some .end
  | _ => (decKey s).map .prop

def decOp (s : String) : Option Op :=
  match s.splitOn ";" with
  | ["s", a, x] => do pure (.set (← decAcc a) (← decArg x))
  | ["d", k] => do pure (.del (← decKey k))
  | ["a", k, x] => do pure (.add (← decKey k) (← decArg x))
  | _ => none

def decCls (s : String) : Option Cls :=
  match s with
  | "E" => some .event
  | "T" => some .todo
  | "J" => some .journal
  | _ => none

def decProv (s : String) : Option Prov :=
  match s with
  | "z" => some .zoneinfo
  | "p" => some .pytz
  | _ => none

def encErr : Err → String
  | .invalidCalendar => "!IC"
  | .incompleteComponent => "!INC"
  | .typeError => "!TE"
  | .valueError => "!VE"
  | .attributeError => "!AE"

def encVal : Val → String
  | .date d => "D" ++ toString d
  | .floating w => "F" ++ toString w
  | .utc w => "U" ++ toString w
  | .zoned z w _ => "Z" ++ toString z ++ ":" ++ toString w
  | .dur x => "T" ++ toString x
  | .raw => "R"

def encOV : Except Err (Option Val) → String
  | .error e => encErr e
  | .ok none => "-"
  | .ok (some v) => encVal v

def encV : Except Err Val → String
  | .error e => encErr e
  | .ok v => encVal v

def encOD : Except Err (Option Int) → String
  | .error e => encErr e
  | .ok none => "-"
  | .ok (some x) => "T" ++ toString x

def encD : Except Err Int → String
  | .error e => encErr e
  | .ok x => "T" ++ toString x

def encKeys (s : St) : String :=
  let k := (if s.dtstart.present then "S" else "") ++ (if s.dtend.present then "E" else "") ++
           (if s.due.present then "U" else "") ++ (if s.duration.present then "D" else "")
  if k.isEmpty then "-" else k

def record (p : Prov) (c : Cls) (res : String) (s : St) : String :=
  let hasEnd := c != .journal
  ";".intercalate [res, encKeys s, encOV (getProp s.dtstart),
    (if hasEnd then encOV (getProp (s.get (endKey c))) else "-"),
    (if hasEnd then encOD (getDur s.duration) else "-"),
    encV (getStart c s), encV (getEnd c s), encD (getDuration p c s)]

def runRecords (p : Prov) (c : Cls) : St → List Op → List String
  | _, [] => []
  | s, op :: rest =>
    let r := step c s op
    let s' := next c s op
    record p c (match r with
                | .ok _ => "ok"
                | .error e => encErr e) s' :: runRecords p c s' rest

end SEP

def handleStartEnd (op : String) (args : List String) : Option String :=
  match op, args with
  | "se", c :: p :: ops =>
    match SEP.decCls c, SEP.decProv p, ops.mapM SEP.decOp with
    | some c, some p, some ops =>
      if ops.all (Op.inDomain c) then
        some ("|".intercalate (SEP.record p c "new" St.init :: SEP.runRecords p c St.init ops))
      else some "unmodelled"
    | _, _, _ => none
  | "se_last", c :: p :: ops =>
    match SEP.decCls c, SEP.decProv p, ops.mapM SEP.decOp with
    | some c, some p, some ops =>
      if ops.all (Op.inDomain c) then some (SEP.record p c "ok" (run c St.init ops))
      else some "unmodelled"
    | _, _, _ => none
  | _, _ => none

end ICal.Driver
