/-
  Driver op of the regenerated `Alarms.times` (ICal/Gen/BodiesAlarm.lean, tools/py2lean.py): the translator's own
  differential test for C14.
    body_al_times <arguments of al_times> -> as al_times: "ok" { "|" index ":" trig ";" acknowledged ";" is_active ";" trigger } | err:<E>
  The state is built as for `al_times` (Driver/Alarm.lean); the times are computed by the translated `Alarms.times`
  with the pieces of ICal/Model/AlarmPieces.lean, and what is shown of each alarm time is computed by the translated
  `AlarmTime.acknowledged` / `is_active` / `trigger`.
-/
import ICal.Driver.Alarm
import ICal.Driver.BodiesProto
import ICal.Model.AlarmPieces
namespace ICal.Driver
open ICal.Proto ICal.Alarms ICal.PyRT ICal.Gen.BodiesAlarm

private def encOptTrigI : Option Trig → String
  | none => "-"
  | some (.aware i) => toString i
  | some t => AlarmP.encTrig t

private def encTup (as : List VAlarm) (x : Bodies.ATup) : String :=
  let ka := Bodies.awareOpt x.1.acknowledged
  toString (as.idxOf x.1) ++ ":" ++ AlarmP.encTrig x.2.1 ++ ";" ++
    (match AlarmTime_acknowledged (alarm_acknowledged := ka) (last_ack := x.2.2.1) with | .ok o => encOptTrigI o | .error e => pyExcName e) ++ ";" ++
    (match AlarmTime_is_active (alarm_acknowledged := ka) (last_ack := x.2.2.1) (snooze_until := x.2.2.2) (trigger_raw := x.2.1) (to_datetime := toDatetime) with | .ok true => "1" | .ok false => "0" | .error e => pyExcName e) ++ ";" ++
    (match AlarmTime_trigger (snooze_until := x.2.2.2) (trigger_raw := x.2.1) (to_datetime := toDatetime) with | .ok v => AlarmP.encTrig v | .error e => pyExcName e)

def handleBodiesAlarmTimes (op : String) (args : List String) : Option String :=
  match op, args with
  | "body_al_times", args =>
    AlarmP.withState args fun loc s as =>
      match Bodies.timesP loc s with
      | .ok ts => "ok" ++ String.join (ts.map (fun x => "|" ++ encTup as x))
      | .error e => pyExcName e
  | _, _ => none

end ICal.Driver
