/-
  Driver op of the regenerated `Alarms.times` (ICal/Gen/BodiesAlarm.lean, tools/py2lean.py): the translator's own
  differential test for C14.
    body_al_times <arguments of al_times> -> as al_times: "ok" { "|" index ":" trig ";" acknowledged ";" is_active ";" trigger } | err:<E>
    body_al_state <arguments of al_times> -> "ok " abs ";" start ";" end ";" _start ";" _end ";" _last_ack ";" _snooze_until
        (the three lists as comma separated indices into the component's alarms) | err:<E>
  Everything is computed by translated code: the state by `Alarms.add_component` (with `set_parent`, `set_start`,
  `set_end`, `acknowledge_until`, `snooze_until`, `add_alarm`) from the empty object, the explicit setter calls by the
  translated setters, the times by `Alarms.times`, what is shown of each alarm time by `AlarmTime.acknowledged` /
  `is_active` / `trigger`; the pieces are those of ICal/Model/AlarmPieces.lean.  The hand model's front end is only
  asked whether the case is modelled at all (`unmodelled` for a non-ASCII RELATED value or an untabulated wall time).
-/
import ICal.Driver.Alarm
import ICal.Driver.BodiesProto
import ICal.Model.AlarmPieces
namespace ICal.Driver
open ICal.Proto ICal.Alarms ICal.PyRT ICal.Gen.BodiesAlarm

private def encOptTrigI : Option Trig → String
  | none => "-"
  | some (.aware i) => toString i
  | some t => AlarmP.encTrig t

private def encTup (as : List VAlarm) (x : Bodies.ATup) : String :=
  let ka := Bodies.awareOpt x.1.acknowledged
  toString (as.idxOf x.1) ++ ":" ++ AlarmP.encTrig x.2.1 ++ ";" ++
    (match AlarmTime_acknowledged (alarm_acknowledged := ka) (last_ack := x.2.2.1) with | .ok o => encOptTrigI o | .error e => pyExcName e) ++ ";" ++
    (match AlarmTime_is_active (alarm_acknowledged := ka) (last_ack := x.2.2.1) (snooze_until := x.2.2.2) (trigger_raw := x.2.1) (to_datetime := toDatetime) with | .ok true => "1" | .ok false => "0" | .error e => pyExcName e) ++ ";" ++
    (match AlarmTime_trigger (snooze_until := x.2.2.2) (trigger_raw := x.2.1) (to_datetime := toDatetime) with | .ok v => AlarmP.encTrig v | .error e => pyExcName e)

/-- `Alarms(component)`, the explicit setter calls, `set_local_timezone`: all through the translated methods -/
private def stateOf (args : List String) : Option ((Int → Int) × Bool × Py Bodies.Fields × List VAlarm) :=
  match args with
  | [p, st, en, as, ltz, _tag] =>
    match AlarmP.decParent p, AlarmP.decTrigO st, AlarmP.decTrigO en, AlarmP.decAlarms as, AlarmP.decLocal ltz with
    | some (p, ackCall, snoozeCall), some st, some en, some as, some ltz =>
      let c : Bodies.CompView := ⟨p, st, en, as⟩
      let f : Py Bodies.Fields := do
        let f ← Bodies.alarmsAddComponentP c (Bodies.fieldsOf {} none)
        let (ab, sa, ea, s0, e0, la, sn, par) := f
        let la := match ackCall with
          | some v => Alarms_acknowledge_until (dt := Bodies.awareOpt v) (last_ack := la) (localize_utc := id)
          | none => la
        let sn := match snoozeCall with
          | some v => Alarms_snooze_until (dt := Bodies.awareOpt v) (snooze_until_ := sn) (localize_utc := id)
          | none => sn
        pure (ab, sa, ea, s0, e0, la, sn, par)
      match ltz with
      | none => some (fun w => w, false, f, as)
      | some tab => some (AlarmP.lookup tab, true, f, as)
    | _, _, _, _, _ => none
  | _ => none

private def encTrigO' : Option Trig → String
  | none => "-"
  | some t => AlarmP.encTrig t

private def idxs (as xs : List VAlarm) : String := ",".intercalate (xs.map (fun a => toString (as.idxOf a)))

def handleBodiesAlarmTimes (op : String) (args : List String) : Option String :=
  match op, args with
  | "body_al_times", args =>
    -- the conditions under which the hand model's op answers `unmodelled` / `bad-args` are those of `al_times`
    match AlarmP.withState args (fun _ _ _ => "go"), stateOf args with
    | some "go", some (loc, tz, f, as) =>
      match f >>= Bodies.timesF loc tz with
      | .ok ts => some ("ok" ++ String.join (ts.map (fun x => "|" ++ encTup as x)))
      | .error e => some (pyExcName e)
    | r, _ => r
  | "body_al_state", args =>
    match AlarmP.withState args (fun _ _ _ => "go"), stateOf args with
    | some "go", some (_, _, f, as) =>
      match f with
      | .ok (ab, sa, ea, s0, e0, la, sn, _) =>
        some ("ok " ++ idxs as ab ++ ";" ++ idxs as sa ++ ";" ++ idxs as ea ++ ";" ++ encTrigO' s0 ++ ";" ++ encTrigO' e0 ++ ";" ++
          encOptTrigI la ++ ";" ++ encOptTrigI sn)
      | .error e => some (pyExcName e)
    | r, _ => r
  | _, _ => none

end ICal.Driver
