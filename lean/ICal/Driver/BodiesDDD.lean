/-
  Driver ops of the regenerated `vDDDTypes.from_ical` / `vPeriod.from_ical` / `vDDDTypes.to_ical` / `vPeriod.to_ical`
  (ICal/Gen/BodiesDec.lean, ICal/Gen/Bodies.lean, tools/py2lean.py): the translator's own differential test for C03.
    body_ddd_from text     -> as c_ddd_from of Driver/Codec.lean      (ok:<ddd> | err:<E>; unmodelled for non-ASCII text)
    body_period_from text  -> as c_period_from
    body_atom_to atom      -> as c_atom_to
    body_month_from text   -> as c_month_from (the regenerated vMonth.__new__ on a str)
    body_period_to atom atom -> as c_period_to   (unmodelled when two datetimes have the same fields and different UTC flags:
                                                 the translated code sees the flag only through `tzid_from_dt` of the fields)
    body_ddl_from text     -> the regenerated vDDDLists.from_ical (wave 8): ok:<ddd>;<ddd>.. | err:<E>
    body_ddl_to text ...   -> the regenerated vDDDLists.to_ical on elements whose own to_ical() texts are given
  The pieces are those of ICal/Model/DDDPieces.lean; `tzp.localize_utc` marks the datetime it is applied to.
-/
import ICal.Driver.Proto
import ICal.Driver.BodiesProto
import ICal.Model.DDDPieces
namespace ICal.Driver
open ICal.Proto ICal.PyRT

private def markU (d : PyDateTime) : PyDateTime := { d with year := d.year + 100000 }

private def dddStr : PyDDD → String
  | .date d => s!"date:{d.year},{d.month},{d.day}"
  | .dt d =>
    if d.year ≥ 100000 then s!"dt:{d.year - 100000},{d.month},{d.day},{d.hour},{d.minute},{d.second},1"
    else s!"dt:{d.year},{d.month},{d.day},{d.hour},{d.minute},{d.second},0"
  | .time t => s!"time:{t.hour},{t.minute},{t.second},0"
  | .dur t => "dur:" ++ toString t.toSeconds
  | .period a b => "period:" ++ dddStr a ++ "|" ++ dddStr b

private def asciiT (a : String) (f : Str → String) : Option String :=
  let s := decStr a
  if s.all (fun c => c.toNat < 128) then some (f s) else some "unmodelled"

private def natsL (l : List String) : Option (List Nat) := l.mapM decNat

private def decAtomB (s : String) : Option Atom :=
  match s.splitOn ":" with
  | [k, f] =>
    match k, (f.splitOn ",") with
    | "dur", [z] => (decInt z).map Atom.dur
    | "date", fs =>
      match natsL fs with
      | some [y, m, d] => some (.date ⟨y, m, d⟩)
      | _ => none
    | "dt", fs =>
      match natsL fs with
      | some [y, m, d, h, mi, sec, u] => some (.dt ⟨⟨y, m, d⟩, h, mi, sec, u == 1⟩)
      | _ => none
    | "time", fs =>
      match natsL fs with
      | some [h, mi, sec, u] => some (.time ⟨h, mi, sec, u == 1⟩)
      | _ => none
    | _, _ => none
  | _ => none

/-- `tzid_from_dt` of the fields, from the atoms of the case; `none` when two of them disagree -/
private def tzOf (as : List Atom) : Option (PyDateTime → Option Str) :=
  let dts := as.filterMap (fun a => match a with | .dt t => some t | _ => none)
  let key (t : PDateTime) : List Nat := [t.date.y, t.date.m, t.date.d, t.h, t.mi, t.s]
  if dts.any (fun a => dts.any (fun b => key a == key b && a.utc != b.utc)) then none
  else some (fun p => match dts.find? (fun t => (key t).map (fun (n : Nat) => (n : Int)) == [p.year, p.month, p.day, p.hour, p.minute, p.second]) with
    | some t => if t.utc then some ['U', 'T', 'C'] else none
    | none => none)

private def okS (r : Py Str) : String :=
  match r with
  | .ok s => encStr s
  | .error e => pyExcName e

def handleBodiesDDD (op : String) (args : List String) : Option String :=
  match op, args with
  | "body_ddd_from", [a] => asciiT a fun s => pyRes dddStr (Bodies.dddFromP markU s)
  | "body_period_from", [a] => asciiT a fun s => pyRes (fun r => dddStr (.period r.1 r.2)) (Bodies.periodFromP markU s)
  | "body_atom_to", [a] =>
    match decAtomB a with
    | some x => (tzOf [x]).map fun tz => okS (Bodies.atomToP tz x)
    | none => none
  | "body_period_to", [a, b] =>
    match decAtomB a, decAtomB b with
    | some x, some y =>
      match tzOf [x, y] with
      | some tz => some (okS (Bodies.periodToP tz x y))
      | none => some "unmodelled"
    | _, _ => none
  | "body_ddl_from", [a] => asciiT a fun s => pyRes (fun l => ";".intercalate (l.map dddStr)) (Bodies.dddListsFromP markU s)
  | "body_ddl_to", parts => some (okS (Bodies.dddListsToP (fun (s : Str) => .ok s) (parts.map decStr)))
  | "body_month_from", [a] => asciiT a fun s =>
      pyRes (fun (p : Int × Bool) => toString p.1 ++ "," ++ (if p.2 then "1" else "0"))
        (Gen.BodiesDec.vMonth_new (month := s) (params := ()) (new_int := fun i => (i, false)) (set_leap := fun m l => (m.1, l))
          (params_of := fun _ => ()) (set_params := fun m _ => m))
  | _, _ => none

end ICal.Driver
