/-
  Driver op of the regenerated descriptor closures `p_set` / `p_del` of `create_single_property` and of `_set_duration` /
  `_del_duration` (ICal/Gen/BodiesSEDesc.lean, tools/py2lean.py): the translator's own differential test for C16.
    body_se <cls> <prov> <op> <op> ...     exactly the op `se` of Driver/StartEnd.lean (same arguments, same records), but every
        setter / deleter call runs the regenerated body with the pieces of ICal/Model/SEDescPieces.lean (`Bodies.stepB`)
-/
import ICal.Driver.StartEnd
import ICal.Driver.BodiesProto
import ICal.Model.SEDescPieces
namespace ICal.Driver
open ICal.SE ICal.PyRT

private def excSEd : Exc → String
  | .invalidCalendar => "!IC"
  | .incompleteComponent => "!INC"
  | .typeError => "!TE"
  | .valueError => "!VE"
  | .attributeError => "!AE"
  | e => pyExcName e

private def runRecordsB (p : Prov) (c : Cls) : St → List Op → List String
  | _, [] => []
  | s, op :: rest =>
    let r := Bodies.stepB c s op
    let s' := Bodies.nextB c s op
    SEP.record p c (match r with
                    | .ok _ => "ok"
                    | .error e => excSEd e) s' :: runRecordsB p c s' rest

def handleBodiesSEDesc (op : String) (args : List String) : Option String :=
  match op, args with
  | "body_se", c :: p :: ops =>
    match SEP.decCls c, SEP.decProv p, ops.mapM SEP.decOp with
    | some c, some p, some ops =>
      if ops.all (Op.inDomain c) then
        some ("|".intercalate (SEP.record p c "new" St.init :: runRecordsB p c St.init ops))
      else some "unmodelled"
    | _, _, _ => none
  | _, _ => none

end ICal.Driver
