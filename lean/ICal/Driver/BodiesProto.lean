/-
  Result encoding of translated bodies that can raise (`Py α`), shared by the Bodies* drivers:
  `ok:<value>` | `err:<ExceptionName>` (from the constructor name: `valueError` -> `err:ValueError`).
-/
import ICal.Model.PyRT
namespace ICal.Driver
open ICal.PyRT

def pyExcName (e : Exc) : String :=
  match (((reprStr e).splitOn ".").getLast!).toList with
  | c :: cs => "err:" ++ String.ofList (c.toUpper :: cs)
  | [] => "err:"

def pyRes {α : Type} (f : α → String) : Py α → String
  | .ok v => "ok:" ++ f v
  | .error e => pyExcName e

def optIntS : Option Int → String
  | none => "N"
  | some z => toString z

end ICal.Driver
