/-
  Driver op of the regenerated second half of `Timezone.get_transitions` (ICal/Gen/BodiesTz.lean, tools/py2lean.py wave 8):
  the translator's own differential test for C12.
    body_tz_trans <observances>   as `tz_trans` of Driver/Tz.lean, but `transition_times` / `transition_info` come from the
                                  TRANSLATED fragment, run on the sorted transitions and the `dst` dict of the hand model
                                  of the first half (`sortedTrs`, `dstOf`); the pieces are those of Model/TzInfoPieces.lean
-/
import ICal.Driver.Proto
import ICal.Driver.BodiesProto
import ICal.Model.TzInfoPieces
namespace ICal.Driver
open ICal.Proto ICal.Tz ICal.PyRT ICal.Bodies

private def splitNE' (s : String) (sep : String) : List String :=
  if s.isEmpty then [] else s.splitOn sep

private def decObsIn' (s : String) : Option ObsIn :=
  match s.splitOn ":" with
  | [d, h, nm, au, f, t, ons] => do
    let f ← f.toInt?
    let t ← t.toInt?
    let ons ← (splitNE' ons " ").mapM String.toInt?
    some ⟨d == "1", if h == "1" then some (decStr nm) else none, decStr au, f, t, ons⟩
  | _ => none

def handleBodiesTz (op : String) (args : List String) : Option String :=
  match op, args with
  | "body_tz_trans", [o] =>
    match (splitNE' o ";").mapM decObsIn' with
    | none => some "bad-args"
    | some l =>
      let obs := resolveNames l []
      some (match transitionsInfoP (dstOf obs) (sortedTrs obs) with
        | .ok (times, infos) =>
          ";".intercalate ((times.zip infos).map (fun p => s!"{p.1}:{p.2.1}:{p.2.2.1}:{encStr p.2.2.2}"))
        | .error e => pyExcName e)
  | _, _ => none

end ICal.Driver
