/-
  Driver ops of the REGENERATED function bodies (ICal/Gen/Bodies.lean, tools/py2lean.py) and of the
  runtime they are written in (ICal/Model/PyRT.lean).  The translator and the runtime are part of
  the trusted base, so they get their own differential test against the real functions
  (harness/props/C03.py, block "translated bodies").

    body_vDuration  days seconds            -> str          (the real `td.days`, `td.seconds`)
    body_vUTCOffset days seconds            -> str
    body_vDate      y m d                   -> str
    body_vDatetime  y m d h mi s flag tzid  -> str          (flag 0: tzid_from_dt gave None)
    body_vMonth     n leap | body_vMonth_str n leap | body_vBoolean n | body_vInt n
    rt_floordiv a b | rt_mod a b | rt_abs a | rt_fmtz w x | rt_str x | rt_fmt1 fmt s
    rt_or_int a b | rt_and_int a b | rt_or_str a b | rt_and_str a b | rt_truthy_int a
    rt_td_norm d s | rt_td_neg d s | rt_td_sub d1 s1 d2 s2 -> "days,seconds"
    rt_td_lt d1 s1 d2 s2 -> 0/1 | rt_td_total d s -> int | rt_td_of s -> "days,seconds"
  ints are decimal, strings comma-separated code points (Driver/Proto.lean).

  Decoders (ICal/Gen/BodiesDec.lean); a text argument with a non-ASCII character answers `unmodelled`
  (the `int()` of the model is CPython's for ASCII); results `ok:<value>` | `err:<ExceptionName>`:
    body_vDate_from t -> ok:y,m,d      body_vTime_from t -> ok:h,m,s      body_vInt_from t -> ok:int
    body_vDatetime_from t -> ok:y,m,d,h,mi,s,u    (u = 1 iff the parameter `tzp.localize_utc` was applied)
    body_vUTCOffset_from t -> ok:seconds
    body_vDuration_from t g -> ok:seconds    g = what the real DURATION_REGEX.match(t) answered: `N` (None) or
                                             six `;`-separated groups, each `-` (None) or `=`<code points>
    body_dur_groups t -> the hand model `durGroups` of that regex in the same encoding
-/
import ICal.Driver.Proto
import ICal.Gen.Bodies
import ICal.Gen.BodiesDec
namespace ICal.Driver
open ICal.Proto ICal.PyRT ICal.Gen.Bodies ICal.Gen.BodiesDec

private def ints (l : List String) : Option (List Int) := l.mapM decInt

private def tdOf (d s : Int) : Option TD := if 0 ≤ s then some ⟨d, s.toNat⟩ else none
private def tdS (t : TD) : String := s!"{t.days},{t.seconds}"

/-- `err:<ExceptionName>` from the constructor name (`valueError` -> `err:ValueError`) -/
def excS (e : Exc) : String :=
  match (((reprStr e).splitOn ".").getLast!).toList with
  | c :: cs => "err:" ++ String.ofList (c.toUpper :: cs)
  | [] => "err:"

private def pyS {α : Type} (f : α → String) : Py α → String
  | .ok v => "ok:" ++ f v
  | .error e => excS e

private def asciiText (a : String) (f : Str → String) : Option String :=
  let s := decStr a
  if s.all (fun c => c.toNat < 128) then some (f s) else some "unmodelled"

private def encGroup : Option Str → String
  | none => "-"
  | some s => "=" ++ encStr s

private def decGroup (s : String) : Option (Option Str) :=
  if s == "-" then some none
  else if s.startsWith "=" then some (some (decStr (s.drop 1).toString)) else none

private def decGroups (s : String) :
    Option (Option (Option Str × Option Str × Option Str × Option Str × Option Str × Option Str)) :=
  if s == "N" then some none
  else
    match (s.splitOn ";").mapM decGroup with
    | some [a, b, c, d, e, f] => some (some (a, b, c, d, e, f))
    | _ => none

/-- the stand-in for `tzp.localize_utc`: marks the datetime it is applied to -/
private def markUtc (d : PyDateTime) : PyDateTime := { d with year := d.year + 100000 }

private def dtS (d : PyDateTime) : String :=
  if d.year ≥ 100000 then s!"{d.year - 100000},{d.month},{d.day},{d.hour},{d.minute},{d.second},1"
  else s!"{d.year},{d.month},{d.day},{d.hour},{d.minute},{d.second},0"

def handleBodies (op : String) (args : List String) : Option String :=
  match op, args with
  | "body_vDate_from", [a] => asciiText a fun s => pyS (fun d => s!"{d.year},{d.month},{d.day}") (vDate_from_ical s)
  | "body_vTime_from", [a] => asciiText a fun s => pyS (fun d => s!"{d.hour},{d.minute},{d.second}") (vTime_from_ical s)
  | "body_vDatetime_from", [a] => asciiText a fun s => pyS dtS (vDatetime_from_ical s markUtc)
  | "body_vUTCOffset_from", [a] => asciiText a fun s => pyS (fun t => toString t.toSeconds) (vUTCOffset_from_ical s)
  | "body_vInt_from", [a] => asciiText a fun s => pyS (fun z => toString z) (vInt_from_ical s)
  | "body_vDuration_from", [a, g] =>
    match decGroups g with
    | some m => asciiText a fun s => pyS (fun t => toString t.toSeconds) (vDuration_from_ical s m)
    | none => none
  | "body_dur_groups", [a] => asciiText a fun s =>
    match durGroups s with
    | none => "N"
    | some (a, b, c, d, e, f) => ";".intercalate ([a, b, c, d, e, f].map encGroup)
  | "body_vDatetime", [y, m, d, h, mi, s, flag, tz] =>
    match ints [y, m, d, h, mi, s] with
    | some [y, m, d, h, mi, s] =>
      some (encStr (vDatetime_to_ical ⟨y, m, d, h, mi, s⟩ (if flag == "1" then some (decStr tz) else none)))
    | _ => none
  | "rt_fmt1", [f, s] => some (encStr (fmt1 (decStr f) (decStr s)))
  | "rt_or_str", [a, b] => some (encStr (pyOr (decStr a) (decStr b)))
  | "rt_and_str", [a, b] => some (encStr (pyAnd (decStr a) (decStr b)))
  | _, _ =>
    match ints args with
    | none => none
    | some zs =>
      match op, zs with
      | "body_vDuration", [d, s] => (tdOf d s).map fun t => encStr (vDuration_to_ical t)
      | "body_vUTCOffset", [d, s] => (tdOf d s).map fun t => encStr (vUTCOffset_to_ical t)
      | "body_vDate", [y, m, d] => some (encStr (vDate_to_ical ⟨y, m, d⟩))
      | "body_vMonth", [n, l] => some (encStr (vMonth_to_ical n (l != 0)))
      | "body_vMonth_str", [n, l] => some (encStr (vMonth_str n (l != 0)))
      | "body_vBoolean", [n] => some (encStr (vBoolean_to_ical n))
      | "body_vInt", [n] => some (encStr (vInt_to_ical n))
      | "rt_floordiv", [a, b] => if b = 0 then none else some (toString (floorDiv a b))
      | "rt_mod", [a, b] => if b = 0 then none else some (toString (pyMod a b))
      | "rt_abs", [a] => some (toString (pyAbs a))
      | "rt_fmtz", [w, x] => if 0 ≤ w then some (encStr (fmtZ w.toNat x)) else none
      | "rt_str", [x] => some (encStr (strInt x))
      | "rt_or_int", [a, b] => some (toString (pyOr a b))
      | "rt_and_int", [a, b] => some (toString (pyAnd a b))
      | "rt_truthy_int", [a] => some (encBool (truthy a))
      | "rt_td_norm", [d, s] => some (tdS (TD.norm d s))
      | "rt_td_of", [s] => some (tdS (TD.ofSeconds s))
      | "rt_td_total", [d, s] => (tdOf d s).map fun t => toString t.toSeconds
      | "rt_td_neg", [d, s] => (tdOf d s).map fun t => tdS (TD.neg t)
      | "rt_td_truthy", [d, s] => (tdOf d s).map fun t => encBool (truthy t)
      | "rt_td_sub", [d1, s1, d2, s2] =>
        match tdOf d1 s1, tdOf d2 s2 with
        | some a, some b => some (tdS (TD.sub a b))
        | _, _ => none
      | "rt_td_lt", [d1, s1, d2, s2] =>
        match tdOf d1 s1, tdOf d2 s2 with
        | some a, some b => some (encBool (TD.lt a b))
        | _, _ => none
      | _, _ => none

end ICal.Driver
