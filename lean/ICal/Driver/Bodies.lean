/-
  Driver ops of the REGENERATED function bodies (ICal/Gen/Bodies.lean, tools/py2lean.py) and of the
  runtime they are written in (ICal/Model/PyRT.lean).  The translator and the runtime are part of
  the trusted base, so they get their own differential test against the real functions
  (harness/props/C03.py, block "translated bodies").

    body_vDuration  days seconds            -> str          (the real `td.days`, `td.seconds`)
    body_vUTCOffset days seconds            -> str
    body_vDate      y m d                   -> str
    body_vDatetime  y m d h mi s flag tzid  -> str          (flag 0: tzid_from_dt gave None)
    body_vMonth     n leap | body_vMonth_str n leap | body_vBoolean n | body_vInt n
    rt_floordiv a b | rt_mod a b | rt_abs a | rt_fmtz w x | rt_str x | rt_fmt1 fmt s
    rt_or_int a b | rt_and_int a b | rt_or_str a b | rt_and_str a b | rt_truthy_int a
    rt_td_norm d s | rt_td_neg d s | rt_td_sub d1 s1 d2 s2 -> "days,seconds"
    rt_td_lt d1 s1 d2 s2 -> 0/1 | rt_td_total d s -> int | rt_td_of s -> "days,seconds"
  ints are decimal, strings comma-separated code points (Driver/Proto.lean).
-/
import ICal.Driver.Proto
import ICal.Gen.Bodies
namespace ICal.Driver
open ICal.Proto ICal.PyRT ICal.Gen.Bodies

private def ints (l : List String) : Option (List Int) := l.mapM decInt

private def tdOf (d s : Int) : Option TD := if 0 ≤ s then some ⟨d, s.toNat⟩ else none
private def tdS (t : TD) : String := s!"{t.days},{t.seconds}"

def handleBodies (op : String) (args : List String) : Option String :=
  match op, args with
  | "body_vDatetime", [y, m, d, h, mi, s, flag, tz] =>
    match ints [y, m, d, h, mi, s] with
    | some [y, m, d, h, mi, s] =>
      some (encStr (vDatetime_to_ical ⟨y, m, d, h, mi, s⟩ (if flag == "1" then some (decStr tz) else none)))
    | _ => none
  | "rt_fmt1", [f, s] => some (encStr (fmt1 (decStr f) (decStr s)))
  | "rt_or_str", [a, b] => some (encStr (pyOr (decStr a) (decStr b)))
  | "rt_and_str", [a, b] => some (encStr (pyAnd (decStr a) (decStr b)))
  | _, _ =>
    match ints args with
    | none => none
    | some zs =>
      match op, zs with
      | "body_vDuration", [d, s] => (tdOf d s).map fun t => encStr (vDuration_to_ical t)
      | "body_vUTCOffset", [d, s] => (tdOf d s).map fun t => encStr (vUTCOffset_to_ical t)
      | "body_vDate", [y, m, d] => some (encStr (vDate_to_ical ⟨y, m, d⟩))
      | "body_vMonth", [n, l] => some (encStr (vMonth_to_ical n (l != 0)))
      | "body_vMonth_str", [n, l] => some (encStr (vMonth_str n (l != 0)))
      | "body_vBoolean", [n] => some (encStr (vBoolean_to_ical n))
      | "body_vInt", [n] => some (encStr (vInt_to_ical n))
      | "rt_floordiv", [a, b] => if b = 0 then none else some (toString (floorDiv a b))
      | "rt_mod", [a, b] => if b = 0 then none else some (toString (pyMod a b))
      | "rt_abs", [a] => some (toString (pyAbs a))
      | "rt_fmtz", [w, x] => if 0 ≤ w then some (encStr (fmtZ w.toNat x)) else none
      | "rt_str", [x] => some (encStr (strInt x))
      | "rt_or_int", [a, b] => some (toString (pyOr a b))
      | "rt_and_int", [a, b] => some (toString (pyAnd a b))
      | "rt_truthy_int", [a] => some (encBool (truthy a))
      | "rt_td_norm", [d, s] => some (tdS (TD.norm d s))
      | "rt_td_of", [s] => some (tdS (TD.ofSeconds s))
      | "rt_td_total", [d, s] => (tdOf d s).map fun t => toString t.toSeconds
      | "rt_td_neg", [d, s] => (tdOf d s).map fun t => tdS (TD.neg t)
      | "rt_td_truthy", [d, s] => (tdOf d s).map fun t => encBool (truthy t)
      | "rt_td_sub", [d1, s1, d2, s2] =>
        match tdOf d1 s1, tdOf d2 s2 with
        | some a, some b => some (tdS (TD.sub a b))
        | _, _ => none
      | "rt_td_lt", [d1, s1, d2, s2] =>
        match tdOf d1 s1, tdOf d2 s2 with
        | some a, some b => some (encBool (TD.lt a b))
        | _, _ => none
      | _, _ => none

end ICal.Driver
