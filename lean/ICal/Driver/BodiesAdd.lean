/-
  Driver ops of the regenerated `Component.add` (ICal/Gen/BodiesAdd.lean, tools/py2lean.py): the translator's own
  differential test for C02.
    body_c02_add name upd arg        -> as c02_add of Driver/Encode.lean: what an empty component holds under the name
                                        after add(name, arg, parameters=upd)
    body_c02_add_twice name upd upd2 arg -> the same after a second call with the parameters upd2 (the accumulate-into-a-list
                                        rule; the two stored values differ in their parameters, so their order shows)
    body_c02_encode name upd arg     -> "one" TAB value: what Component._encode(name, arg, upd) returns for one object (the
                                        translated `_encode` alone; `add` calls it too)
    body_c02_dddlists arg            -> "one" TAB value: the object vDDDLists(arg) (its parameters from the translated
                                        `__init__`, its text from the wrapped objects), or err:<E>
    body_c02_ddd_params arg          -> "one" TAB value: the object vDDDTypes(arg), its parameters from the translated
                                        `__init__` (arg one date / datetime / timedelta / time, or a pair of them)
    body_c02_period_init arg         -> "one" TAB value: the object vPeriod(arg) for a pair, its acceptance and its
                                        parameters from the translated `__init__`, or err:<E>
  The pieces are those of ICal/Model/AddPieces.lean.
-/
import ICal.Driver.Encode
import ICal.Driver.BodiesProto
import ICal.Model.AddPieces
namespace ICal.Driver
open ICal.Proto ICal.PyRT ICal.Enc

private def showEntry (props : List Entry) (name : Str) : String :=
  match props.find? (fun e => e.name == upper name) with
  | some e =>
    if e.isList then "many\t" ++ toString e.vals.length ++ String.join (e.vals.map (fun v => "\t" ++ encVal v))
    else match e.vals with
      | [v] => "one\t" ++ encVal v
      | vs => "many\t" ++ toString vs.length ++ String.join (vs.map (fun v => "\t" ++ encVal v))
  | none => "missing"

private def excAdd : Exc → String
  | .fuel => "unmodelled"
  | e => pyExcName e

def handleBodiesAdd (op : String) (args : List String) : Option String :=
  match op, args with
  | "body_c02_add", [name, upd, arg] =>
    match whole tUpd upd, whole tArg arg with
    | some u, some a =>
      match Bodies.componentAddP [] (decStr name) a u with
      | .ok props => some (showEntry props (decStr name))
      | .error e => some (excAdd e)
    | _, _ => some "bad-args"
  | "body_c02_add_twice", [name, upd, upd2, arg] =>
    match whole tUpd upd, whole tUpd upd2, whole tArg arg with
    | some u, some u2, some a =>
      match Bodies.componentAddP [] (decStr name) a u >>= fun p => Bodies.componentAddP p (decStr name) a u2 with
      | .ok props => some (showEntry props (decStr name))
      | .error e => some (excAdd e)
    | _, _, _ => some "bad-args"
  | "body_c02_encode", [name, upd, arg] =>
    match whole tUpd upd, whole tArg arg with
    | some u, some (.one v) =>
      match Bodies.encodeOneP (decStr name) v u with
      | .ok o => some ("one\t" ++ encVal o.val)
      | .error e => some (excAdd e)
    | _, _ => some "bad-args"
  | "body_c02_dddlists", [arg] =>
    match whole tArg arg with
    | some a =>
      -- what the constructor iterates over is the model's `listElems` (a tuple is iterated, a str gives its characters ..)
      match listElems a with
      | .error .unmodelled => some "unmodelled"
      | .error .valueError => some "err:ValueError"
      | .error .typeError => some "err:TypeError"
      | .ok xs =>
        let l : PyOneMany PyVal := match a with
          | .one (.atom x) => .one (.atom x)
          | _ => .many xs
        match Bodies.dddListsInitP l with
        | .ok (ps, dts) => some ("one\t" ++ encVal ⟨cDDDLists, listText dts, ps⟩)
        | .error e => some (excAdd e)
    | none => some "bad-args"
  | "body_c02_ddd_params", [arg] =>
    match whole tArg arg with
    | some (.one v) =>
      -- `tzid_from_dt` of the object: the zone of the one datetime whose zone `__init__` asks for
      let tzOf (a : PyAtom) : PyDDD → Option Str := fun o =>
        match a, o with
        | .dt t, .dt p => if p == (⟨t.wall.d.y, t.wall.d.m, t.wall.d.d, t.wall.h, t.wall.mi, t.wall.s⟩ : PyDateTime) then t.tzid else none
        | _, _ => none
      match v, mkDDD v with
      | .atom a, .ok o => some ("one\t" ++ encVal { o with params := Bodies.dddInitParamsP (tzOf a) (Bodies.atomObjE a) })
      | .period a b, .ok o =>
        some ("one\t" ++ encVal { o with params := Bodies.dddInitParamsP (tzOf a) (.period (Bodies.atomObjE a) (Bodies.atomObjE b)) })
      | _, _ => some "unmodelled"
    | _ => some "bad-args"
  | "body_c02_period_init", [arg] =>
    match whole tArg arg with
    | some (.one (.period a b)) =>
      match Bodies.periodInitParamsP a b, mkPeriod cPeriod (.period a b) with
      | .ok ps, .ok o => some ("one\t" ++ encVal { o with params := ps })
      | .ok _, .error _ => some "unmodelled"
      | .error e, _ => some (excAdd e)
    | _ => some "bad-args"
  | _, _ => none

end ICal.Driver
