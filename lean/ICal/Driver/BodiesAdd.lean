/-
  Driver ops of the regenerated `Component.add` (ICal/Gen/BodiesAdd.lean, tools/py2lean.py): the translator's own
  differential test for C02.
    body_c02_add name upd arg        -> as c02_add of Driver/Encode.lean: what an empty component holds under the name
                                        after add(name, arg, parameters=upd)
    body_c02_add_twice name upd arg  -> the same after the call was made twice (the accumulate-into-a-list rule)
  The pieces are those of ICal/Model/AddPieces.lean.
-/
import ICal.Driver.Encode
import ICal.Driver.BodiesProto
import ICal.Model.AddPieces
namespace ICal.Driver
open ICal.Proto ICal.PyRT ICal.Enc

private def showEntry (props : List Entry) (name : Str) : String :=
  match props.find? (fun e => e.name == upper name) with
  | some e =>
    if e.isList then "many\t" ++ toString e.vals.length ++ String.join (e.vals.map (fun v => "\t" ++ encVal v))
    else match e.vals with
      | [v] => "one\t" ++ encVal v
      | vs => "many\t" ++ toString vs.length ++ String.join (vs.map (fun v => "\t" ++ encVal v))
  | none => "missing"

private def excAdd : Exc → String
  | .fuel => "unmodelled"
  | e => pyExcName e

def handleBodiesAdd (op : String) (args : List String) : Option String :=
  match op, args with
  | "body_c02_add", [name, upd, arg] =>
    match whole tUpd upd, whole tArg arg with
    | some u, some a =>
      match Bodies.componentAddP [] (decStr name) a u with
      | .ok props => some (showEntry props (decStr name))
      | .error e => some (excAdd e)
    | _, _ => some "bad-args"
  | "body_c02_add_twice", [name, upd, arg] =>
    match whole tUpd upd, whole tArg arg with
    | some u, some a =>
      match Bodies.componentAddP [] (decStr name) a u >>= fun p => Bodies.componentAddP p (decStr name) a u with
      | .ok props => some (showEntry props (decStr name))
      | .error e => some (excAdd e)
    | _, _ => some "bad-args"
  | _, _ => none

end ICal.Driver
