/-
  Driver ops of the C02 model (Model/Encode.lean).  Values travel as '~'-separated prefix tokens
  (strings are comma-separated decimal code points, so no token contains '~', ';', '(' or ')'):
    val  := T str | I int | F str | B 0/1 | atom | P atom atom | G str str | R str | X str
          | V kind text nparams { pname pval }
    atom := D y m d | DT y m d h mi s tz y m d h mi s | DU secs | TM h mi s
    tz   := N | Z str                       ("UTC" for a UTC datetime)
    pval := 1 str | n count { str }
    arg  := O val | L count { val }
    upd  := count { key ( 0 | pval ) }      (0 = None)
    op   := A name upd arg | S name (S|L) count { V... } | P prop (0 | 1 val) | U name val
          | DUR (0 | 1 val) | REP val | REL str
    spec := "(" name ";" nops { ";" op } ";" nsubs { ";" spec } ")"
-/
import ICal.Driver.Proto
import ICal.Driver.TreeProto
import ICal.Model.Encode
namespace ICal.Driver
open ICal.Proto ICal.Enc

abbrev Tok (α : Type) := List String → Option (α × List String)

def tNat : Tok Nat
  | t :: r => t.toNat?.map (fun n => (n, r))
  | [] => none

def tInt : Tok Int
  | t :: r => t.toInt?.map (fun n => (n, r))
  | [] => none

def tStr : Tok Str
  | t :: r => some (decStr t, r)
  | [] => none

def tWall : Tok Wall := fun ts => do
  let (y, ts) ← tNat ts
  let (m, ts) ← tNat ts
  let (d, ts) ← tNat ts
  let (h, ts) ← tNat ts
  let (mi, ts) ← tNat ts
  let (s, ts) ← tNat ts
  pure (⟨⟨y, m, d⟩, h, mi, s⟩, ts)

def tAtom : Tok PyAtom
  | "D" :: ts => do
    let (y, ts) ← tNat ts
    let (m, ts) ← tNat ts
    let (d, ts) ← tNat ts
    pure (.date ⟨y, m, d⟩, ts)
  | "DT" :: ts => do
    let (w, ts) ← tWall ts
    let (tz, ts) ← (match ts with
      | "N" :: r => some (none, r)
      | "Z" :: z :: r => some (some (decStr z), r)
      | _ => none : Option (Option Str × List String))
    let (u, ts) ← tWall ts
    pure (.dt ⟨w, tz, u⟩, ts)
  | "DU" :: ts => do
    let (s, ts) ← tInt ts
    pure (.dur s, ts)
  | "TM" :: ts => do
    let (h, ts) ← tNat ts
    let (mi, ts) ← tNat ts
    let (s, ts) ← tNat ts
    pure (.time ⟨h, mi, s, false⟩, ts)
  | _ => none

def tParams : Tok Params := fun ts => do
  let (n, ts) ← tNat ts
  takeN (fun ts => match ts with
    | k :: r => do let (v, r) ← decPValToks r; pure ((decStr k, v), r)
    | [] => none) n ts

def tTyped : Tok Val
  | "V" :: kind :: text :: ts => do
    let (ps, ts) ← tParams ts
    pure (⟨decStr kind, decStr text, ps⟩, ts)
  | _ => none

def tVal : Tok PyVal
  | "T" :: s :: r => some (.text (decStr s), r)
  | "I" :: ts => (tInt ts).map (fun x => (.int x.1, x.2))
  | "F" :: s :: r => some (.float (decStr s), r)
  | "B" :: b :: r => some (.bool (b == "1"), r)
  | "P" :: ts => do
    let (a, ts) ← tAtom ts
    let (b, ts) ← tAtom ts
    pure (.period a b, ts)
  | "G" :: a :: b :: r => some (.geo (decStr a) (decStr b), r)
  | "R" :: s :: r => some (.recur (decStr s), r)
  | "X" :: s :: r => some (.binary (decStr s), r)
  | "V" :: ts => (tTyped ("V" :: ts)).map (fun x => (.typed x.1, x.2))
  | ts => (tAtom ts).map (fun x => (.atom x.1, x.2))

def tArg : Tok PyArg
  | "O" :: ts => (tVal ts).map (fun x => (.one x.1, x.2))
  | "L" :: ts => do
    let (n, ts) ← tNat ts
    let (xs, ts) ← takeN tVal n ts
    pure (.list xs, ts)
  | _ => none

def tUpd : Tok (List (Str × Option PVal)) := fun ts => do
  let (n, ts) ← tNat ts
  takeN (fun ts => match ts with
    | k :: "0" :: r => some ((decStr k, none), r)
    | k :: r => do let (v, r) ← decPValToks r; pure ((decStr k, some v), r)
    | [] => none) n ts

def tOptVal : Tok (Option PyVal)
  | "0" :: r => some (none, r)
  | "1" :: ts => (tVal ts).map (fun x => (some x.1, x.2))
  | _ => none

def tOp : Tok Op
  | "A" :: name :: ts => do
    let (upd, ts) ← tUpd ts
    let (a, ts) ← tArg ts
    pure (.add (decStr name) a upd, ts)
  | "S" :: name :: flag :: ts => do
    let (n, ts) ← tNat ts
    let (vs, ts) ← takeN tTyped n ts
    pure (.setItem (decStr name) (flag == "L") vs, ts)
  | "P" :: prop :: ts => do
    let (v, ts) ← tOptVal ts
    pure (.setSingle (decStr prop) v, ts)
  | "U" :: name :: ts => do
    let (v, ts) ← tVal ts
    pure (.setUtc (decStr name) v, ts)
  | "DUR" :: ts => do
    let (v, ts) ← tOptVal ts
    pure (.setDuration v, ts)
  | "REP" :: ts => do
    let (v, ts) ← tVal ts
    pure (.setRepeat v, ts)
  | "REL" :: v :: ts => some (.setRelated (decStr v), ts)
  | _ => none

def whole {α} (p : Tok α) (s : String) : Option α :=
  match p (s.splitOn "~") with
  | some (a, []) => some a
  | _ => none

partial def decSpecChars (s : List Char) : Option Spec :=
  match s with
  | '(' :: rest =>
    if rest.getLast? != some ')' then none else
    match splitTop rest.dropLast with
    | name :: np :: more => do
      let n ← (String.ofList np).toNat?
      let ops ← (more.take n).mapM (fun e => whole tOp (String.ofList e))
      match more.drop n with
      | ns :: subs => do
        let k ← (String.ofList ns).toNat?
        if subs.length ≠ k then none else
        let ss ← subs.mapM decSpecChars
        pure (.mk (decStr (String.ofList name)) ops ss)
      | [] => none
    | _ => none
  | _ => none

def encOutcome : Outcome → Char
  | .ok => 'o' | .valueError => 'v' | .typeError => 't'

def encRfcType (t : RfcType) : String := String.ofList t.valueName

def handleEncode (op : String) (args : List String) : Option String :=
  match op, args with
  | "c02_add", [name, upd, arg] =>
    match whole tUpd upd, whole tArg arg with
    | some u, some a =>
      match addValue (decStr name) a u with
      | .ok (.one v) => some ("one\t" ++ encVal v)
      | .ok (.many vs) => some ("many\t" ++ toString vs.length ++ String.join (vs.map (fun v => "\t" ++ encVal v)))
      | .error .valueError => some "err:ValueError"
      | .error .typeError => some "err:TypeError"
      | .error .unmodelled => some "unmodelled"
    | _, _ => some "bad-args"
  | "c02_build", [spec] =>
    match decSpecChars spec.toList with
    | some s =>
      match build s with
      | some (c, outs) => some ("ok\t" ++ encComp c ++ "\t" ++ String.ofList (outs.map encOutcome))
      | none => some "unmodelled"
    | none => some "bad-args"
  | "c02_typekey", [n] => some (encStr (typeKey (decStr n)))
  | "c02_rfc", [n] =>
    match rfcProp? (decStr n) with
    | some r => some (encRfcType r.default ++ "|" ++ ",".intercalate (r.alts.map encRfcType) ++ "|" ++ encBool r.multi)
    | none => some "none"
  | "c02_rfc_names", [] => some (encStrList (rfc5545Props.map (·.name)))
  | "c02_class_types", [c] => some (",".intercalate ((classTypes (decStr c)).map encRfcType))
  | "c02_key_type", [k] =>
    some (match keyType (decStr k) with | some t => encRfcType t | none => "none")
  | _, _ => none

end ICal.Driver
