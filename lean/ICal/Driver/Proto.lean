/-
  Line protocol of the model driver.
  A line is TAB-separated: op, then arguments.
    str      : comma-separated decimal code points; empty field = empty string
    str list : "<n>" followed by n times "|<str>"      e.g. "2|97,98|"  = ["ab", ""]
    int      : optional '-' and decimal digits
  Results use the same encodings, fields joined by TAB.
-/
import ICal.Model.PyStr
namespace ICal.Proto

def decStr (s : String) : Str :=
  if s.isEmpty then [] else (s.splitOn ",").filterMap (fun t => t.toNat?.map Char.ofNat)

def encStr (l : Str) : String := ",".intercalate (l.map (fun c => toString c.toNat))

def decStrList (s : String) : List Str :=
  match s.splitOn "|" with
  | [] => []
  | _ :: items => items.map decStr

def encStrList (l : List Str) : String :=
  toString l.length ++ String.join (l.map (fun s => "|" ++ encStr s))

def decInt (s : String) : Option Int := s.toInt?
def decNat (s : String) : Option Nat := s.toNat?

def encBool (b : Bool) : String := if b then "1" else "0"

/-- octet list as comma-separated decimals -/
def encBytes (l : List UInt8) : String := ",".intercalate (l.map (fun b => toString b.toNat))
def decBytes (s : String) : List UInt8 :=
  if s.isEmpty then [] else (s.splitOn ",").filterMap (fun t => t.toNat?.map (fun n => n.toUInt8))

end ICal.Proto
