import ICal.Driver.Proto
import ICal.Model.Fold
namespace ICal.Driver
open ICal.Proto

def handleFold (op : String) (args : List String) : Option String :=
  match op, args with
  | "fold", [a] => some (encStr (foldline (decStr a)))
  | "fold_bytes", [a] => some (encBytes (utf8 (foldline (decStr a))))
  | "unfold", [a] => some (encStr (unfold (decStr a)))
  | "splitnl", [a] => some (encStrList (splitNewline (decStr a)))
  | "lines_to", [a] => some (encStr (linesToIcal (decStrList a)))
  | "lines_from", [a] => some (encStrList (linesFromIcal (decStr a)))
  | _, _ => none

end ICal.Driver
