/-
  Driver ops of the regenerated `_get_start_end_duration` / `.start` / `.end` / `.duration` of cal.Event and cal.Todo
  (ICal/Gen/BodiesSE.lean, tools/py2lean.py): the translator's own differential test for C16.
    body_se_full cls(E|T) dtstart endprop duration -> start ";" end
    body_se_duration cls(E|T) prov(z|p) dtstart endprop duration -> duration
  The three arguments are what the descriptors DTSTART, DTEND / DUE, DURATION gave for the state: a value as in the
  records of the op `se` of Driver/StartEnd.lean, or the exception (!IC ..); the results as in those records.
  `body_se_duration` is asked only for states without a zoned datetime (the records do not hold the UTC offsets).
-/
import ICal.Driver.StartEnd
import ICal.Driver.BodiesProto
import ICal.Model.SEPieces
namespace ICal.Driver
open ICal.SE ICal.PyRT

private def decErr (s : String) : Option Exc :=
  match s with
  | "!IC" => some .invalidCalendar
  | "!INC" => some .incompleteComponent
  | "!TE" => some .typeError
  | "!VE" => some .valueError
  | "!AE" => some .attributeError
  | _ => none

private def decGV (s : String) : Option (Py (Option Val)) :=
  match decErr s with
  | some e => some (.error e)
  | none =>
    if s == "-" then some (.ok none)
    else
      match s.toList.head? with
      | some 'Z' =>
        match (SEP.tail1 s).splitOn ":" with
        | [z, w] => do
          let z ← z.toNat?
          let w ← w.toInt?
          pure (.ok (some (.zoned z w 0)))
        | _ => none
      | _ =>
        match SEP.decArg s with
        | some (.val v) => some (.ok (some v))
        | _ => none

private def decGD (s : String) : Option (Py (Option Int)) :=
  match decErr s with
  | some e => some (.error e)
  | none =>
    if s == "-" then some (.ok none)
    else if s.startsWith "T" then (SEP.tail1 s).toInt?.map (fun x => .ok (some x)) else none

private def excS : Exc → String
  | .invalidCalendar => "!IC"
  | .incompleteComponent => "!INC"
  | .typeError => "!TE"
  | .valueError => "!VE"
  | .attributeError => "!AE"
  | e => pyExcName e

def handleBodiesSEFull (op : String) (args : List String) : Option String :=
  match op, args with
  | "body_se_full", [c, st, en, du] =>
    match SEP.decCls c, decGV st, decGV en, decGD du with
    | some c, some st, some en, some du =>
      let a := match Bodies.seStartP c st en du with | .ok v => SEP.encVal v | .error e => excS e
      let b := match Bodies.seEndP c st en du with | .ok (some v) => SEP.encVal v | .ok none => "-" | .error e => excS e
      some (a ++ ";" ++ b)
    | _, _, _, _ => some "bad-args"
  | "body_se_duration", [c, p, st, en, du] =>
    match SEP.decCls c, SEP.decProv p, decGV st, decGV en, decGD du with
    | some c, some p, some st, some en, some du =>
      some (match Bodies.seDurationP p c st en du with | .ok x => "T" ++ toString x | .error e => excS e)
    | _, _, _, _, _ => some "bad-args"
  | _, _ => none

end ICal.Driver
