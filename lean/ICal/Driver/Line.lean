import ICal.Driver.Proto
import ICal.Driver.TreeProto
import ICal.Model.Line
namespace ICal.Driver
open ICal.Proto

/-- params wire format: count { "~" key "~" pval } with pval as in TreeProto -/
def encParams (p : Params) : String :=
  toString p.length ++ String.join (p.map (fun kv => "~" ++ encStr kv.1 ++ "~" ++ encPVal kv.2))

def decParams (s : String) : Option Params :=
  match s.splitOn "~" with
  | np :: rest => do
    let n ← np.toNat?
    let (ps, rest) ← takeN (fun ts => match ts with
      | k :: r => do let (v, r) ← decPValToks r; pure ((decStr k, v), r)
      | [] => none) n rest
    if rest.isEmpty then pure ps else none
  | _ => none

def nonAscii (s : Str) : Bool := s.any (fun c => c.toNat ≥ 128)

/-- text before the first '=' of each ';'-separated item may be matched against `\w` -/
def keysNonAscii (st : Str) : Bool :=
  (qSplit st ';').any (fun param => match qSplit param '=' (some 1) with
    | key :: _ => nonAscii key
    | [] => false)

def handleLine (op : String) (args : List String) : Option String :=
  match op, args with
  | "dquote", [a] => some (encStr (dquote (decStr a)))
  | "qjoin", [a] => some (encStr (qJoin (decStrList a)))
  | "qsplit", [a, sep, ms] =>
    let sepc := (decStr sep).headD ','
    let m : Option Nat := if ms == "-1" then none else ms.toNat?
    some (encStrList (qSplit (decStr a) sepc m))
  | "params_to", [p, srt] =>
    match decParams p with
    | some ps => some (encStr (paramsToIcal ps (srt == "1")))
    | none => some "bad-args"
  | "params_from", [a, strict] =>
    let st := decStr a
    -- strict mode upper-cases values with Python's Unicode `str.upper`; the model's is ASCII
    if keysNonAscii st || (strict == "1" && nonAscii st) then some "unmodelled" else
    match paramsFromIcal st (strict == "1") with
    | some ps => some ("ok\t" ++ encParams ps)
    | none => some "err:ValueError"
  | "from_parts", [n, p, v, srt] =>
    match decParams p with
    | some ps =>
      match fromParts (decStr n) ps (decStr v) (srt == "1") with
      | .ok l => some ("ok\t" ++ encStr l)
      | .error .assertion => some "err:AssertionError"
      | .error .value => some "err:ValueError"
    | none => some "bad-args"
  | "parts", [a, strict] =>
    let l := decStr a
    -- the name and the parameter keys are matched against `\w`, which is Unicode-aware in Python
    let st := escapeString l
    let (ns, vs) := scanParts st 0 false none none
    let head := match ns with | none => st | some k => st.take k
    let vsplit := if falsy vs then st.length else vs.getD 0
    let mid := (st.drop (ns.getD 0 + 1)).take (vsplit - (ns.getD 0 + 1))
    if nonAscii head || keysNonAscii mid then some "unmodelled" else
    match parts l (strict == "1") with
    | some (n, ps, v) => some ("ok\t" ++ encStr n ++ "\t" ++ encParams ps ++ "\t" ++ encStr v)
    | none => some "err:ValueError"
  | "raw_value", [a] => some (encStr (rawValue (decStr a)))
  | "esc_string", [a] => some (encStr (escapeString (decStr a)))
  | "unesc_string", [a] => some (encStr (unescapeString (decStr a)))
  | _, _ => none

end ICal.Driver
