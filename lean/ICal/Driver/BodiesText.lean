/-
  Driver op of the regenerated `parser.split_on_unescaped_comma` (ICal/Gen/BodiesText.lean,
  tools/py2lean.py): the translator's own differential test for C07.
    body_split_on_unescaped_comma text -> str list
-/
import ICal.Driver.Proto
import ICal.Gen.BodiesText
namespace ICal.Driver
open ICal.Proto

def handleBodiesText (op : String) (args : List String) : Option String :=
  match op, args with
  | "body_split_on_unescaped_comma", [a] =>
    some (encStrList (Gen.BodiesText.split_on_unescaped_comma (decStr a)))
  | _, _ => none

end ICal.Driver
