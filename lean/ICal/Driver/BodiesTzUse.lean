/-
  Driver ops of the regenerated `Calendar.timezones` / `get_used_tzids` / `get_missing_tzids` /
  `add_missing_timezones` (ICal/Gen/BodiesTzUse.lean, tools/py2lean.py wave 8): the translator's own differential test
  for C18.  The external pieces are those of ICal/Model/TzUsePieces.lean (the ones the theorems `body_*` of
  ICal/Props/C18.lean speak of); sets are answered sorted.
    body_tz_used    tree                      -> ok:<str list (sorted)> | err:<E>
    body_tz_missing tree                      -> ok:<str list (sorted)> | err:<E> | unmodelled
    body_tz_names   tree                      -> ok:<str list: tz_name of the VTIMEZONEs of `timezones` that have a TZID> | unmodelled
    body_tz_add     tree known(str list) times -> ok:<tznames TAB missing TAB names of the subcomponents TAB used> after
                                                  `times` calls | err:<E> | unmodelled
-/
import ICal.Driver.Walk
import ICal.Driver.BodiesProto
import ICal.Model.TzUsePieces
namespace ICal.Driver
open ICal.Proto ICal.PyRT ICal.Bodies

def iterM {α : Type} (f : α → Py α) : Nat → α → Py α
  | 0, a => .ok a
  | n + 1, a => match f a with
    | .ok b => iterM f n b
    | .error e => .error e

def handleBodiesTzUse (op : String) (args : List String) : Option String :=
  match op, args with
  | "body_tz_used", [t] =>
    match decComp t with
    | some c => some (pyRes (fun l => encStrList (sortStr l)) (usedTzidsP c))
    | none => some "bad-args"
  | "body_tz_missing", [t] =>
    match decComp t with
    | some c =>
      if !(tzDomainOk c && tzDomainP c) then some "unmodelled" else
      some (pyRes (fun l => encStrList (sortStr l)) (missingTzidsP c))
    | none => some "bad-args"
  | "body_tz_names", [t] =>
    match decComp t with
    | some c =>
      if !(tzDomainOk c && tzDomainP c) then some "unmodelled" else
      some (pyRes encStrList (((Gen.BodiesTzUse.Calendar_timezones c).filter hasTzidP).mapM tzNameP))
    | none => some "bad-args"
  | "body_tz_add", [t, known, times] =>
    match decComp t, times.toNat? with
    | some c, some k =>
      let ks := decStrList known
      if !(tzDomainOk c && tzDomainP c) || !ks.all plainId then some "unmodelled" else
      some (pyRes (fun c' =>
        match usedTzidsP c', missingTzidsP c' with
        | .ok u, .ok m =>
          encStrList (((Gen.BodiesTzUse.Calendar_timezones c').filter hasTzidP).map (fun z => (tzName? z).getD [])) ++ "\t" ++
            encStrList (sortStr m) ++ "\t" ++ encStrList (c'.subs.map (·.name)) ++ "\t" ++ encStrList (sortStr u)
        | _, _ => "after-error")
        (iterM (addMissingP (fun s => ks.contains s)) k c))
    | _, _ => some "bad-args"
  | _, _ => none

end ICal.Driver
