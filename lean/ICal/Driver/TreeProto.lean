/-
  Wire format of component trees (one protocol field, no TAB inside).
    tree   := "(" name ";" nprops { ";" entry } ";" nsubs { ";" tree } ")"      name = code points
    entry  := name ":" ("L"|"S") ":" nvals { ":" val }
    val    := kind "~" text "~" nparams { "~" pname "~" ("1" "~" str | "n" "~" count { "~" str }) }
  All strings are comma-separated decimal code points (may be empty).
-/
import ICal.Driver.Proto
import ICal.Model.Tree
namespace ICal.Proto

def encPVal : PVal → String
  | .one s => "1~" ++ encStr s
  | .many l => "n~" ++ toString l.length ++ String.join (l.map (fun s => "~" ++ encStr s))

def encVal (v : Val) : String :=
  encStr v.kind ++ "~" ++ encStr v.text ++ "~" ++ toString v.params.length ++
    String.join (v.params.map (fun kv => "~" ++ encStr kv.1 ++ "~" ++ encPVal kv.2))

def encEntry (e : Entry) : String :=
  encStr e.name ++ ":" ++ (if e.isList then "L" else "S") ++ ":" ++ toString e.vals.length ++
    String.join (e.vals.map (fun v => ":" ++ encVal v))

partial def encComp : Comp → String
  | .mk n ps ss =>
    "(" ++ encStr n ++ ";" ++ toString ps.length ++ String.join (ps.map (fun e => ";" ++ encEntry e)) ++
      ";" ++ toString ss.length ++ String.join (ss.map (fun c => ";" ++ encComp c)) ++ ")"

/-- take `n` items with parser `p` from a token list -/
def takeN {α} (p : List String → Option (α × List String)) : Nat → List String → Option (List α × List String)
  | 0, ts => some ([], ts)
  | n + 1, ts => do
    let (a, ts) ← p ts
    let (as, ts) ← takeN p n ts
    pure (a :: as, ts)

def decPValToks : List String → Option (PVal × List String)
  | "1" :: s :: rest => some (.one (decStr s), rest)
  | "n" :: k :: rest => do
    let n ← k.toNat?
    let (xs, rest) ← takeN (fun ts => match ts with | t :: r => some (decStr t, r) | [] => none) n rest
    pure (.many xs, rest)
  | _ => none

def decVal (s : String) : Option Val :=
  match s.splitOn "~" with
  | kind :: text :: np :: rest => do
    let n ← np.toNat?
    let (ps, rest) ← takeN (fun ts => match ts with
      | k :: r => do let (v, r) ← decPValToks r; pure ((decStr k, v), r)
      | [] => none) n rest
    if rest.isEmpty then pure { kind := decStr kind, text := decStr text, params := ps } else none
  | _ => none

def decEntry (s : String) : Option Entry :=
  match s.splitOn ":" with
  | name :: flag :: nv :: rest => do
    let n ← nv.toNat?
    if rest.length ≠ n then none else
    let vals ← rest.mapM decVal
    pure { name := decStr name, isList := flag == "L", vals := vals }
  | _ => none

/-- split the inside of a tree on top-level ';' (parentheses nest) -/
def splitTop (s : List Char) : List (List Char) :=
  let rec go (s : List Char) (depth : Nat) (cur : List Char) (acc : List (List Char)) : List (List Char) :=
    match s with
    | [] => (cur.reverse :: acc).reverse
    | c :: cs =>
      if c == '(' then go cs (depth + 1) (c :: cur) acc
      else if c == ')' then go cs (depth - 1) (c :: cur) acc
      else if c == ';' && depth == 0 then go cs depth [] (cur.reverse :: acc)
      else go cs depth (c :: cur) acc
  go s 0 [] []

partial def decCompChars (s : List Char) : Option Comp :=
  match s with
  | '(' :: rest =>
    if rest.getLast? != some ')' then none else
    let inner := rest.dropLast
    match splitTop inner with
    | name :: np :: more => do
      let n ← (String.ofList np).toNat?
      let ps ← (more.take n).mapM (fun e => decEntry (String.ofList e))
      match more.drop n with
      | ns :: subs => do
        let k ← (String.ofList ns).toNat?
        if subs.length ≠ k then none else
        let ss ← subs.mapM decCompChars
        pure (.mk (decStr (String.ofList name)) ps ss)
      | [] => none
    | _ => none
  | _ => none

def decComp (s : String) : Option Comp := decCompChars s.toList

end ICal.Proto
