/-
  Driver op of the regenerated `parser.foldline` (ICal/Gen/BodiesFold.lean, tools/py2lean.py): the
  translator's own differential test for C06.   body_foldline line limit fold_sep -> ok:str | err:ValueError
-/
import ICal.Driver.Proto
import ICal.Driver.BodiesProto
import ICal.Gen.BodiesFold
namespace ICal.Driver
open ICal.Proto

def handleBodiesFold (op : String) (args : List String) : Option String :=
  match op, args with
  | "body_foldline", [l, lim, sep] =>
    (decInt lim).map fun n => pyRes encStr (Gen.BodiesFold.foldline (decStr l) n (decStr sep))
  | _, _ => none

end ICal.Driver
