/-
  Driver op of the regenerated `Event.end` / `Todo.end` (ICal/Gen/BodiesSE.lean, tools/py2lean.py): the translator's own
  differential test for C16.
    body_se_end cls(E|T) dtstart end duration -> value | !INC ..     (values as in the records of the op `se` of
        Driver/StartEnd.lean: - | D<day> | F<wall> | U<wall> | Z<zone>:<wall> | T<seconds> | R; the three arguments are what
        DTSTART, DTEND / DUE and DURATION returned after `_get_start_end_duration()` accepted them)
-/
import ICal.Driver.StartEnd
import ICal.Driver.BodiesProto
import ICal.Gen.BodiesSE
namespace ICal.Driver
open ICal.SE ICal.PyRT

private def decOV (s : String) : Option (Option Val) :=
  if s == "-" then some none
  else
    match s.toList.head? with
    | some 'Z' =>
      match (SEP.tail1 s).splitOn ":" with
      | [z, w] => do
        let z ← z.toNat?
        let w ← w.toInt?
        pure (some (.zoned z w 0))
      | _ => none
    | _ =>
      match SEP.decArg s with
      | some (.val v) => some (some v)
      | _ => none

private def decOD (s : String) : Option (Option Int) :=
  if s == "-" then some none
  else if s.startsWith "T" then (SEP.tail1 s).toInt?.map some else none

private def excSE : Exc → String
  | .invalidCalendar => "!IC"
  | .incompleteComponent => "!INC"
  | .typeError => "!TE"
  | .valueError => "!VE"
  | .attributeError => "!AE"
  | e => pyExcName e

def handleBodiesSE (op : String) (args : List String) : Option String :=
  match op, args with
  | "body_se_end", [c, st, en, du] =>
    match decOV st, decOV en, decOD du with
    | some st, some en, some du =>
      let r := if c == "T" then Gen.BodiesSE.Todo_end (start := st) (end_ := en) (duration := du)
        else Gen.BodiesSE.Event_end (start := st) (end_ := en) (duration := du)
      some (match r with
        | .ok (some v) => SEP.encVal v
        | .ok none => "-"
        | .error e => excSE e)
    | _, _, _ => some "bad-args"
  | _, _ => none

end ICal.Driver
