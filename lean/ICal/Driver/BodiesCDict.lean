/-
  Driver op of the regenerated delegating methods of CaselessDict (ICal/Gen/BodiesCDict.lean, tools/py2lean.py):
  the translator's own differential test for C17.
    body_cd_run <tag> <op> ...   as `cd_run` of Driver/CDict.lean, but getitem / setitem / delitem / contains / haskey /
                                 get / setdefault / pop / popitem / move_to_end run through the TRANSLATED methods (their
                                 `super().<m>` = the step of the plain ordered dict of the model, `to_unicode` = identity);
                                 every other op is the model's step.  Wave 8: init / update / copy run through the
                                 TRANSLATED `__init__` / `update` / `copy` (Gen/BodiesCDictMeta.lean) with the pieces of
                                 ICal/Model/CDictInitPieces.lean (the pairs as one positional argument)
    body_cd_split <init|update> <pairs0> <kw pairs> <D|P><pairs> ...
                                 `d = CaselessDict(pairs0)`, then `d.update(m.., **kw)` or `CaselessDict(m.., **kw)`, each m a dict
                                 (D) or a list of pairs (P): ok:I<items> | err:<E>, through the translated bodies
-/
import ICal.Driver.CDict
import ICal.Gen.BodiesCDict
import ICal.Model.CDictInitPieces
import ICal.Driver.BodiesProto
namespace ICal.Driver
open ICal.Proto ICal.CDict ICal.Gen.BodiesCDict ICal.Bodies

private def sGetitem (s : Store Nat) (k : Str) : Store Nat × Out Nat := (s, outGetitem s k)
private def sSetitem (s : Store Nat) (k : Str) (v : Nat) : Store Nat × Out Nat := (odSet s k v, .none)
private def sDelitem (s : Store Nat) (k : Str) : Store Nat × Out Nat :=
  if odHas s k then (odErase s k, .none) else (s, .err .KeyError)
private def sContains (s : Store Nat) (k : Str) : Store Nat × Out Nat := (s, .bool (odHas s k))
private def sGet (s : Store Nat) (k : Str) (d : Option Nat) : Store Nat × Out Nat := (s, outGet s k d)
private def sSetdefault (s : Store Nat) (K : Str) (v : Nat) : Store Nat × Out Nat :=
  if cdContains upper s K then (s, cdGetitem upper s K) else (cdSetitem upper s K v, .val v)
private def sPop (s : Store Nat) (k : Str) (d : Option Nat) : Store Nat × Out Nat :=
  match odGet s k with
  | some v => (odErase s k, .val v)
  | none => (s, match d with | some d => .val d | none => .none)
private def sMoveToEnd (s : Store Nat) (k : Str) (last : Bool) : Store Nat × Out Nat :=
  match odMoveToEnd s k last with
  | some s' => (s', .none)
  | none => (s, .err .KeyError)

/-- one call: the ten delegating methods through the translated code -/
def bodyStep (s : Store Nat) : Op Nat → Store Nat × Out Nat
  | .getitem k => cd_getitem id sGetitem s k
  | .setitem k v => cd_setitem id sSetitem s k v
  | .delitem k => cd_delitem id sDelitem s k
  | .contains k => cd_contains id sContains s k
  | .hasKey k => cd_has_key id sContains s k
  | .get k d => cd_get id sGet s k d
  | .setdefault k v => cd_setdefault id sSetdefault s k v
  | .pop k d => cd_pop id sPop s k d
  | .popitem => cd_popitem cdPopitem s
  | .moveToEnd k last => cd_move_to_end id sMoveToEnd s k last
  | .init args => match cdInitP id [⟨true, args⟩] ⟨true, []⟩ with
    | .ok s' => (s', .none)
    | .error _ => (s, .err .KeyError)
  | .update l => match cdUpdateP id s [⟨false, l⟩] ⟨true, []⟩ with
    | .ok s' => (s', .none)
    | .error _ => (s, .err .KeyError)
  | .copy => match cdCopyP id s with
    | .ok s' => (s', .none)
    | .error _ => (s, .err .KeyError)
  | o => step upper s o

def bodyTrace : Store Nat → List (Op Nat) → List (Out Nat × List Str)
  | _, [] => []
  | s, o :: os => let r := bodyStep s o; (r.2, odKeys r.1) :: bodyTrace r.1 os

def handleBodiesCDict (op : String) (args : List String) : Option String :=
  match op, args with
  | "body_cd_run", _ :: ops =>
    match ops.mapM decCdOp with
    | none => none
    | some l =>
      if (l.all (fun o => (opKeys o).all asciiStr)) then
        some (";".intercalate ((bodyTrace ([] : Store Nat) l).map (fun r => encOut r.1 ++ "@" ++ encStrList r.2)))
      else some "unmodelled"
  | "body_cd_split", which :: p0 :: kw :: ms =>
    let decM (m : String) : Option (MapArg Nat) :=
      match m.toList with
      | 'D' :: r => (decPairs (String.ofList r)).map (fun l => ⟨true, l⟩)
      | 'P' :: r => (decPairs (String.ofList r)).map (fun l => ⟨false, l⟩)
      | _ => none
    match decPairs p0, decPairs kw, ms.mapM decM with
    | some l0, some lk, some args =>
      if !((l0 ++ lk ++ args.flatMap (·.pairs)).all (fun p => asciiStr p.1)) then some "unmodelled" else
      let r : ICal.PyRT.Py (Store Nat) :=
        if which == "init" then cdInitP id args ⟨true, lk⟩
        else match cdInitP id [⟨true, l0⟩] ⟨true, []⟩ with
          | .ok s => cdUpdateP id s args ⟨true, lk⟩
          | .error e => .error e
      some (pyRes (fun s => "I" ++ encPairs s) r)
    | _, _, _ => some "bad-args"
  | _, _ => none

end ICal.Driver
