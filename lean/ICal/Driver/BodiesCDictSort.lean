/-
  Driver op of the regenerated `canonsort_keys` (ICal/Gen/BodiesCDictSort.lean, tools/py2lean.py wave 8): the
  translator's own differential test for C17.
    body_canonsort <keys> <order> <N|L>   canonsort_keys(keys, None | order) -> ok:<str list> | err:<E>
-/
import ICal.Driver.CDict
import ICal.Driver.BodiesProto
import ICal.Gen.BodiesCDictSort
namespace ICal.Driver
open ICal.Proto

def handleBodiesCDictSort (op : String) (args : List String) : Option String :=
  match op, args with
  | "body_canonsort", [ks, o, flag] =>
    let order : Option (List Str) := if flag == "N" then none else some (decStrList o)
    some (pyRes encStrList (Gen.BodiesCDictSort.canonsort_keys (decStrList ks) order))
  | _, _ => none

end ICal.Driver
