/-
  Driver ops of the regenerated bodies of alarms.py (ICal/Gen/BodiesAlarm.lean, tools/py2lean.py): the
  translator's own differential test for C15 / C14 (harness/props/C15.py, "translated bodies").
    body_at_state trig ack_alarm ack_component snooze tag -> acknowledged ";" is_active ";" trigger
        (arguments and result as the op `at_state` of Driver/Alarm.lean; the optional instants are given
         to the translated code as aware datetime objects, `tools.to_datetime` is the hand model's)
    body_al_add trig seconds tag -> trig                        (`Alarms._add`; `normalize_pytz` = identity, as in the model)
    body_al_repeat trig repeat duration tag -> trigs, comma separated   (`Alarms._repeat`; duration "-" = None)
    body_al_active <arguments of al_active> -> as al_active     (`Alarms.active` over the hand model's `times`, each
                                                                 alarm time tested by the translated `is_active`)
-/
import ICal.Driver.Alarm
import ICal.Driver.BodiesProto
import ICal.Gen.BodiesAlarm
namespace ICal.Driver
open ICal.Proto ICal.Alarms ICal.PyRT ICal.Gen.BodiesAlarm

private def awareO (o : Option Int) : Option Trig := o.map Trig.aware

private def encOptTrigInst : Option Trig → String
  | none => "-"
  | some (.aware i) => toString i
  | some t => AlarmP.encTrig t

def handleBodiesAlarm (op : String) (args : List String) : Option String :=
  match op, args with
  | "body_at_state", [t, ka, kc, sn, _tag] =>
    match AlarmP.decTrigO t, AlarmP.decOptInt ka, AlarmP.decOptInt kc, AlarmP.decOptInt sn with
    | some (some t), some ka, some kc, some sn =>
      let ack := AlarmTime_acknowledged (alarm_acknowledged := awareO ka) (last_ack := awareO kc)
      let act := AlarmTime_is_active (alarm_acknowledged := awareO ka) (last_ack := awareO kc) (snooze_until := awareO sn) (trigger_raw := t) (to_datetime := toDatetime)
      let trg := AlarmTime_trigger (snooze_until := awareO sn) (trigger_raw := t) (to_datetime := toDatetime)
      some ((match ack with | .ok o => encOptTrigInst o | .error e => pyExcName e) ++ ";" ++
        (match act with | .ok true => "1" | .ok false => "0" | .error e => pyExcName e) ++ ";" ++
        (match trg with | .ok x => AlarmP.encTrig x | .error e => pyExcName e))
    | _, _, _, _ => some "bad-args"
  | "body_al_add", [t, td, _tag] =>
    match AlarmP.decTrigO t, td.toInt? with
    | some (some t), some td => some (AlarmP.encTrig (Alarms_add (dt := t) (td := td) (to_datetime := toDatetime) (normalize_pytz := id)))
    | _, _ => some "bad-args"
  | "body_al_repeat", [t, rep, dur, _tag] =>
    match AlarmP.decTrigO t, rep.toInt?, AlarmP.decOptInt dur with
    | some (some t), some rep, some dur =>
      some (pyRes (fun l => ",".intercalate (l.map AlarmP.encTrig)) (Alarms_repeat (first := t) (alarm_repeat := rep) (alarm_duration := dur) (to_datetime := toDatetime) (normalize_pytz := id)))
    | _, _, _ => some "bad-args"
  | "body_al_active", args =>
    AlarmP.withState args fun loc s as =>
      match times loc s with
      | .error e => AlarmP.encErr e
      | .ok ts =>
        let act : AlarmTime → Py Bool := fun x =>
          AlarmTime_is_active (alarm_acknowledged := awareO x.alarm.acknowledged) (last_ack := awareO x.lastAck) (snooze_until := awareO x.snooze)
            (trigger_raw := x.trig) (to_datetime := toDatetime)
        match Alarms_active ts act with
        | .error e => pyExcName e
        | .ok r => "ok" ++ String.join (r.map (fun x =>
            "|" ++ toString (as.idxOf x.alarm) ++ ":" ++
              (match AlarmTime_trigger (snooze_until := awareO x.snooze) (trigger_raw := x.trig) (to_datetime := toDatetime) with
               | .ok v => AlarmP.encTrig v | .error e => pyExcName e)))
  | _, _ => none

end ICal.Driver
