/-
  Driver ops for the time zone models (C12: Model/Tz, C13: Model/TzGen).
  Encodings (fields never contain TAB):
    observance (input)  isDst:hasName:name:auto:from:to:onsets      name/auto = code points, onsets = ints joined by ' '
    observance list     observances joined by ';'
    instants            ints joined by ' '
    zone table row      pos:off:isStd:name                          rows joined by ';'
-/
import ICal.Driver.Proto
import ICal.Model.Tz
import ICal.Model.TzGen
namespace ICal.Driver
open ICal.Proto ICal.Tz ICal.TzGen

private def splitNE (s : String) (sep : String) : List String :=
  if s.isEmpty then [] else s.splitOn sep

private def decInts (s : String) : Option (List Int) := (splitNE s " ").mapM String.toInt?

private def encInts (l : List Int) : String := " ".intercalate (l.map toString)

private def decObsIn (s : String) : Option ObsIn :=
  match s.splitOn ":" with
  | [d, h, nm, au, f, t, ons] => do
    let f ← f.toInt?
    let t ← t.toInt?
    let ons ← decInts ons
    some ⟨d == "1", if h == "1" then some (decStr nm) else none, decStr au, f, t, ons⟩
  | _ => none

private def decObsList (s : String) : Option (List Obs) := do
  let l ← (splitNE s ";").mapM decObsIn
  some (resolveNames l [])

private def encEnt (e : Ent) : String :=
  s!"{e.utc}:{e.off}:{e.dst}:{encStr e.name}"

private def encView (e : Ent) : String := s!"{e.off}:{e.dst}:{encStr e.name}"

private def encSpec (r : Option (Int × Obs)) : String :=
  match r with
  | none => "none"
  | some (_, o) => s!"{o.offTo}:{encStr o.name}:{encBool o.isDst}"

/-- calendars: items joined by ' ', calendars by ';'; item `v<id>.<def>` or `u<id>` -/
private def decItem (ids : List Str) (s : String) : Option (Item Nat) :=
  if s.startsWith "v" then
    match (s.drop 1).toString.splitOn "." with
    | [i, d] => do
      let i ← i.toNat?
      let d ← d.toNat?
      let id ← ids[i]?
      some (.vtz id d)
    | _ => none
  else if s.startsWith "u" then do
    let i ← (s.drop 1).toString.toNat?
    let id ← ids[i]?
    some (.use id)
  else none

private def encRes : Res Nat → String
  | .provider => "p"
  | .custom d => s!"c{d}"
  | .naive => "n"

private def flagAt (ids : List Str) (flags : List String) (k : Nat) (s : Str) : Bool :=
  match ids.idxOf? s with
  | some i => ((flags.getD i "").toList.getD k '0') == '1'
  | none => false

private def decInfo (o s n : String) : Option Info := do
  let o ← o.toInt?
  some ⟨o, s == "1", decStr n⟩

private def decRow (s : String) : Option Row :=
  match s.splitOn ":" with
  | [a, o, st, n] => do
    let a ← a.toInt?
    let i ← decInfo o st n
    some ⟨a, i⟩
  | _ => none

private def encGen (g : GenObs) : String :=
  s!"{encBool g.isStd}:{g.offFrom}:{g.offTo}:{encStr g.name}:{g.dtstart}:{encInts g.rdates}"

private def decZone (clock init rows : String) : Option Zone :=
  match init.splitOn ":" with
  | [o, st, n] => do
    let i ← decInfo o st n
    let rs ← (splitNE rows ";").mapM decRow
    some ⟨i, rs, clock == "1"⟩
  | _ => none

def handleTz (op : String) (args : List String) : Option String :=
  match op, args with
  | "tz_round", [a] => (a.toInt?).map fun x => toString (roundMin x)
  | "tz_trans", [o] =>
    match decObsList o with
    | none => some "bad-args"
    | some obs =>
      match getTransitions obs with
      | none => some "err:AssertionError"
      | some ts => some (";".intercalate (ts.map encEnt))
  | "tz_lookup", [o, ins] =>
    match decObsList o, decInts ins with
    | some obs, some ins =>
      match getTransitions obs with
      | none => some "err:AssertionError"
      | some [] => some "unmodelled"
      | some ts => some (";".intercalate (ins.map fun t => match lookup ts t with | some e => encView e | none => "none"))
    | _, _ => some "bad-args"
  | "tz_spec", [o, ins] =>
    match decObsList o, decInts ins with
    | some obs, some ins => some (";".intercalate (ins.map fun t => encSpec (specAt obs t)))
    | _, _ => some "bad-args"
  | "tz_strip", [a] => some (encStr (stripSlash (decStr a)))
  | "tz_cache", [ids, flags, cals] =>
    let ids := decStrList ids
    let flags := splitNE flags "|"
    let P : Prov := ⟨fun s => flagAt ids flags 0 s, fun s => flagAt ids flags 1 s⟩
    match (splitNE cals ";").mapM (fun c => (splitNE c " ").mapM (decItem ids)) with
    | none => some "bad-args"
    | some cs =>
      some (";".intercalate ((parseAll P [] cs).map fun rs => " ".intercalate (rs.map encRes)))
  | "tz_steps", [] => some (encInts skipSearch)
  | "tzgen", [clock, h, first, last, lastWall, init, rows] =>
    match decZone clock init rows, h.toInt?, first.toInt?, last.toInt?, lastWall.toInt? with
    | some Z, some H, some f, some l, some lw =>
      if !sortedRows Z.rows then some "unmodelled"
      else match fromTzinfo Z H f l lw with
        | none => some "err:OverflowError"
        | some gs => some (";".intercalate (gs.map encGen))
    | _, _, _, _, _ => some "bad-args"
  | "tzgen_chain", [init, rows, first, last] =>
    match decZone "0" init rows, first.toInt?, last.toInt? with
    | some Z, some f, some l => some (encBool (sortedRows Z.rows && chainOK Z.init Z.rows f l))
    | _, _, _ => some "bad-args"
  | _, _ => none

end ICal.Driver
