/-
  Driver op of the regenerated `Component.to_ical` (with `content_lines`, `content_line`, `property_items`;
  ICal/Gen/BodiesSer.lean, tools/py2lean.py): the translator's own differential test for C10.
    body_ser sorted(0|1) tree -> as the op `ser` of Driver/Tree.lean: "ok" TAB text | err:AssertionError | err:ValueError
  The external pieces are those of ICal/Model/SerPieces.lean (the ones ICal/Lemmas/BodiesSerLines.lean speaks of).
-/
import ICal.Driver.Tree
import ICal.Driver.BodiesProto
import ICal.Model.SerPieces
namespace ICal.Driver
open ICal.Proto ICal.PyRT

def handleBodiesSerLines (op : String) (args : List String) : Option String :=
  match op, args with
  | "body_ser", [srt, t] =>
    match decComp t with
    | some c =>
      match Bodies.toIcalP c (srt == "1") with
      | .ok s => some ("ok\t" ++ encStr s)
      | .error e => some (pyExcName e)
    | none => some "bad-args"
  | _, _ => none

end ICal.Driver
