/-
  Driver ops of the value-codec model (C03).  Result encodings:
    ok:<value>  |  err:ValueError  |  err:IndexError  |  unmodelled (non-ASCII text argument)
    date  y,m,d        datetime  y,m,d,h,mi,s,u     time  h,mi,s,u     (u = 1 iff UTC)
    ddd   date:<date> | dt:<datetime> | time:<time> | dur:<int> | period:<atom>|<atom>
    rfc_* ops answer `none` or `ok:<value>` (the spec-side recognisers).
-/
import ICal.Driver.Proto
import ICal.Model.Codec
namespace ICal.Driver
open ICal.Proto

private def errS : CodecErr → String
  | .valueError => "err:ValueError"
  | .indexError => "err:IndexError"

private def res {α : Type} (f : α → String) : CRes α → String
  | .ok v => "ok:" ++ f v
  | .error e => errS e

private def opt {α : Type} (f : α → String) : Option α → String
  | some v => "ok:" ++ f v
  | none => "none"

private def b01 (b : Bool) : String := if b then "1" else "0"
private def dateS (d : PDate) : String := s!"{d.y},{d.m},{d.d}"
private def timeS (t : PTime) : String := s!"{t.h},{t.mi},{t.s},{b01 t.utc}"
private def dtS (t : PDateTime) : String := s!"{dateS t.date},{t.h},{t.mi},{t.s},{b01 t.utc}"
private def intS (z : Int) : String := toString z

private def atomS : Atom → String
  | .date d => "date:" ++ dateS d
  | .dt t => "dt:" ++ dtS t
  | .time t => "time:" ++ timeS t
  | .dur s => "dur:" ++ intS s

private def dddS : DDD → String
  | .atom a => atomS a
  | .period a b => "period:" ++ atomS a ++ "|" ++ atomS b

private def optIntS : Option Int → String
  | some z => intS z
  | none => "None"

private def wdS (v : WeekdayV) : String :=
  encStr v.text ++ ";" ++ encStr v.weekday ++ ";" ++ optIntS v.relative

private def nats (l : List String) : Option (List Nat) := l.mapM decNat

/-- parse an atom argument `kind:fields` -/
private def decAtom (s : String) : Option Atom :=
  match s.splitOn ":" with
  | [k, f] =>
    match k, (f.splitOn ",") with
    | "dur", [z] => (decInt z).map Atom.dur
    | "date", fs =>
      match nats fs with
      | some [y, m, d] => some (.date ⟨y, m, d⟩)
      | _ => none
    | "dt", fs =>
      match nats fs with
      | some [y, m, d, h, mi, sec, u] => some (.dt ⟨⟨y, m, d⟩, h, mi, sec, u == 1⟩)
      | _ => none
    | "time", fs =>
      match nats fs with
      | some [h, mi, sec, u] => some (.time ⟨h, mi, sec, u == 1⟩)
      | _ => none
    | _, _ => none
  | _ => none

private def ascii (s : Str) : Bool := s.all (fun c => c.toNat < 128)

/-- a decoder op on one ASCII text argument -/
private def onText (a : String) (f : Str → String) : Option String :=
  let s := decStr a
  if ascii s then some (f s) else some "unmodelled"

def handleCodec (op : String) (args : List String) : Option String :=
  match op, args with
  | "c_pyint", [a] => onText a fun s => res intS (pyIntE s)
  | "c_date_to", [y, m, d] =>
    match nats [y, m, d] with
    | some [y, m, d] => some (encStr (vDateTo ⟨y, m, d⟩))
    | _ => none
  | "c_date_from", [a] => onText a fun s => res dateS (vDateFrom s)
  | "c_dt_to", [y, m, d, h, mi, sec, u] =>
    match nats [y, m, d, h, mi, sec, u] with
    | some [y, m, d, h, mi, sec, u] => some (encStr (vDatetimeTo ⟨⟨y, m, d⟩, h, mi, sec, u == 1⟩))
    | _ => none
  | "c_dt_from", [a] => onText a fun s => res dtS (vDatetimeFrom s)
  | "c_time_to", [h, mi, sec, u] =>
    match nats [h, mi, sec, u] with
    | some [h, mi, sec, u] => some (encStr (vTimeTo ⟨h, mi, sec, u == 1⟩))
    | _ => none
  | "c_time_from", [a] => onText a fun s => res timeS (vTimeFrom s)
  | "c_dur_to", [z] => (decInt z).map fun z => encStr (durTo z)
  | "c_dur_from", [a] => onText a fun s => res intS (durFromE s)
  | "c_off_to", [z] => (decInt z).map fun z => encStr (offTo z)
  | "c_off_from", [a] => onText a fun s => res intS (offFrom s)
  | "c_int_to", [z] => (decInt z).map fun z => encStr (intTo z)
  | "c_int_from", [a] => onText a fun s => res intS (intFrom s)
  | "c_bool_to", [b] => some (encStr (boolTo (b == "1")))
  | "c_bool_from", [a] => onText a fun s => res b01 (boolFrom s)
  | "c_wd_new", [a] => onText a fun s => res wdS (vWeekdayNew s)
  | "c_wd_from", [a] => onText a fun s => res wdS (vWeekdayFrom s)
  | "c_wd_to", [a] => onText a fun s => encStr (vWeekdayTo ⟨s, [], none⟩)
  | "c_freq_from", [a] => onText a fun s => res encStr (freqFrom s)
  | "c_freq_to", [a] => onText a fun s => encStr (freqTo s)
  | "c_month_from", [a] => onText a fun s => res (fun p => intS p.1 ++ "," ++ b01 p.2) (vMonthFrom s)
  | "c_month_to", [z, l] => (decInt z).map fun z => encStr (vMonthTo z (l == "1"))
  | "c_period_to", [a, b] =>
    match decAtom a, decAtom b with
    | some x, some y => some (encStr (vPeriodTo x y))
    | _, _ => none
  | "c_atom_to", [a] => (decAtom a).map fun x => encStr (atomTo x)
  | "c_period_from", [a] => onText a fun s => res dddS (vPeriodFrom s)
  | "c_ddd_from", [a] => onText a fun s => res dddS (dddFrom s)
  | "c_geo_parts", [a] => onText a fun s => res (fun p => encStr p.1 ++ ";" ++ encStr p.2) (geoParts s)
  -- spec side
  | "c_rfc_date", [a] => onText a fun s => opt dateS (rfcDate s)
  | "c_rfc_time", [a] => onText a fun s => opt timeS (rfcTime s)
  | "c_rfc_dt", [a] => onText a fun s => opt dtS (rfcDateTime s)
  | "c_rfc_dur", [a] => onText a fun s => opt intS (rfcDuration s)
  | "c_rfc_off", [a] => onText a fun s => opt intS (rfcUtcOffset s)
  | "c_rfc_int", [a] => onText a fun s => opt intS (rfcInteger s)
  | "c_rfc_bool", [a] => onText a fun s => opt b01 (rfcBoolean s)
  | "c_rfc_period", [a] => onText a fun s => opt dddS (rfcPeriod s)
  | "c_rfc_wd", [a] => onText a fun s => opt (fun p => toString p.1 ++ "," ++ optIntS p.2) (rfcWeekdayNum s)
  | "c_rfc_freq", [a] => onText a fun s => opt encStr (rfcFreq s)
  | "c_rfc_month", [a] => onText a fun s => opt (fun p => intS p.1 ++ "," ++ b01 p.2) (rfcMonth s)
  -- regex sources and tables the hand matchers implement
  | "c_regex_dur", [] => some (encStr durationRegexSource.toList)
  | "c_regex_wd", [] => some (encStr weekdayRegexSource.toList)
  | "c_tbl_weekdays", [] => some (encStrList weekDays)
  | "c_tbl_freq", [] => some (encStrList frequencies)
  | _, _ => none

end ICal.Driver
