/-
  Driver op of the regenerated `Component.walk` / `_walk` (ICal/Gen/BodiesWalk.lean, tools/py2lean.py): the
  translator's own differential test for C20.   body_w_walk tree nameflag name pred -> as `w_walk` of Driver/Walk.lean
-/
import ICal.Driver.Walk
import ICal.Gen.BodiesWalk
namespace ICal.Driver
open ICal.Proto

def handleBodiesWalk (op : String) (args : List String) : Option String :=
  match op, args with
  | "body_w_walk", [t, flag, name, pred] =>
    match decComp t, decPred pred with
    | some c, some sel =>
      let n? := if flag == "S" then some (decStr name) else none
      some (encComps (Gen.BodiesWalk.Component_walk c n? sel))
    | _, _ => some "bad-args"
  | _, _ => none

end ICal.Driver
