/-
  Driver ops of the recurrence-rule model (C19).
    rule    <n> { "~" key "~" <m> { "~" value } }          key: str (code points)
    value   i:<int> | m:<int>:<0|1> | w:<str> | f:<str> | s:<str> | t:<str> | u:<ddd>
    ddd     date:y,m,d | dt:y,m,d,h,mi,s,u | time:h,mi,s,u | dur:<int> | period:<atom>|<atom>
  ops
    recur_new  rule   -> rule                       `vRecur(mapping)` : state of the dictionary
    recur_to   rule   -> ok TAB text | err:ValueError | unmodelled
    recur_from text   -> ok TAB rule | err:ValueError | unmodelled
    recur_rfc  text   -> <grammar>,<grammar and FREQ first>     (spec-side recogniser)
    recur_tbl_skip    -> the vSkip members
  `unmodelled`: a non-ASCII key, a non-ASCII value of a typed part (`str.upper`, `int`, `isdigit`
  are Unicode-aware in Python), or a value whose kind is not the one the key's class expects.
-/
import ICal.Driver.Proto
import ICal.Model.Recur
namespace ICal.Driver
open ICal.Proto

private def rb01 (b : Bool) : String := if b then "1" else "0"
private def rDateS (d : PDate) : String := s!"{d.y},{d.m},{d.d}"
private def rAtomS : Atom → String
  | .date d => "date:" ++ rDateS d
  | .dt t => s!"dt:{rDateS t.date},{t.h},{t.mi},{t.s},{rb01 t.utc}"
  | .time t => s!"time:{t.h},{t.mi},{t.s},{rb01 t.utc}"
  | .dur s => "dur:" ++ toString s
private def rDddS : DDD → String
  | .atom a => rAtomS a
  | .period a b => "period:" ++ rAtomS a ++ "|" ++ rAtomS b

private def rDecAtom (s : String) : Option Atom :=
  match s.splitOn ":" with
  | [k, f] =>
    match k, (f.splitOn ",").mapM decNat with
    | "dur", _ => (decInt f).map Atom.dur
    | "date", some [y, m, d] => some (.date ⟨y, m, d⟩)
    | "dt", some [y, m, d, h, mi, sec, u] => some (.dt ⟨⟨y, m, d⟩, h, mi, sec, u == 1⟩)
    | "time", some [h, mi, sec, u] => some (.time ⟨h, mi, sec, u == 1⟩)
    | _, _ => none
  | _ => none

private def rDecDdd (s : String) : Option DDD :=
  if s.startsWith "period:" then
    match (s.drop 7).toString.splitOn "|" with
    | [a, b] => do
      let x ← rDecAtom a
      let y ← rDecAtom b
      pure (.period x y)
    | _ => none
  else (rDecAtom s).map DDD.atom

def encPartVal : PartVal → String
  | .int z => "i:" ++ toString z
  | .month n l => "m:" ++ toString n ++ ":" ++ rb01 l
  | .weekday t => "w:" ++ encStr t
  | .freq t => "f:" ++ encStr t
  | .until d => "u:" ++ rDddS d
  | .skip t => "s:" ++ encStr t
  | .text s => "t:" ++ encStr s

def decPartVal (s : String) : Option PartVal :=
  let tag := (s.take 2).toString
  let rest := (s.drop 2).toString
  if tag == "i:" then (decInt rest).map PartVal.int
  else if tag == "m:" then
    match rest.splitOn ":" with
    | [n, l] => (decInt n).map (fun z => PartVal.month z (l == "1"))
    | _ => none
  else if tag == "w:" then some (.weekday (decStr rest))
  else if tag == "f:" then some (.freq (decStr rest))
  else if tag == "u:" then (rDecDdd rest).map PartVal.until
  else if tag == "s:" then some (.skip (decStr rest))
  else if tag == "t:" then some (.text (decStr rest))
  else none

def encRule (r : Rule) : String :=
  toString r.length ++ String.join (r.map (fun kv =>
    "~" ++ encStr kv.1 ++ "~" ++ toString kv.2.length ++ String.join (kv.2.map (fun v => "~" ++ encPartVal v))))

private def takeVals : Nat → List String → Option (List PartVal × List String)
  | 0, ts => some ([], ts)
  | n + 1, t :: ts => do
    let v ← decPartVal t
    let (vs, rest) ← takeVals n ts
    pure (v :: vs, rest)
  | _ + 1, [] => none

private def takeItems : Nat → List String → Option (List (Str × List PartVal) × List String)
  | 0, ts => some ([], ts)
  | n + 1, k :: m :: ts => do
    let mm ← m.toNat?
    let (vs, rest) ← takeVals mm ts
    let (items, rest') ← takeItems n rest
    pure ((decStr k, vs) :: items, rest')
  | _ + 1, _ => none

def decRule (s : String) : Option (List (Str × List PartVal)) :=
  match s.splitOn "~" with
  | np :: rest => do
    let n ← np.toNat?
    let (items, rest') ← takeItems n rest
    if rest'.isEmpty then pure items else none
  | [] => none

private def rNonAscii (s : Str) : Bool := s.any (fun c => c.toNat ≥ 128)

private def valUnmodelled (ty : PType) (v : PartVal) : Bool :=
  !kindOk ty v || (match v with
    | .weekday t => rNonAscii t
    | .freq t => rNonAscii t
    | _ => false)

private def ruleUnmodelled (items : List (Str × List PartVal)) : Bool :=
  items.any (fun kv => rNonAscii kv.1 || kv.2.any (valUnmodelled (recurTypeOf kv.1)))

private def textUnmodelled (t : Str) : Bool :=
  (splitOnChar ';' t).any (fun p =>
    match splitOnChar '=' p with
    | [k, v] => rNonAscii k || (recurTypeOf k != PType.text && rNonAscii v)
    | _ => false)

def handleRecur (op : String) (args : List String) : Option String :=
  match op, args with
  | "recur_new", [a] =>
    match decRule a with
    | some items => if items.any (fun kv => rNonAscii kv.1) then some "unmodelled" else some (encRule (recurNew items))
    | none => some "bad-args"
  | "recur_to", [a] =>
    match decRule a with
    | some items =>
      if ruleUnmodelled items then some "unmodelled" else
      match recurTo (recurNew items) with
      | .ok t => some ("ok\t" ++ encStr t)
      | .error _ => some "err:ValueError"
    | none => some "bad-args"
  | "recur_from", [a] =>
    let t := decStr a
    if textUnmodelled t then some "unmodelled" else
    match recurFrom t with
    | .ok r => some ("ok\t" ++ encRule r)
    | .error _ => some "err:ValueError"
  | "recur_rfc", [a] =>
    let t := decStr a
    some (rb01 (rfcRecur t) ++ "," ++ rb01 (rfcRecurFreqFirst t))
  | "recur_tbl_skip", [] => some (encStrList skipValues)
  | _, _ => none

end ICal.Driver
