import ICal.Driver.Proto
import ICal.Driver.TreeProto
import ICal.Driver.Line
import ICal.Model.Parse
namespace ICal.Driver
open ICal.Proto

def encItem (it : Item) : String := encStr it.name ++ "^" ++ encStr it.text ++ "^" ++ encParams it.params

/-- decoder table: entries separated by '|', fields by '^': kind ^ text ^ tz ^ result
    tz = "-" (no timezone argument) or a pval; result = "!" (ValueError) or "=" ++ text -/
structure DecEntry where
  kind : Str
  text : Str
  tz : Option PVal
  res : Option Str

def decDecEntry (s : String) : Option DecEntry :=
  match s.splitOn "^" with
  | [k, t, tz, r] =>
    let tzv : Option (Option PVal) :=
      if tz == "-" then some none else (decPValToks (tz.splitOn "~")).map (fun x => some x.1)
    match tzv with
    | none => none
    | some tzv =>
      let res : Option Str := if r == "!" then none else some (decStr (r.drop 1).toString)
      some ⟨decStr k, decStr t, tzv, res⟩
  | _ => none

def decTable (s : String) : List DecEntry :=
  if s.isEmpty then [] else (s.splitOn "|").filterMap decDecEntry

/-- the oracle decoder backed by the table; a miss is reported through the `miss` marker text -/
def missMarker : Str := ['\x00', 'm', 'i', 's', 's']
def tableDec (tab : List DecEntry) : Dec := fun kind text tz =>
  match tab.find? (fun e => e.kind == kind && e.text == text && e.tz == tz) with
  | some e => e.res
  | none => some missMarker

partial def hasMiss : Comp → Bool
  | .mk _ props subs => props.any (fun e => e.vals.any (fun v => v.text == missMarker)) || subs.any hasMiss

def sortLog (l : List (Str × Str)) : List (Str × Str) :=
  l.mergeSort (fun a b => strLe a.1 b.1 && (strLt a.1 b.1 || strLe a.2 b.2))

def encLog (l : List (Str × Str)) : String :=
  toString l.length ++ String.join ((sortLog l).map (fun e => "|" ++ encStr e.1 ++ "^" ++ encStr e.2))

def handleTree (op : String) (args : List String) : Option String :=
  match op, args with
  | "items", [srt, t] =>
    match decComp t with
    | some c => some (String.intercalate "|" ((items (srt == "1") c).map encItem))
    | none => some "bad-args"
  | "ser", [srt, t] =>
    match decComp t with
    | some c =>
      match toIcal (srt == "1") c with
      | .ok s => some ("ok\t" ++ encStr s)
      | .error .assertion => some "err:AssertionError"
      | .error .value => some "err:ValueError"
    | none => some "bad-args"
  | "parse", [multiple, tab, text] =>
    let t := decStr text
    -- names are matched against Python's Unicode-aware `\w`; the model is ASCII
    -- `tzok := fun _ => true`: the harness skips inputs whose parse fails inside cache_timezone_component
    match parseText (fun _ => true) (tableDec (decTable tab)) (multiple == "1") t with
    | none => some "err:ValueError"
    | some (comps, log) =>
      if comps.any hasMiss then some "table-miss" else
      some ("ok\t" ++ toString comps.length ++ String.join (comps.map (fun c => "\t" ++ encComp c)) ++ "\t" ++ encLog log)
  | "for_property", [n] => some (encStr (forProperty (decStr n)))
  | _, _ => none

end ICal.Driver
