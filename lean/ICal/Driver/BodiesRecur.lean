/-
  Driver ops of the regenerated `vRecur.to_ical` / `vRecur.from_ical` (with `parse_type`; ICal/Gen/BodiesRecur.lean,
  tools/py2lean.py): the translator's own differential test for C19.
    body_recur_to rule   -> as recur_to of Driver/Recur.lean     ("ok" TAB text | err:ValueError | unmodelled)
    body_recur_from text -> as recur_from                         ("ok" TAB rule | err:ValueError | unmodelled)
  The pieces are those of ICal/Model/RecurPieces.lean.  The hand model's op is only asked whether the case is modelled.
-/
import ICal.Driver.Recur
import ICal.Driver.BodiesProto
import ICal.Model.RecurPieces
namespace ICal.Driver
open ICal.Proto ICal.PyRT

def handleBodiesRecur (op : String) (args : List String) : Option String :=
  match op, args with
  | "body_recur_to", [a] =>
    match handleRecur "recur_to" [a], decRule a with
    | some "unmodelled", _ => some "unmodelled"
    | some "bad-args", _ => some "bad-args"
    | _, some items =>
      match Bodies.recurToP (recurNew items) with
      | .ok t => some ("ok\t" ++ encStr t)
      | .error e => some (pyExcName e)
    | _, none => some "bad-args"
  | "body_recur_from", [a] =>
    match handleRecur "recur_from" [a] with
    | some "unmodelled" => some "unmodelled"
    | _ =>
      match Bodies.recurFromP (decStr a) with
      | .ok r => some ("ok\t" ++ encRule r)
      | .error e => some (pyExcName e)
  | _, _ => none

end ICal.Driver
