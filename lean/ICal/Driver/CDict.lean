/-
  Driver for the CaselessDict model (C17).
    cd_run <tag> <op> <op> ...      tag is ignored (it names the class / key flavour on the Python side)
        op fields are ':'-separated; keys are `str` payloads, values decimal naturals,
        pair lists "<n>|k=v|k=v", key lists "<n>|k|k"
        answer: "<out>@<keys>" per step, joined by ';'
    canonsort <keys> <order>        canonsort_keys(keys, order)
  `up` is instantiated with ASCII `upper`; a non-ASCII key makes the line `unmodelled`.
-/
import ICal.Driver.Proto
import ICal.Model.CDict
namespace ICal.Driver
open ICal.Proto ICal.CDict

def decPair (s : String) : Option (Str × Nat) :=
  match s.splitOn "=" with
  | [k, v] => v.toNat?.map (fun n => (decStr k, n))
  | _ => none

def decPairs (s : String) : Option (List (Str × Nat)) :=
  match s.splitOn "|" with
  | [] => some []
  | _ :: items => items.mapM decPair

def decOptNat (s : String) : Option (Option Nat) :=
  if s.isEmpty then some none else s.toNat?.map some

def decCdOp (s : String) : Option (Op Nat) :=
  match s.splitOn ":" with
  | ["init", p] => (decPairs p).map .init
  | ["getitem", k] => some (.getitem (decStr k))
  | ["setitem", k, v] => v.toNat?.map (.setitem (decStr k))
  | ["delitem", k] => some (.delitem (decStr k))
  | ["contains", k] => some (.contains (decStr k))
  | ["haskey", k] => some (.hasKey (decStr k))
  | ["get", k, d] => (decOptNat d).map (.get (decStr k))
  | ["setdefault", k, v] => v.toNat?.map (.setdefault (decStr k))
  | ["pop", k, d] => (decOptNat d).map (.pop (decStr k))
  | ["popitem"] => some .popitem
  | ["update", p] => (decPairs p).map .update
  | ["copy"] => some .copy
  | ["eq", p] => (decPairs p).map .eq
  | ["ne", p] => (decPairs p).map .ne
  | ["or", p] => (decPairs p).map .or
  | ["ior", p] => (decPairs p).map .ior
  | ["ror", p] => (decPairs p).map .ror
  | ["fromkeys", ks, v] => v.toNat?.map (.fromkeys (decStrList ks))
  | ["mte", k, l] => some (.moveToEnd (decStr k) (l == "1"))
  | ["keys"] => some .keys
  | ["values"] => some .values
  | ["items"] => some .items
  | ["len"] => some .len
  | ["clear"] => some .clear
  | ["reversed"] => some .reversed
  | ["sortedkeys", o] => some (.sortedKeys (decStrList o))
  | ["sorteditems", o] => some (.sortedItems (decStrList o))
  | _ => none

def opKeys : Op Nat → List Str
  | .init l | .update l | .eq l | .ne l | .or l | .ior l | .ror l => l.map Prod.fst
  | .getitem k | .setitem k _ | .delitem k | .contains k | .hasKey k | .get k _ | .setdefault k _
  | .pop k _ | .moveToEnd k _ => [k]
  | .fromkeys ks _ | .sortedKeys ks | .sortedItems ks => ks
  | _ => []

def asciiStr (s : Str) : Bool := s.all (fun c => c.toNat < 128)

def encPairs (l : List (Str × Nat)) : String :=
  toString l.length ++ String.join (l.map (fun p => "|" ++ encStr p.1 ++ "=" ++ toString p.2))

def encOut : Out Nat → String
  | .none => "N"
  | .val v => "v" ++ toString v
  | .bool b => "b" ++ encBool b
  | .item k v => "i" ++ encStr k ++ "=" ++ toString v
  | .keys ks => "K" ++ encStrList ks
  | .vals vs => "V" ++ ",".intercalate (vs.map toString)
  | .items l => "I" ++ encPairs l
  | .nat n => "n" ++ toString n
  | .err .KeyError => "eKeyError"
  | .err .TypeError => "eTypeError"

def handleCDict (op : String) (args : List String) : Option String :=
  match op, args with
  | "cd_run", _ :: ops =>
    match ops.mapM decCdOp with
    | none => none
    | some l =>
      if (l.all (fun o => (opKeys o).all asciiStr)) then
        some (";".intercalate ((trace upper ([] : Store Nat) l).map (fun r => encOut r.1 ++ "@" ++ encStrList r.2)))
      else some "unmodelled"
  | "canonsort", [ks, o] =>
    let keys := decStrList ks
    let order := decStrList o
    some (encStrList (canonsort keys order))
  | _, _ => none

end ICal.Driver
