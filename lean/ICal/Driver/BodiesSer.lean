/-
  Driver op of the regenerated `Component.property_items` (ICal/Gen/BodiesSer.lean, tools/py2lean.py): the
  translator's own differential test for C10.
    body_items sorted(0|1) recursive(0|1) tree -> "ok:" items joined by "|" (each name^text^params, as the op `items`
                                                   of Driver/Tree.lean) | err:<E>
  The external pieces are the hand model's: vText(name).to_ical() = escapeChar, sorted_keys() = canonsort of the
  keys by the class's canonical order, keys() = the stored names, self[name] = the entry (KeyError without one).
-/
import ICal.Driver.Tree
import ICal.Driver.BodiesProto
import ICal.Gen.BodiesSer
namespace ICal.Driver
open ICal.Proto ICal.PyRT

private def keysP (c : Comp) : List Str := c.props.map (·.name)
private def sortedKeysP (c : Comp) : List Str := CDict.canonsort (keysP c) (canonicalOrderOf c.name)
private def getitemP (c : Comp) (k : Str) : Py PyVals :=
  match c.props.find? (fun e => e.name == k) with
  | some e => .ok (if e.isList then .many e.vals else match e.vals with | [v] => .one v | vs => .many vs)
  | none => .error .keyError
private def ivItem : PyItem → Item
  | (n, .bytes b) => ⟨n, b, []⟩
  | (n, .obj v) => ⟨n, v.text, v.params⟩
  | (n, .list _) => ⟨n, [], []⟩

def handleBodiesSer (op : String) (args : List String) : Option String :=
  match op, args with
  | "body_items", [srt, recur, t] =>
    match decComp t with
    | some c =>
      some (pyRes (fun l => String.intercalate "|" (l.map (fun x => encItem (ivItem x))))
        (Gen.BodiesSer.Component_property_items (name_to_ical := escapeChar) (sorted_keys := sortedKeysP) (keys := keysP) (getitem := getitemP)
          c (recur == "1") (srt == "1")))
    | none => some "bad-args"
  | _, _ => none

end ICal.Driver
