/-
  Driver ops of the zoned date-time model (C11).  The time zone library is not in the model: the harness
  tabulates the provider's answers for the concrete case (`env`) and the model does everything else.

  Field encodings (no TAB inside a field; `str` = comma-separated code points as in Driver/Proto):
    env     keys "!" lookups "!" win "!" cache "!" offs "!" utc
              keys     str { ";" str }            id (tzid_from_tzinfo) of zone object 0, 1, ...
              lookups  { str ">" idx ";" }        provider.timezone(name) for the names that are known
              win      { str ">" str ";" }        WINDOWS_TO_OLSON entries
              cache    { str ">" idx ";" }        TZP cache of parsed VTIMEZONEs (clean id)
              offs     { idx "@" wall ">" int ";" }   utcoffset() in seconds of that wall time in that zone
              utc      idx                        the zone localize_utc attaches
    wall    y.m.d.h.mi.s
    zdt     wall "@" (idx | "-")                  "-" = naive
    val     "D:" zdt | "d:" y.m.d | "P:" int      date-time, date, duration
    item    val | val "/" val                     scalar or period
    items   item { "," item }
    opt     "-" absent | "=" str
    line    opt(VALUE) "|" opt(TZID) "|" str(text)
  Results:
    zn_clean     str
    zn_timezone  idx | "-"
    zn_vdt       opt(TZID) "|" str(text)                  vDatetime(dt): params, to_ical
    zn_vdt_from  "ok:" zdt | "err:ValueError"             vDatetime.from_ical(text, tzid)
    zn_line      line                                     klass = ddd | list | period
    zn_read      "ok:" items | "err:ValueError"           Component.from_ical on that property
    zn_rt        line "#" read-result, every date-time followed by "+" offset (or "+?" if not tabulated)
                                                          Component.add -> to_ical -> from_ical
    zn_utc       line | "err:OverflowError"               how = "add:" name | "set"
    zn_days      y.m.d ";" 0|1                            ofDays n and whether toDays gives n back
  Every op but zn_clean / zn_days takes a last argument `tag` (provider and route; ignored: it keeps the cases
  of the two providers apart).
  `unmodelled`: non-ASCII value text or property name (str.upper / int are Unicode-aware), a needed offset
  that is not tabulated, a period whose start is not a date-time.
-/
import ICal.Driver.Proto
import ICal.Model.Zoned
namespace ICal.Driver
open ICal.Proto ICal.Zoned

namespace ZonedP

structure Env where
  P : Provider Nat
  offs : List (Nat × Wall × Int)

def splitNE (s : String) (sep : String) : List String :=
  if s.isEmpty then [] else (s.splitOn sep).filter (fun x => !x.isEmpty)

def decWall (s : String) : Option Wall :=
  match (s.splitOn ".").mapM (fun x => x.toNat?) with
  | some [y, m, d, h, mi, sec] => some ⟨⟨y, m, d⟩, h, mi, sec⟩
  | _ => none

def encWall (w : Wall) : String := s!"{w.date.y}.{w.date.m}.{w.date.d}.{w.h}.{w.mi}.{w.s}"

def decPairs {α β : Type} (s : String) (fa : String → Option α) (fb : String → Option β) : Option (List (α × β)) :=
  (splitNE s ";").mapM fun e =>
    match e.splitOn ">" with
    | [a, b] => do
      let a ← fa a
      let b ← fb b
      pure (a, b)
    | _ => none

def decOff (s : String) : Option (Nat × Wall) :=
  match s.splitOn "@" with
  | [i, w] => do
    let i ← i.toNat?
    let w ← decWall w
    pure (i, w)
  | _ => none

def lookupStr {β : Type} (tab : List (Str × β)) (k : Str) : Option β :=
  match tab.find? (fun p => p.1 == k) with
  | some p => some p.2
  | none => none

def offOf (offs : List (Nat × Wall × Int)) (z : Nat) (w : Wall) : Option Int :=
  match offs.find? (fun p => p.1 == z && p.2.1 == w) with
  | some p => some p.2.2
  | none => none

def decEnv (s : String) : Option Env :=
  match s.splitOn "!" with
  | [keys, lookups, win, cache, offs, utc] => do
    let keys : List Str := if keys.isEmpty then [] else (keys.splitOn ";").map decStr
    let lookups ← decPairs lookups (fun x => some (decStr x)) (fun x => x.toNat?)
    let win ← decPairs win (fun x => some (decStr x)) (fun x => some (decStr x))
    let cache ← decPairs cache (fun x => some (decStr x)) (fun x => x.toNat?)
    let offs ← decPairs offs decOff (fun x => x.toInt?)
    let utc ← utc.toNat?
    let offs' : List (Nat × Wall × Int) := offs.map fun p => (p.1.1, p.1.2, p.2)
    pure {
      P := {
        zone := lookupStr lookups
        key := fun i => keys.getD i []
        off := fun z w => (offOf offs' z w).getD 0
        utc := utc
        win := lookupStr win
        cache := lookupStr cache }
      offs := offs' }
  | _ => none

def decZdt (s : String) : Option (ZDT Nat) :=
  match s.splitOn "@" with
  | [w, z] => do
    let w ← decWall w
    if z == "-" then pure ⟨w, none⟩ else do
      let z ← z.toNat?
      pure ⟨w, some z⟩
  | _ => none

def encZdt (v : ZDT Nat) : String :=
  encWall v.wall ++ "@" ++ (match v.zone with | some z => toString z | none => "-")

def decVal (s : String) : Option (Val Nat) :=
  match s.splitOn ":" with
  | ["D", r] => (decZdt r).map Val.dt
  | ["d", r] =>
    match (r.splitOn ".").mapM (fun x => x.toNat?) with
    | some [y, m, d] => some (.date ⟨y, m, d⟩)
    | _ => none
  | ["P", r] => (r.toInt?).map Val.dur
  | _ => none

def encVal (enc : ZDT Nat → String) : Val Nat → String
  | .dt v => "D:" ++ enc v
  | .date d => s!"d:{d.y}.{d.m}.{d.d}"
  | .dur s => "P:" ++ toString s
  | .time t => s!"t:{t.h}.{t.mi}.{t.s}"

def decItem (s : String) : Option (Item Nat) :=
  match s.splitOn "/" with
  | [a] => (decVal a).map Item.val
  | [a, b] => do
    let a ← decVal a
    let b ← decVal b
    pure (.period a b)
  | _ => none

def encItem (enc : ZDT Nat → String) : Item Nat → String
  | .val v => encVal enc v
  | .period a b => encVal enc a ++ "/" ++ encVal enc b

def decItems (s : String) : Option (List (Item Nat)) :=
  if s.isEmpty then some [] else (s.splitOn ",").mapM decItem

def encItems (enc : ZDT Nat → String) (l : List (Item Nat)) : String :=
  ",".intercalate (l.map (encItem enc))

def decOpt (s : String) : Option (Option Str) :=
  if s == "-" then some none else
  match s.splitOn "=" with
  | ["", v] => some (some (decStr v))
  | _ => none

def encOpt : Option Str → String
  | none => "-"
  | some t => "=" ++ encStr t

def encLine (ln : Line) : String :=
  encOpt ln.params.value ++ "|" ++ encOpt ln.params.tzid ++ "|" ++ encStr ln.text

def decLine (s : String) : Option Line :=
  match s.splitOn "|" with
  | [v, t, x] => do
    let v ← decOpt v
    let t ← decOpt t
    pure ⟨⟨v, t⟩, decStr x⟩
  | _ => none

def ascii (s : Str) : Bool := s.all (fun c => c.toNat < 128)

def encRes {α : Type} (f : α → String) : CRes α → String
  | .ok v => "ok:" ++ f v
  | .error _ => "err:ValueError"

/-- a period the encoder is modelled for: it starts with a date-time -/
def itemOk : Item Nat → Bool
  | .period (.dt _) _ => true
  | .period _ _ => false
  | .val _ => true

def lineOf (P : Provider Nat) (klass : String) (items : List (Item Nat)) : Option Line :=
  match klass, items with
  | "ddd", [it] => some (dddLine P it)
  | "list", its => some (listLine P its)
  | "period", [it] => some (periodLine P it)
  | _, _ => none

def readOf (P : Provider Nat) (klass : String) (uname : Str) (ln : Line) : Option (CRes (List (Item Nat))) :=
  match klass with
  | "ddd" => some (match readDdd P uname ln with | .ok it => .ok [it] | .error e => .error e)
  | "list" => some (readList P uname ln)
  | "period" => some (readFreebusy P ln)
  | _ => none

/-- `vPeriod.__init__` compares start and end of two date-times; the model does not (see `periodKindOk`).
    The order is beyond doubt when the wall clocks are more than 100000 s apart in the right direction. -/
def orderClear : Item Nat → Bool
  | .period (.dt a) (.dt b) => decide (toSec b.wall - toSec a.wall ≥ 100000)
  | _ => true

def freebusyClear (klass : String) (r : CRes (List (Item Nat))) : Bool :=
  match klass, r with
  | "period", .ok its => its.all orderClear
  | _, _ => true

/-- every date-time of the items, for the offset table check -/
def itemDts : Item Nat → List (ZDT Nat)
  | .val (.dt v) => [v]
  | .val _ => []
  | .period a b => (match a with | .dt v => [v] | _ => []) ++ (match b with | .dt v => [v] | _ => [])

def encZdtOff (e : Env) (v : ZDT Nat) : String :=
  encZdt v ++ (match v.zone with
    | some z => (match offOf e.offs z v.wall with | some o => "+" ++ toString o | none => "+?")
    | none => "")

end ZonedP
open ZonedP

def handleZoned (op : String) (args : List String) : Option String :=
  match op, args with
  | "zn_clean", [id] => some (encStr (cleanTzid (decStr id)))
  | "zn_timezone", [env, id, _tag] =>
    match decEnv env with
    | some e => some (match tzpTimezone e.P (decStr id) with | some z => toString z | none => "-")
    | none => some "bad-args"
  | "zn_vdt", [env, v, _tag] =>
    match decEnv env, decZdt v with
    | some e, some v => let r := dtToIcal e.P v; some (encOpt r.2 ++ "|" ++ encStr r.1)
    | _, _ => some "bad-args"
  | "zn_vdt_from", [env, text, tzid, _tag] =>
    match decEnv env, decOpt tzid with
    | some e, some tzid =>
      let t := decStr text
      if !ascii t then some "unmodelled" else some (encRes encZdt (dtFromIcal e.P t tzid))
    | _, _ => some "bad-args"
  | "zn_line", [env, klass, items, _tag] =>
    match decEnv env, decItems items with
    | some e, some its =>
      if !its.all itemOk then some "unmodelled" else
      match lineOf e.P klass its with
      | some ln => some (encLine ln)
      | none => some "bad-args"
    | _, _ => some "bad-args"
  | "zn_read", [env, klass, uname, line, _tag] =>
    match decEnv env, decLine line with
    | some e, some ln =>
      let un := decStr uname
      if !ascii ln.text || !ascii un then some "unmodelled" else
      match readOf e.P klass un ln with
      | some r => if freebusyClear klass r then some (encRes (encItems encZdt) r) else some "unmodelled"
      | none => some "bad-args"
    | _, _ => some "bad-args"
  | "zn_rt", [env, klass, name, items, _tag] =>
    match decEnv env, decItems items with
    | some e, some its =>
      let nm := decStr name
      if !ascii nm || !its.all itemOk then some "unmodelled" else
      -- Component.add: a date-time under a forced-UTC name is converted first
      let stored : Option (List (Item Nat)) := its.mapM fun it =>
        match klass, it with
        | "ddd", .val (.dt v) =>
          if forcedUtcName nm && v.zone.isSome && (v.zone.bind fun z => offOf e.offs z v.wall).isNone then none
          else (addValue e.P nm v).map fun x => Item.val (.dt x)
        | _, it => some it
      match stored with
      | none => some "unmodelled"
      | some st =>
        match lineOf e.P klass st with
        | none => some "bad-args"
        | some ln =>
          match readOf e.P klass (upper nm) ln with
          | some r =>
            if freebusyClear klass r then some (encLine ln ++ "#" ++ encRes (encItems (encZdtOff e)) r)
            else some "unmodelled"
          | none => some "bad-args"
    | _, _ => some "bad-args"
  | "zn_utc", [env, how, v, _tag] =>
    match decEnv env, decZdt v with
    | some e, some v =>
      let tabulated : Bool := match v.zone with
        | some z => (offOf e.offs z v.wall).isSome
        | none => true
      if !tabulated then some "unmodelled" else
      let r : Option (Option (ZDT Nat)) :=
        match how.splitOn ":" with
        | ["set"] => some (setUtcProperty e.P v)
        | ["add", nm] =>
          let nm := decStr nm
          if ascii nm then some (addValue e.P nm v) else none
        | _ => none
      match r with
      | none => some "unmodelled"
      | some none => some "err:OverflowError"
      | some (some x) => some (encLine (dddLine e.P (.val (.dt x))))
    | _, _ => some "bad-args"
  | "zn_days", [n] =>
    match n.toNat? with
    | some n =>
      let d := ofDays n
      some (s!"{d.y}.{d.m}.{d.d};" ++ (if toDays d.y d.m d.d == n then "1" else "0"))
    | none => some "bad-args"
  | _, _ => none

end ICal.Driver
