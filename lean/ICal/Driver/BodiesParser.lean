/-
  Driver ops of the regenerated bodies of parser.py (ICal/Gen/BodiesParser.lean, tools/py2lean.py):
  the translator's own differential test for C08 (harness/props/C08.py, "translated bodies").
    body_quotable s          -> 0/1   the hand model of `bool(QUOTABLE.search(s))`
    body_dquote s            -> str   `dquote` with that predicate
    body_dquote_p s flag     -> str   `dquote` with the constant predicate `flag` (the harness passes what
                                       the real `QUOTABLE.search` answered on the text `dquote` asks about)
    body_q_join list sep     -> str
    body_q_split st sep maxsplit -> str list
-/
import ICal.Driver.Proto
import ICal.Gen.BodiesParser
import ICal.Model.Text
namespace ICal.Driver
open ICal.Proto

private def quotableSearch (s : Str) : Bool := s.any (inClass Gen.quotable)

def handleBodiesParser (op : String) (args : List String) : Option String :=
  match op, args with
  | "body_quotable", [a] => some (encBool (quotableSearch (decStr a)))
  | "body_dquote", [a] => some (encStr (Gen.BodiesParser.dquote (decStr a) quotableSearch))
  | "body_dquote_p", [a, f] => some (encStr (Gen.BodiesParser.dquote (decStr a) (fun _ => f == "1")))
  | "body_q_join", [l, sep] => some (encStr (Gen.BodiesParser.q_join (decStrList l) (decStr sep) quotableSearch))
  | "body_q_split", [a, sep, m] =>
    (decInt m).map fun n => encStrList (Gen.BodiesParser.q_split (decStr a) (decStr sep) n)
  | _, _ => none

end ICal.Driver
