/-
  Driver ops for the alarm model (C14, C15). Field encodings (no TAB inside a field):
    int      optional '-' and digits;         optional int: "-" when absent
    trig     "a:<int>" aware instant | "f:<int>" floating wall seconds | "d:<int>" day number; "-" absent
    alarm    trigger ";" related ";" repeat ";" duration ";" acknowledged
               trigger  "r:<int>" relative | "a:<int>" absolute aware | "f:<int>" absolute floating | "-"
               related  "-" absent | "=" code points of the RELATED parameter value
    alarms   alarm { "|" alarm }    (empty field = no alarm)
    tag      last argument of every op: free text naming provider and build route (ignored; keeps the
             cases of different routes apart); `al_skip` answers `unmodelled` whatever its arguments
    parent   dtstamp ";" lastack ";" snoozetime ";" othermoz(0|1) [ ";" ackcall ";" snoozecall ]
               ackcall / snoozecall: explicit acknowledge_until / snooze_until on the fresh Alarms:
               "-" no call | "n" called with None | int
    localtz  "-" not set | "L" { "," wall ">" instant }   the provider's localize, tabulated by the harness
  Results:
    al_add       trig
    al_wall      trig      (wall seconds, delta, offset of the result wall time: the zoneinfo `+`)
    al_triggers  "s:" ints ";e:" ints ";a:" trigs             (comma separated)
    at_state     acknowledged ";" is_active ";" trigger        is_active: 1 | 0 | err:<E>; trigger: trig | err:<E>
    al_times     "ok" { "|" index ":" trig ";" acknowledged ";" is_active ";" trigger } | "err:<E>"
    al_active    "ok" { "|" index ":" trigger } | "err:<E>"
  `index` is the position of the first equal alarm in the component's alarm list.
-/
import ICal.Driver.Proto
import ICal.Model.Alarm
namespace ICal.Driver
open ICal.Proto ICal.Alarms

namespace AlarmP   -- helper names are local to this driver (other drivers share ICal.Driver)

def decOptInt (s : String) : Option (Option Int) :=
  if s == "-" then some none else s.toInt?.map some

def encOptInt : Option Int → String
  | none => "-"
  | some i => toString i

def decTrigO (s : String) : Option (Option Trig) :=
  if s == "-" then some none else
  match s.splitOn ":" with
  | ["a", v] => v.toInt?.map (fun i => some (Trig.aware i))
  | ["f", v] => v.toInt?.map (fun i => some (Trig.floating i))
  | ["d", v] => v.toInt?.map (fun i => some (Trig.date i))
  | _ => none

def encTrig : Trig → String
  | .aware i => "a:" ++ toString i
  | .floating w => "f:" ++ toString w
  | .date d => "d:" ++ toString d

def encErr : AErr → String
  | .componentStartMissing => "err:ComponentStartMissing"
  | .componentEndMissing => "err:ComponentEndMissing"
  | .localTimezoneMissing => "err:LocalTimezoneMissing"

def decTriggerV (s : String) : Option (Option TriggerV) :=
  if s == "-" then some none else
  match s.splitOn ":" with
  | ["r", v] => v.toInt?.map (fun i => some (TriggerV.rel i))
  | ["a", v] => v.toInt?.map (fun i => some (TriggerV.absAware i))
  | ["f", v] => v.toInt?.map (fun i => some (TriggerV.absFloating i))
  | _ => none

def decRelated (s : String) : Option (Option (List Char)) :=
  if s == "-" then some none else
  match s.splitOn "=" with
  | ["", v] => some (some (decStr v))
  | _ => none

def decAlarm (s : String) : Option VAlarm :=
  match s.splitOn ";" with
  | [t, r, n, d, k] => do
    let t ← decTriggerV t
    let r ← decRelated r
    let n ← n.toInt?
    let d ← decOptInt d
    let k ← decOptInt k
    pure { trigger := t, related := r, rep := n, duration := d, acknowledged := k }
  | _ => none

/-- `str.upper()` is modelled for ASCII only -/
def asciiRelated (a : VAlarm) : Bool :=
  match a.related with
  | some r => r.all (fun c => c.toNat < 128)
  | none => true

def decAlarms (s : String) : Option (List VAlarm) :=
  if s.isEmpty then some [] else (s.splitOn "|").mapM decAlarm

/-- an explicit setter call after construction: "-" no call | "n" call with None | int -/
def decCall (s : String) : Option (Option (Option Int)) :=
  if s == "-" then some none
  else if s == "n" then some (some none)
  else s.toInt?.map (fun i => some (some i))

/-- the parent and the explicit `acknowledge_until` / `snooze_until` calls made on the fresh `Alarms` -/
def decParent (s : String) : Option (Parent × Option (Option Int) × Option (Option Int)) :=
  match s.splitOn ";" with
  | [a, b, c, m] => do
    let a ← decOptInt a
    let b ← decOptInt b
    let c ← decOptInt c
    pure ({ dtstamp := a, lastack := b, snoozeTime := c, otherMoz := m == "1" }, none, none)
  | [a, b, c, m, k, z] => do
    let a ← decOptInt a
    let b ← decOptInt b
    let c ← decOptInt c
    let k ← decCall k
    let z ← decCall z
    pure ({ dtstamp := a, lastack := b, snoozeTime := c, otherMoz := m == "1" }, k, z)
  | _ => none

def decPair (s : String) : Option (Int × Int) :=
  match s.splitOn ">" with
  | [w, i] => do
    let w ← w.toInt?
    let i ← i.toInt?
    pure (w, i)
  | _ => none

/-- `none` = parse failure; `some none` = no local time zone; `some (some table)` -/
def decLocal (s : String) : Option (Option (List (Int × Int))) :=
  if s == "-" then some none else
  match s.splitOn "," with
  | "L" :: ps => (ps.mapM decPair).map some
  | _ => none

def lookup (tab : List (Int × Int)) (w : Int) : Int :=
  match tab.find? (fun p => p.1 == w) with
  | some p => p.2
  | none => 0

def wallOf : Trig → Option Int
  | .aware _ => none
  | .floating w => some w
  | .date d => some (d * 86400)

def encActive : Except AErr Bool → String
  | .ok true => "1"
  | .ok false => "0"
  | .error e => encErr e

def encTrigE : Except AErr Trig → String
  | .ok t => encTrig t
  | .error e => encErr e

def encAlarmTime (as : List VAlarm) (x : AlarmTime) : String :=
  toString (as.idxOf x.alarm) ++ ":" ++ encTrig x.trig ++ ";" ++ encOptInt x.acknowledged ++ ";" ++
    encActive x.isActive ++ ";" ++ encTrigE x.trigger

/-- shared front end of al_times / al_active; `unmodelled` when the localize table misses a wall time -/
def withState (args : List String)
    (k : (Int → Int) → State → List VAlarm → String) : Option String :=
  match args with
  | [p, st, en, as, ltz, _tag] =>
    match decParent p, decTrigO st, decTrigO en, decAlarms as, decLocal ltz with
    | some (p, ackCall, snoozeCall), some st, some en, some as, some ltz =>
      if !as.all asciiRelated then some "unmodelled" else
      let componentState' := fun (p : Parent) (st en : Option Trig) (as : List VAlarm) (tz : Bool) =>
        let s := setLocalTimezone (ofComponent p st en as) tz
        let s := match ackCall with
          | some v => acknowledgeUntil s v
          | none => s
        match snoozeCall with
          | some v => snoozeUntil s v
          | none => s
      match ltz with
      | none => some (k (fun w => w) (componentState' p st en as false) as)
      | some tab =>
        -- every wall time the local time zone is applied to must be tabulated
        let raw := times (fun w => w) (componentState' p st en as false)
        let covered : Bool := match raw with
          | .ok ts => ts.all (fun x => match wallOf x.trig with
              | some w => tab.any (fun q => q.1 == w)
              | none => true)
          | .error _ => true
        if covered then some (k (lookup tab) (componentState' p st en as true) as) else some "unmodelled"
    | _, _, _, _, _ => some "bad-args"
  | _ => some "bad-args"

end AlarmP
open AlarmP

def handleAlarm (op : String) (args : List String) : Option String :=
  match op, args with
  | "al_skip", _ => some "unmodelled"
  | "al_add", [t, td, _tag] =>
    match decTrigO t, td.toInt? with
    | some (some t), some td => some (encTrig (add t td))
    | _, _ => some "bad-args"
  | "al_wall", [w, td, off, _tag] =>
    -- zoneinfo: wall-clock `+`; `off` is the offset the provider assigns to the resulting wall time
    match w.toInt?, td.toInt?, off.toInt? with
    | some w, some td, some off => some (encTrig (.aware (wallAdd (fun _ => off) w td)))
    | _, _, _ => some "bad-args"
  | "al_triggers", [a, _tag] =>
    match decAlarm a with
    | some a =>
      if !asciiRelated a then some "unmodelled" else
      let tr := a.triggers
      some ("s:" ++ ",".intercalate (tr.start.map toString) ++ ";e:" ++ ",".intercalate (tr.end_.map toString) ++
        ";a:" ++ ",".intercalate (tr.absolute.map encTrig))
    | none => some "bad-args"
  | "at_state", [t, ka, kc, sn, _tag] =>
    match decTrigO t, decOptInt ka, decOptInt kc, decOptInt sn with
    | some (some t), some ka, some kc, some sn =>
      let x : AlarmTime := { alarm := { acknowledged := ka }, trig := t, lastAck := kc, snooze := sn }
      some (encOptInt x.acknowledged ++ ";" ++ encActive x.isActive ++ ";" ++ encTrigE x.trigger)
    | _, _, _, _ => some "bad-args"
  | "al_times", args =>
    withState args fun loc s as =>
      match times loc s with
      | .ok ts => "ok" ++ String.join (ts.map (fun x => "|" ++ encAlarmTime as x))
      | .error e => encErr e
  | "al_active", args =>
    withState args fun loc s as =>
      match active loc s with
      | .ok ts => "ok" ++ String.join (ts.map (fun x =>
          "|" ++ toString (as.idxOf x.alarm) ++ ":" ++ encTrigE x.trigger))
      | .error e => encErr e
  | _, _ => none

end ICal.Driver
