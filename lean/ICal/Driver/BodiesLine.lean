/-
  Driver ops of the regenerated content-line bodies (ICal/Gen/BodiesLine.lean, tools/py2lean.py): the
  translator's own differential test for C05 (harness/props/C05.py, "translated bodies").
    body_raw_value s -> ok:str | err:..      body_escape_string s | body_unescape_string s -> str
    body_parts_scan st -> "name_split,value_split,i"  (each `N` for None / unbound, else an int)
    body_parts line strict -> ok<TAB>name<TAB>params<TAB>value | err:.. | unmodelled   (as the op `parts` of Driver/Line):
                         the translated whole of `parts()`, its external calls given by the hand model
                         (`validToken`, `paramsFromIcal`, the re-keying fold of Model/Line.lean)
-/
import ICal.Driver.Proto
import ICal.Driver.BodiesProto
import ICal.Gen.BodiesLine
import ICal.Driver.Line
namespace ICal.Driver
open ICal.Proto ICal.Gen.BodiesLine

def handleBodiesLine (op : String) (args : List String) : Option String :=
  match op, args with
  | "body_raw_value", [a] => some (pyRes encStr (raw_value (decStr a)))
  | "body_escape_string", [a] => some (encStr (escape_string (decStr a)))
  | "body_unescape_string", [a] => some (encStr (unescape_string (decStr a)))
  | "body_parts_scan", [a] =>
    let r := parts_scan (decStr a)
    some (optIntS r.1 ++ "," ++ optIntS r.2.1 ++ "," ++ optIntS r.2.2)
  | "body_parts", [a, strict] =>
    let l := decStr a
    let st := escapeString l
    let (ns, vs) := scanParts st 0 false none none
    let head := match ns with | none => st | some k => st.take k
    let vsplit := if falsy vs then st.length else vs.getD 0
    let mid := (st.drop (ns.getD 0 + 1)).take (vsplit - (ns.getD 0 + 1))
    if nonAscii head || keysNonAscii mid then some "unmodelled" else
    let vt : Str → PyRT.Py Unit := fun n => if validToken n then .ok () else .error .valueError
    let pfi : Str → Bool → PyRT.Py Params := fun t s =>
      match paramsFromIcal t s with
      | some p => .ok p
      | none => .error .valueError
    let pu : Params → Params := fun ps =>
      ps.foldl (fun acc kv => Params.put acc (upper (unescapeString kv.1)) (unescapePVal kv.2)) []
    match Gen.BodiesLine.parts l vt (strict == "1") pfi pu with
    | .ok (n, ps, v) => some ("ok\t" ++ encStr n ++ "\t" ++ encParams ps ++ "\t" ++ encStr v)
    | .error e => some (pyExcName e)
  | _, _ => none

end ICal.Driver
