/-
  Driver ops for C20 (walk / equality) and C18 (used / missing time zone ids).

    w_walk     tree  nameflag("N" | "S")  name  pred      -> n ";"-joined encoded result trees
    w_preorder tree                                       -> str list of names in pre-order, TAB size
    w_acc      tree  ("events"|"todos"|"timezones")       -> as walk
    w_eq       tree  tree                                 -> "1" | "0"
    tz_used    tree                                       -> str list (sorted)
    tz_missing tree                                       -> str list (sorted)
    tz_names   tree                                       -> str list (walk order)
    tz_add     tree  known(str list)  times               -> tznames TAB missing TAB names of the
                                                             subcomponents TAB used, after `times` calls
  Predicates: "T" true, "F" false, "L" no subcomponents, "P"<key> has property <key>, "K"<n> at
  least n properties.
-/
import ICal.Driver.TreeProto
import ICal.Model.TzUse
namespace ICal.Driver
open ICal.Proto

/-! The instantiation of value equality is `ICal.veqStructural` (Model/Walk.lean): same class
    (TimeBase classes merged), same text, and for TimeBase classes and vDDDLists the same
    parameter map.  The `w_eq` op is what validates that choice against prop.py. -/

def decPred (s : String) : Option (Comp → Bool) :=
  match s.toList with
  | ['T'] => some (fun _ => true)
  | ['F'] => some (fun _ => false)
  | ['L'] => some (fun c => c.subs.isEmpty)
  | 'P' :: rest => some (fun c => c.props.any (fun e => e.name == decStr (String.ofList rest)))
  | 'K' :: rest => (String.ofList rest).toNat?.map (fun n => fun c => decide (n ≤ c.props.length))
  | _ => none

def encComps (l : List Comp) : String :=
  toString l.length ++ String.join (l.map (fun c => ";" ++ encComp c))

/-- is the tree inside the stated domain of the C18 model? -/
partial def tzDomainOk : Comp → Bool
  | .mk n p subs =>
    (if n == VTIMEZONE then
      match p.find? (fun e => e.name == TZID) with
      | some e => !e.isList && e.vals.all (fun v => v.kind == vTextKind && !v.text.contains '\\')
      | none => true
    else true) && subs.all tzDomainOk

def plainId (k : Str) : Bool := !(k.contains '\\' || k.contains ';' || k.contains ',' || k.contains '\n')

def iter {α} (f : α → α) : Nat → α → α
  | 0, a => a
  | n + 1, a => iter f n (f a)

def handleWalk (op : String) (args : List String) : Option String :=
  match op, args with
  | "w_walk", [t, flag, name, pred] =>
    match decComp t, decPred pred with
    | some c, some sel =>
      let n? := if flag == "S" then some (decStr name) else none
      some (encComps (walk n? sel c))
    | _, _ => some "bad-args"
  | "w_preorder", [t] =>
    match decComp t with
    | some c => some (encStrList ((preorder c).map (·.name)) ++ "\t" ++ toString (size c))
    | none => some "bad-args"
  | "w_acc", [t, which] =>
    match decComp t with
    | some c =>
      if which == "events" then some (encComps (events c))
      else if which == "todos" then some (encComps (todos c))
      else if which == "timezones" then some (encComps (timezones c))
      else some "bad-args"
    | none => some "bad-args"
  | "w_eq", [a, b] =>
    match decComp a, decComp b with
    | some x, some y => some (encBool (compEq veqStructural x y))
    | _, _ => some "bad-args"
  | "tz_used", [t] =>
    match decComp t with
    | some c => some (encStrList (usedTzids c))
    | none => some "bad-args"
  | "tz_missing", [t] =>
    match decComp t with
    | some c => if tzDomainOk c then some (encStrList (missingTzids c)) else some "unmodelled"
    | none => some "bad-args"
  | "tz_names", [t] =>
    match decComp t with
    | some c => if tzDomainOk c then some (encStrList (tzNames c)) else some "unmodelled"
    | none => some "bad-args"
  | "tz_add", [t, known, times] =>
    match decComp t, times.toNat? with
    | some c, some k =>
      let ks := decStrList known
      if !tzDomainOk c || !ks.all plainId then some "unmodelled" else
      let c' := iter (addMissing (fun s => ks.contains s)) k c
      some (encStrList (tzNames c') ++ "\t" ++ encStrList (missingTzids c') ++ "\t" ++
        encStrList (c'.subs.map (·.name)) ++ "\t" ++ encStrList (usedTzids c'))
    | _, _ => some "bad-args"
  | _, _ => none

end ICal.Driver
