import ICal.Driver.Proto
import ICal.Model.Text
namespace ICal.Driver
open ICal.Proto

def handleText (op : String) (args : List String) : Option String :=
  match op, args with
  | "esc", [a] => some (encStr (escapeChar (decStr a)))
  | "unesc", [a] => some (encStr (unescapeChar (decStr a)))
  | "norm", [a] => some (encStr (norm (decStr a)))
  | "cats_to", [a] => some (encStr (catsToIcal (decStrList a)))
  | "cats_from", [a] => some (encStrList (catsFromIcal (decStr a)))
  | "split_uc", [a] => some (encStrList (splitUnescComma (decStr a)))
  | _, _ => none

end ICal.Driver
