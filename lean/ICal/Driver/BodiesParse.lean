/-
  Driver op of the regenerated `Component.from_ical` (ICal/Gen/BodiesParse.lean, tools/py2lean.py): the translator's
  own differential test for C01 / C04 / C09.
    body_parse multiple(0|1) table text -> as the op `parse` of Driver/Tree.lean:
        "ok" TAB count (TAB tree)* TAB errorlog | "table-miss" | err:<E>
  The external pieces are those of ICal/Model/ParsePieces.lean (the ones ICal/Lemmas/BodiesParse.lean speaks of);
  typed decoding is answered from the table computed by the real decoders, `cache_timezone_component` never fails
  (the harness skips inputs whose parse fails there), as for the op `parse`.
-/
import ICal.Driver.Tree
import ICal.Driver.BodiesProto
import ICal.Model.ParsePieces
namespace ICal.Driver
open ICal.Proto ICal.PyRT

def handleBodiesParse (op : String) (args : List String) : Option String :=
  match op, args with
  | "body_parse", [multiple, tab, text] =>
    match Bodies.fromIcalP (fun _ => true) (tableDec (decTable tab)) (decStr text) (multiple == "1") with
    | .error e => some (pyExcName e)
    | .ok r =>
      let cs : List PComp := match r with | .many l => l | .one c => [c]
      let comps := PComp.toComps cs
      if comps.any hasMiss then some "table-miss" else
      some ("ok\t" ++ toString comps.length ++ String.join (comps.map (fun c => "\t" ++ encComp c)) ++ "\t" ++ encLog (PComp.errLogs cs))
  | _, _ => none

end ICal.Driver
