/-
  Helper lemmas for C10 (serialisation is deterministic and order-canonical):
  uniqueness of sorted rearrangements (parameters, time zone ids), lookup by name in a
  rearranged property mapping, the shape of `items`, and the BEGIN/END nesting checker.
-/
import ICal.Model.Ser
import ICal.Model.TzUse
import ICal.Lemmas.CDict
import ICal.Lemmas.Params
import ICal.Lemmas.TzUse
namespace ICal

open List

/-! ## parameters: the sorted form of a mapping does not depend on insertion order -/
section params

theorem keySorted_iff (p : Params) :
    KeySorted p ↔ p.Pairwise (fun a b => strLe a.1 b.1 = true) := by
  unfold KeySorted; exact List.pairwise_map

/-- in a list whose keys are pairwise distinct, an element is determined by its key -/
theorem eq_of_key_eq {α β : Type} (f : α → β) : ∀ (l : List α), (l.map f).Nodup →
    ∀ a b, a ∈ l → b ∈ l → f a = f b → a = b := by
  intro l
  induction l with
  | nil => intro _ a b ha; cases ha
  | cons x xs ih =>
    intro hn a b ha hb hf
    rw [List.map_cons, List.nodup_cons] at hn
    rcases List.mem_cons.mp ha with rfl | ha'
    · rcases List.mem_cons.mp hb with rfl | hb'
      · rfl
      · exact absurd (hf ▸ List.mem_map.mpr ⟨b, hb', rfl⟩) hn.1
    · rcases List.mem_cons.mp hb with rfl | hb'
      · exact absurd (hf ▸ List.mem_map.mpr ⟨a, ha', rfl⟩) hn.1
      · exact ih hn.2 a b ha' hb' hf

theorem sortByKey_perm_eq (p q : Params) (hp : (p.map Prod.fst).Nodup) (h : p.Perm q) :
    sortByKey p = sortByKey q := by
  have hpq : (sortByKey p).Perm (sortByKey q) :=
    (sortByKey_perm p).trans (h.trans (sortByKey_perm q).symm)
  refine List.Perm.eq_of_pairwise ?_ ((keySorted_iff _).mp (sortByKey_sorted p))
    ((keySorted_iff _).mp (sortByKey_sorted q)) hpq
  intro a b ha hb h1 h2
  have hk : a.1 = b.1 := CDict.strLe_antisymm a.1 b.1 h1 h2
  have ha' : a ∈ p := (sortByKey_perm p).mem_iff.mp ha
  have hb' : b ∈ p := h.mem_iff.mpr ((sortByKey_perm q).mem_iff.mp hb)
  exact eq_of_key_eq Prod.fst p hp a b ha' hb' hk

end params

/-! ## lookup of a property by name -/
section lookup

theorem find_name_of_mem (props : List Entry) (hn : (props.map (·.name)).Nodup) (e : Entry)
    (he : e ∈ props) : props.find? (fun x => x.name == e.name) = some e := by
  cases hf : props.find? (fun x => x.name == e.name) with
  | none =>
    have := List.find?_eq_none.mp hf e he
    simp at this
  | some e' =>
    have h1 : e' ∈ props := List.mem_of_find?_eq_some hf
    have h2 : e'.name = e.name := by simpa using List.find?_some hf
    rw [eq_of_key_eq (·.name) props hn e' e h1 he h2]

theorem find_name_perm (props props' : List Entry) (hn : (props.map (·.name)).Nodup)
    (h : props.Perm props') (k : Str) :
    props.find? (fun x => x.name == k) = props'.find? (fun x => x.name == k) := by
  have hn' : (props'.map (·.name)).Nodup := (h.map _).nodup_iff.mp hn
  cases hf : props.find? (fun x => x.name == k) with
  | none =>
    symm
    rw [List.find?_eq_none] at hf ⊢
    intro x hx; exact hf x (h.mem_iff.mpr hx)
  | some e =>
    have h1 : e ∈ props := List.mem_of_find?_eq_some hf
    have h2 : e.name = k := by simpa using List.find?_some hf
    subst h2
    exact (find_name_of_mem props' hn' e (h.mem_iff.mp h1)).symm

theorem entryItems_perm (props props' : List Entry) (hn : (props.map (·.name)).Nodup)
    (h : props.Perm props') (k : Str) : entryItems props k = entryItems props' k := by
  unfold entryItems; rw [find_name_perm props props' hn h k]

theorem entryItems_of_mem (props : List Entry) (hn : (props.map (·.name)).Nodup) (e : Entry)
    (he : e ∈ props) : entryItems props e.name = e.vals.map (fun v => ⟨e.name, v.text, v.params⟩) := by
  unfold entryItems; rw [find_name_of_mem props hn e he]

/-- every item that `entryItems` yields for `k` carries the name `k` -/
theorem entryItems_name (props : List Entry) (k : Str) : ∀ it ∈ entryItems props k, it.name = k := by
  intro it hit
  unfold entryItems at hit
  split at hit
  · simp only [List.mem_map] at hit
    obtain ⟨v, _, rfl⟩ := hit; rfl
  · cases hit

theorem propNames_perm (n : Str) (props props' : List Entry) (h : props.Perm props') :
    propNames true n props = propNames true n props' := by
  simp only [propNames, if_true]
  exact CDict.canonsort_perm' _ _ _ (h.map _)

/-- `sorted_keys()` / `keys()` return stored names only -/
theorem mem_propNames (b : Bool) (n : Str) (props : List Entry) (k : Str)
    (hk : k ∈ propNames b n props) : k ∈ props.map (·.name) := by
  cases b with
  | false => simpa [propNames] using hk
  | true =>
    simp only [propNames, if_true] at hk
    exact (CDict.canonsort_perm_keys _ _).mem_iff.mp hk

end lookup

/-! ## shape of `items` -/
section shape

theorem items_mk (b : Bool) (n : Str) (props : List Entry) (subs : List Comp) :
    items b (.mk n props subs) =
      beginItem n :: ((propNames b n props).flatMap (entryItems props) ++ itemsList b subs ++ [endItem n]) := by
  rw [items]

theorem itemsList_nil (b : Bool) : itemsList b [] = [] := by rw [itemsList]

theorem itemsList_cons (b : Bool) (c : Comp) (cs : List Comp) :
    itemsList b (c :: cs) = items b c ++ itemsList b cs := by rw [itemsList]

theorem itemsList_append (b : Bool) : ∀ (cs ds : List Comp),
    itemsList b (cs ++ ds) = itemsList b cs ++ itemsList b ds
  | [], ds => by simp [itemsList_nil]
  | c :: cs, ds => by
    rw [List.cons_append, itemsList_cons, itemsList_cons, itemsList_append b cs ds, List.append_assoc]

theorem itemsList_eq_flatMap (b : Bool) : ∀ (cs : List Comp), itemsList b cs = cs.flatMap (items b)
  | [] => by simp [itemsList_nil]
  | c :: cs => by rw [itemsList_cons, itemsList_eq_flatMap b cs, List.flatMap_cons]

theorem flatMap_congr' {α β : Type} (l : List α) (f g : α → List β) (h : ∀ a ∈ l, f a = g a) :
    l.flatMap f = l.flatMap g := by
  induction l with
  | nil => rfl
  | cons x xs ih =>
    rw [List.flatMap_cons, List.flatMap_cons, h x (by simp), ih (fun a ha => h a (by simp [ha]))]

theorem propItems_unsorted (props : List Entry) (hn : (props.map (·.name)).Nodup) :
    (props.map (·.name)).flatMap (entryItems props) =
      props.flatMap (fun e => e.vals.map (fun v => (⟨e.name, v.text, v.params⟩ : Item))) := by
  rw [List.flatMap_map]
  exact flatMap_congr' props _ _ (fun e he => entryItems_of_mem props hn e he)

end shape

/-! ## BEGIN/END nesting -/
section balance

def BEGIN : Str := ['B','E','G','I','N']
def END : Str := ['E','N','D']

/-- The nesting checker.  `st` is the stack of open blocks (the text of their BEGIN item).
    An item named BEGIN pushes its text; an item named END must find its own text on top of the
    stack and pops it; other items are skipped; at the end the stack must be empty. -/
def balancedItems : List Str → List Item → Bool
  | st, [] => st.isEmpty
  | st, it :: r =>
    if it.name = BEGIN then balancedItems (it.text :: st) r
    else if it.name = END then
      match st with
      | [] => false
      | t :: st' => it.text == t && balancedItems st' r
    else balancedItems st r

mutual
/-- no property anywhere in the tree is stored under the name BEGIN or END -/
def wfNames : Comp → Bool
  | .mk _ props subs => props.all (fun e => e.name != BEGIN && e.name != END) && wfNamesL subs
def wfNamesL : List Comp → Bool
  | [] => true
  | c :: cs => wfNames c && wfNamesL cs
end

def WFNames (t : Comp) : Prop := wfNames t = true

theorem balancedItems_begin (st : List Str) (n : Str) (r : List Item) :
    balancedItems st (beginItem n :: r) = balancedItems ((beginItem n).text :: st) r := by
  have h : (beginItem n).name = BEGIN := rfl
  simp [balancedItems, h]

theorem balancedItems_end (st : List Str) (n : Str) (r : List Item) :
    balancedItems ((beginItem n).text :: st) (endItem n :: r) = balancedItems st r := by
  have h1 : END ≠ BEGIN := by decide
  have h2 : (endItem n).name = END := rfl
  have h3 : (endItem n).text = (beginItem n).text := rfl
  simp [balancedItems, h1, h2, h3]

/-- items that are neither BEGIN nor END do not touch the stack -/
theorem balancedItems_skip (st : List Str) (l r : List Item)
    (h : ∀ it ∈ l, it.name ≠ BEGIN ∧ it.name ≠ END) :
    balancedItems st (l ++ r) = balancedItems st r := by
  induction l with
  | nil => rfl
  | cons x xs ih =>
    have hx := h x (by simp)
    have : balancedItems st (x :: (xs ++ r)) = balancedItems st (xs ++ r) := by
      simp [balancedItems, hx.1, hx.2]
    rw [List.cons_append, this]
    exact ih (fun it hit => h it (by simp [hit]))

theorem propItems_plain (b : Bool) (n : Str) (props : List Entry)
    (hw : props.all (fun e => e.name != BEGIN && e.name != END) = true) :
    ∀ it ∈ (propNames b n props).flatMap (entryItems props), it.name ≠ BEGIN ∧ it.name ≠ END := by
  intro it hit
  rw [List.mem_flatMap] at hit
  obtain ⟨k, hk, hit⟩ := hit
  have hname := entryItems_name props k it hit
  have hk' := mem_propNames b n props k hk
  rw [List.mem_map] at hk'
  obtain ⟨e, he, rfl⟩ := hk'
  have := List.all_eq_true.mp hw e he
  rw [hname]
  simpa using this

mutual
/-- a serialised component is a closed block: it leaves every stack as it found it -/
theorem balanced_items (b : Bool) : ∀ (t : Comp), wfNames t = true → ∀ (st : List Str) (r : List Item),
    balancedItems st (items b t ++ r) = balancedItems st r
  | .mk n props subs, hw, st, r => by
    rw [wfNames, Bool.and_eq_true] at hw
    rw [items_mk, List.cons_append, balancedItems_begin, List.append_assoc, List.append_assoc,
      balancedItems_skip _ _ _ (propItems_plain b n props hw.1),
      balanced_itemsList b subs hw.2, List.singleton_append, balancedItems_end]
theorem balanced_itemsList (b : Bool) : ∀ (cs : List Comp), wfNamesL cs = true →
    ∀ (st : List Str) (r : List Item), balancedItems st (itemsList b cs ++ r) = balancedItems st r
  | [], _, st, r => by rw [itemsList_nil]; rfl
  | c :: cs, hw, st, r => by
    rw [wfNamesL, Bool.and_eq_true] at hw
    rw [itemsList_cons, List.append_assoc, balanced_items b c hw.1, balanced_itemsList b cs hw.2]
end

end balance

/-! ## insertion equivalence of whole trees -/
section inseq

/-- pointwise relation of two lists of equal length -/
def All₂ {α β : Type} (R : α → β → Prop) : List α → List β → Prop
  | [], [] => True
  | a :: as, b :: bs => R a b ∧ All₂ R as bs
  | _, _ => False

/-- the same value, its parameters inserted in another order -/
def ValEq (v v' : Val) : Prop := v.kind = v'.kind ∧ v.text = v'.text ∧ v.params.Perm v'.params

/-- the same property: same name, same values in the same order, up to parameter order -/
def EntryEq (e e' : Entry) : Prop := e.name = e'.name ∧ e.isList = e'.isList ∧ All₂ ValEq e.vals e'.vals

/-- the same property mapping, the distinct names inserted in another order -/
def PropsEq (ps ps' : List Entry) : Prop := ∃ qs, ps.Perm qs ∧ All₂ EntryEq qs ps'

mutual
/-- `t'` is `t` built with another insertion order of distinct property names and of parameter
    names, at every level; repeated values of one name and subcomponents keep their order -/
def InsEq : Comp → Comp → Prop
  | .mk n ps ss, .mk n' ps' ss' => n = n' ∧ PropsEq ps ps' ∧ InsEqL ss ss'
def InsEqL : List Comp → List Comp → Prop
  | [], [] => True
  | c :: cs, d :: ds => InsEq c d ∧ InsEqL cs ds
  | [], _ :: _ => False
  | _ :: _, [] => False
end

mutual
/-- the dictionary invariants: property names of one component are pairwise distinct, and so
    are the parameter names of one value -/
def dictInv : Comp → Bool
  | .mk _ ps ss =>
    decide ((ps.map (·.name)).Nodup)
      && ps.all (fun e => e.vals.all (fun v => decide ((v.params.map Prod.fst).Nodup)))
      && dictInvL ss
def dictInvL : List Comp → Bool
  | [] => true
  | c :: cs => dictInv c && dictInvL cs
end

theorem itemLine_params_perm (k t : Str) (p q : Params) (hp : (p.map Prod.fst).Nodup) (h : p.Perm q) :
    itemLine true ⟨k, t, p⟩ = itemLine true ⟨k, t, q⟩ := by
  simp only [itemLine, fromParts, h.isEmpty_eq]
  have : paramsToIcal p true = paramsToIcal q true := by
    simp only [paramsToIcal, if_true, sortByKey_perm_eq p q hp h]
  rw [this]

theorem valItems_eq (k : Str) : ∀ (vs vs' : List Val), All₂ ValEq vs vs' →
    (∀ v ∈ vs, (v.params.map Prod.fst).Nodup) →
    (vs.map (fun v => (⟨k, v.text, v.params⟩ : Item))).map (itemLine true) =
      (vs'.map (fun v => (⟨k, v.text, v.params⟩ : Item))).map (itemLine true)
  | [], [], _, _ => rfl
  | [], _ :: _, h, _ => by cases h
  | _ :: _, [], h, _ => by cases h
  | v :: vs, v' :: vs', h, hn => by
    obtain ⟨⟨_, ht, hp⟩, hr⟩ := h
    simp only [List.map_cons]
    rw [valItems_eq k vs vs' hr (fun x hx => hn x (by simp [hx])), ht,
      itemLine_params_perm k v'.text v.params v'.params (hn v (by simp)) hp]

theorem all₂_names : ∀ (qs ps' : List Entry), All₂ EntryEq qs ps' → qs.map (·.name) = ps'.map (·.name)
  | [], [], _ => rfl
  | [], _ :: _, h => by cases h
  | _ :: _, [], h => by cases h
  | e :: qs, e' :: ps', h => by
    simp only [List.map_cons, h.1.1, all₂_names qs ps' h.2]

theorem entryItems_all₂ (k : Str) : ∀ (qs ps' : List Entry), All₂ EntryEq qs ps' →
    (∀ e ∈ qs, ∀ v ∈ e.vals, (v.params.map Prod.fst).Nodup) →
    (entryItems qs k).map (itemLine true) = (entryItems ps' k).map (itemLine true)
  | [], [], _, _ => rfl
  | [], _ :: _, h, _ => by cases h
  | _ :: _, [], h, _ => by cases h
  | e :: qs, e' :: ps', h, hn => by
    obtain ⟨⟨hname, _, hv⟩, hr⟩ := h
    by_cases hk : e.name = k
    · have hk' : e'.name = k := hname ▸ hk
      simp only [entryItems, List.find?_cons, hk, hk', beq_self_eq_true]
      exact valItems_eq k e.vals e'.vals hv (hn e (by simp))
    · have hk' : ¬ e'.name = k := hname ▸ hk
      have ih := entryItems_all₂ k qs ps' hr (fun x hx => hn x (by simp [hx]))
      simp only [entryItems, List.find?_cons, beq_eq_false_iff_ne.mpr hk, beq_eq_false_iff_ne.mpr hk'] at ih ⊢
      exact ih

theorem propItems_eq (n : Str) (ps ps' : List Entry) (h : PropsEq ps ps')
    (hn : (ps.map (·.name)).Nodup) (hp : ∀ e ∈ ps, ∀ v ∈ e.vals, (v.params.map Prod.fst).Nodup) :
    ((propNames true n ps).flatMap (entryItems ps)).map (itemLine true) =
      ((propNames true n ps').flatMap (entryItems ps')).map (itemLine true) := by
  obtain ⟨qs, hperm, hq⟩ := h
  have h1 : (propNames true n ps).flatMap (entryItems ps) = (propNames true n qs).flatMap (entryItems qs) := by
    rw [propNames_perm n ps qs hperm]
    exact flatMap_congr' _ _ _ (fun k _ => entryItems_perm ps qs hn hperm k)
  have h2 : propNames true n qs = propNames true n ps' := by
    simp only [propNames, all₂_names qs ps' hq]
  rw [h1, h2, List.map_flatMap, List.map_flatMap]
  exact flatMap_congr' _ _ _ (fun k _ =>
    entryItems_all₂ k qs ps' hq (fun e he => hp e (hperm.mem_iff.mpr he)))

mutual
theorem items_insEq : ∀ (t t' : Comp), InsEq t t' → dictInv t = true →
    (items true t).map (itemLine true) = (items true t').map (itemLine true)
  | .mk n ps ss, .mk n' ps' ss', h, hw => by
    rw [InsEq] at h
    obtain ⟨rfl, hps, hss⟩ := h
    rw [dictInv, Bool.and_eq_true, Bool.and_eq_true, decide_eq_true_eq] at hw
    have hp : ∀ e ∈ ps, ∀ v ∈ e.vals, (v.params.map Prod.fst).Nodup := by
      intro e he v hv
      have := List.all_eq_true.mp (List.all_eq_true.mp hw.1.2 e he) v hv
      simpa using this
    rw [items_mk, items_mk]
    simp only [List.map_cons, List.map_append]
    rw [propItems_eq n ps ps' hps hw.1.1 hp, itemsList_insEq ss ss' hss hw.2]
theorem itemsList_insEq : ∀ (cs ds : List Comp), InsEqL cs ds → dictInvL cs = true →
    (itemsList true cs).map (itemLine true) = (itemsList true ds).map (itemLine true)
  | [], [], _, _ => rfl
  | [], _ :: _, h, _ => by rw [InsEqL] at h; cases h
  | _ :: _, [], h, _ => by rw [InsEqL] at h; cases h
  | c :: cs, d :: ds, h, hw => by
    rw [InsEqL] at h
    rw [dictInvL, Bool.and_eq_true] at hw
    rw [itemsList_cons, itemsList_cons, List.map_append, List.map_append,
      items_insEq c d h.1 hw.1, itemsList_insEq cs ds h.2 hw.2]
end

theorem mapM_eq_of_map_eq {α ε β : Type} (f : α → Except ε β) : ∀ (l l' : List α),
    l.map f = l'.map f → l.mapM f = l'.mapM f
  | [], [], _ => rfl
  | [], _ :: _, h => by cases h
  | _ :: _, [], h => by cases h
  | a :: l, b :: l', h => by
    simp only [List.map_cons, List.cons.injEq] at h
    rw [List.mapM_cons, List.mapM_cons, h.1, mapM_eq_of_map_eq f l l' h.2]

theorem insEq_refl_props (ps : List Entry) : PropsEq ps ps := by
  refine ⟨ps, List.Perm.refl _, ?_⟩
  have hv : ∀ (vs : List Val), All₂ ValEq vs vs := by
    intro vs; induction vs with
    | nil => trivial
    | cons v vs ih => exact ⟨⟨rfl, rfl, List.Perm.refl _⟩, ih⟩
  induction ps with
  | nil => trivial
  | cons e ps ih => exact ⟨⟨rfl, rfl, hv _⟩, ih⟩

end inseq

/-! ## add_missing_timezones: the enumeration order of the set of missing ids is immaterial -/
section tz

def StrSorted (l : List Str) : Prop := l.Pairwise (fun a b => strLe a b = true)

theorem insertSorted_sorted (k : Str) : ∀ (l : List Str), StrSorted l → StrSorted (insertSorted k l)
  | [], _ => by simp [insertSorted, StrSorted]
  | x :: xs, h => by
    unfold StrSorted at h
    rw [List.pairwise_cons] at h
    simp only [insertSorted]
    split
    · next hlt =>
      have hxk : strLe x k = true := by
        unfold strLe; rw [strLt_asymm' x k hlt]; rfl
      have ih := insertSorted_sorted k xs h.2
      unfold StrSorted at ih ⊢
      rw [List.pairwise_cons]
      refine ⟨?_, ih⟩
      intro y hy
      rcases List.mem_cons.mp ((insertSorted_perm k xs).mem_iff.mp hy) with rfl | hy'
      · exact hxk
      · exact h.1 y hy'
    · next hlt =>
      have hkx : strLe k x = true := by unfold strLe; simpa using hlt
      unfold StrSorted
      rw [List.pairwise_cons]
      refine ⟨?_, List.pairwise_cons.mpr h⟩
      intro y hy
      rcases List.mem_cons.mp hy with rfl | hy'
      · exact hkx
      · exact strLe_trans' _ _ _ hkx (h.1 y hy')

theorem sortStr_sorted : ∀ (l : List Str), StrSorted (sortStr l)
  | [] => by simp [sortStr, StrSorted]
  | x :: xs => by
    simp only [sortStr, List.foldr_cons]
    exact insertSorted_sorted x _ (sortStr_sorted xs)

theorem strSorted_perm_eq (a b : List Str) (ha : StrSorted a) (hb : StrSorted b) (h : a.Perm b) : a = b :=
  List.Perm.eq_of_pairwise (fun x y _ _ h1 h2 => CDict.strLe_antisymm x y h1 h2) ha hb h

/-- `sorted(...)` of two enumerations of the same multiset is the same list -/
theorem sortStr_perm_eq (a b : List Str) (h : a.Perm b) : sortStr a = sortStr b :=
  strSorted_perm_eq _ _ (sortStr_sorted a) (sortStr_sorted b)
    ((sortStr_perm a).trans (h.trans (sortStr_perm b).symm))

theorem sortStr_of_sorted (a : List Str) (h : StrSorted a) : sortStr a = a :=
  strSorted_perm_eq _ _ (sortStr_sorted a) h (sortStr_perm a)

theorem missingTzids_sorted (t : Comp) : StrSorted (missingTzids t) := by
  unfold missingTzids usedTzids toSet
  exact List.Pairwise.sublist List.filter_sublist (sortStr_sorted _)

/-- `add_missing_timezones` with the iteration over the set made explicit: `enum` is the order in
    which the Python `set` returned by `get_missing_tzids()` happens to enumerate its elements;
    the code iterates over `sorted(enum)`. -/
def addMissingFrom (knows : Str → Bool) (enum : List Str) : Comp → Comp
  | .mk n p subs => .mk n p (subs ++ ((sortStr enum).filter knows).map genTz)

theorem addMissingFrom_perm (knows : Str → Bool) (enum enum' : List Str) (h : enum.Perm enum') (t : Comp) :
    addMissingFrom knows enum t = addMissingFrom knows enum' t := by
  cases t with
  | mk n p subs => simp only [addMissingFrom, sortStr_perm_eq enum enum' h]

theorem addMissingFrom_missing (knows : Str → Bool) (t : Comp) :
    addMissingFrom knows (missingTzids t) t = addMissing knows t := by
  cases t with
  | mk n p subs =>
    simp only [addMissingFrom, addMissing, sortStr_of_sorted _ (missingTzids_sorted _)]

/-- the set `sorted(set(l))` depends on the members of `l` only -/
theorem toSet_ext (l l' : List Str) (h : ∀ k, k ∈ l ↔ k ∈ l') : toSet l = toSet l' := by
  unfold toSet
  apply sortStr_perm_eq
  exact (List.perm_ext_iff_of_nodup (dedup_nodup l) (dedup_nodup l')).mpr
    (fun k => by rw [mem_dedup, mem_dedup]; exact h k)

end tz

end ICal
