/-
  Equality of the regenerated `Component.property_items` (ICal/Gen/BodiesSer.lean, tools/py2lean.py: the
  recursion over the tree, the loops over the property names, over a list of values and over the
  subcomponents, the `sorted` / `recursive` flags, the recursive call `subcomponent.property_items(sorted=sorted)`
  with its arguments bound by the signature) with the hand model `items` of ICal/Model/Ser.lean.
  The external pieces are parameters, instantiated with what the hand model says of them:
  `vText(name).to_ical()` = `escapeChar name`, `sorted_keys()` = `canonsort` of the keys by the class's
  canonical order, `keys()` = the stored names, `self[name]` = the entry of that name (KeyError without one).
  `pyItems` is the list of (name, object) pairs; `ivItem` is what the serialiser observes of a pair.
-/
import ICal.Model.SerPieces
import ICal.Lemmas.CDict
set_option linter.unusedSimpArgs false
namespace ICal.Bodies
open ICal ICal.PyRT ICal.Gen.BodiesSer

def entryPyItems (props : List Entry) (n : Str) : List PyItem :=
  match props.find? (fun e => e.name == n) with
  | some e => e.vals.map (fun v => (n, PyIV.obj v))
  | none => []

mutual
def pyItems (sorted : Bool) : Comp → List PyItem
  | .mk name props subs =>
    (['B','E','G','I','N'], PyIV.bytes (escapeChar name)) :: ((propNames sorted name props).flatMap (entryPyItems props)
      ++ pyItemsL sorted subs ++ [(['E','N','D'], PyIV.bytes (escapeChar name))])
def pyItemsL (sorted : Bool) : List Comp → List PyItem
  | [] => []
  | c :: cs => pyItems sorted c ++ pyItemsL sorted cs
end

theorem flatMap_map_eq {α β γ : Type} (f : α → List β) (g : β → γ) (h : α → List γ) (hfg : ∀ a, (f a).map g = h a) :
    ∀ l : List α, (l.flatMap f).map g = l.flatMap h
  | [] => rfl
  | a :: l => by simp [List.flatMap_cons, hfg a, flatMap_map_eq f g h hfg l]

theorem entry_items (props : List Entry) (n : Str) : (entryPyItems props n).map ivItem = entryItems props n := by
  simp only [entryPyItems, entryItems]
  cases props.find? (fun e => e.name == n) <;> simp [ivItem, Function.comp_def]

mutual
theorem pyItems_items (sorted : Bool) : ∀ c, (pyItems sorted c).map ivItem = items sorted c
  | .mk name props subs => by
    simp only [pyItems, items, List.map_cons, List.map_append, pyItemsL_items sorted subs,
      flatMap_map_eq _ _ _ (entry_items props), ivItem, beginItem, endItem, List.map_nil]
theorem pyItemsL_items (sorted : Bool) : ∀ cs, (pyItemsL sorted cs).map ivItem = itemsList sorted cs
  | [] => rfl
  | c :: cs => by simp only [pyItemsL, itemsList, List.map_append, pyItems_items sorted c, pyItemsL_items sorted cs]
end

theorem loop2_eq (name : Str) : ∀ (vs : List Val) (acc : List PyItem),
    Component_property_items_loop2 nameToIcalP sortedKeysP keysP getitemP name acc vs =
      .ok (acc ++ vs.map (fun v => (name, PyIV.obj v))) := by
  intro vs
  induction vs with
  | nil => intro acc; simp [Component_property_items_loop2, pure, Except.pure]
  | cons v rest ih => intro acc; simp only [Component_property_items_loop2]; rw [ih]; simp

theorem loop1_eq (name' : Str) (props' : List Entry) (subs' : List Comp) : ∀ (ns : List Str) (acc : List PyItem),
    (∀ n ∈ ns, ∃ e, props'.find? (fun e => e.name == n) = some e) →
    Component_property_items_loop1 nameToIcalP sortedKeysP keysP getitemP name' props' subs' acc ns =
      .ok (acc ++ ns.flatMap (entryPyItems props')) := by
  intro ns
  induction ns with
  | nil => intro acc _; simp [Component_property_items_loop1, pure, Except.pure]
  | cons n rest ih =>
    intro acc h
    obtain ⟨e, he⟩ := h n (by simp)
    have hrest : ∀ m ∈ rest, ∃ e, props'.find? (fun e => e.name == m) = some e := fun m hm => h m (by simp [hm])
    simp only [Component_property_items_loop1, getitemP, Comp.props, he, bind, Except.bind, List.flatMap_cons, entryPyItems]
    unfold entryVals
    by_cases hl : e.isList = true
    · simp only [hl, if_true, PyVals.isList, PyVals.elems, loop2_eq, pure, Except.pure]
      rw [ih _ hrest]; simp
    · simp only [hl, if_false, Bool.false_eq_true]
      match hv : e.vals with
      | [v] =>
        simp only [PyVals.isList, PyVals.toIV, pure, Except.pure, Bool.false_eq_true, if_false]
        rw [ih _ hrest]; simp
      | [] =>
        simp only [PyVals.isList, PyVals.elems, loop2_eq, pure, Except.pure, if_true]
        rw [ih _ hrest]; simp
      | v :: w :: vs =>
        simp only [PyVals.isList, PyVals.elems, loop2_eq, pure, Except.pure, if_true]
        rw [ih _ hrest]; simp

theorem names_found (sorted : Bool) (name : Str) (props : List Entry) :
    ∀ n ∈ (if sorted then sortedKeysP (.mk name props []) else keysP (.mk name props [])),
      ∃ e, props.find? (fun e => e.name == n) = some e := by
  intro n hn
  have hk : n ∈ props.map (·.name) := by
    cases sorted
    · simpa [keysP, Comp.props] using hn
    · simp only [if_true, sortedKeysP, keysP, Comp.props] at hn
      exact (CDict.mem_canonsort _ _ n).1 hn
  obtain ⟨e, he, hen⟩ := List.mem_map.1 hk
  cases hf : props.find? (fun e => e.name == n) with
  | some e' => exact ⟨e', rfl⟩
  | none =>
    have := List.find?_eq_none.1 hf e he
    simp [hen] at this

mutual
theorem property_items_eq (sorted : Bool) : ∀ c,
    Component_property_items (name_to_ical := nameToIcalP) (sorted_keys := sortedKeysP) (keys := keysP) (getitem := getitemP) c true sorted = .ok (pyItems sorted c)
  | .mk name props subs => by
    have hn := names_found sorted name props
    have hnames : (if sorted = true then sortedKeysP (.mk name props subs) else keysP (.mk name props subs)) =
        propNames sorted name props := by
      cases sorted <;> simp [sortedKeysP, keysP, propNames, Comp.props, Comp.name]
    have hnames' : (if sorted = true then sortedKeysP (.mk name props []) else keysP (.mk name props [])) =
        propNames sorted name props := by
      cases sorted <;> simp [sortedKeysP, keysP, propNames, Comp.props, Comp.name]
    rw [hnames'] at hn
    simp only [Component_property_items, pyItems, hnames, bind, Except.bind, pure, Except.pure, if_true]
    rw [loop1_eq name props subs _ _ hn]
    simp only [loop3_eq sorted subs]
    simp [nameToIcalP]
theorem loop3_eq (sorted : Bool) : ∀ (cs : List Comp) (acc : List PyItem),
    Component_property_items_loop3 nameToIcalP sortedKeysP keysP getitemP sorted acc cs = .ok (acc ++ pyItemsL sorted cs)
  | [], acc => by simp [Component_property_items_loop3, pyItemsL, pure, Except.pure]
  | c :: cs, acc => by
    simp only [Component_property_items_loop3, property_items_eq sorted c, bind, Except.bind, pyItemsL]
    rw [loop3_eq sorted cs]; simp
end

/-- `property_items(sorted=..)` as the serialiser sees it is the hand model's `items` -/
theorem property_items_items (sorted : Bool) (c : Comp) :
    ∃ l, Component_property_items (name_to_ical := nameToIcalP) (sorted_keys := sortedKeysP) (keys := keysP) (getitem := getitemP) c true sorted = .ok l ∧
      l.map ivItem = items sorted c :=
  ⟨pyItems sorted c, property_items_eq sorted c, pyItems_items sorted c⟩

end ICal.Bodies
