/-
  Rewrites of a calendar text that RFC 5545 declares insignificant (helper lemmas for C09).

  Text level (`linesFromIcal`): LF instead of CR LF, a leading byte-order mark, trailing blank
  lines, a fold inserted after any character that is neither CR nor LF, and the general
  "physical line" form (any fold placement, any of the fold separators, CR LF or LF line ends).
  Line level (`pstep`/`prun`/`parseLines`): any casing of BEGIN/END, component names, property
  names; parameter names are upper-cased by `parts()` itself.
-/
import ICal.Lemmas.FoldLines
import ICal.Lemmas.Line
import ICal.Model.Parse
set_option linter.unusedSimpArgs false
namespace ICal

/-! ### basic equations of the scanner -/

theorem unfold_nil : unfold [] = [] := by rw [unfold]

theorem eatNL_crlf (cs : Str) : eatNL (CR :: LF :: cs) = some ((eatNL cs).getD cs) := by
  simp only [CR, LF]; rw [eatNL]

theorem eatNL_lf (cs : Str) : eatNL (LF :: cs) = some ((eatNL cs).getD cs) := by
  simp only [LF]; rw [eatNL]

/-- a character that is neither CR nor LF starts no line break -/
theorem eatNL_plain (c : Char) (cs : Str) (h1 : c ≠ CR) (h2 : c ≠ LF) : eatNL (c :: cs) = none :=
  eatNL_none_of c cs h2 (fun e => absurd e h1)

/-- the scanner drops a run of line breaks that is followed by fold whitespace -/
theorem unfold_cons_fold (c : Char) (cs : Str) (x : Char) (rest : Str)
    (h : eatNL (c :: cs) = some (x :: rest)) (hws : Gen.foldWs.contains x = true) :
    unfold (c :: cs) = unfold rest := by
  rw [unfold]; split
  · next x' rest' heq =>
    rw [h] at heq; simp only [Option.some.injEq, List.cons.injEq] at heq
    obtain ⟨rfl, rfl⟩ := heq
    rw [if_pos hws]
  · next hne => exact absurd h (hne x rest)

/-- the scanner copies a character at which no fold starts -/
theorem unfold_cons_copy (c : Char) (cs : Str)
    (h : ∀ x rest, eatNL (c :: cs) = some (x :: rest) → Gen.foldWs.contains x = false) :
    unfold (c :: cs) = c :: unfold cs := by
  rw [unfold]; split
  · next x rest heq => rw [h x rest heq]; rfl
  · rfl

theorem foldWs_CR : Gen.foldWs.contains CR = false := by decide
theorem foldWs_LF : Gen.foldWs.contains LF = false := by decide
theorem foldWs_ne {x : Char} (h : Gen.foldWs.contains x = true) : x ≠ CR ∧ x ≠ LF := by
  constructor <;> (intro e; subst e; revert h; decide)

/-! ### LF instead of CR LF -/

/-- every carriage return is immediately followed by a line feed -/
def crOK : Str → Prop
  | [] => True
  | c :: cs => (c = CR → cs.head? = some LF) ∧ crOK cs

/-- delete every carriage return -/
def dropCR (t : Str) : Str := t.filter (fun c => c != CR)

theorem dropCR_nil : dropCR [] = [] := rfl
theorem dropCR_CR (cs : Str) : dropCR (CR :: cs) = dropCR cs := by simp [dropCR]
theorem dropCR_cons (c : Char) (cs : Str) (h : c ≠ CR) : dropCR (c :: cs) = c :: dropCR cs := by
  simp [dropCR, h]
theorem dropCR_LF (cs : Str) : dropCR (LF :: cs) = LF :: dropCR cs := dropCR_cons _ _ (by decide)

/-- on such a text, rewriting CR LF to LF deletes exactly the carriage returns -/
theorem rep2_crlf_eq_dropCR : ∀ (t : Str), crOK t → rep2 CR LF [LF] t = dropCR t
  | [], _ => rfl
  | [c], h => by
    have hc : c ≠ CR := by intro e; have := h.1 e; simp at this
    simp [rep2, dropCR, hc]
  | c :: d :: cs, h => by
    by_cases hc : c = CR
    · have hd : d = LF := by have := h.1 hc; simpa using this
      subst hc hd
      have ih := rep2_crlf_eq_dropCR cs h.2.2
      simp only [rep2, and_self, if_true, ih, dropCR_CR, dropCR_LF, List.singleton_append]
    · have ih := rep2_crlf_eq_dropCR (d :: cs) h.2
      simp only [rep2, hc, false_and, if_false, ih, dropCR_cons c _ hc]

theorem crOK_tail {c : Char} {cs : Str} (h : crOK (c :: cs)) : crOK cs := h.2

theorem crOK_head_ne_CR_of {c : Char} {cs : Str} (h : crOK (c :: cs)) (h2 : cs.head? ≠ some LF) : c ≠ CR :=
  fun e => h2 (h.1 e)

theorem eatNL_dropCR (t : Str) : crOK t → eatNL (dropCR t) = (eatNL t).map dropCR := by
  fun_induction eatNL t with
  | case1 cs ih =>
    intro h
    have hcs : crOK cs := h.2.2
    have e : dropCR ('\r' :: '\n' :: cs) = LF :: dropCR cs := by
      rw [show ('\r' : Char) = CR from rfl, dropCR_CR, show ('\n' : Char) = LF from rfl, dropCR_LF]
    rw [e, eatNL_lf, ih hcs]
    cases eatNL cs <;> rfl
  | case2 cs ih =>
    intro h
    have hcs : crOK cs := h.2
    rw [show ('\n' : Char) = LF from rfl, dropCR_LF, eatNL_lf, ih hcs]
    cases eatNL cs <;> rfl
  | case3 t h1 h2 =>
    intro h
    cases t with
    | nil => simp [dropCR, eatNL_nil]
    | cons c cs =>
      have hlf : c ≠ LF := by intro e; subst e; exact h2 cs rfl
      have hcr : c ≠ CR := by
        intro e; subst e
        have := h.1 rfl
        cases cs with
        | nil => simp at this
        | cons d ds => simp at this; subst this; exact h1 ds rfl
      rw [dropCR_cons c cs hcr, eatNL_plain c _ hcr hlf]; rfl

theorem eatNL_crOK (t : Str) : ∀ r, eatNL t = some r → crOK t → crOK r := by
  fun_induction eatNL t with
  | case1 cs ih =>
    intro r h hc
    simp only [Option.some.injEq] at h; subst h
    cases h' : eatNL cs with
    | none => exact hc.2.2
    | some r' => exact ih r' h' hc.2.2
  | case2 cs ih =>
    intro r h hc
    simp only [Option.some.injEq] at h; subst h
    cases h' : eatNL cs with
    | none => exact hc.2
    | some r' => exact ih r' h' hc.2
  | case3 t h1 h2 => intro r h; cases h

/-- a copied position stays a copied position after deleting the carriage returns -/
theorem copy_dropCR (c : Char) (cs : Str) (hc : crOK (c :: cs))
    (hcopy : ∀ x rest, eatNL (c :: cs) = some (x :: rest) → Gen.foldWs.contains x = false) :
    ∀ x' rest', eatNL (dropCR (c :: cs)) = some (x' :: rest') → Gen.foldWs.contains x' = false := by
  intro x' rest' h
  rw [eatNL_dropCR _ hc] at h
  cases he : eatNL (c :: cs) with
  | none => rw [he] at h; cases h
  | some r =>
    rw [he] at h
    simp only [Option.map_some, Option.some.injEq] at h
    cases r with
    | nil => cases h
    | cons x rest =>
      have hr : crOK (x :: rest) := eatNL_crOK _ _ he hc
      by_cases hx : x = CR
      · subst hx
        have := hr.1 rfl
        cases rest with
        | nil => simp at this
        | cons d ds =>
          simp only [List.head?_cons, Option.some.injEq] at this; subst this
          rw [dropCR_CR, dropCR_LF] at h
          simp only [List.cons.injEq] at h
          rw [← h.1]; exact foldWs_LF
      · rw [dropCR_cons x rest hx] at h
        simp only [List.cons.injEq] at h
        rw [← h.1]; exact hcopy x rest he

theorem unfold_dropCR_copy (c : Char) (cs : Str) (hc : crOK (c :: cs))
    (hcopy : ∀ x rest, eatNL (c :: cs) = some (x :: rest) → Gen.foldWs.contains x = false)
    (ih : unfold (dropCR cs) = dropCR (unfold cs)) :
    unfold (dropCR (c :: cs)) = dropCR (c :: unfold cs) := by
  by_cases hx : c = CR
  · subst hx; rw [dropCR_CR, dropCR_CR, ih]
  · have := copy_dropCR c cs hc hcopy
    rw [dropCR_cons c cs hx] at this
    rw [dropCR_cons c cs hx, dropCR_cons c _ hx, unfold_cons_copy c _ this, ih]

/-- unfolding commutes with deleting the carriage returns -/
theorem unfold_dropCR (t : Str) : crOK t → unfold (dropCR t) = dropCR (unfold t) := by
  fun_induction unfold t with
  | case1 => intro _; rw [dropCR_nil, unfold_nil]
  | case2 c cs x rest h hws ih =>
    intro hc
    have hr : crOK (x :: rest) := eatNL_crOK _ _ h hc
    have he := eatNL_dropCR _ hc
    rw [h, Option.map_some, dropCR_cons x rest (foldWs_ne hws).1] at he
    rw [← ih hr.2]
    cases hd : dropCR (c :: cs) with
    | nil => rw [hd, eatNL_nil] at he; cases he
    | cons c' cs' => rw [hd] at he; exact unfold_cons_fold c' cs' x _ he hws
  | case3 c cs x rest h hws ih =>
    intro hc
    apply unfold_dropCR_copy c cs hc _ (ih hc.2)
    intro x' rest' h'
    rw [h] at h'; simp only [Option.some.injEq, List.cons.injEq] at h'
    rw [← h'.1]; simpa using hws
  | case4 c cs h ih =>
    intro hc
    apply unfold_dropCR_copy c cs hc _ (ih hc.2)
    intro x' rest' h'
    exact absurd h' (fun e => h x' rest' e)

/-- unfolding keeps every carriage return in front of a line feed -/
theorem crOK_unfold (t : Str) : crOK t → crOK (unfold t) := by
  have copy : ∀ (c : Char) (cs : Str), crOK (c :: cs) →
      (∀ x rest, eatNL (c :: cs) = some (x :: rest) → Gen.foldWs.contains x = false) →
      crOK (unfold cs) → crOK (c :: unfold cs) := by
    intro c cs hc hcopy ih
    refine ⟨?_, ih⟩
    intro e; subst e
    have := hc.1 rfl
    cases cs with
    | nil => simp at this
    | cons d ds =>
      simp only [List.head?_cons, Option.some.injEq] at this; subst this
      rw [unfold_cons_copy LF ds]
      · rfl
      · intro x rest h'
        apply hcopy x rest
        rw [eatNL_crlf]; rw [eatNL_lf] at h'; exact h'
  fun_induction unfold t with
  | case1 => intro _; trivial
  | case2 c cs x rest h hws ih =>
    intro hc
    exact ih (eatNL_crOK _ _ h hc).2
  | case3 c cs x rest h hws ih =>
    intro hc
    apply copy c cs hc _ (ih hc.2)
    intro x' rest' h'
    rw [h] at h'; simp only [Option.some.injEq, List.cons.injEq] at h'
    rw [← h'.1]; simpa using hws
  | case4 c cs h ih =>
    intro hc
    apply copy c cs hc _ (ih hc.2)
    intro x' rest' h'
    exact absurd h' (fun e => h x' rest' e)

/-! splitting -/

theorem splitNewline_nil : splitNewline [] = [[]] := by rw [splitNewline]

theorem splitNewline_lf (cs : Str) : splitNewline (LF :: cs) = [] :: splitNewline cs := by
  rw [splitNewline]; simp

theorem splitNewline_crlf (cs : Str) : splitNewline (CR :: LF :: cs) = [] :: splitNewline cs := by
  rw [splitNewline]; simp [CR, LF]

theorem splitNewline_copy (c : Char) (cs : Str) (h1 : c ≠ LF) (h2 : ¬ (c = CR ∧ cs.head? = some LF)) :
    splitNewline (c :: cs) = match splitNewline cs with
      | [] => [[c]]
      | hd :: tl => (c :: hd) :: tl := by
  rw [splitNewline]; simp only [h1, h2, if_false]; rfl

theorem splitNewline_dropCR (u : Str) : crOK u → splitNewline (dropCR u) = splitNewline u := by
  have copy : ∀ (c : Char) (cs : Str), c ≠ LF → ¬ (c = CR ∧ cs.head? = some LF) → crOK (c :: cs) →
      splitNewline (dropCR cs) = splitNewline cs →
      splitNewline (dropCR (c :: cs)) = splitNewline (c :: cs) := by
    intro c cs h1 h2 hc ih
    have hcr : c ≠ CR := fun e => h2 ⟨e, hc.1 e⟩
    rw [dropCR_cons c cs hcr, splitNewline_copy c cs h1 h2,
      splitNewline_copy c _ h1 (fun e => hcr e.1), ih]
  intro h
  induction u using splitNewline.induct with
  | case1 => rfl
  | case2 cs ih => rw [dropCR_LF, splitNewline_lf, splitNewline_lf, ih h.2]
  | case3 c cs h1 h2 ih =>
    obtain ⟨rfl, h3⟩ := h2
    cases cs with
    | nil => simp at h3
    | cons d ds =>
      simp only [List.head?_cons, Option.some.injEq] at h3; subst h3
      rw [dropCR_CR, dropCR_LF, splitNewline_lf, splitNewline_crlf]
      simp only [List.drop_succ_cons, List.drop_zero] at ih
      rw [ih h.2.2]
  | case4 c cs h1 h2 _ ih => exact copy c cs h1 h2 h (ih h.2)
  | case5 c cs h1 h2 _ _ _ ih => exact copy c cs h1 h2 h (ih h.2)

theorem stripBOM_dropCR (t : Str) (h : crOK t) : stripBOM (dropCR t) = dropCR (stripBOM t) := by
  cases t with
  | nil => rfl
  | cons c cs =>
    by_cases hc : c = CR
    · subst hc
      have := h.1 rfl
      cases cs with
      | nil => simp at this
      | cons d ds =>
        simp only [List.head?_cons, Option.some.injEq] at this; subst this
        rw [dropCR_CR, dropCR_LF]
        simp [stripBOM, CR, LF, BOM, dropCR]
    · rw [dropCR_cons c cs hc]
      by_cases hb : c = BOM
      · simp [stripBOM, hb]
      · simp [stripBOM, hb, dropCR_cons c cs hc]

theorem crOK_stripBOM (t : Str) (h : crOK t) : crOK (stripBOM t) := by
  cases t with
  | nil => trivial
  | cons c cs =>
    simp only [stripBOM]; split
    · exact h.2
    · exact h

/-- general form of the LF rewrite: on a text in which every CR is followed by LF, replacing
    CR LF by LF does not change the content lines -/
theorem linesFromIcal_lf (t : Str) (h : crOK t) :
    linesFromIcal (rep2 CR LF [LF] t) = linesFromIcal t := by
  rw [rep2_crlf_eq_dropCR t h]
  unfold linesFromIcal linesFromText
  have hs := crOK_stripBOM t h
  rw [stripBOM_dropCR t h, unfold_dropCR _ hs, splitNewline_dropCR _ (crOK_unfold _ hs)]


/-! ### cutting a text where no fold straddles the cut -/

/-- a run of line breaks followed by a plain character is not changed by what is appended -/
theorem eatNL_append_plain (u v : Str) : ∀ (x : Char) (rest : Str), eatNL u = some (x :: rest) →
    x ≠ CR → x ≠ LF → eatNL (u ++ v) = some (x :: rest ++ v) := by
  have step : ∀ (cs : Str) (x : Char) (rest : Str),
      (∀ (x : Char) (rest : Str), eatNL cs = some (x :: rest) → x ≠ CR → x ≠ LF →
        eatNL (cs ++ v) = some (x :: rest ++ v)) →
      (eatNL cs).getD cs = x :: rest → x ≠ CR → x ≠ LF →
      (eatNL (cs ++ v)).getD (cs ++ v) = x :: rest ++ v := by
    intro cs x rest ih h h1 h2
    cases h' : eatNL cs with
    | none =>
      rw [h'] at h; simp only [Option.getD_none] at h; subst h
      rw [List.cons_append, eatNL_plain x _ h1 h2]; rfl
    | some r' =>
      rw [h'] at h; simp only [Option.getD_some] at h; subst h
      rw [ih x rest h' h1 h2]; rfl
  fun_induction eatNL u with
  | case1 cs ih =>
    intro x rest h h1 h2
    simp only [Option.some.injEq] at h
    show eatNL (CR :: LF :: (cs ++ v)) = _
    rw [eatNL_crlf, step cs x rest ih h h1 h2]
  | case2 cs ih =>
    intro x rest h h1 h2
    simp only [Option.some.injEq] at h
    show eatNL (LF :: (cs ++ v)) = _
    rw [eatNL_lf, step cs x rest ih h h1 h2]
  | case3 t h1 h2 => intro x rest h; cases h

/-- the generic cut lemma: `P` describes the texts `u` whose line-break runs cannot reach
    fold whitespace inside `v` -/
theorem unfold_append_gen (v : Str) (P : Str → Prop)
    (hP : ∀ c cs, P (c :: cs) → P cs)
    (hPr : ∀ u r, P u → eatNL u = some r → P r)
    (hinv : ∀ c cs, P (c :: cs) → ∀ x r', eatNL (c :: cs ++ v) = some (x :: r') →
      Gen.foldWs.contains x = true → ∃ rest, eatNL (c :: cs) = some (x :: rest))
    (u : Str) : P u → unfold (u ++ v) = unfold u ++ unfold v := by
  fun_induction unfold u with
  | case1 => intro _; rfl
  | case2 c cs x rest h hws ih =>
    intro hp
    have e := eatNL_append_plain (c :: cs) v x rest h (foldWs_ne hws).1 (foldWs_ne hws).2
    rw [List.cons_append] at e ⊢
    rw [unfold_cons_fold c _ x _ e hws]
    exact ih (hP _ _ (hPr _ _ hp h))
  | case3 c cs x rest h hws ih =>
    intro hp
    rw [List.cons_append, unfold_cons_copy c (cs ++ v), ih (hP _ _ hp)]; rfl
    intro x' r' h'
    cases hx : Gen.foldWs.contains x' with
    | false => rfl
    | true =>
      obtain ⟨rest', hr⟩ := hinv c cs hp x' r' h' hx
      rw [h] at hr; simp only [Option.some.injEq, List.cons.injEq] at hr
      rw [hr.1] at hws; exact absurd hx hws
  | case4 c cs h ih =>
    intro hp
    rw [List.cons_append, unfold_cons_copy c (cs ++ v), ih (hP _ _ hp)]; rfl
    intro x' r' h'
    cases hx : Gen.foldWs.contains x' with
    | false => rfl
    | true =>
      obtain ⟨rest', hr⟩ := hinv c cs hp x' r' h' hx
      exact absurd hr (fun e => h x' rest' e)

/-- `v` neither starts with fold whitespace nor with line breaks followed by fold whitespace -/
def NoFoldHead (v : Str) : Prop :=
  ∀ x r, Gen.foldWs.contains x = true → v ≠ x :: r ∧ eatNL v ≠ some (x :: r)

theorem eatNL_append_inv (v : Str) (hv : NoFoldHead v) (u : Str) : u ≠ [] → ∀ x r',
    eatNL (u ++ v) = some (x :: r') → Gen.foldWs.contains x = true →
    ∃ rest, eatNL u = some (x :: rest) := by
  have step : ∀ (cs : Str) (x : Char) (r' : Str),
      (cs ≠ [] → ∀ x r', eatNL (cs ++ v) = some (x :: r') → Gen.foldWs.contains x = true →
        ∃ rest, eatNL cs = some (x :: rest)) →
      (eatNL (cs ++ v)).getD (cs ++ v) = x :: r' → Gen.foldWs.contains x = true →
      ∃ rest, (eatNL cs).getD cs = x :: rest := by
    intro cs x r' ih h hws
    cases cs with
    | nil =>
      simp only [List.nil_append] at h
      cases h' : eatNL v with
      | none => rw [h'] at h; exact absurd h (hv x r' hws).1
      | some r => rw [h'] at h; simp only [Option.getD_some] at h; subst h; exact absurd h' (hv x r' hws).2
    | cons d ds =>
      cases h' : eatNL (d :: ds ++ v) with
      | none =>
        rw [h'] at h; simp only [Option.getD_none, List.cons_append, List.cons.injEq] at h
        obtain ⟨rfl, _⟩ := h
        rw [eatNL_plain d ds (foldWs_ne hws).1 (foldWs_ne hws).2]
        exact ⟨ds, rfl⟩
      | some r =>
        rw [h'] at h; simp only [Option.getD_some] at h; subst h
        obtain ⟨rest, hr⟩ := ih (by simp) x r' h' hws
        rw [hr]; exact ⟨rest, rfl⟩
  fun_induction eatNL u with
  | case1 cs ih =>
    intro _ x r' h hws
    have h : eatNL (CR :: LF :: (cs ++ v)) = some (x :: r') := h
    rw [eatNL_crlf] at h; simp only [Option.some.injEq] at h
    obtain ⟨rest, hr⟩ := step cs x r' ih h hws
    exact ⟨rest, by rw [hr]⟩
  | case2 cs ih =>
    intro _ x r' h hws
    have h : eatNL (LF :: (cs ++ v)) = some (x :: r') := h
    rw [eatNL_lf] at h; simp only [Option.some.injEq] at h
    obtain ⟨rest, hr⟩ := step cs x r' ih h hws
    exact ⟨rest, by rw [hr]⟩
  | case3 t h1 h2 =>
    intro hne x r' h hws
    exfalso
    cases t with
    | nil => exact hne rfl
    | cons c cs =>
      have hlf : c ≠ LF := by intro e; subst e; exact h2 cs rfl
      by_cases hcr : c = CR
      · subst hcr
        cases cs with
        | nil =>
          cases v with
          | nil => simp [eatNL_plain, CR, LF, eatNL] at h
          | cons e es =>
            by_cases he : e = LF
            · subst he
              simp only [List.cons_append, List.nil_append] at h
              rw [eatNL_crlf, ← eatNL_lf] at h
              exact (hv x r' hws).2 h
            · simp only [List.cons_append, List.nil_append] at h
              rw [eatNL_none_of CR _ (by decide) (fun _ => by simpa using he)] at h
              cases h
        | cons d ds =>
          have hd : d ≠ LF := by intro e; subst e; exact h1 ds rfl
          simp only [List.cons_append] at h
          rw [eatNL_none_of CR _ (by decide) (fun _ => by simpa using hd)] at h
          cases h
      · rw [List.cons_append, eatNL_plain c _ hcr hlf] at h; cases h

/-- appending a text that does not begin inside a fold -/
theorem unfold_append_tail (u v : Str) (hv : NoFoldHead v) :
    unfold (u ++ v) = unfold u ++ unfold v :=
  unfold_append_gen v (fun _ => True) (fun _ _ _ => trivial) (fun _ _ _ _ => trivial)
    (fun c cs _ x r' h hws => eatNL_append_inv v hv (c :: cs) (by simp) x r' h hws) u trivial

theorem noFoldHead_crlf : NoFoldHead [CR, LF] := by
  intro x r hws
  refine ⟨?_, ?_⟩
  · intro e; simp only [List.cons.injEq] at e; rw [← e.1] at hws; exact absurd hws (by decide)
  · rw [eatNL_crlf, eatNL_nil]; simp

theorem noFoldHead_lf : NoFoldHead [LF] := by
  intro x r hws
  refine ⟨?_, ?_⟩
  · intro e; simp only [List.cons.injEq] at e; rw [← e.1] at hws; exact absurd hws (by decide)
  · rw [eatNL_lf, eatNL_nil]; simp

theorem unfold_crlf : unfold [CR, LF] = [CR, LF] := by
  have := unfold_break [] trivial
  rwa [unfold_nil] at this

theorem unfold_lf : unfold [LF] = [LF] := by
  rw [unfold_cons_copy LF [] (by intro x rest h; rw [eatNL_lf, eatNL_nil] at h; simp at h), unfold_nil]


/-- the text is empty or ends with a character that is neither CR nor LF -/
def plainEnd : Str → Prop
  | [] => True
  | [c] => c ≠ CR ∧ c ≠ LF
  | _ :: d :: cs => plainEnd (d :: cs)

theorem plainEnd_tail (c : Char) (cs : Str) (h : plainEnd (c :: cs)) : plainEnd cs := by
  cases cs with
  | nil => trivial
  | cons d ds => exact h

theorem plainEnd_append_single (a : Str) (c : Char) (h1 : c ≠ CR) (h2 : c ≠ LF) : plainEnd (a ++ [c]) := by
  induction a with
  | nil => exact ⟨h1, h2⟩
  | cons d ds ih =>
    cases ds with
    | nil => exact ⟨h1, h2⟩
    | cons e es => exact ih

theorem eatNL_plainEnd (u : Str) : ∀ r, plainEnd u → eatNL u = some r → plainEnd r := by
  fun_induction eatNL u with
  | case1 cs ih =>
    intro r hp h
    simp only [Option.some.injEq] at h; subst h
    have hcs : plainEnd cs := plainEnd_tail _ _ (plainEnd_tail _ _ hp)
    cases h' : eatNL cs with
    | none => exact hcs
    | some r' => exact ih r' hcs h'
  | case2 cs ih =>
    intro r hp h
    simp only [Option.some.injEq] at h; subst h
    have hcs : plainEnd cs := plainEnd_tail _ _ hp
    cases h' : eatNL cs with
    | none => exact hcs
    | some r' => exact ih r' hcs h'
  | case3 t h1 h2 => intro r _ h; cases h

/-- a run of line breaks inside a text that ends with a plain character ends inside it -/
theorem eatNL_append_of_plainEnd (t : Str) (u : Str) : u ≠ [] → plainEnd u →
    eatNL (u ++ t) = (eatNL u).map (· ++ t) := by
  fun_induction eatNL u with
  | case1 cs ih =>
    intro _ hp
    have hne : cs ≠ [] := by
      intro e; subst e; exact hp.2 rfl
    have hcs : plainEnd cs := plainEnd_tail _ _ (plainEnd_tail _ _ hp)
    show eatNL (CR :: LF :: (cs ++ t)) = _
    rw [eatNL_crlf, ih hne hcs]
    cases eatNL cs <;> rfl
  | case2 cs ih =>
    intro _ hp
    have hne : cs ≠ [] := by
      intro e; subst e; exact hp.2 rfl
    have hcs : plainEnd cs := plainEnd_tail _ _ hp
    show eatNL (LF :: (cs ++ t)) = _
    rw [eatNL_lf, ih hne hcs]
    cases eatNL cs <;> rfl
  | case3 u h1 h2 =>
    intro hne hp
    cases u with
    | nil => exact absurd rfl hne
    | cons c cs =>
      have hlf : c ≠ LF := by intro e; subst e; exact h2 cs rfl
      rw [List.cons_append]
      cases cs with
      | nil => rw [eatNL_plain c _ hp.1 hlf]; rfl
      | cons d ds =>
        have hd : c = CR → d ≠ LF := by intro e; subst e; intro e; subst e; exact h1 ds rfl
        rw [eatNL_none_of c _ hlf (fun e => by simpa using hd e)]; rfl

theorem eatNL_plainEnd_ne_nil (u : Str) : u ≠ [] → plainEnd u → eatNL u ≠ some [] := by
  fun_induction eatNL u with
  | case1 cs ih =>
    intro _ hp h
    have hne : cs ≠ [] := by
      intro e; subst e; exact hp.2 rfl
    have hcs : plainEnd cs := plainEnd_tail _ _ (plainEnd_tail _ _ hp)
    simp only [Option.some.injEq] at h
    cases h' : eatNL cs with
    | none => rw [h'] at h; exact hne h
    | some r' => rw [h'] at h; simp only [Option.getD_some] at h; subst h; exact ih hne hcs h'
  | case2 cs ih =>
    intro _ hp h
    have hne : cs ≠ [] := by
      intro e; subst e; exact hp.2 rfl
    have hcs : plainEnd cs := plainEnd_tail _ _ hp
    simp only [Option.some.injEq] at h
    cases h' : eatNL cs with
    | none => rw [h'] at h; exact hne h
    | some r' => rw [h'] at h; simp only [Option.getD_some] at h; subst h; exact ih hne hcs h'
  | case3 t h1 h2 => intro _ _ h; cases h

/-- a text that ends with a plain character can be unfolded separately from what follows -/
theorem unfold_append_plain (u t : Str) (hu : plainEnd u) :
    unfold (u ++ t) = unfold u ++ unfold t := by
  refine unfold_append_gen t plainEnd plainEnd_tail (fun u r hp h => eatNL_plainEnd u r hp h) ?_ u hu
  intro c cs hp x r' h hws
  rw [eatNL_append_of_plainEnd t (c :: cs) (by simp) hp] at h
  cases he : eatNL (c :: cs) with
  | none => rw [he] at h; cases h
  | some r =>
    rw [he] at h; simp only [Option.map_some, Option.some.injEq] at h
    cases r with
    | nil =>
      exfalso
      exact eatNL_plainEnd_ne_nil (c :: cs) (by simp) hp he
    | cons y rest =>
      simp only [List.cons_append, List.cons.injEq] at h
      exact ⟨rest, by rw [h.1]⟩


/-! ### splitting a text at a line break -/

theorem splitNewline_ne_nil (w : Str) : splitNewline w ≠ [] := by
  cases w with
  | nil => rw [splitNewline_nil]; simp
  | cons c cs =>
    rw [splitNewline]; split
    · simp
    · split
      · simp
      · split <;> simp

/-- `CR LF` ends the current line, whatever precedes it -/
theorem splitNewline_append_crlf (v : Str) (w : Str) :
    splitNewline (w ++ CR :: LF :: v) = splitNewline w ++ splitNewline v := by
  have copy : ∀ (c : Char) (cs : Str), c ≠ LF → ¬ (c = CR ∧ cs.head? = some LF) →
      splitNewline (cs ++ CR :: LF :: v) = splitNewline cs ++ splitNewline v →
      splitNewline (c :: cs ++ CR :: LF :: v) = splitNewline (c :: cs) ++ splitNewline v := by
    intro c cs h1 h2 ih
    have h2' : ¬ (c = CR ∧ (cs ++ CR :: LF :: v).head? = some LF) := by
      cases cs with
      | nil => simp [CR, LF]
      | cons d ds => simpa using h2
    rw [List.cons_append, splitNewline_copy c _ h1 h2', splitNewline_copy c cs h1 h2, ih]
    cases h : splitNewline cs with
    | nil => exact absurd h (splitNewline_ne_nil cs)
    | cons hd tl => rfl
  induction w using splitNewline.induct with
  | case1 => rw [List.nil_append, splitNewline_crlf, splitNewline_nil]; rfl
  | case2 cs ih => rw [List.cons_append, splitNewline_lf, splitNewline_lf, ih]; rfl
  | case3 c cs h1 h2 ih =>
    obtain ⟨rfl, h3⟩ := h2
    cases cs with
    | nil => simp at h3
    | cons d ds =>
      simp only [List.head?_cons, Option.some.injEq] at h3; subst h3
      simp only [List.drop_succ_cons, List.drop_zero] at ih
      rw [List.cons_append, List.cons_append, splitNewline_crlf, splitNewline_crlf, ih]; rfl
  | case4 c cs h1 h2 _ ih => exact copy c cs h1 h2 ih
  | case5 c cs h1 h2 _ _ _ ih => exact copy c cs h1 h2 ih

/-- a bare `LF` ends the current line unless a CR stands directly before it (then `CR LF` does,
    and the line loses that CR) -/
theorem splitNewline_append_lf (v : Str) (w : Str) : w.getLast? ≠ some CR →
    splitNewline (w ++ LF :: v) = splitNewline w ++ splitNewline v := by
  have copy : ∀ (c : Char) (cs : Str), c ≠ LF → ¬ (c = CR ∧ cs.head? = some LF) →
      (c :: cs).getLast? ≠ some CR →
      (cs.getLast? ≠ some CR → splitNewline (cs ++ LF :: v) = splitNewline cs ++ splitNewline v) →
      splitNewline (c :: cs ++ LF :: v) = splitNewline (c :: cs) ++ splitNewline v := by
    intro c cs h1 h2 hl ih
    have h2' : ¬ (c = CR ∧ (cs ++ LF :: v).head? = some LF) := by
      cases cs with
      | nil => simpa using hl
      | cons d ds => simpa using h2
    have hl' : cs.getLast? ≠ some CR := by
      cases cs with
      | nil => simp
      | cons d ds => simpa [List.getLast?_cons_cons] using hl
    rw [List.cons_append, splitNewline_copy c _ h1 h2', splitNewline_copy c cs h1 h2, ih hl']
    cases h : splitNewline cs with
    | nil => exact absurd h (splitNewline_ne_nil cs)
    | cons hd tl => rfl
  induction w using splitNewline.induct with
  | case1 => intro _; rw [List.nil_append, splitNewline_lf, splitNewline_nil]; rfl
  | case2 cs ih =>
    intro hl
    have hl' : cs.getLast? ≠ some CR := by
      cases cs with
      | nil => simp
      | cons d ds => simpa [List.getLast?_cons_cons] using hl
    rw [List.cons_append, splitNewline_lf, splitNewline_lf, ih hl']; rfl
  | case3 c cs h1 h2 ih =>
    intro hl
    obtain ⟨rfl, h3⟩ := h2
    cases cs with
    | nil => simp at h3
    | cons d ds =>
      simp only [List.head?_cons, Option.some.injEq] at h3; subst h3
      simp only [List.drop_succ_cons, List.drop_zero] at ih
      have hl' : ds.getLast? ≠ some CR := by
        cases ds with
        | nil => simp
        | cons e es => simpa [List.getLast?_cons_cons] using hl
      rw [List.cons_append, List.cons_append, splitNewline_crlf, splitNewline_crlf, ih hl']; rfl
  | case4 c cs h1 h2 _ ih => intro hl; exact copy c cs h1 h2 hl ih
  | case5 c cs h1 h2 _ _ _ ih => intro hl; exact copy c cs h1 h2 hl ih

/-! ### byte-order mark -/

theorem stripBOM_cons_BOM (t : Str) : stripBOM (BOM :: t) = t := by simp [stripBOM]

theorem stripBOM_of_head (t : Str) (h : t.head? ≠ some BOM) : stripBOM t = t := by
  cases t with
  | nil => rfl
  | cons c cs => simp only [stripBOM]; rw [if_neg]; simpa using h

theorem stripBOM_append (t v : Str) (h : t ≠ [] ∨ v.head? ≠ some BOM) :
    stripBOM (t ++ v) = stripBOM t ++ v := by
  cases t with
  | nil =>
    rcases h with h | h
    · exact absurd rfl h
    · exact stripBOM_of_head v h
  | cons c cs => simp only [List.cons_append, stripBOM]; split <;> rfl

/-- a leading byte-order mark is not part of the first content line -/
theorem linesFromIcal_bom (t : Str) (h : t.head? ≠ some BOM) :
    linesFromIcal (BOM :: t) = linesFromIcal t := by
  unfold linesFromIcal; rw [stripBOM_cons_BOM, stripBOM_of_head t h]

/-! ### trailing blank lines -/

theorem filter_append_nil (ls : List Str) :
    (ls ++ [[]]).filter (fun l => !l.isEmpty) = ls.filter (fun l => !l.isEmpty) := by
  simp

theorem linesFromText_append_crlf (u : Str) : linesFromText (u ++ [CR, LF]) = linesFromText u := by
  unfold linesFromText
  rw [unfold_append_tail u _ noFoldHead_crlf, unfold_crlf, splitNewline_append_crlf, splitNewline_nil,
    filter_append_nil]

theorem linesFromText_append_lf (u : Str) (h : (unfold u).getLast? ≠ some CR) :
    linesFromText (u ++ [LF]) = linesFromText u := by
  unfold linesFromText
  rw [unfold_append_tail u _ noFoldHead_lf, unfold_lf, splitNewline_append_lf _ _ h, splitNewline_nil,
    filter_append_nil]

theorem linesFromIcal_append_crlf (t : Str) : linesFromIcal (t ++ [CR, LF]) = linesFromIcal t := by
  unfold linesFromIcal
  rw [stripBOM_append t _ (Or.inr (by simp [CR, BOM])), linesFromText_append_crlf]

theorem linesFromIcal_append_lf (t : Str) (h : (unfold (stripBOM t)).getLast? ≠ some CR) :
    linesFromIcal (t ++ [LF]) = linesFromIcal t := by
  unfold linesFromIcal
  rw [stripBOM_append t _ (Or.inr (by simp [LF, BOM])), linesFromText_append_lf _ h]

/-- a text in which every CR is followed by LF does not end with CR -/
theorem crOK_getLast (t : Str) (h : crOK t) : t.getLast? ≠ some CR := by
  induction t with
  | nil => simp
  | cons c cs ih =>
    cases cs with
    | nil => have := h.1; simp at this; simpa using this
    | cons d ds => rw [List.getLast?_cons_cons]; exact ih h.2

theorem crOK_append (a b : Str) (ha : crOK a) (hb : crOK b) : crOK (a ++ b) := by
  induction a with
  | nil => exact hb
  | cons c cs ih =>
    refine ⟨?_, ih ha.2⟩
    intro e
    have := ha.1 e
    cases cs with
    | nil => simp at this
    | cons d ds => simpa using this


/-! ### fold separators -/

/-- a fold separator as the reader sees it: line breaks followed by exactly one SP or HT -/
def FoldSep (sep : Str) : Prop := ∃ x, eatNL sep = some [x] ∧ Gen.foldWs.contains x = true

theorem foldSep_crlf_sp : FoldSep [CR, LF, SP] := ⟨SP, by rw [eatNL_crlf, eatNL_plain SP [] (by decide) (by decide)]; rfl, by decide⟩
theorem foldSep_crlf_ht : FoldSep [CR, LF, HT] := ⟨HT, by rw [eatNL_crlf, eatNL_plain HT [] (by decide) (by decide)]; rfl, by decide⟩
theorem foldSep_lf_sp : FoldSep [LF, SP] := ⟨SP, by rw [eatNL_lf, eatNL_plain SP [] (by decide) (by decide)]; rfl, by decide⟩
theorem foldSep_lf_ht : FoldSep [LF, HT] := ⟨HT, by rw [eatNL_lf, eatNL_plain HT [] (by decide) (by decide)]; rfl, by decide⟩

/-- a fold separator disappears, whatever follows it -/
theorem unfold_foldSep (sep t : Str) (h : FoldSep sep) : unfold (sep ++ t) = unfold t := by
  obtain ⟨x, he, hws⟩ := h
  have e := eatNL_append_plain sep t x [] he (foldWs_ne hws).1 (foldWs_ne hws).2
  cases sep with
  | nil => rw [eatNL_nil] at he; cases he
  | cons c cs => exact unfold_cons_fold c _ x _ e hws

/-- inserting a fold after a plain character does not change the unfolded text -/
theorem unfold_insert (a b sep : Str) (ha : plainEnd a) (hs : FoldSep sep) :
    unfold (a ++ sep ++ b) = unfold (a ++ b) := by
  rw [List.append_assoc, unfold_append_plain a _ ha, unfold_foldSep sep b hs, ← unfold_append_plain a b ha]

theorem plainEnd_stripBOM (a : Str) (h : plainEnd a) : plainEnd (stripBOM a) := by
  cases a with
  | nil => trivial
  | cons c cs =>
    simp only [stripBOM]; split
    · exact plainEnd_tail c cs h
    · exact h

/-- the same on the content lines: a fold may be inserted after any character that is neither
    CR nor LF -/
theorem linesFromIcal_insert (a b sep : Str) (hne : a ≠ []) (ha : plainEnd a) (hs : FoldSep sep) :
    linesFromIcal (a ++ sep ++ b) = linesFromIcal (a ++ b) := by
  unfold linesFromIcal linesFromText
  rw [List.append_assoc, stripBOM_append a _ (Or.inl hne), stripBOM_append a _ (Or.inl hne),
    ← List.append_assoc, unfold_insert _ _ _ (plainEnd_stripBOM a ha) hs]

/-! ### physical lines: any fold placement, any of the separators, CR LF or LF line ends -/

/-- characters that are neither CR nor LF are copied -/
theorem unfold_plain_seg (s t : Str) (hs : ∀ c ∈ s, c ≠ CR ∧ c ≠ LF) :
    unfold (s ++ t) = s ++ unfold t := by
  induction s with
  | nil => rfl
  | cons c cs ih =>
    have hc := hs c (by simp)
    rw [List.cons_append, unfold_cons_copy c _ (by intro x rest h; rw [eatNL_plain c _ hc.1 hc.2] at h; cases h),
      ih (fun d hd => hs d (by simp [hd]))]
    rfl

/-- a text before which a line break is genuine: empty, or starting with a character that is
    none of CR, LF, SP, HT -/
def lineStart : Str → Prop
  | [] => True
  | c :: _ => c ≠ CR ∧ c ≠ LF ∧ Gen.foldWs.contains c = false

theorem eatNL_lineStart (t : Str) (h : lineStart t) : eatNL t = none := by
  cases t with
  | nil => exact eatNL_nil
  | cons c cs => exact eatNL_plain c cs h.1 h.2.1

theorem unfold_brk_crlf (t : Str) (h : lineStart t) : unfold (CR :: LF :: t) = CR :: LF :: unfold t := by
  have e1 : eatNL (CR :: LF :: t) = some t := by rw [eatNL_crlf, eatNL_lineStart t h]; rfl
  have e2 : eatNL (LF :: t) = some t := by rw [eatNL_lf, eatNL_lineStart t h]; rfl
  have hws : ∀ x rest, t = x :: rest → Gen.foldWs.contains x = false := by
    intro x rest e; subst e; exact h.2.2
  rw [unfold_cons_of_eatNL CR _ t e1 hws, unfold_cons_of_eatNL LF t t e2 hws]

theorem unfold_brk_lf (t : Str) (h : lineStart t) : unfold (LF :: t) = LF :: unfold t := by
  have e2 : eatNL (LF :: t) = some t := by rw [eatNL_lf, eatNL_lineStart t h]; rfl
  have hws : ∀ x rest, t = x :: rest → Gen.foldWs.contains x = false := by
    intro x rest e; subst e; exact h.2.2
  rw [unfold_cons_of_eatNL LF t t e2 hws]

/-- a line terminator -/
def IsBrk (b : Str) : Prop := b = [CR, LF] ∨ b = [LF]

theorem unfold_brk (b t : Str) (hb : IsBrk b) (h : lineStart t) : unfold (b ++ t) = b ++ unfold t := by
  rcases hb with rfl | rfl
  · exact unfold_brk_crlf t h
  · exact unfold_brk_lf t h

/-- one content line as written: a first segment, then continuation segments each preceded by
    its own fold separator, then the line terminator -/
structure PhysLine where
  first : Str
  conts : List (Str × Str)
  brk : Str

def PhysLine.text (p : PhysLine) : Str :=
  p.first ++ (p.conts.map (fun q => q.1 ++ q.2)).flatten ++ p.brk

def PhysLine.logical (p : PhysLine) : Str := p.first ++ (p.conts.map (·.2)).flatten

def physText (ps : List PhysLine) : Str := (ps.map PhysLine.text).flatten

/-- a well-formed content line -/
def WFLine (l : Str) : Prop := RealLine l ∧ l.head? ≠ some BOM ∧ CR ∉ l

def PhysLine.ok (p : PhysLine) : Prop :=
  p.first ≠ [] ∧ (∀ q ∈ p.conts, FoldSep q.1) ∧ IsBrk p.brk ∧ WFLine p.logical

theorem unfold_conts (conts : List (Str × Str)) (t : Str) (hs : ∀ q ∈ conts, FoldSep q.1)
    (hp : ∀ q ∈ conts, ∀ c ∈ q.2, c ≠ CR ∧ c ≠ LF) :
    unfold ((conts.map (fun q => q.1 ++ q.2)).flatten ++ t) = (conts.map (·.2)).flatten ++ unfold t := by
  induction conts with
  | nil => rfl
  | cons q qs ih =>
    simp only [List.map_cons, List.flatten_cons, List.append_assoc]
    rw [unfold_foldSep q.1 _ (hs q (by simp)), unfold_plain_seg q.2 _ (hp q (by simp)),
      ih (fun r hr => hs r (by simp [hr])) (fun r hr => hp r (by simp [hr]))]

theorem PhysLine.ok_plain (p : PhysLine) (h : p.ok) : ∀ c ∈ p.logical, c ≠ CR ∧ c ≠ LF := by
  intro c hc
  obtain ⟨_, _, _, hr, _, hcr⟩ := h
  exact ⟨fun e => hcr (e ▸ hc), fun e => hr.2.1 (e ▸ hc)⟩

theorem PhysLine.ok_head (p : PhysLine) (h : p.ok) :
    ∃ c cs, p.first = c :: cs ∧ c ≠ CR ∧ c ≠ LF ∧ Gen.foldWs.contains c = false ∧ c ≠ BOM := by
  have hpl := p.ok_plain h
  obtain ⟨hne, _, _, hr, hb, _⟩ := h
  cases hf : p.first with
  | nil => exact absurd hf hne
  | cons c cs =>
    have hl : p.logical.head? = some c := by simp [PhysLine.logical, hf]
    have hc := hpl c (by simp [PhysLine.logical, hf])
    refine ⟨c, cs, rfl, hc.1, hc.2, ?_, ?_⟩
    · apply foldWs_not
      · intro e; apply hr.2.2.1; rw [hl, e]
      · intro e; apply hr.2.2.2; rw [hl, e]
    · intro e; apply hb; rw [hl, e]

theorem PhysLine.text_eq (p : PhysLine) (h : p.ok) :
    ∃ c r, p.text = c :: r ∧ c ≠ CR ∧ c ≠ LF ∧ Gen.foldWs.contains c = false ∧ c ≠ BOM := by
  obtain ⟨c, cs, hf, h1, h2, h3, h4⟩ := p.ok_head h
  exact ⟨c, _, by simp only [PhysLine.text, hf, List.cons_append]; rfl, h1, h2, h3, h4⟩

theorem physText_cons (p : PhysLine) (ps : List PhysLine) : physText (p :: ps) = p.text ++ physText ps := by
  simp [physText]

theorem physText_lineStart (ps : List PhysLine) (h : ∀ p ∈ ps, p.ok) : lineStart (physText ps) := by
  cases ps with
  | nil => trivial
  | cons p ps =>
    obtain ⟨c, r, hf, h1, h2, h3, _⟩ := p.text_eq (h p (by simp))
    rw [physText_cons, hf]; exact ⟨h1, h2, h3⟩

theorem physText_head (ps : List PhysLine) (h : ∀ p ∈ ps, p.ok) : (physText ps).head? ≠ some BOM := by
  cases ps with
  | nil => simp [physText]
  | cons p ps =>
    obtain ⟨c, r, hf, _, _, _, h4⟩ := p.text_eq (h p (by simp))
    rw [physText_cons, hf]; simpa using h4

/-- unfolding the physical text gives the logical lines, each followed by its terminator -/
theorem unfold_physText (ps : List PhysLine) (h : ∀ p ∈ ps, p.ok) :
    unfold (physText ps) = (ps.map (fun p => p.logical ++ p.brk)).flatten := by
  induction ps with
  | nil => exact unfold_nil
  | cons p ps ih =>
    have hp := h p (by simp)
    have hps : ∀ q ∈ ps, q.ok := fun q hq => h q (by simp [hq])
    have hpl := p.ok_plain hp
    have h1 : ∀ c ∈ p.first, c ≠ CR ∧ c ≠ LF := fun c hc => hpl c (by simp [PhysLine.logical, hc])
    have h2 : ∀ q ∈ p.conts, ∀ c ∈ q.2, c ≠ CR ∧ c ≠ LF := by
      intro q hq c hc
      apply hpl c
      simp only [PhysLine.logical, List.mem_append, List.mem_flatten, List.mem_map]
      exact Or.inr ⟨q.2, ⟨q, hq, rfl⟩, hc⟩
    have e : p.text ++ physText ps =
        p.first ++ ((p.conts.map (fun q => q.1 ++ q.2)).flatten ++ (p.brk ++ physText ps)) := by
      simp [PhysLine.text]
    rw [physText_cons, e, unfold_plain_seg _ _ h1, unfold_conts _ _ hp.2.1 h2,
      unfold_brk _ _ hp.2.2.1 (physText_lineStart ps hps), ih hps]
    simp [PhysLine.logical]

theorem splitNewline_plain_line (l : Str) (h : LF ∉ l) : splitNewline l = [l] := by
  induction l with
  | nil => exact splitNewline_nil
  | cons c cs ih =>
    have hc : c ≠ LF := by intro e; apply h; simp [e]
    have hcs : LF ∉ cs := by intro e; apply h; simp [e]
    have h2 : ¬ (c = CR ∧ cs.head? = some LF) := by
      intro ⟨_, e⟩
      cases cs with
      | nil => simp at e
      | cons d ds => simp at e; apply hcs; simp [e]
    rw [splitNewline_copy c cs hc h2, ih hcs]

theorem splitNewline_lines (ps : List PhysLine) (h : ∀ p ∈ ps, p.ok) :
    splitNewline ((ps.map (fun p => p.logical ++ p.brk)).flatten) = ps.map PhysLine.logical ++ [[]] := by
  induction ps with
  | nil => exact splitNewline_nil
  | cons p ps ih =>
    have hp := h p (by simp)
    have hps : ∀ q ∈ ps, q.ok := fun q hq => h q (by simp [hq])
    have hlf : LF ∉ p.logical := hp.2.2.2.1.2.1
    have hcr : p.logical.getLast? ≠ some CR := by
      intro e; exact hp.2.2.2.2.2 (List.mem_of_getLast? e)
    simp only [List.map_cons, List.flatten_cons, List.append_assoc, List.cons_append]
    rcases hp.2.2.1 with e | e
    · rw [e]; simp only [List.cons_append, List.nil_append]
      rw [splitNewline_append_crlf, splitNewline_plain_line _ hlf, ih hps]; rfl
    · rw [e]; simp only [List.cons_append, List.nil_append]
      rw [splitNewline_append_lf _ _ hcr, splitNewline_plain_line _ hlf, ih hps]; rfl

/-- every physical rendering of well-formed content lines reads back as those lines -/
theorem linesFromIcal_physText (ps : List PhysLine) (h : ∀ p ∈ ps, p.ok) :
    linesFromIcal (physText ps) = ps.map PhysLine.logical := by
  unfold linesFromIcal linesFromText
  rw [stripBOM_of_head _ (physText_head ps h), unfold_physText ps h, splitNewline_lines ps h,
    filter_append_nil, List.filter_eq_self]
  intro l hl
  obtain ⟨p, hp, rfl⟩ := List.mem_map.mp hl
  have := (h p hp).2.2.2.1.1
  cases hq : p.logical with
  | nil => exact absurd hq this
  | cons c cs => rfl


/-! ### the canonical text and the `joinSegs` form of a folded line -/

theorem joinSegs_eq_flatten (sep : Str) : ∀ (s0 : Str) (rest : List Str),
    joinSegs sep (s0 :: rest) = s0 ++ (rest.map (fun s => sep ++ s)).flatten
  | s0, [] => by simp [joinSegs]
  | s0, s1 :: rest => by
    simp only [joinSegs, joinSegs_eq_flatten sep s1 rest, List.map_cons, List.flatten_cons, List.append_assoc]

/-- a segmented line as a physical line with one separator -/
def physOf (sep brk : Str) : List Str → PhysLine
  | [] => ⟨[], [], brk⟩
  | s0 :: rest => ⟨s0, rest.map (fun s => (sep, s)), brk⟩

theorem physOf_text (sep brk : Str) (segs : List Str) (h : segs ≠ []) :
    (physOf sep brk segs).text = joinSegs sep segs ++ brk := by
  cases segs with
  | nil => exact absurd rfl h
  | cons s0 rest => simp [physOf, PhysLine.text, joinSegs_eq_flatten, Function.comp_def]

theorem physOf_logical (sep brk : Str) (segs : List Str) : (physOf sep brk segs).logical = segs.flatten := by
  cases segs with
  | nil => rfl
  | cons s0 rest => simp [physOf, PhysLine.logical, Function.comp_def]

theorem body_eq_physText (ls : List Str) : body ls = physText (ls.map (fun l => ⟨l, [], [CR, LF]⟩)) := by
  simp [body, physText, PhysLine.text, Function.comp_def]

/-- the canonical text of well-formed lines reads back as those lines -/
theorem linesFromIcal_body (ls : List Str) (h : ∀ l ∈ ls, WFLine l) : linesFromIcal (body ls) = ls := by
  rw [body_eq_physText, linesFromIcal_physText]
  · simp [PhysLine.logical, Function.comp_def]
  · intro p hp
    obtain ⟨l, hl, rfl⟩ := List.mem_map.mp hp
    refine ⟨(h l hl).1.1, by simp, Or.inl rfl, ?_⟩
    simpa [PhysLine.logical] using h l hl

theorem crOK_of_not_mem (t : Str) (h : CR ∉ t) : crOK t := by
  induction t with
  | nil => trivial
  | cons c cs ih =>
    refine ⟨fun e => absurd (by simp [e]) h, ih (fun e => h (by simp [e]))⟩

theorem crOK_body (ls : List Str) (h : ∀ l ∈ ls, CR ∉ l) : crOK (body ls) := by
  induction ls with
  | nil => trivial
  | cons l ls ih =>
    rw [body_cons]
    exact crOK_append l _ (crOK_of_not_mem l (h l (by simp)))
      ⟨fun _ => rfl, ⟨fun e => absurd e (by decide), ih (fun x hx => h x (by simp [hx]))⟩⟩

theorem body_head (ls : List Str) (h : ∀ l ∈ ls, WFLine l) : (body ls).head? ≠ some BOM := by
  cases ls with
  | nil => simp [body]
  | cons l ls =>
    obtain ⟨hr, hb, _⟩ := h l (by simp)
    rw [body_cons]
    cases l with
    | nil => exact absurd rfl hr.1
    | cons c cs => simpa using hb

/-! ### rewrites of a text -/

inductive FoldKind where
  | crlfSp | crlfHt | lfSp | lfHt

def FoldKind.sep : FoldKind → Str
  | .crlfSp => [CR, LF, SP]
  | .crlfHt => [CR, LF, HT]
  | .lfSp => [LF, SP]
  | .lfHt => [LF, HT]

theorem FoldKind.foldSep : ∀ k : FoldKind, FoldSep k.sep
  | .crlfSp => foldSep_crlf_sp
  | .crlfHt => foldSep_crlf_ht
  | .lfSp => foldSep_lf_sp
  | .lfHt => foldSep_lf_ht

theorem FoldKind.crOK : ∀ k : FoldKind, ICal.crOK k.sep := by
  intro k; cases k <;> simp [FoldKind.sep, ICal.crOK, CR, LF, SP, HT]

/-- the rewrites that RFC 5545 declares insignificant, as functions on the text -/
inductive Rewrite where
  /-- every CR LF becomes LF -/
  | crlfToLf
  /-- a byte-order mark is put in front -/
  | addBOM
  /-- a blank line (CR LF) is appended -/
  | addBlank
  /-- a blank line (LF) is appended -/
  | addBlankLF
  /-- a fold is inserted at position `k`, provided the character before it is neither CR nor LF
      (otherwise the text is left alone) -/
  | insertFold (k : Nat) (kind : FoldKind)

def Rewrite.isBOM : Rewrite → Bool
  | .addBOM => true
  | _ => false

def Rewrite.apply : Rewrite → Str → Str
  | .crlfToLf, t => rep2 CR LF [LF] t
  | .addBOM, t => BOM :: t
  | .addBlank, t => t ++ [CR, LF]
  | .addBlankLF, t => t ++ [LF]
  | .insertFold k kind, t =>
    match (t.take k).getLast? with
    | some c => if c ≠ CR ∧ c ≠ LF then t.take k ++ kind.sep ++ t.drop k else t
    | none => t

def applyAll : List Rewrite → Str → Str
  | [], t => t
  | r :: rs, t => applyAll rs (r.apply t)

theorem plainEnd_of_getLast (a : Str) (c : Char) (h : a.getLast? = some c) (h1 : c ≠ CR) (h2 : c ≠ LF) :
    plainEnd a := by
  obtain ⟨a', rfl⟩ := List.getLast?_eq_some_iff.mp h
  exact plainEnd_append_single a' c h1 h2

theorem crOK_split (a b : Str) : crOK (a ++ b) → a.getLast? ≠ some CR → crOK a ∧ crOK b := by
  induction a with
  | nil => intro h _; exact ⟨trivial, h⟩
  | cons c cs ih =>
    intro h hl
    have hl' : cs.getLast? ≠ some CR := by
      cases cs with
      | nil => simp
      | cons d ds => simpa [List.getLast?_cons_cons] using hl
    obtain ⟨h1, h2⟩ := ih h.2 hl'
    refine ⟨⟨?_, h1⟩, h2⟩
    intro e
    have := h.1 e
    cases cs with
    | nil => subst e; simp at hl
    | cons d ds => simpa using this

theorem dropCR_head (t : Str) (h : crOK t) (hb : (dropCR t).head? = some BOM) : t.head? = some BOM := by
  cases t with
  | nil => simp [dropCR] at hb
  | cons c cs =>
    by_cases hc : c = CR
    · subst hc
      have := h.1 rfl
      cases cs with
      | nil => simp at this
      | cons d ds =>
        simp only [List.head?_cons, Option.some.injEq] at this; subst this
        rw [dropCR_CR, dropCR_LF] at hb
        simp [LF, BOM] at hb
    · rw [dropCR_cons c cs hc] at hb; simpa using hb

theorem not_mem_dropCR (t : Str) : CR ∉ dropCR t := by
  simp [dropCR]

/-- what one rewrite step preserves -/
theorem Rewrite.step (r : Rewrite) (t : Str) (h : crOK t) :
    crOK (r.apply t) ∧
    ((r.isBOM = true → t.head? ≠ some BOM) → linesFromIcal (r.apply t) = linesFromIcal t) ∧
    (r.isBOM = false → (r.apply t).head? = some BOM → t.head? = some BOM) := by
  cases r with
  | crlfToLf =>
    simp only [Rewrite.apply, Rewrite.isBOM]
    refine ⟨?_, fun _ => linesFromIcal_lf t h, fun _ hb => ?_⟩
    · rw [rep2_crlf_eq_dropCR t h]; exact crOK_of_not_mem _ (not_mem_dropCR t)
    · rw [rep2_crlf_eq_dropCR t h] at hb; exact dropCR_head t h hb
  | addBOM =>
    simp only [Rewrite.apply, Rewrite.isBOM]
    refine ⟨⟨fun e => absurd e (by decide), h⟩, fun hb => linesFromIcal_bom t (hb trivial), fun e => by cases e⟩
  | addBlank =>
    simp only [Rewrite.apply, Rewrite.isBOM]
    refine ⟨crOK_append t _ h ⟨fun _ => rfl, ⟨fun e => absurd e (by decide), trivial⟩⟩,
      fun _ => linesFromIcal_append_crlf t, fun _ hb => ?_⟩
    cases t with
    | nil => simp [CR, BOM] at hb
    | cons c cs => simpa using hb
  | addBlankLF =>
    simp only [Rewrite.apply, Rewrite.isBOM]
    refine ⟨crOK_append t _ h ⟨fun e => absurd e (by decide), trivial⟩,
      fun _ => linesFromIcal_append_lf t (crOK_getLast _ (crOK_unfold _ (crOK_stripBOM t h))), fun _ hb => ?_⟩
    cases t with
    | nil => simp [LF, BOM] at hb
    | cons c cs => simpa using hb
  | insertFold k kind =>
    simp only [Rewrite.apply, Rewrite.isBOM]
    split
    · next c hc =>
      split
      · next hp =>
        have hne : t.take k ≠ [] := by intro e; rw [e] at hc; simp at hc
        have hpe := plainEnd_of_getLast _ c hc hp.1 hp.2
        have hcr : (t.take k).getLast? ≠ some CR := by rw [hc]; intro e; exact hp.1 (Option.some.inj e)
        have hsplit := crOK_split (t.take k) (t.drop k) (by rw [List.take_append_drop]; exact h) hcr
        refine ⟨?_, fun _ => ?_, fun _ hb => ?_⟩
        · rw [List.append_assoc]
          exact crOK_append _ _ hsplit.1 (crOK_append _ _ kind.crOK hsplit.2)
        · rw [linesFromIcal_insert _ _ _ hne hpe kind.foldSep, List.take_append_drop]
        · have e : t = t.take k ++ t.drop k := (List.take_append_drop k t).symm
          rw [e]
          cases hk : t.take k with
          | nil => exact absurd hk hne
          | cons d ds => rw [hk] at hb; simpa using hb
      · exact ⟨h, fun _ => rfl, fun _ hb => hb⟩
    · exact ⟨h, fun _ => rfl, fun _ hb => hb⟩

/-- any sequence of rewrites with at most one byte-order mark preserves the content lines -/
theorem linesFromIcal_applyAll : ∀ (rs : List Rewrite) (t : Str), crOK t → rs.countP Rewrite.isBOM ≤ 1 →
    (t.head? = some BOM → rs.countP Rewrite.isBOM = 0) →
    linesFromIcal (applyAll rs t) = linesFromIcal t
  | [], t, _, _, _ => rfl
  | r :: rs, t, h, hc, hb => by
    obtain ⟨h1, h2, h3⟩ := r.step t h
    cases hr : r.isBOM with
    | true =>
      have hc' : rs.countP Rewrite.isBOM = 0 := by
        rw [List.countP_cons_of_pos hr] at hc; omega
      have hnb : t.head? ≠ some BOM := by
        intro e; have := hb e; rw [List.countP_cons_of_pos hr] at this; omega
      rw [applyAll, linesFromIcal_applyAll rs _ h1 (by omega) (fun _ => hc'), h2 (fun _ => hnb)]
    | false =>
      have hne : ¬ r.isBOM = true := by rw [hr]; simp
      rw [List.countP_cons_of_neg hne] at hc hb
      rw [applyAll, linesFromIcal_applyAll rs _ h1 hc (fun e => hb (h3 hr e)),
        h2 (fun e => absurd e hne)]


theorem scanParts_fst (a : Nat) (ha : 0 < a) : ∀ (s : Str) (i : Nat) (q : Bool) (vs : Option Nat),
    (scanParts s i q (some a) vs).1 = some a := by
  intro s
  induction s with
  | nil => intros; rfl
  | cons c cs ih =>
    intro i q vs
    simp only [scanParts, falsy_pos ha, Bool.and_false, Bool.false_eq_true, if_false]
    exact ih _ _ _

theorem scanParts_snd (m : Nat) : ∀ (s : Str) (i : Nat) (q : Bool) (ns vs : Option Nat), m ≤ i →
    (vs = none ∨ ∃ j, m ≤ j ∧ vs = some j) →
    ((scanParts s i q ns vs).2 = none ∨ ∃ j, m ≤ j ∧ (scanParts s i q ns vs).2 = some j) := by
  intro s
  induction s with
  | nil => intro i q ns vs _ h; exact h
  | cons c cs ih =>
    intro i q ns vs hi h
    simp only [scanParts]
    apply ih _ _ _ _ (by omega)
    split
    · exact Or.inr ⟨i, hi, rfl⟩
    · exact h

/-- what `parts()` computes once the name `n` has been split off: `e'` is the placeholder form of
    the text after the first `:`/`;`, `vs` the position of the value colon -/
def partsRest (n e' : Str) (vs : Option Nat) : Option (Str × Params × Str) :=
  let vsplit := if falsy vs then n.length + 1 + e'.length else vs.getD 0
  if n.length + 1 == vsplit then none else
  match paramsFromIcal (e'.take (vsplit - (n.length + 1))) false with
  | none => none
  | some ps => some (n, rekey ps, unescapeString (e'.drop (vsplit - n.length)))

/-- `parts()` of a line that starts with a valid name followed by `:` or `;`: the name enters
    the result only as itself and through its length -/
theorem parts_token (n : Str) (hn : validToken n = true) (c : Char) (hc : c = ':' ∨ c = ';') (r : Str) :
    parts (n ++ c :: r) =
      partsRest n (escapeString r) (scanParts (c :: escapeString r) n.length false none none).2 := by
  have hne : n ≠ [] := (validToken_chars n hn).1
  have hie : n.isEmpty = false := by cases n <;> simp_all
  have hpos : 0 < n.length := List.length_pos_iff.mpr hne
  have hcb : c ≠ BS := by rcases hc with rfl | rfl <;> decide
  have hst : escapeString (n ++ c :: r) = n ++ c :: escapeString r := by
    rw [escapeString_prefix n _ (npp_of_noBS n (token_noBS n hn)) (noBSEnd_of_not_mem n (token_noBS n hn)),
      escapeString_cons c hcb]
  have hcs := validToken_chars n hn
  have hpl : scanParts (n ++ c :: escapeString r) 0 false none none =
      scanParts (c :: escapeString r) n.length false none none := by
    rw [scanParts_plain _ n 0 (fun d h => ⟨(tokChar_ne' d (validToken_tok n hn d h)).1, (hcs.2 d h).2.2.1, (hcs.2 d h).1⟩)]
    simp
  have hfst : (scanParts (c :: escapeString r) n.length false none none).1 = some n.length := by
    have hcc : (c == ':' || c == ';') = true := by rcases hc with rfl | rfl <;> decide
    simp only [scanParts, falsy_none, hcc, Bool.not_false, Bool.and_self, if_true]
    exact scanParts_fst _ hpos _ _ _ _
  have hsnd := scanParts_snd n.length (c :: escapeString r) n.length false none none (Nat.le_refl _) (Or.inl rfl)
  generalize hvs : (scanParts (c :: escapeString r) n.length false none none).2 = vs at hsnd ⊢
  have hsc : scanParts (n ++ c :: escapeString r) 0 false none none = (some n.length, vs) := by
    rw [hpl, ← hfst, ← hvs]
  have e1 : List.drop (n.length + 1) (n ++ c :: escapeString r) = escapeString r := by
    rw [List.drop_append]; simp
  have e2 : ∀ j, n.length ≤ j → List.drop (j + 1) (n ++ c :: escapeString r) = List.drop (j - n.length) (escapeString r) := by
    intro j hj
    rw [List.drop_append]
    have : j + 1 - n.length = (j - n.length) + 1 := by omega
    rw [List.drop_of_length_le (by omega), this]; rfl
  unfold parts partsRest
  simp only [hst, hsc, List.take_left', unescapeString_token n hn, hie, hn, falsy_pos hpos,
    Option.getD_some, Bool.false_eq_true, if_false, Bool.not_true, Bool.false_or, e1,
    List.length_append, List.length_cons]
  have hlen : n.length + ((escapeString r).length + 1) = n.length + 1 + (escapeString r).length := by omega
  rw [hlen]
  rcases hsnd with rfl | ⟨j, hj, rfl⟩
  · simp only [falsy_none, if_true]
    rw [e2 (n.length + 1 + (escapeString r).length) (by omega)]
    rfl
  · have hjp : 0 < j := by omega
    simp only [falsy_pos hjp, Bool.false_eq_true, if_false, Option.getD_some]
    rw [e2 j hj]
    rfl


theorem partsRest_name (n n' e' : Str) (vs : Option Nat) (hl : n'.length = n.length) :
    partsRest n' e' vs = (partsRest n e' vs).map (fun x => (n', x.2.1, x.2.2)) := by
  unfold partsRest
  rw [hl]
  simp only []
  generalize (if falsy vs = true then n.length + 1 + e'.length else vs.getD 0) = k
  by_cases hk : (n.length + 1 == k) = true
  · simp only [hk, if_true]; rfl
  · simp only [hk]
    cases paramsFromIcal (List.take (k - (n.length + 1)) e') false <;> rfl

theorem partsRest_fst (n e' : Str) (vs : Option Nat) (x : Str × Params × Str)
    (h : partsRest n e' vs = some x) : x.1 = n := by
  unfold partsRest at h
  simp only [] at h
  generalize (if falsy vs = true then n.length + 1 + e'.length else vs.getD 0) = k at h
  by_cases hk : (n.length + 1 == k) = true
  · simp only [hk, if_true] at h; cases h
  · simp only [hk] at h
    cases hp : paramsFromIcal (List.take (k - (n.length + 1)) e') false with
    | none => rw [hp] at h; simp at h
    | some ps => rw [hp] at h; simp at h; rw [← h]

theorem upper_length (s : Str) : (upper s).length = s.length := by simp [upper]

/-- the property name enters `parts()` only as the first component of the result -/
theorem parts_name_case (n n' : Str) (hn : validToken n = true) (hn' : validToken n' = true)
    (hu : upper n' = upper n) (c : Char) (hc : c = ':' ∨ c = ';') (r : Str) :
    parts (n' ++ c :: r) = (parts (n ++ c :: r)).map (fun x => (n', x.2.1, x.2.2)) := by
  have hl : n'.length = n.length := by rw [← upper_length n', hu, upper_length]
  rw [parts_token n hn c hc r, parts_token n' hn' c hc r, hl]
  exact partsRest_name n n' _ _ hl

theorem rawValue_token_prefix (n : Str) (hn : validToken n = true) (c : Char) (r : Str) :
    rawValue (n ++ c :: r) = rawValue (c :: r) := by
  unfold rawValue
  exact rawValueGo_prefix (c :: r) (by simp) n.length n false false (Nat.le_refl _) (token_rawBal n hn)

/-- two spellings of one content line that differ only in what the reader folds away: equal
    parameters (their names are upper-cased by `parts()`), names equal up to case, and either
    the same value as written, or a BEGIN/END line whose value is equal up to case -/
def CaseVariant (l l' : Str) : Prop :=
  (l = [] ↔ l' = []) ∧
  match parts l, parts l' with
  | none, none => True
  | some (n, p, v), some (n', p', v') => p' = p ∧ upper n' = upper n ∧
      ((v' = v ∧ rawValue l' = rawValue l) ∨
       ((upper n = ['B','E','G','I','N'] ∨ upper n = ['E','N','D']) ∧ upper v' = upper v))
  | _, _ => False

theorem CaseVariant.refl (l : Str) : CaseVariant l l := by
  refine ⟨Iff.rfl, ?_⟩
  cases parts l with
  | none => trivial
  | some x => exact ⟨rfl, rfl, Or.inl ⟨rfl, rfl⟩⟩

theorem forProperty_upper (n n' : Str) (h : upper n' = upper n) : forProperty n' = forProperty n := by
  unfold forProperty; rw [h]

/-- one step of the line loop does not see the difference -/
theorem pstep_caseVariant (tzok : Comp → Bool) (dec : Dec) (st : PState) (l l' : Str) (h : CaseVariant l l') :
    pstep tzok dec st l' = pstep tzok dec st l := by
  obtain ⟨he, hm⟩ := h
  have hie : l'.isEmpty = l.isEmpty := by
    cases l with
    | nil => rw [he.mp rfl]
    | cons c cs =>
      cases l' with
      | nil => exact absurd (he.mpr rfl) (by simp)
      | cons d ds => rfl
  have e1 : Gen.fromIcalFreebusyOnUname = true := rfl
  have e2 : Gen.fromIcalDatetimeOnUname = true := rfl
  unfold pstep
  rw [hie]
  cases h1 : parts l with
  | none =>
    cases h2 : parts l' with
    | none => rfl
    | some x' => rw [h1, h2] at hm; exact absurd hm id
  | some x =>
    cases h2 : parts l' with
    | none => rw [h1, h2] at hm; exact absurd hm id
    | some x' =>
      obtain ⟨n, p, v⟩ := x
      obtain ⟨n', p', v'⟩ := x'
      rw [h1, h2] at hm
      obtain ⟨rfl, hn, hv⟩ := hm
      simp only [hn, forProperty_upper n n' hn, e1, e2, if_true]
      rcases hv with ⟨rfl, hr⟩ | ⟨hb, hv⟩
      · rw [hr]
      · rcases hb with hb | he
        · simp only [hb, hv, beq_self_eq_true, if_true]
        · have : (['E','N','D'] == ['B','E','G','I','N']) = false := by decide
          simp only [he, hv, this, beq_self_eq_true, if_true]

/-- two lists related element by element (core Lean has no `List.Forall₂`) -/
inductive Pointwise {α β : Type} (R : α → β → Prop) : List α → List β → Prop
  | nil : Pointwise R [] []
  | cons {a b as bs} : R a b → Pointwise R as bs → Pointwise R (a :: as) (b :: bs)

theorem prun_caseVariant (tzok : Comp → Bool) (dec : Dec) (ls ls' : List Str)
    (h : Pointwise CaseVariant ls ls') : ∀ st, prun tzok dec st ls' = prun tzok dec st ls := by
  induction h with
  | nil => intro st; rfl
  | cons hl _ ih =>
    intro st
    simp only [prun]
    rw [pstep_caseVariant tzok dec st _ _ hl]
    cases pstep tzok dec st _ with
    | none => rfl
    | some st' => exact ih st'

theorem parseLines_caseVariant (tzok : Comp → Bool) (dec : Dec) (m : Bool) (ls ls' : List Str)
    (h : Pointwise CaseVariant ls ls') : parseLines tzok dec m ls' = parseLines tzok dec m ls := by
  unfold parseLines parseLinesP
  rw [prun_caseVariant tzok dec ls ls' h]

/-- any casing of the property name (or of BEGIN/END) of a line -/
theorem caseVariant_name (n n' : Str) (hn : validToken n = true) (hn' : validToken n' = true)
    (hu : upper n' = upper n) (c : Char) (hc : c = ':' ∨ c = ';') (r : Str) :
    CaseVariant (n ++ c :: r) (n' ++ c :: r) := by
  refine ⟨by simp, ?_⟩
  rw [parts_name_case n n' hn hn' hu c hc r]
  cases h : parts (n ++ c :: r) with
  | none => trivial
  | some x =>
    obtain ⟨m, p, v⟩ := x
    have hm : m = n := by
      rw [parts_token n hn c hc r] at h
      exact partsRest_fst _ _ _ _ h
    subst hm
    refine ⟨rfl, hu, Or.inl ⟨rfl, ?_⟩⟩
    rw [rawValue_token_prefix m hn, rawValue_token_prefix n' hn']

/-- any casing of BEGIN/END and of the component name -/
theorem caseVariant_begin_end (n n' w w' : Str) (hn : validToken n = true) (hn' : validToken n' = true)
    (hu : upper n' = upper n) (hw : validToken w = true) (hw' : validToken w' = true)
    (huw : upper w' = upper w) (hb : upper n = ['B','E','G','I','N'] ∨ upper n = ['E','N','D']) :
    CaseVariant (n ++ ':' :: w) (n' ++ ':' :: w') := by
  have key : ∀ (n w : Str), validToken n = true → validToken w = true →
      parts (n ++ ':' :: w) = some (n, [], w) := by
    intro n w hn hw
    have hst : escapeString (n ++ ':' :: w) = n ++ ':' :: w := by
      rw [escapeString_prefix n _ (npp_of_noBS n (token_noBS n hn)) (noBSEnd_of_not_mem n (token_noBS n hn)),
        escapeString_cons ':' (by decide), escapeString_id w (npp_of_noBS w (token_noBS w hw))]
    rw [parts_name_colon _ n w hn hst, unescapeString_token w hw]
  refine ⟨by simp, ?_⟩
  rw [key n w hn hw, key n' w' hn' hw']
  exact ⟨rfl, hu, Or.inr ⟨hb, huw⟩⟩


/-! ### the hypothesis of the bare-LF blank line is necessary -/

/-- number of characters in the lines -/
def totalLen (ls : List Str) : Nat := (ls.map List.length).sum

theorem totalLen_filter (ls : List Str) : totalLen (ls.filter (fun l => !l.isEmpty)) = totalLen ls := by
  induction ls with
  | nil => rfl
  | cons l ls ih =>
    cases l with
    | nil => simpa [totalLen] using ih
    | cons c cs => simp only [totalLen] at ih ⊢; simp [ih]

theorem totalLen_split_CR (w : Str) :
    totalLen (splitNewline (w ++ [CR])) = totalLen (splitNewline w) + 1 := by
  have copy : ∀ (c : Char) (cs : Str), c ≠ LF → ¬ (c = CR ∧ cs.head? = some LF) →
      totalLen (splitNewline (cs ++ [CR])) = totalLen (splitNewline cs) + 1 →
      totalLen (splitNewline (c :: cs ++ [CR])) = totalLen (splitNewline (c :: cs)) + 1 := by
    intro c cs h1 h2 ih
    have h2' : ¬ (c = CR ∧ (cs ++ [CR]).head? = some LF) := by
      cases cs with
      | nil => simp [CR, LF]
      | cons d ds => simpa using h2
    rw [List.cons_append, splitNewline_copy c _ h1 h2', splitNewline_copy c cs h1 h2]
    cases h : splitNewline cs with
    | nil => exact absurd h (splitNewline_ne_nil cs)
    | cons hd tl =>
      cases h' : splitNewline (cs ++ [CR]) with
      | nil => exact absurd h' (splitNewline_ne_nil _)
      | cons hd' tl' =>
        rw [h, h'] at ih
        simp only [totalLen, List.map_cons, List.sum_cons, List.length_cons] at ih ⊢
        omega
  induction w using splitNewline.induct with
  | case1 =>
    rw [List.nil_append, splitNewline_copy CR [] (by decide) (by simp), splitNewline_nil]; rfl
  | case2 cs ih =>
    rw [List.cons_append, splitNewline_lf, splitNewline_lf]
    simp only [totalLen, List.map_cons, List.sum_cons] at ih ⊢
    omega
  | case3 c cs h1 h2 ih =>
    obtain ⟨rfl, h3⟩ := h2
    cases cs with
    | nil => simp at h3
    | cons d ds =>
      simp only [List.head?_cons, Option.some.injEq] at h3; subst h3
      simp only [List.drop_succ_cons, List.drop_zero] at ih
      rw [List.cons_append, List.cons_append, splitNewline_crlf, splitNewline_crlf]
      simp only [totalLen, List.map_cons, List.sum_cons] at ih ⊢
      omega
  | case4 c cs h1 h2 _ ih => exact copy c cs h1 h2 ih
  | case5 c cs h1 h2 _ _ _ ih => exact copy c cs h1 h2 ih

/-- if the unfolded text ends with CR, an appended bare LF changes the content lines -/
theorem linesFromText_append_lf_ne (u : Str) (h : (unfold u).getLast? = some CR) :
    linesFromText (u ++ [LF]) ≠ linesFromText u := by
  obtain ⟨w, hw⟩ := List.getLast?_eq_some_iff.mp h
  intro e
  have e' := congrArg totalLen e
  unfold linesFromText at e'
  rw [unfold_append_tail u _ noFoldHead_lf, unfold_lf, hw, List.append_assoc,
    show [CR] ++ [LF] = CR :: LF :: [] from rfl, splitNewline_append_crlf, splitNewline_nil,
    filter_append_nil, totalLen_filter, totalLen_filter, totalLen_split_CR] at e'
  omega

/-! ### every physical text keeps each CR in front of an LF -/

theorem crOK_of_eatNL (s : Str) : ∀ r, eatNL s = some r → crOK r → crOK s := by
  fun_induction eatNL s with
  | case1 cs ih =>
    intro r h hr
    simp only [Option.some.injEq] at h; subst h
    refine ⟨fun _ => rfl, ⟨fun e => absurd e (by decide), ?_⟩⟩
    cases h' : eatNL cs with
    | none => rw [h'] at hr; exact hr
    | some r' => rw [h'] at hr; exact ih r' h' hr
  | case2 cs ih =>
    intro r h hr
    simp only [Option.some.injEq] at h; subst h
    refine ⟨fun e => absurd e (by decide), ?_⟩
    cases h' : eatNL cs with
    | none => rw [h'] at hr; exact hr
    | some r' => rw [h'] at hr; exact ih r' h' hr
  | case3 t h1 h2 => intro r h; cases h

theorem FoldSep.crOK {sep : Str} (h : FoldSep sep) : ICal.crOK sep := by
  obtain ⟨x, he, hws⟩ := h
  exact crOK_of_eatNL sep [x] he ⟨fun e => absurd e (foldWs_ne hws).1, trivial⟩

theorem crOK_flatten (xs : List Str) (h : ∀ x ∈ xs, crOK x) : crOK xs.flatten := by
  induction xs with
  | nil => trivial
  | cons x xs ih =>
    rw [List.flatten_cons]
    exact crOK_append _ _ (h x (by simp)) (ih (fun y hy => h y (by simp [hy])))

theorem IsBrk.crOK {b : Str} (h : IsBrk b) : ICal.crOK b := by
  rcases h with rfl | rfl
  · exact ⟨fun _ => rfl, ⟨fun e => absurd e (by decide), trivial⟩⟩
  · exact ⟨fun e => absurd e (by decide), trivial⟩

theorem crOK_physText (ps : List PhysLine) (h : ∀ p ∈ ps, p.ok) : crOK (physText ps) := by
  unfold physText
  apply crOK_flatten
  intro x hx
  obtain ⟨p, hp, rfl⟩ := List.mem_map.mp hx
  have hok := h p hp
  have hpl := p.ok_plain hok
  unfold PhysLine.text
  refine crOK_append _ _ (crOK_append _ _ ?_ ?_) hok.2.2.1.crOK
  · exact crOK_of_not_mem _ (fun e => (hpl CR (by simp [PhysLine.logical, e])).1 rfl)
  · apply crOK_flatten
    intro y hy
    obtain ⟨q, hq, rfl⟩ := List.mem_map.mp hy
    refine crOK_append _ _ (hok.2.1 q hq).crOK (crOK_of_not_mem _ (fun e => ?_))
    refine (hpl CR ?_).1 rfl
    simp only [PhysLine.logical, List.mem_append, List.mem_flatten, List.mem_map]
    exact Or.inr ⟨q.2, ⟨q, hq, rfl⟩, e⟩

end ICal
