/-
  Equality of the regenerated `canonsort_keys` (ICal/Gen/BodiesCDictSort.lean, tools/py2lean.py wave 8: the dict
  comprehension over `enumerate(canonical_order or [])`, the two filtered comprehensions, `sorted(head, key=lambda k:
  canonical_map[k])` - keys computed first (KeyError possible), then a stable sort - and `sorted(tail)`) with the hand
  model `CDict.canonsort` of ICal/Model/CDict.lean.  In particular the call never raises: the key function is only
  applied to keys of the map.
-/
import ICal.Gen.BodiesCDictSort
import ICal.Lemmas.CDict
import ICal.Lemmas.PySorted
set_option linter.unusedSimpArgs false
set_option linter.unusedVariables false
namespace ICal.Bodies
open ICal ICal.PyRT ICal.CDict ICal.Gen.BodiesCDictSort

/-- the runtime dict that corresponds to a store of the hand model (ints for naturals) -/
def dictOf (s : Store Nat) : PyDict := s.map (fun p => (p.1, (p.2 : Int)))

theorem pyDictSet_dictOf : ∀ (s : Store Nat) (k : Str) (i : Nat), pyDictSet (dictOf s) k (i : Int) = dictOf (odSet s k i)
  | [], k, i => rfl
  | (k', v') :: r, k, i => by
    simp only [dictOf, List.map_cons, pyDictSet, odSet] at *
    by_cases h : k' = k
    · simp [h]
    · simp only [h, if_false]
      have ih := pyDictSet_dictOf r k i
      simp only [dictOf] at ih
      rw [ih]; rfl

theorem pyDictOfEnumGo_dictOf : ∀ (l : List Str) (i : Nat) (s : Store Nat),
    pyDictOfEnumGo (i : Int) l (dictOf s) = dictOf (canonMapGo i l s)
  | [], i, s => rfl
  | k :: ks, i, s => by
    simp only [pyDictOfEnumGo, canonMapGo, pyDictSet_dictOf]
    have := pyDictOfEnumGo_dictOf ks (i + 1) (odSet s k i)
    simpa using this

theorem pyDictOfEnum_eq (l : List Str) : pyDictOfEnum l = dictOf (canonMap l) := by
  have := pyDictOfEnumGo_dictOf l 0 []
  simpa [pyDictOfEnum, canonMap, dictOf] using this

theorem pyDictFind_dictOf : ∀ (s : Store Nat) (k : Str), pyDictFind (dictOf s) k = (odGet s k).map (fun n => (n : Int))
  | [], k => rfl
  | (k', v) :: r, k => by
    simp only [dictOf, List.map_cons, pyDictFind, odGet]
    by_cases h : k' = k
    · simp [h]
    · simp only [h, if_false]
      exact pyDictFind_dictOf r k

theorem pyDictHas_dictOf (s : Store Nat) (k : Str) : pyDictHas (dictOf s) k = odHas s k := by
  simp only [pyDictHas, odHas, pyDictFind_dictOf]
  cases odGet s k <;> rfl

theorem pyDictGet_of_has (order : List Str) (k : Str) (h : odHas (canonMap order) k = true) :
    pyDictGet (dictOf (canonMap order)) k = .ok ((canonIdx order k : Nat) : Int) := by
  unfold odHas at h
  obtain ⟨n, hn⟩ := Option.isSome_iff_exists.1 h
  simp [pyDictGet, pyDictFind_dictOf, canonIdx, hn]

theorem mapM_ok {α β : Type} (f : α → Py β) (g : α → β) : ∀ (l : List α), (∀ x ∈ l, f x = .ok (g x)) →
    l.mapM f = .ok (l.map g)
  | [], _ => rfl
  | x :: xs, h => by
    have hx := h x (by simp)
    have ih := mapM_ok f g xs (fun y hy => h y (by simp [hy]))
    simp [List.mapM_cons, hx, ih, bind, Except.bind, pure, Except.pure]

theorem zip_map_self {α β : Type} (g : α → β) : ∀ (l : List α), l.zip (l.map g) = l.map (fun a => (a, g a))
  | [] => rfl
  | x :: xs => by simp [zip_map_self g xs]

/-- decorate, sort by the key, undecorate = the stable sort by the key -/
theorem sortedByKey_eq (g : Str → Nat) (l : List Str) (f : Str → Py Int) (h : ∀ x ∈ l, f x = .ok ((g x : Nat) : Int)) :
    pySortedByIntKeyM f l = .ok (l.mergeSort (fun a b => decide (g a ≤ g b))) := by
  unfold pySortedByIntKeyM
  rw [mapM_ok f (fun x => ((g x : Nat) : Int)) l h]
  simp only [bind, Except.bind, pure, Except.pure, zip_map_self]
  congr 1
  have hm := List.map_mergeSort (r := fun (a b : Str × Int) => decide (a.2 ≤ b.2)) (s := fun (a b : Str) => decide (g a ≤ g b))
    (f := fun (p : Str × Int) => p.1) (l := l.map (fun a => (a, ((g a : Nat) : Int))))
    (by
      intro a ha b hb
      obtain ⟨x, _, rfl⟩ := List.mem_map.1 ha
      obtain ⟨y, _, rfl⟩ := List.mem_map.1 hb
      simp [Int.ofNat_le])
  rw [hm]
  congr 1
  simp [List.map_map, Function.comp_def]

/-- `sorted(..)` of strings is the stable merge sort by `<=` of the hand model (both are THE sorted permutation) -/
theorem pySortedStr_mergeSort (l : List Str) : pySortedStr l = l.mergeSort strLe := by
  rw [pySortedStr_eq]
  exact List.Perm.eq_of_pairwise (le := fun a b => strLe a b = true)
    (fun x y _ _ h1 h2 => strLe_antisymm x y h1 h2) (sortStr_sorted l)
    (List.pairwise_mergeSort (le := strLe) (fun a b c h1 h2 => strLe_trans a b c h1 h2) (fun a b => strLe_total a b) l)
    ((sortStr_perm l).trans (List.mergeSort_perm l strLe).symm)

theorem canonsort_keys_eq (keys : List Str) (order : Option (List Str)) :
    canonsort_keys keys order = .ok (canonsort keys (order.getD [])) := by
  have ho : pyListOrEmpty order = order.getD [] := by cases order <;> rfl
  unfold canonsort_keys canonsort
  simp only [ho, pyDictOfEnum_eq, pyDictHas_dictOf]
  rw [sortedByKey_eq (canonIdx (order.getD []))]
  · simp only [bind, Except.bind, pure, Except.pure, pySortedStr_mergeSort]
  · intro k hk
    have hh : odHas (canonMap (order.getD [])) k = true := (List.mem_filter.1 hk).2
    simp only [bind, Except.bind, pyDictGet_of_has _ k hh, pure, Except.pure]

end ICal.Bodies
