/-
  Lemmas for the TEXT codec (C07): the literal six-step replace chain of `escape_char` is the
  per-character map `escC` after normalisation, and the single-pass decoder inverts `escC`.
-/
import ICal.Model.Text
import ICal.Lemmas.PyStr
namespace ICal

/-- escape_char as in parser.py (chain order preserved) -/
def escapeCharLit (s : Str) : Str :=
  rep1 LF [BS,'n'] (rep2 CR LF [BS,'n'] (rep1 ',' [BS,','] (rep1 ';' [BS,';'] (rep1 BS [BS,BS] (rep2 BS 'N' [LF] s)))))


def escC (c : Char) : Str :=
  if c = BS then [BS,BS] else if c = ';' then [BS,';'] else if c = ',' then [BS,','] else if c = LF then [BS,'n'] else [c]

/-- single-pass unescape (the *fixed* decoder) -/
def unescTok : Str → Str
  | [] => []
  | [c] => [c]
  | c :: d :: cs =>
    if c = BS then
      if d = BS then BS :: unescTok cs
      else if d = ';' then ';' :: unescTok cs
      else if d = ',' then ',' :: unescTok cs
      else if d = 'n' ∨ d = 'N' then LF :: unescTok cs
      else c :: unescTok (d :: cs)
    else if c = CR ∧ d = LF then LF :: unescTok cs
    else c :: unescTok (d :: cs)


/-- decoding an encoded token stream is the identity, for every string -/
theorem unesc_esc (u : Str) : unescTok (u.flatMap escC) = u := by
  induction u with
  | nil => simp [unescTok]
  | cons c cs ih =>
    simp only [List.flatMap_cons]
    by_cases h1 : c = BS
    · subst h1; simp [escC, unescTok, ih]
    · by_cases h2 : c = ';'
      · subst h2; simp [escC, unescTok, ih, BS]
      · by_cases h3 : c = ','
        · subst h3; simp [escC, unescTok, ih, BS]
        · by_cases h4 : c = LF
          · subst h4; simp [escC, unescTok, ih, BS, LF]
          · have hc : escC c = [c] := by simp [escC, h1, h2, h3, h4]
            rw [hc]
            -- next token starts either with BS (escape) or a plain char; never LF
            cases cs with
            | nil => simp [unescTok]
            | cons d ds =>
              have key : ∀ rest, (List.flatMap escC (d :: ds)) = rest → unescTok (c :: rest) = c :: unescTok rest := by
                intro rest hr
                cases rest with
                | nil => simp [unescTok]
                | cons e es =>
                  have hne : e ≠ LF := by
                    simp only [List.flatMap_cons] at hr
                    unfold escC at hr
                    split at hr
                    · simp at hr; rw [← hr.1]; decide
                    · split at hr
                      · simp at hr; rw [← hr.1]; decide
                      · split at hr
                        · simp at hr; rw [← hr.1]; decide
                        · split at hr
                          · simp at hr; rw [← hr.1]; decide
                          · simp at hr; rw [← hr.1]; assumption
                  simp [unescTok, h1, hne]
              show unescTok (c :: List.flatMap escC (d :: ds)) = c :: d :: ds
              rw [key _ rfl, ih]

def g (c : Char) : Str :=
  if c = BS then [BS,BS] else if c = ';' then [BS,';'] else if c = ',' then [BS,','] else [c]

/-- the three single-character stages are one per-character map -/
theorem stages_flatMap (u : Str) :
    rep1 ',' [BS,','] (rep1 ';' [BS,';'] (rep1 BS [BS,BS] u)) = u.flatMap g := by
  simp only [rep1_flatMap, List.flatMap_assoc]
  congr 1; funext c
  by_cases h1 : c = BS
  · subst h1; simp [g, BS]
  · by_cases h2 : c = ';'
    · subst h2; simp [g, BS]
    · by_cases h3 : c = ','
      · subst h3; simp [g, BS]
      · simp [g, h1, h2, h3]

theorem g_head_ne_LF (d : Char) (h : d ≠ LF) : (g d).head? ≠ some LF := by
  unfold g; split
  · simp [BS, LF]
  · split
    · simp [BS, LF]
    · split
      · simp [BS, LF]
      · simpa using h

theorem g_ne_nil (d : Char) : g d ≠ [] := by
  unfold g; split <;> (try split) <;> (try split) <;> simp

theorem flatMap_g_head (l : Str) (h : l.head? ≠ some LF) : (l.flatMap g).head? ≠ some LF := by
  cases l with
  | nil => simp
  | cons d ds =>
    have hd : d ≠ LF := by simpa using h
    have h1 := g_head_ne_LF d hd
    have h2 := g_ne_nil d
    simp only [List.flatMap_cons]
    cases hg : g d with
    | nil => exact absurd hg h2
    | cons x xs => rw [hg] at h1; simpa using h1

theorem escC_eq (c : Char) : escC c = if c = LF then [BS,'n'] else g c := by
  unfold escC g
  by_cases h1 : c = BS
  · subst h1; simp [BS, LF]
  · by_cases h2 : c = ';'
    · subst h2; simp [BS, LF]
    · by_cases h3 : c = ','
      · subst h3; simp [BS, LF]
      · simp [h1, h2, h3]

/-- one non-CR character: all stages act on it alone -/
theorem peel_ne (c : Char) (rest : Str) (h : c ≠ CR) :
    rep1 LF [BS,'n'] (rep2 CR LF [BS,'n'] (g c ++ rest)) =
      escC c ++ rep1 LF [BS,'n'] (rep2 CR LF [BS,'n'] rest) := by
  rw [escC_eq]
  by_cases h1 : c = BS
  · subst h1
    simp [g, rep2_cons_ne, rep1, BS, CR, LF]
  · by_cases h2 : c = ';'
    · subst h2; simp [g, rep2_cons_ne, rep1, BS, CR, LF]
    · by_cases h3 : c = ','
      · subst h3; simp [g, rep2_cons_ne, rep1, BS, CR, LF]
      · have hg : g c = [c] := by simp [g, h1, h2, h3]
        rw [hg]
        simp only [List.singleton_append]
        rw [rep2_cons_ne _ _ _ _ _ h]
        by_cases h4 : c = LF
        · subst h4; simp [rep1]
        · simp [rep1, h4, hg]

/-- stages 5 and 6 over the per-character map = per-character map (with LF) over CRLF-normalised text -/
theorem crlf_stage (u : Str) :
    rep1 LF [BS,'n'] (rep2 CR LF [BS,'n'] (u.flatMap g)) = (rep2 CR LF [LF] u).flatMap escC := by
  fun_induction rep2 CR LF [LF] u with
  | case1 => simp [rep2, rep1]
  | case2 c =>
    by_cases h : c = CR
    · subst h; simp [g, rep2, rep1, escC, CR, BS, LF]
    · have := peel_ne c [] h
      simpa [rep2, rep1] using this
  | case3 c d cs hcd ih =>
    obtain ⟨rfl, rfl⟩ := hcd
    have hg1 : g CR = [CR] := by simp [g, CR, BS]
    have hg2 : g LF = [LF] := by simp [g, LF, BS]
    simp only [List.flatMap_cons, hg1, hg2, List.singleton_append, List.cons_append, List.nil_append]
    have : rep2 CR LF [BS,'n'] (CR :: LF :: List.flatMap g cs) = [BS,'n'] ++ rep2 CR LF [BS,'n'] (List.flatMap g cs) := by
      simp [rep2]
    rw [this, rep1_append, ih]
    simp [rep1, escC, BS, LF]
  | case4 c d cs hcd ih =>
    simp only [List.flatMap_cons] at ih ⊢
    by_cases h : c = CR
    · subst h
      have hd : d ≠ LF := by intro hd; exact hcd ⟨rfl, hd⟩
      have hg1 : g CR = [CR] := by simp [g, CR, BS]
      rw [hg1]
      simp only [List.singleton_append]
      have hh : (g d ++ List.flatMap g cs).head? ≠ some LF := by
        have := flatMap_g_head (d :: cs) (by simpa using hd)
        simpa [List.flatMap_cons] using this
      rw [rep2_cons_a _ _ _ _ hh]
      simp only [rep1]
      have : CR ≠ LF := by decide
      simp only [this, if_false]
      rw [ih]
      simp [escC, CR, BS, LF]
    · rw [peel_ne c _ h, ih]

theorem escape_tokens (s : Str) : escapeCharLit s = (norm s).flatMap escC := by
  unfold escapeCharLit norm
  rw [stages_flatMap, crlf_stage]

/-- full round trip of the TEXT codec, for every string -/
theorem text_roundtrip (s : Str) : unescTok (escapeCharLit s) = norm s := by
  rw [escape_tokens, unesc_esc]

end ICal

namespace ICal

/-! ### tie to the generated chain / class -/

theorem escapeChar_eq_lit (s : Str) : escapeChar s = escapeCharLit s := by
  simp [escapeChar, applyChain, Gen.escapeCharChain, replaceAll_one, replaceAll_two, escapeCharLit, BS, LF, CR]

theorem inClass_unesc (d : Char) :
    inClass Gen.unescapeClass d = true ↔ (d = BS ∨ d = ';' ∨ d = ',' ∨ d = 'n' ∨ d = 'N') := by
  have h : ∀ n : Nat, (44 ≤ n ∧ n ≤ 44 ∨ 59 ≤ n ∧ n ≤ 59 ∨ 78 ≤ n ∧ n ≤ 78 ∨ 92 ≤ n ∧ n ≤ 92 ∨ 110 ≤ n ∧ n ≤ 110)
      ↔ (n = 92 ∨ n = 59 ∨ n = 44 ∨ n = 110 ∨ n = 78) := by intro n; omega
  simp only [inClass, Gen.unescapeClass, List.any_cons, List.any_nil, Bool.or_false, Bool.or_eq_true,
    Bool.and_eq_true, decide_eq_true_eq, h, BS]
  constructor
  · rintro (h | h | h | h | h)
    · left; exact Char.toNat_inj.mp (by simpa using h)
    · right; left; exact Char.toNat_inj.mp (by simpa using h)
    · right; right; left; exact Char.toNat_inj.mp (by simpa using h)
    · right; right; right; left; exact Char.toNat_inj.mp (by simpa using h)
    · right; right; right; right; exact Char.toNat_inj.mp (by simpa using h)
  · rintro (h | h | h | h | h) <;> subst h <;> decide

theorem unescapeSingle_eq_tok (s : Str) : unescapeSingle s = unescTok s := by
  fun_induction unescapeSingle s with
  | case1 => simp [unescTok]
  | case2 c => simp [unescTok]
  | case3 c d cs h ih =>
    obtain ⟨rfl, h⟩ := h
    rw [inClass_unesc] at h
    rcases h with h | h | h | h | h <;> subst h <;>
      simp [unescTok, unescOne, Gen.unescapeToNewline, Gen.unescapeNewline, ih, BS, LF]
  | case4 c d cs h h2 ih =>
    obtain ⟨rfl, rfl⟩ := h2
    simp [unescTok, Gen.unescapeNewline, ih, BS, CR, LF]
  | case5 c d cs h h2 ih =>
    rw [inClass_unesc] at h
    by_cases hc : c = BS
    · subst hc
      have hd : ¬ (d = BS ∨ d = ';' ∨ d = ',' ∨ d = 'n' ∨ d = 'N') := fun hh => h ⟨rfl, hh⟩
      have h1 : d ≠ BS := fun e => hd (Or.inl e)
      have h2' : d ≠ ';' := fun e => hd (Or.inr (Or.inl e))
      have h3 : d ≠ ',' := fun e => hd (Or.inr (Or.inr (Or.inl e)))
      have h4 : d ≠ 'n' := fun e => hd (Or.inr (Or.inr (Or.inr (Or.inl e))))
      have h5 : d ≠ 'N' := fun e => hd (Or.inr (Or.inr (Or.inr (Or.inr e))))
      simp [unescTok, h1, h2', h3, h4, h5, ih]
    · simp [unescTok, hc, h2, ih]

theorem unescapeChar_eq_tok (s : Str) : unescapeChar s = unescTok s := by
  simp [unescapeChar, Gen.unescapeSinglePass, unescapeSingle_eq_tok]

end ICal

namespace ICal

/-! ### the escaped-token language and CATEGORIES splitting -/

/-- the encoded form is a sequence of tokens `\\ \; \, \n` and plain characters other than
    backslash, semicolon, comma and LF -/
def wellEscaped : Str → Bool
  | [] => true
  | [c] => c != BS && c != ';' && c != ',' && c != LF
  | c :: d :: cs =>
    if c = BS then (d == BS || d == ';' || d == ',' || d == 'n') && wellEscaped cs
    else c != ';' && c != ',' && c != LF && wellEscaped (d :: cs)

theorem wellEscaped_plain (c : Char) (t : Str) (h1 : c ≠ BS) (h2 : c ≠ ';') (h3 : c ≠ ',') (h4 : c ≠ LF) :
    wellEscaped (c :: t) = wellEscaped t := by
  cases t with
  | nil => simp [wellEscaped, h1, h2, h3, h4]
  | cons d ds => simp [wellEscaped, h1, h2, h3, h4]

theorem wellEscaped_tokens (u : Str) : wellEscaped (u.flatMap escC) = true := by
  induction u with
  | nil => simp [wellEscaped]
  | cons c cs ih =>
    simp only [List.flatMap_cons]
    by_cases h1 : c = BS
    · subst h1; simp [escC, wellEscaped, ih]
    · by_cases h2 : c = ';'
      · subst h2; simp [escC, wellEscaped, ih, BS]
      · by_cases h3 : c = ','
        · subst h3; simp [escC, wellEscaped, ih, BS]
        · by_cases h4 : c = LF
          · subst h4; simp [escC, wellEscaped, ih, BS, LF]
          · have hc : escC c = [c] := by simp [escC, h1, h2, h3, h4]
            rw [hc]; simp only [List.singleton_append]
            rw [wellEscaped_plain c _ h1 h2 h3 h4, ih]

def consHd (p : Str) : List Str → List Str
  | [] => [p]
  | hd :: tl => (p ++ hd) :: tl

theorem splitUnescComma_ne_nil (t : Str) : splitUnescComma t ≠ [] := by
  fun_induction splitUnescComma t <;> simp_all

theorem split_plain (c : Char) (t : Str) (h1 : c ≠ BS) (h2 : c ≠ ',') :
    splitUnescComma (c :: t) = consHd [c] (splitUnescComma t) := by
  cases t with
  | nil => simp [splitUnescComma, h2, consHd]
  | cons d ds =>
    simp only [splitUnescComma, h1, h2, if_false]
    cases h : splitUnescComma (d :: ds) with
    | nil => exact absurd h (splitUnescComma_ne_nil _)
    | cons hd tl => simp [consHd]

theorem split_esc (d : Char) (t : Str) :
    splitUnescComma (BS :: d :: t) = consHd [BS, d] (splitUnescComma t) := by
  simp only [splitUnescComma, if_true]
  cases h : splitUnescComma t with
  | nil => exact absurd h (splitUnescComma_ne_nil _)
  | cons hd tl => simp [consHd]

theorem split_comma (t : Str) : splitUnescComma (',' :: t) = [] :: splitUnescComma t := by
  cases t with
  | nil => simp [splitUnescComma]
  | cons d ds => simp [splitUnescComma, BS]

/-- one encoded item, followed by nothing or by a separator and more text -/
theorem split_tokens (u : Str) :
    splitUnescComma (u.flatMap escC) = [u.flatMap escC] ∧
    ∀ more, splitUnescComma (u.flatMap escC ++ ',' :: more) = u.flatMap escC :: splitUnescComma more := by
  induction u with
  | nil => exact ⟨by simp [splitUnescComma], fun more => by simpa using split_comma more⟩
  | cons c cs ih =>
    simp only [List.flatMap_cons]
    have two : ∀ x : Char, (∀ rest, splitUnescComma ([BS, x] ++ rest) = consHd [BS, x] (splitUnescComma rest)) :=
      fun x rest => by simpa using split_esc x rest
    by_cases h1 : c = BS
    · subst h1
      have e : escC BS = [BS, BS] := by simp [escC]
      rw [e]; constructor
      · rw [two, ih.1]; simp [consHd]
      · intro more; rw [List.append_assoc, two, ih.2]; simp [consHd]
    · by_cases h2 : c = ';'
      · subst h2
        have e : escC ';' = [BS, ';'] := by simp [escC, BS]
        rw [e]; constructor
        · rw [two, ih.1]; simp [consHd]
        · intro more; rw [List.append_assoc, two, ih.2]; simp [consHd]
      · by_cases h3 : c = ','
        · subst h3
          have e : escC ',' = [BS, ','] := by simp [escC, BS]
          rw [e]; constructor
          · rw [two, ih.1]; simp [consHd]
          · intro more; rw [List.append_assoc, two, ih.2]; simp [consHd]
        · by_cases h4 : c = LF
          · subst h4
            have e : escC LF = [BS, 'n'] := by simp [escC, BS, LF]
            rw [e]; constructor
            · rw [two, ih.1]; simp [consHd]
            · intro more; rw [List.append_assoc, two, ih.2]; simp [consHd]
          · have hc : escC c = [c] := by simp [escC, h1, h2, h3, h4]
            rw [hc]; constructor
            · simp only [List.singleton_append]; rw [split_plain c _ h1 h3, ih.1]; simp [consHd]
            · intro more
              simp only [List.singleton_append, List.cons_append, List.nil_append]
              rw [split_plain c _ h1 h3, ih.2]; simp [consHd]

theorem split_join_tokens (us : List Str) (hne : us ≠ []) :
    splitUnescComma (joinWith [','] (us.map (fun u => u.flatMap escC))) = us.map (fun u => u.flatMap escC) := by
  induction us with
  | nil => exact absurd rfl hne
  | cons u rest ih =>
    cases rest with
    | nil => simpa [joinWith] using (split_tokens u).1
    | cons v vs =>
      have := ih (by simp)
      simp only [List.map_cons, joinWith] at this ⊢
      rw [List.append_assoc]
      simp only [List.singleton_append]
      rw [(split_tokens u).2, this]

end ICal
