/-
  Equality of the regenerated `vDDDLists.from_ical` / `vDDDLists.to_ical` (ICal/Gen/BodiesDec.lean, ICal/Gen/Bodies.lean,
  tools/py2lean.py wave 8: `ical.split(',')`, the loop `out.append(vDDDTypes.from_ical(ical_dt, timezone=timezone))` through
  the regenerated dispatcher; the generator of `from_unicode(dt.to_ical())` joined by `b','`) with the hand model of
  ICal/Model/Zoned.lean: `listFromZ` is `mapE <element decoder> (splitOnChar ',' t)` and `listText` is the comma join of the
  element texts.  The element decoder without a zone is `dddFrom` of ICal/Model/Codec.lean (ICal/Lemmas/BodiesDDD.lean).
-/
import ICal.Lemmas.BodiesDDD
import ICal.Model.Zoned
set_option linter.unusedSimpArgs false
set_option linter.unusedVariables false
namespace ICal.Bodies
open ICal ICal.PyRT ICal.Gen.BodiesDec ICal.Gen.Bodies ICal.Zoned

/-- the loop, for any accumulated prefix: the model's `mapE` over the parts -/
theorem ddl_from_loop_eq (lu : PyDateTime → PyDateTime) : ∀ (parts : List Str) (acc : List PyDDD),
    vDDDLists_from_ical_loop1 durGroups (fun s _ => periodFromP lu s) lu acc parts =
      liftRes (fun ds => acc ++ ds.map (dddPy lu)) (mapE dddFrom parts)
  | [], acc => by simp [vDDDLists_from_ical_loop1, mapE, liftRes, pure, Except.pure]
  | x :: xs, acc => by
    have hx := ddd_from_eq lu x
    unfold dddFromP at hx
    simp only [vDDDLists_from_ical_loop1, hx, mapE]
    cases hd : dddFrom x with
    | error e => cases e <;> simp [liftRes, bind, Except.bind]
    | ok v =>
      simp only [liftRes, bind, Except.bind]
      rw [ddl_from_loop_eq lu xs]
      cases hm : mapE dddFrom xs with
      | error e => cases e <;> simp [liftRes]
      | ok vs => simp [liftRes]

theorem ddl_from_eq (lu : PyDateTime → PyDateTime) (t : Str) :
    dddListsFromP lu t = liftRes (List.map (dddPy lu)) (mapE dddFrom (splitOnChar ',' t)) := by
  unfold dddListsFromP vDDDLists_from_ical
  simp only [ddl_from_loop_eq, bind, Except.bind, pure, Except.pure]
  cases mapE dddFrom (splitOnChar ',' t) with
  | error e => cases e <;> simp [liftRes]
  | ok vs => simp [liftRes]

theorem mapM_ok_pure {α β : Type} (g : α → β) : ∀ (l : List α), l.mapM (fun x => (Except.ok (g x) : Py β)) = .ok (l.map g)
  | [] => rfl
  | x :: xs => by simp [List.mapM_cons, mapM_ok_pure g xs, bind, Except.bind, pure, Except.pure]

/-- `to_ical`: when no element raises, the comma join of the element texts -/
theorem ddl_to_eq {DO : Type} (text : DO → Str) (dts : List DO) :
    dddListsToP (fun d => .ok (text d)) dts = .ok (joinWith [','] (dts.map text)) := by
  unfold dddListsToP vDDDLists_to_ical
  have h : (fun dt => (Except.ok (text dt) : Py Str) >>= fun (t1' : Str) => pure t1') = (fun dt => (Except.ok (text dt) : Py Str)) := by
    funext dt; rfl
  simp only [h, mapM_ok_pure, bind, Except.bind, pure, Except.pure]

end ICal.Bodies
