/-
  Helper lemmas for C13 (Model/TzGen): the coarse-to-fine search, the outer loop along a chain of
  visible offset changes, grouping, and the transfer of the RFC reading.
-/
import ICal.Model.TzGen
import ICal.Lemmas.Tz
namespace ICal.TzGen
open ICal.Tz (Obs specAt specEntries IsLatest specAt_latest specAt_none mem_specEntries)

/-! ## the inner search -/

/-- One round with step `d` from `e` (old offset on `[s, T)`, a different one on `[T, T + D)`, no
    overflow before `T + D`): it stops at a probe `e'` with `e ≤ e' < T ≤ e' + d`. -/
theorem loop_spec (off : Int → Int) (o d T D H s : Int) (hd : 0 < d) (hdD : d ≤ D)
    (hB : ∀ t, s ≤ t → t < T → off t = o) (hA : ∀ t, T ≤ t → t < T + D → off t ≠ o) (hH : T + D ≤ H) :
    ∀ (n : Nat) (e : Int), s ≤ e → e < T → T - e ≤ n * d →
      ∃ e', loop off o d H n e (e + d) = .ok e' ∧ e ≤ e' ∧ e' < T ∧ T ≤ e' + d := by
  intro n
  induction n with
  | zero => intro e _ h2 h3; simp at h3; omega
  | succ k ih =>
    intro e h1 h2 h3
    unfold loop
    by_cases hq : off (e + d) = o
    · have hlt : e + d < T := by
        by_cases h : e + d < T
        · exact h
        · exact absurd hq (hA (e + d) (by omega) (by omega))
      have hno : ¬ (e + d + d > H) := by omega
      simp only [hq, if_true, hno, if_false]
      have hfuel : T - (e + d) ≤ k * d := by
        have : ((k + 1 : Nat) : Int) * d = k * d + d := by
          rw [Int.natCast_add, Int.add_mul]; simp
        omega
      obtain ⟨e', he, h4, h5, h6⟩ := ih (e + d) (by omega) hlt hfuel
      exact ⟨e', he, by omega, h5, h6⟩
    · simp only [hq, if_false]
      refine ⟨e, rfl, Int.le_refl _, h2, ?_⟩
      by_cases h : e + d < T
      · exact absurd (hB (e + d) (by omega) h) hq
      · omega

theorem fuel_ok {H e T d : Int} (hd : 0 < d) (heT : e < T) (hTH : T ≤ H) :
    T - e ≤ (((H - e).toNat + 1 : Nat) : Int) * d := by
  have h1 : ((((H - e).toNat + 1 : Nat)) : Int) = (H - e) + 1 := by
    rw [Int.natCast_add, Int.toNat_of_nonneg (by omega)]; simp
  rw [h1]
  have : (H - e + 1) * 1 ≤ (H - e + 1) * d := Int.mul_le_mul_of_nonneg_left (by omega) (by omega)
  omega

theorem pass_spec (off : Int → Int) (o d T D H s : Int) (hd : 0 < d) (hdD : d ≤ D)
    (hB : ∀ t, s ≤ t → t < T → off t = o) (hA : ∀ t, T ≤ t → t < T + D → off t ≠ o) (hH : T + D ≤ H)
    (e : Int) (h1 : s ≤ e) (h2 : e < T) :
    ∃ e', pass off o d H e = .ok e' ∧ e ≤ e' ∧ e' < T ∧ T ≤ e' + d := by
  unfold pass
  have : ¬ (e + d > H) := by omega
  simp only [this, if_false]
  exact loop_spec off o d T D H s hd hdD hB hA hH _ e h1 h2 (fuel_ok hd h2 (by omega))

/-- All rounds (steps positive, at most `D`): the search stays left of the change; when the last
    step is 1 it stops exactly one tick before it. -/
theorem search_spec (off : Int → Int) (o T D H s : Int)
    (hB : ∀ t, s ≤ t → t < T → off t = o) (hA : ∀ t, T ≤ t → t < T + D → off t ≠ o) (hH : T + D ≤ H) :
    ∀ (ds : List Int) (e : Int), (∀ d ∈ ds, 0 < d ∧ d ≤ D) → s ≤ e → e < T →
      ∃ e', search off o H ds e = .ok e' ∧ e ≤ e' ∧ e' < T ∧ (ds.getLast? = some 1 → e' = T - 1) := by
  intro ds
  induction ds with
  | nil => intro e _ h1 h2; exact ⟨e, rfl, Int.le_refl _, h2, by simp⟩
  | cons d ds ih =>
    intro e hds h1 h2
    have hd := hds d (by simp)
    obtain ⟨e1, hp, h3, h4, h5⟩ := pass_spec off o d T D H s hd.1 hd.2 hB hA hH e h1 h2
    obtain ⟨e2, hs2, h6, h7, h8⟩ := ih e1 (fun x hx => hds x (by simp [hx])) (by omega) h4
    refine ⟨e2, ?_, by omega, h7, ?_⟩
    · simp only [search, hp]; exact hs2
    · intro hl
      cases ds with
      | nil =>
        simp at hl; subst hl
        simp only [search] at hs2
        simp only [Pass.ok.injEq] at hs2
        omega
      | cons d' ds' =>
        apply h8
        simpa [List.getLast?_cons_cons] using hl

theorem skipSearch_steps : ∀ d ∈ skipSearch, 0 < d ∧ d ≤ maxStep := by decide
theorem skipSearch_last : skipSearch.getLast? = some 1 := by decide
theorem skipSearch_head : skipSearch = maxStep :: skipSearch.tail := by decide
theorem maxStep_pos : 0 < maxStep := by decide

/-- a constant offset up to the horizon: the first round runs into the overflow and breaks at a
    probe within one step of the horizon -/
theorem loop_const (off : Int → Int) (o d H : Int) (hd : 0 < d) :
    ∀ (n : Nat) (e : Int), (∀ t, e < t → t ≤ H → off t = o) → e + d ≤ H → H - e ≤ n * d →
      ∃ p, loop off o d H n e (e + d) = .brk p ∧ e < p ∧ p ≤ H ∧ H < p + d := by
  intro n
  induction n with
  | zero => intro e _ h2 h3; simp at h3; omega
  | succ k ih =>
    intro e hc h2 h3
    unfold loop
    have hq : off (e + d) = o := hc (e + d) (by omega) h2
    simp only [hq, if_true]
    by_cases hov : e + d + d > H
    · simp only [hov, if_true]
      exact ⟨e + d, rfl, by omega, h2, by omega⟩
    · simp only [hov, if_false]
      have hfuel : H - (e + d) ≤ k * d := by
        have : ((k + 1 : Nat) : Int) * d = k * d + d := by
          rw [Int.natCast_add, Int.add_mul]; simp
        omega
      obtain ⟨p, hp, h4, h5, h6⟩ := ih (e + d) (fun t ht1 ht2 => hc t (by omega) ht2) (by omega) hfuel
      exact ⟨p, hp, by omega, h5, h6⟩

theorem search_const (off : Int → Int) (o H e : Int) (hc : ∀ t, e < t → t ≤ H → off t = o)
    (h2 : e + maxStep ≤ H) :
    ∃ p, search off o H skipSearch e = .brk p ∧ H < p + maxStep := by
  have hpos := maxStep_pos
  have hfuel : H - e ≤ (((H - e).toNat + 1 : Nat) : Int) * maxStep := by
    have h1 : ((((H - e).toNat + 1 : Nat)) : Int) = (H - e) + 1 := by
      rw [Int.natCast_add, Int.toNat_of_nonneg (by omega)]; simp
    rw [h1]
    have : (H - e + 1) * 1 ≤ (H - e + 1) * maxStep :=
      Int.mul_le_mul_of_nonneg_left (by omega) (by omega)
    omega
  obtain ⟨p, hp, _, _, h6⟩ := loop_const off o maxStep H hpos _ e hc h2 hfuel
  refine ⟨p, ?_, h6⟩
  have hno : ¬ (e + maxStep > H) := by omega
  rw [skipSearch_head]
  simp only [search, pass, hno, if_false, hp]

/-! ## the search without any assumption on the zone -/

theorem skipSearch_desc : skipSearch.Pairwise (· ≥ ·) := by decide

theorem loop_any (off : Int → Int) (o d H : Int) (hd : 0 < d) :
    ∀ (n : Nat) (e : Int), e + d ≤ H → H - (e + d) < n →
      (∃ r, loop off o d H n e (e + d) = .ok r ∧ e ≤ r ∧ r + d ≤ H ∧ off (r + d) ≠ o) ∨
      (∃ r, loop off o d H n e (e + d) = .brk r ∧ e < r ∧ r ≤ H ∧ H < r + d) := by
  intro n
  induction n with
  | zero => intro e h1 h2; simp at h2; omega
  | succ k ih =>
    intro e h1 h2
    unfold loop
    by_cases hq : off (e + d) = o
    · simp only [hq, if_true]
      by_cases hov : e + d + d > H
      · simp only [hov, if_true]
        right; exact ⟨e + d, rfl, by omega, h1, by omega⟩
      · simp only [hov, if_false]
        rcases ih (e + d) (by omega) (by omega) with ⟨r, hr, a, b, c⟩ | ⟨r, hr, a, b, c⟩
        · left; exact ⟨r, hr, by omega, b, c⟩
        · right; exact ⟨r, hr, by omega, b, c⟩
    · simp only [hq, if_false]
      left; exact ⟨e, rfl, Int.le_refl _, h1, hq⟩

theorem pass_any (off : Int → Int) (o d H e : Int) (hd : 0 < d) (h1 : e + d ≤ H) :
    (∃ r, pass off o d H e = .ok r ∧ e ≤ r ∧ r + d ≤ H ∧ off (r + d) ≠ o) ∨
    (∃ r, pass off o d H e = .brk r ∧ e < r ∧ r ≤ H ∧ H < r + d) := by
  unfold pass
  have : ¬ (e + d > H) := by omega
  simp only [this, if_false]
  apply loop_any off o d H hd _ e h1
  have : (((H - e).toNat + 1 : Nat) : Int) = (H - e) + 1 := by
    rw [Int.natCast_add, Int.toNat_of_nonneg (by omega)]; simp
  omega

/-- Whatever the zone does: with descending positive steps the search never raises; it ends either
    at a value whose successor has another offset (when the last step is 1), or with the overflow
    break within one step of the horizon. -/
theorem search_any (off : Int → Int) (o H : Int) :
    ∀ (ds : List Int) (e : Int), ds.Pairwise (· ≥ ·) → (∀ d ∈ ds, 0 < d) → (∀ d ∈ ds.head?, e + d ≤ H) →
      (∃ r, search off o H ds e = .ok r ∧ e ≤ r ∧ (ds.getLast? = some 1 → off (r + 1) ≠ o)) ∨
      (∃ r, search off o H ds e = .brk r ∧ e ≤ r ∧ ∃ d ∈ ds, H < r + d) := by
  intro ds
  induction ds with
  | nil => intro e _ _ _; left; exact ⟨e, rfl, Int.le_refl _, by simp⟩
  | cons d ds ih =>
    intro e hdesc hpos hhead
    have hd := hpos d (by simp)
    have h1 : e + d ≤ H := hhead d (by simp)
    rw [List.pairwise_cons] at hdesc
    rcases pass_any off o d H e hd h1 with ⟨r1, hp, a, b, c⟩ | ⟨r1, hp, a, b, c⟩
    · have hhead' : ∀ d' ∈ ds.head?, r1 + d' ≤ H := by
        intro d' hd'
        have : d' ∈ ds := by
          cases ds with
          | nil => simp at hd'
          | cons x xs => simp at hd'; subst hd'; simp
        have := hdesc.1 d' this
        omega
      rcases ih r1 hdesc.2 (fun x hx => hpos x (by simp [hx])) hhead' with ⟨r, hr, a2, b2⟩ | ⟨r, hr, a2, d', hd', b2⟩
      · left
        refine ⟨r, by simp only [search, hp]; exact hr, by omega, ?_⟩
        intro hl
        cases ds with
        | nil =>
          simp at hl; subst hl
          simp only [search, Pass.ok.injEq] at hr
          subst hr; exact c
        | cons x xs => exact b2 (by simpa [List.getLast?_cons_cons] using hl)
      · right
        exact ⟨r, by simp only [search, hp]; exact hr, by omega, d', by simp [hd'], b2⟩
    · right
      exact ⟨r1, by simp only [search, hp], by omega, d, by simp, c⟩

/-! ## the outer loop along a chain of visible changes -/

/-- `Ts` are the points at which the zone changes, from `s` on, as far as the loop needs them:
    between two points everything (offset, name, dst flag) is constant, every change is a change of
    the *offset*, and the old offset does not come back within the coarsest step.
    The chain may end once `last ≤ s`, when the zone is constant up to the horizon, or when it is
    constant up to some point at or after `last` (what happens there does not matter). -/
inductive Chain (info : Int → Info) (H last : Int) : Int → List Int → Prop where
  | stop {s : Int} : last ≤ s → Chain info H last s []
  | const {s : Int} : (∀ t, s ≤ t → t ≤ H → info t = info s) → Chain info H last s []
  | tail {s T : Int} : last ≤ T → (∀ t, s ≤ t → t < T → info t = info s) → Chain info H last s []
  | step {s T : Int} {rest : List Int} : s < T → (∀ t, s ≤ t → t < T → info t = info s) →
      (∀ t, T ≤ t → t < T + maxStep → (info t).off ≠ (info s).off) → T + maxStep ≤ H →
      Chain info H last T rest → Chain info H last s (T :: rest)

/-- the segments the outer loop must produce along a chain -/
def segsOf (info : Int → Info) (wallOf : Int → Int) (last : Int) : Option Int → Int → List Int → List Seg
  | prev, s, [] =>
    if s < last then [⟨prev, (info s).off, (info s).name, (info s).isStd, s, wallOf s⟩] else []
  | prev, s, T :: rest =>
    if s < last then
      ⟨prev, (info s).off, (info s).name, (info s).isStd, s, wallOf s⟩ :: segsOf info wallOf last (some (info s).off) T rest
    else []

theorem outer_chain (info : Int → Info) (wallOf : Int → Int) (H last : Int) (hH : last + maxStep ≤ H) :
    ∀ (Ts : List Int) (s : Int), Chain info H last s Ts → ∀ (n : Nat) (prev : Option Int), last - s < n →
      outer info wallOf skipSearch H last n s prev = some (segsOf info wallOf last prev s Ts) := by
  intro Ts
  induction Ts with
  | nil =>
    intro s hc n prev hn
    cases n with
    | zero =>
      have : ¬ s < last := by omega
      simp [outer, segsOf, this]
    | succ n =>
      by_cases hs : s < last
      · cases hc with
        | stop h => omega
        | const hconst =>
          obtain ⟨p, hp, hpH⟩ := search_const (fun x => (info x).off) (info s).off H s
            (fun t h1 h2 => by show (info t).off = (info s).off; rw [hconst t (by omega) h2]) (by omega)
          have hstop : ¬ (p + 1 < last) := by omega
          cases n with
          | zero => simp [outer, segsOf, hs, hp]
          | succ n => simp [outer, segsOf, hs, hp, hstop]
        | tail hT htail =>
          have hpos : ∀ d ∈ skipSearch, 0 < d := fun d hd => (skipSearch_steps d hd).1
          have hhead : ∀ d ∈ skipSearch.head?, s + d ≤ H := by
            intro d hd
            rw [skipSearch_head] at hd
            simp at hd; subst hd; omega
          have hB : ∀ t, s ≤ t → t < _ → (info t).off = (info s).off := fun t h1 h2 => by rw [htail t h1 h2]
          rcases search_any (fun x => (info x).off) (info s).off H skipSearch s skipSearch_desc hpos hhead with
            ⟨r, hr, a, b⟩ | ⟨r, hr, a, d, hd, b⟩
          · have hne := b skipSearch_last
            have hstop : ¬ (r + 1 < last) := by
              intro hlt
              exact hne (hB (r + 1) (by omega) (by omega))
            cases n with
            | zero => simp [outer, segsOf, hs, hr]
            | succ n => simp [outer, segsOf, hs, hr, hstop]
          · have hdm := (skipSearch_steps d hd).2
            have hstop : ¬ (r + 1 < last) := by omega
            cases n with
            | zero => simp [outer, segsOf, hs, hr]
            | succ n => simp [outer, segsOf, hs, hr, hstop]
      · simp [outer, segsOf, hs]
  | cons T rest ih =>
    intro s hc n prev hn
    cases hc with
    | step hsT hB hA hTH hrest =>
      cases n with
      | zero =>
        have : ¬ s < last := by omega
        simp [outer, segsOf, this]
      | succ n =>
        by_cases hs : s < last
        · obtain ⟨e', hse, _, _, hlast⟩ := search_spec (fun x => (info x).off) (info s).off T maxStep H s
            (fun t h1 h2 => by show (info t).off = (info s).off; rw [hB t h1 h2]) hA hTH skipSearch s skipSearch_steps (Int.le_refl _) hsT
          have he' : e' = T - 1 := hlast skipSearch_last
          subst he'
          have hrec := ih T hrest n (some (info s).off) (by omega)
          simp only [outer, hs, if_true, hse, segsOf]
          rw [show T - 1 + 1 = T by omega, hrec]
          rfl
        · simp [outer, segsOf, hs]

/-! ## facts about the segments of a chain -/

theorem segsOf_start_ge (info : Int → Info) (wallOf : Int → Int) (H last : Int) :
    ∀ (Ts : List Int) (s : Int) (prev : Option Int), Chain info H last s Ts →
      ∀ g ∈ segsOf info wallOf last prev s Ts, s ≤ g.start ∧ g.start < last := by
  intro Ts
  induction Ts with
  | nil =>
    intro s prev _ g hg
    unfold segsOf at hg
    split at hg
    · simp at hg; subst hg; exact ⟨Int.le_refl _, by assumption⟩
    · simp at hg
  | cons T rest ih =>
    intro s prev hc g hg
    cases hc with
    | step hsT hB hA hTH hrest =>
      unfold segsOf at hg
      split at hg
      · rcases List.mem_cons.mp hg with rfl | hg
        · exact ⟨Int.le_refl _, by assumption⟩
        · have := ih T _ hrest g hg
          exact ⟨by omega, this.2⟩
      · simp at hg

/-- the shape of every segment: its data are the zone's at its start, and `offFrom` is the offset
    just before (none for the very first) -/
def SegOK (info : Int → Info) (wallOf : Int → Int) (g : Seg) : Prop :=
  g.offTo = (info g.start).off ∧ g.name = (info g.start).name ∧ g.isStd = (info g.start).isStd ∧
  g.wall = wallOf g.start

theorem segsOf_ok (info : Int → Info) (wallOf : Int → Int) (last : Int) :
    ∀ (Ts : List Int) (s : Int) (prev : Option Int),
      ∀ g ∈ segsOf info wallOf last prev s Ts, SegOK info wallOf g := by
  intro Ts
  induction Ts with
  | nil =>
    intro s prev g hg
    unfold segsOf at hg
    split at hg
    · simp at hg; subst hg; exact ⟨rfl, rfl, rfl, rfl⟩
    · simp at hg
  | cons T rest ih =>
    intro s prev g hg
    unfold segsOf at hg
    split at hg
    · rcases List.mem_cons.mp hg with rfl | hg
      · exact ⟨rfl, rfl, rfl, rfl⟩
      · exact ih T _ g hg
    · simp at hg


/-- at every clock value of the window the chain has a segment that starts not after it, is the
    latest such, and carries the zone's data at that value -/
theorem chain_info (info : Int → Info) (wallOf : Int → Int) (H last : Int) (hH : last ≤ H) :
    ∀ (Ts : List Int) (s : Int) (prev : Option Int), Chain info H last s Ts →
      ∀ t, s ≤ t → t < last →
        ∃ g ∈ segsOf info wallOf last prev s Ts, g.start ≤ t ∧ info t = info g.start ∧
          ∀ g' ∈ segsOf info wallOf last prev s Ts, g'.start ≤ t → g'.start ≤ g.start := by
  intro Ts
  induction Ts with
  | nil =>
    intro s prev hc t h1 h2
    have hs : s < last := by omega
    cases hc with
    | stop h => omega
    | const hconst =>
      refine ⟨⟨prev, (info s).off, (info s).name, (info s).isStd, s, wallOf s⟩, by simp [segsOf, hs], h1,
        hconst t h1 (by omega), ?_⟩
      intro g' hg' _
      simp [segsOf, hs] at hg'
      subst hg'
      exact Int.le_refl _
    | tail hT htail =>
      refine ⟨⟨prev, (info s).off, (info s).name, (info s).isStd, s, wallOf s⟩, by simp [segsOf, hs], h1,
        htail t h1 (by omega), ?_⟩
      intro g' hg' _
      simp [segsOf, hs] at hg'
      subst hg'
      exact Int.le_refl _
  | cons T rest ih =>
    intro s prev hc t h1 h2
    have hs : s < last := by omega
    cases hc with
    | step hsT hB hA hTH hrest =>
      by_cases htT : t < T
      · refine ⟨⟨prev, (info s).off, (info s).name, (info s).isStd, s, wallOf s⟩, by simp [segsOf, hs], h1,
          hB t h1 htT, ?_⟩
        intro g' hg' hle
        simp only [segsOf, hs, if_true] at hg'
        rcases List.mem_cons.mp hg' with rfl | hg'
        · exact Int.le_refl _
        · have := (segsOf_start_ge info wallOf H last rest T _ hrest g' hg').1
          omega
      · obtain ⟨g, hg, hgt, hgi, hmax⟩ := ih T (some (info s).off) hrest t (by omega) h2
        refine ⟨g, by simp only [segsOf, hs, if_true]; exact List.mem_cons_of_mem _ hg, hgt, hgi, ?_⟩
        intro g' hg' hle
        simp only [segsOf, hs, if_true] at hg'
        rcases List.mem_cons.mp hg' with rfl | hg'
        · have := (segsOf_start_ge info wallOf H last rest T _ hrest g hg).1
          simp only; omega
        · exact hmax g' hg' hle

/-! ## grouping -/

theorem mem_addSeg_inv (P : Key → Int → Prop) : ∀ (g : List (Key × List Int)) (k : Key) (w : Int),
    (∀ q ∈ g, q.2 ≠ [] ∧ ∀ x ∈ q.2, P q.1 x) → P k w →
    ∀ q ∈ addSeg g k w, q.2 ≠ [] ∧ ∀ x ∈ q.2, P q.1 x := by
  intro g
  induction g with
  | nil =>
    intro k w _ hp q hq
    simp [addSeg] at hq; subst hq
    exact ⟨by simp, by intro x hx; simp at hx; subst hx; exact hp⟩
  | cons a r ih =>
    intro k w hg hp q hq
    obtain ⟨k', ws⟩ := a
    unfold addSeg at hq
    split at hq
    · next hk =>
      rcases List.mem_cons.mp hq with rfl | hq
      · refine ⟨by simp, ?_⟩
        intro x hx
        simp only [List.mem_append, List.mem_singleton] at hx
        rcases hx with hx | rfl
        · exact (hg (k', ws) (by simp)).2 x hx
        · simp only; rw [hk]; exact hp
      · exact hg q (List.mem_cons_of_mem _ hq)
    · rcases List.mem_cons.mp hq with rfl | hq
      · exact hg _ (by simp)
      · exact ih k w (fun q hq => hg q (List.mem_cons_of_mem _ hq)) hp q hq

theorem group_sound (P : Key → Int → Prop) : ∀ (segs : List Seg) (g : List (Key × List Int)),
    (∀ q ∈ g, q.2 ≠ [] ∧ ∀ x ∈ q.2, P q.1 x) → (∀ s ∈ segs, P s.key s.wall) →
    ∀ q ∈ segs.foldl (fun g s => addSeg g s.key s.wall) g, q.2 ≠ [] ∧ ∀ x ∈ q.2, P q.1 x := by
  intro segs
  induction segs with
  | nil => intro g hg _ q hq; exact hg q hq
  | cons s r ih =>
    intro g hg hs q hq
    simp only [List.foldl_cons] at hq
    exact ih (addSeg g s.key s.wall)
      (mem_addSeg_inv P g s.key s.wall hg (hs s (by simp)))
      (fun s' hs' => hs s' (List.mem_cons_of_mem _ hs')) q hq

theorem addSeg_mono : ∀ (g : List (Key × List Int)) (k : Key) (w : Int),
    (∃ ws, (k, ws) ∈ addSeg g k w ∧ w ∈ ws) ∧
    ∀ q ∈ g, ∃ ws, (q.1, ws) ∈ addSeg g k w ∧ ∀ x ∈ q.2, x ∈ ws := by
  intro g
  induction g with
  | nil => intro k w; simp [addSeg]
  | cons a r ih =>
    intro k w
    obtain ⟨k', ws'⟩ := a
    unfold addSeg
    split
    · next hk =>
      subst hk
      refine ⟨⟨ws' ++ [w], by simp, by simp⟩, ?_⟩
      intro q hq
      rcases List.mem_cons.mp hq with rfl | hq
      · exact ⟨ws' ++ [w], by simp, fun x hx => by simp [hx]⟩
      · exact ⟨q.2, List.mem_cons_of_mem _ hq, fun x hx => hx⟩
    · next hk =>
      obtain ⟨⟨ws, h1, h2⟩, h3⟩ := ih k w
      refine ⟨⟨ws, List.mem_cons_of_mem _ h1, h2⟩, ?_⟩
      intro q hq
      rcases List.mem_cons.mp hq with rfl | hq
      · exact ⟨ws', by simp, fun x hx => hx⟩
      · obtain ⟨ws'', h4, h5⟩ := h3 q hq
        exact ⟨ws'', List.mem_cons_of_mem _ h4, h5⟩

theorem group_complete : ∀ (segs : List Seg) (g : List (Key × List Int)),
    (∀ s ∈ segs, ∃ ws, (s.key, ws) ∈ segs.foldl (fun g s => addSeg g s.key s.wall) g ∧ s.wall ∈ ws) ∧
    (∀ q ∈ g, ∃ ws, (q.1, ws) ∈ segs.foldl (fun g s => addSeg g s.key s.wall) g ∧ ∀ x ∈ q.2, x ∈ ws) := by
  intro segs
  induction segs with
  | nil => intro g; exact ⟨by simp, fun q hq => ⟨q.2, hq, fun x hx => hx⟩⟩
  | cons s r ih =>
    intro g
    simp only [List.foldl_cons]
    obtain ⟨h1, h2⟩ := ih (addSeg g s.key s.wall)
    obtain ⟨⟨ws, a1, a2⟩, a3⟩ := addSeg_mono g s.key s.wall
    refine ⟨?_, ?_⟩
    · intro s' hs'
      rcases List.mem_cons.mp hs' with rfl | hs'
      · obtain ⟨ws', b1, b2⟩ := h2 (s'.key, ws) a1
        exact ⟨ws', b1, b2 _ a2⟩
      · exact h1 s' hs'
    · intro q hq
      obtain ⟨ws', b1, b2⟩ := a3 q hq
      obtain ⟨ws'', c1, c2⟩ := h2 (q.1, ws') b1
      exact ⟨ws'', c1, fun x hx => c2 x (b2 x hx)⟩

theorem listMin_mem : ∀ (ws : List Int) (m : Int), listMin m ws = m ∨ listMin m ws ∈ ws := by
  intro ws
  induction ws with
  | nil => intro m; left; rfl
  | cons x xs ih =>
    intro m
    unfold listMin
    rcases ih (if x < m then x else m) with h | h
    · rw [h]; split
      · right; simp
      · left; rfl
    · right; exact List.mem_cons_of_mem _ h

/-- the onsets of an emitted sub-component are the group's wall times (when none lies on the last day) -/
theorem emit_onsets (lastWall : Int) (k : Key) (ws : List Int) (hne : ws ≠ [])
    (hnld : ∀ w ∈ ws, ¬ (lastWall ≤ w ∧ w < lastWall + 86400)) :
    ∀ x, x ∈ (toObs (emit lastWall (k, ws))).onsets ↔ x ∈ ws := by
  cases ws with
  | nil => exact absurd rfl hne
  | cons w r =>
    intro x
    have hm : listMin w r ∈ w :: r := by
      rcases listMin_mem r w with h | h
      · rw [h]; simp
      · exact List.mem_cons_of_mem _ h
    have hn := hnld _ hm
    simp only [toObs, emit, hn, if_false]
    exact ((List.perm_cons_erase hm).mem_iff).symm

theorem emit_view (lastWall : Int) (q : Key × List Int) :
    (toObs (emit lastWall q)).offTo = q.1.offTo ∧ (toObs (emit lastWall q)).name = q.1.name ∧
    (toObs (emit lastWall q)).isDst = !q.1.isStd ∧ (toObs (emit lastWall q)).offFrom = q.1.offFrom.getD q.1.offTo := by
  obtain ⟨k, ws⟩ := q
  cases ws <;> simp [toObs, emit]

/-- the RFC onset instant the generated component gives to a segment -/
def onsetOf (g : Seg) : Int := g.wall - g.offFrom.getD g.offTo

/-- every RFC entry of the generated component comes from a segment, and every segment has one -/
theorem gen_entries (segs : List Seg) (lastWall : Int)
    (hnld : ∀ s ∈ segs, ¬ (lastWall ≤ s.wall ∧ s.wall < lastWall + 86400)) :
    (∀ p ∈ specEntries (((group segs).map (emit lastWall)).map toObs), ∃ s ∈ segs,
      p.1 = onsetOf s ∧ p.2.offTo = s.offTo ∧ p.2.name = s.name ∧ p.2.isDst = !s.isStd) ∧
    (∀ s ∈ segs, ∃ p ∈ specEntries (((group segs).map (emit lastWall)).map toObs),
      p.1 = onsetOf s ∧ p.2.offTo = s.offTo ∧ p.2.name = s.name ∧ p.2.isDst = !s.isStd) := by
  have hsound := group_sound (fun k w => ∃ s ∈ segs, s.key = k ∧ s.wall = w) segs []
    (by simp) (fun s hs => ⟨s, hs, rfl, rfl⟩)
  have hcomplete := (group_complete segs []).1
  have hq_nld : ∀ q ∈ group segs, ∀ w ∈ q.2, ¬ (lastWall ≤ w ∧ w < lastWall + 86400) := by
    intro q hq w hw
    obtain ⟨s, hs, _, rfl⟩ := (hsound q hq).2 w hw
    exact hnld s hs
  constructor
  · intro p hp
    obtain ⟨o, ho, l, hl, rfl⟩ := mem_specEntries.mp hp
    simp only [List.mem_map] at ho
    obtain ⟨_, ⟨q, hq, rfl⟩, rfl⟩ := ho
    obtain ⟨hne, hall⟩ := hsound q hq
    have hl' := (emit_onsets lastWall q.1 q.2 hne (hq_nld q hq) l).mp hl
    obtain ⟨s, hs, hk, hw⟩ := hall l hl'
    obtain ⟨v1, v2, v3, v4⟩ := emit_view lastWall q
    refine ⟨s, hs, ?_, ?_, ?_, ?_⟩
    · simp only [onsetOf]; rw [v4, ← hk, hw]; rfl
    · rw [v1, ← hk]; rfl
    · rw [v2, ← hk]; rfl
    · rw [v3, ← hk]; rfl
  · intro s hs
    obtain ⟨ws, hq, hw⟩ := hcomplete s hs
    obtain ⟨hne, _⟩ := hsound (s.key, ws) hq
    have hl := (emit_onsets lastWall s.key ws hne (hq_nld _ hq) s.wall).mpr hw
    obtain ⟨v1, v2, v3, v4⟩ := emit_view lastWall (s.key, ws)
    refine ⟨(s.wall - (toObs (emit lastWall (s.key, ws))).offFrom, toObs (emit lastWall (s.key, ws))), ?_, ?_, ?_, ?_, ?_⟩
    · exact mem_specEntries.mpr ⟨_, by simp only [List.mem_map]; exact ⟨_, ⟨_, hq, rfl⟩, rfl⟩, s.wall, hl, rfl⟩
    · simp only [onsetOf]; rw [v4]; rfl
    · rw [v1]; rfl
    · rw [v2]; rfl
    · rw [v3]; rfl

/-! ## the applicability check on a table is sound -/

theorem infoAt_lt (cur : Info) (r : Row) (rs : List Row) (x : Int) (h : x < r.pos) :
    infoAt cur (r :: rs) x = cur := by
  have : ¬ r.pos ≤ x := by omega
  simp [infoAt, this]

theorem infoAt_ge (cur : Info) (r : Row) (rs : List Row) (x : Int) (h : r.pos ≤ x) :
    infoAt cur (r :: rs) x = infoAt r.info rs x := by
  simp [infoAt, h]

theorem infoAt_head_gt (cur : Info) (rows : List Row) (x : Int) (h : ∀ r ∈ rows.head?, x < r.pos) :
    infoAt cur rows x = cur := by
  cases rows with
  | nil => rfl
  | cons r rs => exact infoAt_lt cur r rs x (h r (by simp))

theorem infoAt_mem : ∀ (rows : List Row) (cur : Info) (x : Int),
    infoAt cur rows x = cur ∨ ∃ r ∈ rows, r.pos ≤ x ∧ infoAt cur rows x = r.info := by
  intro rows
  induction rows with
  | nil => intro cur x; left; rfl
  | cons r rs ih =>
    intro cur x
    by_cases h : r.pos ≤ x
    · rw [infoAt_ge cur r rs x h]
      rcases ih r.info x with h1 | ⟨r', hr', h2, h3⟩
      · right; exact ⟨r, by simp, h, h1⟩
      · right; exact ⟨r', by simp [hr'], h2, h3⟩
    · left; exact infoAt_lt cur r rs x (by omega)

theorem sortedRows_cons {r : Row} {rs : List Row} (h : sortedRows (r :: rs) = true) :
    sortedRows rs = true ∧ ∀ r' ∈ rs.head?, r.pos < r'.pos := by
  cases rs with
  | nil => simp [sortedRows]
  | cons b t =>
    simp only [sortedRows, Bool.and_eq_true, decide_eq_true_eq] at h
    exact ⟨h.2, by intro r' hr'; simp at hr'; subst hr'; exact h.1⟩

theorem chainGo_sound (info : Int → Info) (H first last : Int) (hH : last + maxStep ≤ H) :
    ∀ (rows : List Row) (prev : Info) (s : Int), first ≤ s → sortedRows rows = true →
      (∀ r ∈ rows.head?, s < r.pos) → (∀ x, s ≤ x → info x = infoAt prev rows x) →
      chainGo first last prev rows = true → ∃ Ts, Chain info H last s Ts := by
  intro rows
  induction rows with
  | nil =>
    intro prev s _ _ _ hinfo _
    exact ⟨[], Chain.const (fun t h1 _ => by rw [hinfo t h1, hinfo s (Int.le_refl _)]; rfl)⟩
  | cons r rs ih =>
    intro prev s hfs hsorted hhead hinfo hgo
    obtain ⟨hsrs, hheadrs⟩ := sortedRows_cons hsorted
    have hsr : s < r.pos := hhead r (by simp)
    have hs : info s = prev := by rw [hinfo s (Int.le_refl _)]; exact infoAt_lt prev r rs s hsr
    have hconst : ∀ t, s ≤ t → t < r.pos → info t = info s := by
      intro t h1 h2; rw [hinfo t h1, infoAt_lt prev r rs t h2, hs]
    unfold chainGo at hgo
    have hnf : ¬ r.pos ≤ first := by omega
    simp only [hnf, if_false] at hgo
    by_cases hl : last ≤ r.pos
    · exact ⟨[], Chain.tail hl hconst⟩
    · simp only [hl, if_false] at hgo
      by_cases heq : r.info = prev
      · simp only [heq, if_true] at hgo
        apply ih prev s hfs hsrs (fun r' hr' => by have := hheadrs r' hr'; omega) ?_ hgo
        intro x hx
        rw [hinfo x hx]
        by_cases hrx : r.pos ≤ x
        · rw [infoAt_ge prev r rs x hrx, heq]
        · rw [infoAt_lt prev r rs x (by omega)]
          exact (infoAt_head_gt prev rs x (fun r' hr' => by have := hheadrs r' hr'; omega)).symm
      · simp only [heq, if_false, Bool.and_eq_true, bne_iff_ne, ne_eq] at hgo
        obtain ⟨⟨hoff, hpers⟩, hrest⟩ := hgo
        have hinfo' : ∀ x, r.pos ≤ x → info x = infoAt r.info rs x := by
          intro x hx; rw [hinfo x (by omega), infoAt_ge prev r rs x hx]
        obtain ⟨Ts, hTs⟩ := ih r.info r.pos (by omega) hsrs hheadrs hinfo' hrest
        refine ⟨r.pos :: Ts, Chain.step hsr hconst ?_ (by omega) hTs⟩
        intro t h1 h2
        rw [hs, hinfo' t h1]
        rcases infoAt_mem rs r.info t with h | ⟨r', hr', hp, h⟩
        · rw [h]; exact hoff
        · rw [h]
          unfold persists at hpers
          rw [List.all_eq_true] at hpers
          have := hpers r' hr'
          simp only [Bool.or_eq_true, Bool.not_eq_true', decide_eq_false_iff_not, bne_iff_ne, ne_eq] at this
          rcases this with h3 | h3
          · omega
          · exact h3

theorem chainOK_sound_aux (info : Int → Info) (H first last : Int) (hH : last + maxStep ≤ H) :
    ∀ (rows : List Row) (prev : Info), sortedRows rows = true →
      (∀ x, first ≤ x → info x = infoAt prev rows x) →
      chainGo first last prev rows = true → ∃ Ts, Chain info H last first Ts := by
  intro rows
  induction rows with
  | nil =>
    intro prev _ hinfo _
    exact ⟨[], Chain.const (fun t h1 _ => by rw [hinfo t h1, hinfo first (Int.le_refl _)]; rfl)⟩
  | cons r rs ih =>
    intro prev hsorted hinfo hgo
    by_cases hrf : r.pos ≤ first
    · obtain ⟨hsrs, _⟩ := sortedRows_cons hsorted
      have hgo' : chainGo first last r.info rs = true := by
        unfold chainGo at hgo; simpa [hrf] using hgo
      exact ih r.info hsrs (fun x hx => by rw [hinfo x hx, infoAt_ge prev r rs x (by omega)]) hgo'
    · exact chainGo_sound info H first last hH (r :: rs) prev first (Int.le_refl _) hsorted
        (fun r' hr' => by simp at hr'; subst hr'; omega) hinfo hgo

end ICal.TzGen
