/-
  More lemmas for the TEXT codec (C07, clause pass round 10): every `;` and `,` of a string of
  the escaped-token language stands after an odd run of backslashes; fixed points of the
  normalisation.
-/
import ICal.Lemmas.Text
namespace ICal

/-- length of the run of backslashes that ends the string -/
def bsRun (pre : Str) : Nat := (pre.reverse.takeWhile (· = BS)).length

/-- scanner state: "the next character is escaped" -/
def escPar (b : Bool) (pre : Str) : Bool := pre.foldl (fun b x => if x = BS then !b else false) b

theorem bsRun_snoc (pre : Str) (x : Char) :
    bsRun (pre ++ [x]) = if x = BS then bsRun pre + 1 else 0 := by
  unfold bsRun; by_cases h : x = BS <;> simp [h]

theorem escPar_snoc (b : Bool) (pre : Str) (x : Char) :
    escPar b (pre ++ [x]) = if x = BS then !(escPar b pre) else false := by
  simp [escPar, List.foldl_append]

theorem escPar_eq_odd (pre : Str) : escPar false pre = decide (bsRun pre % 2 = 1) := by
  rw [← List.reverse_reverse pre]
  generalize pre.reverse = r
  induction r with
  | nil => simp [escPar, bsRun]
  | cons x r ih =>
    rw [List.reverse_cons]
    generalize r.reverse = pre at ih
    rw [escPar_snoc, bsRun_snoc, ih]
    by_cases h : x = BS
    · simp only [h, if_true]
      by_cases hp : bsRun pre % 2 = 1
      · have : ¬ ((bsRun pre + 1) % 2 = 1) := by omega
        simp [hp, this]
      · have : (bsRun pre + 1) % 2 = 1 := by omega
        simp [hp, this]
    · simp [h]

/-- in a string of the escaped-token language every `;` `,` (and every `n` that stands for a line
    feed is not claimed here) is reached in the state "escaped" -/
theorem wellEscaped_delim_par (t : Str) (h : wellEscaped t = true) :
    ∀ pre c post, t = pre ++ c :: post → (c = ';' ∨ c = ',') → escPar false pre = true := by
  fun_induction wellEscaped t with
  | case1 => intro pre c post e; simp at e
  | case2 c0 =>
    intro pre c post e hc
    cases pre with
    | nil =>
      simp at e; obtain ⟨rfl, _⟩ := e
      rcases hc with rfl | rfl <;> simp at h
    | cons p ps => simp at e
  | case3 d cs ih =>
    simp only [Bool.and_eq_true] at h
    intro pre c post e hc
    cases pre with
    | nil =>
      simp at e; obtain ⟨rfl, _⟩ := e
      rcases hc with hc | hc <;> simp [BS] at hc
    | cons p ps =>
      cases ps with
      | nil => simp at e; obtain ⟨rfl, _, _⟩ := e; simp [escPar]
      | cons q qs =>
        simp at e
        obtain ⟨hp, hq, e⟩ := e
        have := ih h.2 qs c post e hc
        subst hp
        by_cases hq : q = BS <;> simpa [escPar, hq] using this
  | case4 c0 d cs hbs ih =>
    simp only [Bool.and_eq_true, bne_iff_ne, ne_eq] at h
    intro pre c post e hc
    cases pre with
    | nil =>
      simp at e; obtain ⟨rfl, _⟩ := e
      rcases hc with rfl | rfl
      · exact absurd rfl h.1.1.1
      · exact absurd rfl h.1.1.2
    | cons p ps =>
      simp at e
      obtain ⟨rfl, e⟩ := e
      have := ih h.2 ps c post e hc
      simpa [escPar, hbs] using this

/-- no adjacent pair `a b` -/
def noPair (a b : Char) : Str → Bool
  | [] => true
  | [_] => true
  | c :: d :: cs => !(c = a ∧ d = b) && noPair a b (d :: cs)

theorem rep2_noPair (a b : Char) (r : Str) (t : Str) (h : noPair a b t = true) : rep2 a b r t = t := by
  fun_induction noPair a b t with
  | case1 => simp [rep2]
  | case2 c => simp [rep2]
  | case3 c d cs ih =>
    simp only [Bool.and_eq_true, Bool.not_eq_true', decide_eq_false_iff_not] at h
    simp [rep2, h.1, ih h.2]

end ICal
