/-
  Equality of the regenerated bodies of alarms.py (ICal/Gen/BodiesAlarm.lean, tools/py2lean.py) with the
  hand model ICal/Model/Alarm.lean.  The translated code works on date/datetime OBJECTS (`Trig`); the
  acknowledgement and snooze times of the hand model are instants (`Int`, always UTC-aware datetimes
  in the source: `awareO` embeds them), its errors are `AErr` (`liftA` maps them to the Python
  exception classes).  `tools.to_datetime` is a function parameter, instantiated with the model's.
-/
import ICal.Gen.BodiesAlarm
set_option linter.unusedSimpArgs false
namespace ICal.Bodies
open ICal ICal.PyRT ICal.Alarms ICal.Gen.BodiesAlarm

/-- an optional UTC instant as an optional aware datetime object -/
def awareO (o : Option Int) : Option Trig := o.map Trig.aware

/-- a result of the hand model as a result of translated code -/
def liftA {α : Type} : Except AErr α → Py α
  | .ok v => .ok v
  | .error .localTimezoneMissing => .error .localTimezoneMissing
  | .error .componentStartMissing => .error .componentStartMissing
  | .error .componentEndMissing => .error .componentEndMissing

theorem AlarmTime_acknowledged_eq (a : AlarmTime) :
    AlarmTime_acknowledged (alarm_acknowledged := awareO a.alarm.acknowledged) (last_ack := awareO a.lastAck) = .ok (awareO a.acknowledged) := by
  simp only [AlarmTime_acknowledged, AlarmTime.acknowledged, awareO]
  cases a.alarm.acknowledged <;> cases a.lastAck <;>
    simp [optMax, pure, Except.pure, bind, Except.bind, dtMax, dtGt]
  rename_i x y
  by_cases h : y > x
  · have : max x y = y := by omega
    simp [h, this]
  · have : max x y = x := by omega
    simp [h, this]

theorem AlarmTime_trigger_eq (a : AlarmTime) :
    AlarmTime_trigger (snooze_until := awareO a.snooze) (trigger_raw := a.trig) (to_datetime := toDatetime) = liftA a.trigger := by
  simp only [AlarmTime_trigger, AlarmTime.trigger, awareO]
  cases a.snooze with
  | none => rfl
  | some s =>
    cases ht : toDatetime a.trig with
    | aware t =>
      by_cases h : s > t <;>
        simp [ht, h, tzinfoIsNone, dtGt, liftA, pure, Except.pure, bind, Except.bind]
    | floating w => simp [ht, tzinfoIsNone, liftA, bind, Except.bind, throw, throwThe, MonadExceptOf.throw]
    | date d =>
      exfalso
      cases hd : a.trig <;> simp [hd, toDatetime] at ht

theorem AlarmTime_is_active_eq (a : AlarmTime) :
    AlarmTime_is_active (alarm_acknowledged := awareO a.alarm.acknowledged) (last_ack := awareO a.lastAck) (snooze_until := awareO a.snooze)
        (trigger_raw := a.trig) (to_datetime := toDatetime) =
      liftA a.isActive := by
  simp only [AlarmTime_is_active, AlarmTime_acknowledged_eq, AlarmTime_trigger_eq, AlarmTime.isActive, bind, Except.bind]
  cases hack : a.acknowledged with
  | none => rfl
  | some ack =>
    have hdate : ∀ t d, toDatetime t ≠ Trig.date d := by
      intro t d h; cases t <;> simp [toDatetime] at h
    simp only [awareO, Option.map_some]
    cases hs : a.snooze with
    | none =>
      simp only [Option.map_none]
      cases htr : a.trigger with
      | error e => cases e <;> simp [liftA]
      | ok t =>
        cases ht : toDatetime t with
        | aware i => simp [liftA, ht, tzinfoIsNone, dtGt, pure, Except.pure]
        | floating w => simp [liftA, ht, tzinfoIsNone, throw, throwThe, MonadExceptOf.throw]
        | date d => exact absurd ht (hdate t d)
    | some s =>
      by_cases h : s > ack
      · simp [h, dtGt, liftA, pure, Except.pure]
      · simp only [Option.map_some, dtGt, h, decide_false, Bool.false_eq_true, if_false]
        cases htr : a.trigger with
        | error e => cases e <;> simp [liftA]
        | ok t =>
          cases ht : toDatetime t with
          | aware i => simp [liftA, ht, tzinfoIsNone, dtGt, pure, Except.pure]
          | floating w => simp [liftA, ht, tzinfoIsNone, throw, throwThe, MonadExceptOf.throw]
          | date d => exact absurd ht (hdate t d)

/-! ## tools.is_date / is_datetime, Alarms._add, Alarms._repeat, Alarms.active -/

theorem is_date_eq (t : Trig) : is_date t = t.isDate := by
  cases t <;> rfl

theorem is_datetime_eq (t : Trig) : is_datetime t = !t.isDate := rfl

/-- `normalize_pytz` is the identity on the model's values (aware arithmetic is exact elapsed time there) -/
theorem Alarms_add_eq (dt : Trig) (td : Int) : Alarms_add (dt := dt) (td := td) (to_datetime := toDatetime) (normalize_pytz := id) = add dt td := by
  have hm : pyMod td 86400 = td % 86400 := by simp [pyMod]
  cases dt with
  | aware i => simp [Alarms_add, is_date_eq, Trig.isDate, add]
  | floating w => simp [Alarms_add, is_date_eq, Trig.isDate, add]
  | date d =>
    simp only [Alarms_add, is_date_eq, Trig.isDate, add, hm, if_true, id]
    by_cases h : td % 86400 = 0 <;> simp [h]

theorem rangeUp_one (n : Nat) : ∀ k : Nat,
    rangeUp (((k + n : Nat)) : Int) 1 n (k : Int) = (List.range' k n).map (fun (i : Nat) => (i : Int)) := by
  induction n with
  | zero => intro k; simp [rangeUp]
  | succ m ih =>
    intro k
    have h : ((k : Int) < ((k + (m + 1) : Nat) : Int)) := by omega
    have e : ((k : Int) + 1) = ((k + 1 : Nat) : Int) := by push_cast; rfl
    have e2 : k + (m + 1) = (k + 1) + m := by omega
    simp only [rangeUp, h, if_true, e, List.range'_succ, List.map_cons]
    rw [e2, ih (k + 1)]

theorem pyRange_one_to (r : Int) :
    pyRange 1 (r + 1) 1 = .ok ((List.range' 1 r.toNat).map (fun (i : Nat) => (i : Int))) := by
  have h1 : ¬ ((1 : Int) = 0) := by decide
  have h2 : ((1 : Int) > 0) := by decide
  simp only [pyRange, h1, if_false, h2, if_true]
  have e : (r + 1 - 1).toNat = r.toNat := by omega
  rw [e]
  by_cases hr : 0 ≤ r
  · have e3 : r + 1 = ((1 + r.toNat : Nat) : Int) := by omega
    rw [e3]
    have := rangeUp_one r.toNat 1
    simpa using this
  · have e4 : r.toNat = 0 := by omega
    simp [e4, rangeUp]

theorem Alarms_repeat_loop (first : Trig) (d : Int) (l : List Int) : ∀ acc : List Trig,
    Alarms_repeat_loop1 (to_datetime := toDatetime) (normalize_pytz := id) first d acc l = .ok (acc ++ l.map (fun i => add first (d * i))) := by
  induction l with
  | nil => intro acc; simp [Alarms_repeat_loop1, pure, Except.pure]
  | cons i rest ih => intro acc; simp only [Alarms_repeat_loop1, Alarms_add_eq]; rw [ih]; simp

theorem Alarms_repeat_eq (first : Trig) (a : VAlarm) :
    Alarms_repeat (first := first) (alarm_repeat := a.rep) (alarm_duration := a.duration) (to_datetime := toDatetime) (normalize_pytz := id) = .ok (repeatTimes first a) := by
  simp only [Alarms_repeat, repeatTimes, Truthy.truthy]
  by_cases hr : a.rep = 0
  · cases a.duration <;> simp [hr, pure, Except.pure, bind, Except.bind]
  · have hb : (a.rep != 0) = true := by simp [hr]
    cases hd : a.duration with
    | none => simp [hb, pure, Except.pure, bind, Except.bind]
    | some d =>
      simp only [hb, if_true, pyRange_one_to, Alarms_repeat_loop, bind, Except.bind, pure, Except.pure, hr, ne_eq,
        not_false_eq_true]
      simp [List.map_map, Function.comp_def]

theorem Alarms_active_eq (ts : List AlarmTime) :
    Alarms_active ts (fun x => liftA x.isActive) = liftA (filterE AlarmTime.isActive ts) := by
  simp only [Alarms_active, bind, Except.bind, pure, Except.pure]
  have : pyFilterM (fun x => liftA x.isActive) ts = liftA (filterE AlarmTime.isActive ts) := by
    induction ts with
    | nil => rfl
    | cons x xs ih =>
      simp only [pyFilterM, filterE, ih]
      cases hx : x.isActive with
      | error e => cases e <;> rfl
      | ok b =>
        cases hf : filterE AlarmTime.isActive xs with
        | error e => cases e <;> rfl
        | ok r => rfl
  rw [this]

end ICal.Bodies
