/-
  Equality of the regenerated `Calendar.timezones` / `get_used_tzids` / `get_missing_tzids` / `add_missing_timezones`
  (ICal/Gen/BodiesTzUse.lean, tools/py2lean.py wave 8: a Python `set` built by `add` / `update` over the pairs of
  `property_items(sorted=False)`, `- {None}`, `discard` over `self.timezones`, `for .. in sorted(..)` with
  `try .. except ValueError: continue`, a method that changes `self`) with the hand model of ICal/Model/TzUse.lean.

  A Python set has no order: the regenerated bodies return duplicate-free lists in insertion order and the theorems
  compare them SORTED (`sortStr`) with the model, which is sorted by construction - the statement does not depend on
  the iteration order Python leaves unspecified.  `property_items` and `walk` are the regenerated bodies of
  Gen/BodiesSer.lean / Gen/BodiesWalk.lean, proved equal to their models in Lemmas/BodiesSer.lean / BodiesWalk.lean.
-/
import ICal.Model.TzUsePieces
import ICal.Lemmas.BodiesSer
import ICal.Lemmas.BodiesWalk
import ICal.Lemmas.TzUse
import ICal.Lemmas.CompEq
import ICal.Lemmas.PySorted
set_option linter.unusedSimpArgs false
set_option linter.unusedVariables false
namespace ICal.Bodies
open ICal ICal.PyRT ICal.Gen.BodiesTzUse

/-! ### sets as duplicate-free lists -/

theorem mem_setAdd {α : Type} [BEq α] [LawfulBEq α] (s : List α) (x y : α) : y ∈ setAdd s x ↔ y ∈ s ∨ y = x := by
  by_cases hx : x ∈ s
  · have h : s.contains x = true := by simpa using hx
    simp only [setAdd, h, if_true]
    constructor
    · exact Or.inl
    · rintro (h | rfl)
      · exact h
      · exact hx
  · simp [setAdd, hx]

theorem nodup_setAdd {α : Type} [BEq α] [LawfulBEq α] (s : List α) (x : α) (hs : s.Nodup) : (setAdd s x).Nodup := by
  by_cases hx : x ∈ s
  · have h : s.contains x = true := by simpa using hx
    simpa only [setAdd, h, if_true] using hs
  · have h : s.contains x = false := by simpa using hx
    simp only [setAdd, h, if_false, Bool.false_eq_true]
    exact List.nodup_append.2 ⟨hs, by simp, by intro a ha b hb; simp at hb; subst hb; intro e; subst e; exact hx ha⟩

theorem mem_setUpdate {α : Type} [BEq α] [LawfulBEq α] : ∀ (xs s : List α) (y : α), y ∈ setUpdate s xs ↔ y ∈ s ∨ y ∈ xs
  | [], s, y => by simp [setUpdate]
  | x :: xs, s, y => by
    have ih := mem_setUpdate xs (setAdd s x) y
    simp only [setUpdate, List.foldl_cons] at ih ⊢
    rw [ih, mem_setAdd]
    simp only [List.mem_cons]
    constructor
    · rintro ((h | h) | h)
      · exact Or.inl h
      · exact Or.inr (Or.inl h)
      · exact Or.inr (Or.inr h)
    · rintro (h | h | h)
      · exact Or.inl (Or.inl h)
      · exact Or.inl (Or.inr h)
      · exact Or.inr h

theorem nodup_setUpdate {α : Type} [BEq α] [LawfulBEq α] : ∀ (xs s : List α), s.Nodup → (setUpdate s xs).Nodup
  | [], s, h => by simpa [setUpdate] using h
  | x :: xs, s, h => by
    have ih := nodup_setUpdate xs (setAdd s x) (nodup_setAdd s x h)
    simpa only [setUpdate, List.foldl_cons] using ih

theorem mem_setDropNone {α : Type} (s : List (Option α)) (k : α) : k ∈ setDropNone s ↔ some k ∈ s := by
  simp [setDropNone, List.mem_filterMap]

theorem nodup_setDropNone {α : Type} : ∀ (s : List (Option α)), s.Nodup → (setDropNone s).Nodup
  | [], _ => by simp [setDropNone]
  | none :: s, h => by
    have := nodup_setDropNone s (List.nodup_cons.1 h).2
    simpa [setDropNone] using this
  | some a :: s, h => by
    have ih := nodup_setDropNone s (List.nodup_cons.1 h).2
    have ha : some a ∉ s := (List.nodup_cons.1 h).1
    simp only [setDropNone, List.filterMap_cons, id] at ih ⊢
    exact List.nodup_cons.2 ⟨fun hm => ha ((mem_setDropNone s a).1 (by simpa [setDropNone] using hm)), ih⟩

theorem setDiscard_eq (s : List Str) (x : Str) : setDiscard s x = s.filter (fun y => !(y == x)) := rfl

/-! ### get_used_tzids -/

/-- what one pair of `property_items` contributes -/
def itemTzids : PyItem → List Str
  | (_, .obj v) => valTzids v
  | _ => []

/-- one iteration of the loop of `get_used_tzids` -/
def stepU (acc : List (Option Str)) (it : PyItem) : List (Option Str) :=
  if hasParamsP it.2 then
    match tzidParamP it.2 with
    | .many l => setUpdate acc (l.map some)
    | .one o => setAdd acc o
  else acc

theorem used_loop_eq : ∀ (items : List PyItem) (acc : List (Option Str)),
    Calendar_get_used_tzids_loop1 nameToIcalP sortedKeysP keysP getitemP hasParamsP tzidParamP acc items =
      .ok (items.foldl stepU acc)
  | [], acc => by simp [Calendar_get_used_tzids_loop1, pure, Except.pure]
  | it :: rest, acc => by
    simp only [Calendar_get_used_tzids_loop1, List.foldl_cons, stepU]
    by_cases h : hasParamsP it.2 = true
    · simp only [h, if_true]
      cases tzidParamP it.2 <;> simp only [used_loop_eq rest]
    · simp only [h, if_false, Bool.false_eq_true, used_loop_eq rest]

theorem mem_stepU (acc : List (Option Str)) (it : PyItem) (k : Str) :
    some k ∈ stepU acc it ↔ some k ∈ acc ∨ k ∈ itemTzids it := by
  obtain ⟨n, iv⟩ := it
  cases iv with
  | bytes b => simp [stepU, hasParamsP, itemTzids]
  | list vs => simp [stepU, hasParamsP, itemTzids]
  | obj v =>
    simp only [stepU, hasParamsP, if_true, tzidParamP, itemTzids, valTzids]
    cases h : v.params.get? TZID with
    | none => simp [mem_setAdd]
    | some pv =>
      cases pv with
      | one s => simp [mem_setAdd, eq_comm]
      | many l => simp [mem_setUpdate]

theorem nodup_stepU (acc : List (Option Str)) (it : PyItem) (h : acc.Nodup) : (stepU acc it).Nodup := by
  unfold stepU
  split
  · split
    · exact nodup_setUpdate _ _ h
    · exact nodup_setAdd _ _ h
  · exact h

theorem mem_foldl_stepU : ∀ (items : List PyItem) (acc : List (Option Str)) (k : Str),
    some k ∈ items.foldl stepU acc ↔ some k ∈ acc ∨ k ∈ items.flatMap itemTzids
  | [], acc, k => by simp
  | it :: rest, acc, k => by
    simp only [List.foldl_cons, List.flatMap_cons, List.mem_append]
    rw [mem_foldl_stepU rest, mem_stepU, or_assoc]

theorem nodup_foldl_stepU : ∀ (items : List PyItem) (acc : List (Option Str)), acc.Nodup → (items.foldl stepU acc).Nodup
  | [], acc, h => by simpa using h
  | it :: rest, acc, h => by
    simp only [List.foldl_cons]
    exact nodup_foldl_stepU rest _ (nodup_stepU acc it h)

/-- the TZID parameters found on the pairs of the entries, keys distinct: those of the entries -/
theorem mem_props_items (props : List Entry) (hd : keysDistinct props) (k : Str) :
    k ∈ ((props.map (·.name)).flatMap (entryPyItems props)).flatMap itemTzids ↔ k ∈ propsTzids props := by
  simp only [List.mem_flatMap, List.mem_map, propsTzids, entryTzids]
  constructor
  · rintro ⟨it, ⟨n, ⟨e, he, rfl⟩, hit⟩, hk⟩
    rw [entryPyItems, find_of_distinct props hd e he] at hit
    simp only [List.mem_map] at hit
    obtain ⟨v, hv, rfl⟩ := hit
    exact ⟨e, he, v, hv, hk⟩
  · rintro ⟨e, he, v, hv, hk⟩
    refine ⟨(e.name, PyIV.obj v), ⟨e.name, ⟨e, he, rfl⟩, ?_⟩, hk⟩
    rw [entryPyItems, find_of_distinct props hd e he]
    exact List.mem_map.2 ⟨v, hv, rfl⟩

mutual
theorem mem_pyItems_tzids (k : Str) : ∀ (t : Comp), t.WF →
    (k ∈ (pyItems false t).flatMap itemTzids ↔ k ∈ rawTzids t)
  | .mk name props subs, hw => by
    have hp := mem_props_items props hw.1 k
    have hs := mem_pyItemsL_tzids k subs hw.2
    simp only [pyItems, rawTzids, propNames, List.flatMap_cons, List.flatMap_append, List.mem_append, itemTzids,
      List.flatMap_nil, List.not_mem_nil, false_or, or_false, Bool.false_eq_true, if_false, List.flatMap_singleton] at hp hs ⊢
    rw [hp, hs]
theorem mem_pyItemsL_tzids (k : Str) : ∀ (cs : List Comp), Comp.WFL cs →
    (k ∈ (pyItemsL false cs).flatMap itemTzids ↔ k ∈ rawTzidsL cs)
  | [], _ => by simp [pyItemsL, rawTzidsL]
  | c :: cs, hw => by
    simp only [pyItemsL, rawTzidsL, List.flatMap_append, List.mem_append, mem_pyItems_tzids k c hw.1,
      mem_pyItemsL_tzids k cs hw.2]
end

/-- the duplicate-free list the regenerated `get_used_tzids` returns -/
def usedList (t : Comp) : List Str := setDropNone ((pyItems false t).foldl stepU [])

theorem usedTzidsP_eq (t : Comp) : usedTzidsP t = .ok (usedList t) := by
  obtain ⟨n, p, subs⟩ := t
  simp only [usedTzidsP, Calendar_get_used_tzids, property_items_eq false (.mk n p subs), used_loop_eq, bind, Except.bind,
    pure, Except.pure, usedList]

theorem usedList_nodup (t : Comp) : (usedList t).Nodup :=
  nodup_setDropNone _ (nodup_foldl_stepU _ _ List.nodup_nil)

theorem mem_usedList (t : Comp) (hw : t.WF) (k : Str) : k ∈ usedList t ↔ k ∈ usedTzids t := by
  rw [usedList, mem_setDropNone, mem_foldl_stepU, mem_pyItems_tzids k t hw, usedTzids, mem_toSet]
  simp

theorem sort_usedList (t : Comp) (hw : t.WF) : sortStr (usedList t) = usedTzids t := by
  rw [sortStr_congr (usedList t) (usedTzids t) (usedList_nodup t) (toSet_nodup _) (mem_usedList t hw)]
  exact sortStr_toSet _

/-! ### timezones, get_missing_tzids -/

theorem timezones_eq (t : Comp) : Calendar_timezones t = timezones t := by
  obtain ⟨n, p, subs⟩ := t
  simp only [Calendar_timezones, Component_walk_eq, timezones]
  rfl

/-- what the loop of `get_missing_tzids` discards: the names of the VTIMEZONEs that have a TZID -/
def discarded (cs : List Comp) : List Str := (cs.filter hasTzidP).map (fun c => (tzName? c).getD [])

theorem missing_loop_eq : ∀ (cs : List Comp) (acc : List Str),
    Calendar_get_missing_tzids_loop1 nameToIcalP sortedKeysP keysP getitemP hasParamsP tzidParamP hasTzidP tzNameP acc cs =
      .ok (acc.filter (fun k => !(discarded cs).contains k))
  | [], acc => by
    have : acc.filter (fun _ => true) = acc := List.filter_eq_self.2 (fun _ _ => rfl)
    simp [Calendar_get_missing_tzids_loop1, discarded, pure, Except.pure, this]
  | c :: rest, acc => by
    simp only [Calendar_get_missing_tzids_loop1]
    by_cases h : hasTzidP c = true
    · have hn : tzNameP c = .ok ((tzName? c).getD []) := by
        unfold tzNameP; unfold hasTzidP at h
        cases hf : c.props.find? (fun e => e.name == TZID) with
        | none => simp [hf] at h
        | some e => rfl
      simp only [h, if_true, hn, bind, Except.bind, pure, Except.pure]
      rw [missing_loop_eq rest]
      congr 1
      simp only [discarded, List.filter_cons, h, if_true, List.map_cons, setDiscard_eq, List.filter_filter]
      apply List.filter_congr
      intro k _
      simp only [List.contains_cons, Bool.not_or, Bool.and_comm]
    · simp only [h, if_false, Bool.false_eq_true, bind, Except.bind, pure, Except.pure]
      rw [missing_loop_eq rest]
      simp [discarded, List.filter_cons, h]

/-- inside the model's domain the discarded names are the model's `tzNames` -/
theorem discarded_eq (t : Comp) (hd : tzDomainP t = true) : discarded (timezones t) = tzNames t := by
  unfold tzDomainP at hd
  unfold discarded tzNames
  generalize timezones t = cs at hd
  induction cs with
  | nil => rfl
  | cons c rest ih =>
    simp only [List.all_cons, Bool.and_eq_true] at hd
    have ih' := ih hd.2
    by_cases h : hasTzidP c = true
    · have hs : (tzName? c).isSome = true := by simpa [h] using hd.1
      obtain ⟨s, hs'⟩ := Option.isSome_iff_exists.1 hs
      simp only [List.filter_cons, h, if_true, List.map_cons, List.filterMap_cons, hs', Option.getD_some, ih']
    · have hn : tzName? c = none := by
        unfold hasTzidP at h
        unfold tzName?
        cases hf : c.props.find? (fun e => e.name == TZID) with
        | none => rfl
        | some e => simp [hf] at h
      simp only [List.filter_cons, h, if_false, Bool.false_eq_true, List.filterMap_cons, hn, ih']

/-- the duplicate-free list the regenerated `get_missing_tzids` returns -/
def missingList (t : Comp) : List Str := (usedList t).filter (fun k => !(discarded (timezones t)).contains k)

theorem missingTzidsP_eq (t : Comp) : missingTzidsP t = .ok (missingList t) := by
  have hu := usedTzidsP_eq t
  obtain ⟨n, p, subs⟩ := t
  simp only [usedTzidsP] at hu
  simp only [missingTzidsP, Calendar_get_missing_tzids, hu, timezones_eq, missing_loop_eq, bind, Except.bind, pure,
    Except.pure, missingList]

theorem missingList_nodup (t : Comp) : (missingList t).Nodup := (usedList_nodup t).sublist List.filter_sublist

theorem sort_missingList (t : Comp) (hw : t.WF) (hd : tzDomainP t = true) : sortStr (missingList t) = missingTzids t := by
  have hm : ∀ k, k ∈ missingList t ↔ k ∈ missingTzids t := by
    intro k
    simp only [missingList, missingTzids, List.mem_filter, mem_usedList t hw, discarded_eq t hd]
  rw [sortStr_congr _ _ (missingList_nodup t) (missingTzids_nodup t) hm]
  exact sortStr_filter_toSet _ _

/-! ### add_missing_timezones -/

theorem add_loop_eq (knows : Str → Bool) : ∀ (ks : List Str) (n : Str) (p : List Entry) (subs : List Comp),
    Calendar_add_missing_timezones_loop1 (DT := Unit) nameToIcalP sortedKeysP keysP getitemP hasParamsP tzidParamP hasTzidP tzNameP
      (fromTzidP knows) tzAddComponentP () () (.mk n p subs) ks = .ok (.mk n p (subs ++ (ks.filter knows).map genTz))
  | [], n, p, subs => by simp [Calendar_add_missing_timezones_loop1, pure, Except.pure]
  | k :: rest, n, p, subs => by
    simp only [Calendar_add_missing_timezones_loop1, fromTzidP]
    by_cases h : knows k = true
    · simp only [h, if_true, bind, Except.bind, pure, Except.pure, tzAddComponentP]
      rw [add_loop_eq knows rest]
      simp [List.filter_cons, h]
    · simp only [h, if_false, Bool.false_eq_true, bind, Except.bind, pure, Except.pure]
      have hc : caught valueErrors Exc.valueError = true := by decide
      simp only [hc, if_true]
      rw [add_loop_eq knows rest]
      simp [List.filter_cons, h]

theorem addMissingP_eq (knows : Str → Bool) (t : Comp) (hw : t.WF) (hd : tzDomainP t = true) :
    addMissingP knows t = .ok (addMissing knows t) := by
  have hm := missingTzidsP_eq t
  have hs := sort_missingList t hw hd
  obtain ⟨n, p, subs⟩ := t
  simp only [missingTzidsP] at hm
  simp only [addMissingP, Calendar_add_missing_timezones, hm, bind, Except.bind, pure, Except.pure, pySortedStr_eq, hs,
    add_loop_eq, addMissing]

end ICal.Bodies
