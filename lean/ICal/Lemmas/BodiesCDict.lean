/-
  Equality of the regenerated delegating methods of `CaselessDict` (ICal/Gen/BodiesCDict.lean,
  tools/py2lean.py: `key = to_unicode(key); [return] super().<m>(key.upper(), ..)`) with the steps of the
  hand model ICal/Model/CDict.lean.  `super().<m>` is a parameter of each translated method; here it is
  given the corresponding step of the plain ordered dict (`od*` of the model; for `setdefault` the
  `OrderedDict.setdefault` that goes back through the subclass methods).  The model's key folding `up`
  is `to_unicode` followed by the translated `.upper()`: `fun k => upper (tu k)` for any `tu`.
-/
import ICal.Gen.BodiesCDict
set_option linter.unusedSimpArgs false
namespace ICal.Bodies
open ICal ICal.CDict ICal.Gen.BodiesCDict

variable {V : Type} [DecidableEq V]

/-- the model's key folding for a given `to_unicode` -/
def upOf (tu : Str → Str) : Str → Str := fun k => upper (tu k)

def sGetitem (s : Store V) (k : Str) : Store V × Out V := (s, outGetitem s k)
def sSetitem (s : Store V) (k : Str) (v : V) : Store V × Out V := (odSet s k v, .none)
def sDelitem (s : Store V) (k : Str) : Store V × Out V := if odHas s k then (odErase s k, .none) else (s, .err .KeyError)
def sContains (s : Store V) (k : Str) : Store V × Out V := (s, .bool (odHas s k))
def sGet (s : Store V) (k : Str) (d : Option V) : Store V × Out V := (s, outGet s k d)
/-- `OrderedDict.setdefault(self, K, v)` on a CaselessDict: through the subclass `__contains__` / `__getitem__` / `__setitem__` -/
def sSetdefault (up : Str → Str) (s : Store V) (K : Str) (v : V) : Store V × Out V :=
  if cdContains up s K then (s, cdGetitem up s K) else (cdSetitem up s K v, .val v)
def sPop (s : Store V) (k : Str) (d : Option V) : Store V × Out V :=
  match odGet s k with
  | some v => (odErase s k, .val v)
  | none => (s, match d with | some d => .val d | none => .none)
def sMoveToEnd (s : Store V) (k : Str) (last : Bool) : Store V × Out V :=
  match odMoveToEnd s k last with
  | some s' => (s', .none)
  | none => (s, .err .KeyError)

theorem cd_getitem_eq (tu : Str → Str) (s : Store V) (k : Str) :
    cd_getitem tu sGetitem s k = step (upOf tu) s (.getitem k) := rfl

theorem cd_setitem_eq (tu : Str → Str) (s : Store V) (k : Str) (v : V) :
    cd_setitem tu sSetitem s k v = step (upOf tu) s (.setitem k v) := rfl

theorem cd_delitem_eq (tu : Str → Str) (s : Store V) (k : Str) :
    cd_delitem tu sDelitem s k = step (upOf tu) s (.delitem k) := by
  simp only [cd_delitem, sDelitem, step, cdDelitem, upOf, dropResult]
  by_cases h : odHas s (upper (tu k)) = true <;> simp [h]

theorem cd_contains_eq (tu : Str → Str) (s : Store V) (k : Str) :
    cd_contains tu sContains s k = step (upOf tu) s (.contains k) := rfl

theorem cd_has_key_eq (tu : Str → Str) (s : Store V) (k : Str) :
    cd_has_key tu sContains s k = step (upOf tu) s (.hasKey k) := rfl

theorem cd_get_eq (tu : Str → Str) (s : Store V) (k : Str) (d : Option V) :
    cd_get tu sGet s k d = step (upOf tu) s (.get k d) := rfl

theorem cd_setdefault_eq (tu : Str → Str) (s : Store V) (k : Str) (v : V) :
    cd_setdefault tu (sSetdefault (upOf tu)) s k v = step (upOf tu) s (.setdefault k v) := rfl

theorem cd_pop_eq (tu : Str → Str) (s : Store V) (k : Str) (d : Option V) :
    cd_pop tu sPop s k d = step (upOf tu) s (.pop k d) := by
  simp only [cd_pop, sPop, step, cdPop, upOf]
  cases odGet s (upper (tu k)) <;> cases d <;> rfl

theorem cd_popitem_eq (tu : Str → Str) (s : Store V) :
    cd_popitem cdPopitem s = step (upOf tu) s .popitem := rfl

theorem cd_move_to_end_eq (tu : Str → Str) (s : Store V) (k : Str) (last : Bool) :
    cd_move_to_end tu sMoveToEnd s k last = step (upOf tu) s (.moveToEnd k last) := by
  simp only [cd_move_to_end, sMoveToEnd, step, upOf, dropResult]
  cases odMoveToEnd s (upper (tu k)) last <;> rfl

/-- the defaults of the keyword parameters, read from the signatures: `get(key, default=None)`,
    `pop(key, default=None)` (`None` = "no default given" of the model), `move_to_end(key, last=True)` -/
theorem cd_defaults : cd_get_default_default = none ∧ cd_pop_default_default = none ∧ cd_move_to_end_default_last = true :=
  ⟨rfl, rfl, rfl⟩

end ICal.Bodies
