/-
  Equality of the regenerated `parser.split_on_unescaped_comma` (ICal/Gen/BodiesText.lean, tools/py2lean.py:
  a `for` loop with a string builder, a result list and an `escaped` flag) with the hand model
  `splitUnescComma` of ICal/Model/Text.lean (a scanner with one character of look-ahead).
-/
import ICal.Gen.BodiesText
import ICal.Model.Text
set_option linter.unusedSimpArgs false
namespace ICal.Bodies
open ICal ICal.PyRT ICal.Gen.BodiesText

/-- `item` is the text collected so far for the item that the head of `rest` continues -/
def prependHead (item : Str) : List Str → List Str
  | [] => [item]
  | hd :: tl => (item ++ hd) :: tl

/-- what `split_on_unescaped_comma` makes of the final state of its loop -/
def splitFinish (r : Str × Bool × List Str) : List Str := r.2.2 ++ [r.1]

theorem splitUnescComma_ne_nil : ∀ (l : Str), splitUnescComma l ≠ [] := by
  intro l
  fun_induction splitUnescComma l <;> simp_all
  all_goals (split <;> simp)

theorem step_comma (item : Str) (res : List Str) (rest : Str) :
    split_on_unescaped_comma_loop1 item false res (',' :: rest) =
      split_on_unescaped_comma_loop1 [] false (res ++ [item]) rest := by
  have hb : (',' == '\\') = false := by decide
  simp [split_on_unescaped_comma_loop1, hb]

theorem step_plain (c : Char) (h1 : c ≠ '\\') (h2 : c ≠ ',') (item : Str) (res : List Str) (rest : Str) :
    split_on_unescaped_comma_loop1 item false res (c :: rest) =
      split_on_unescaped_comma_loop1 (item ++ [c]) false res rest := by
  simp [split_on_unescaped_comma_loop1, h1, h2]

theorem step_bs (item : Str) (res : List Str) (rest : Str) :
    split_on_unescaped_comma_loop1 item false res ('\\' :: rest) =
      split_on_unescaped_comma_loop1 (item ++ ['\\']) true res rest := by
  simp [split_on_unescaped_comma_loop1]

theorem step_esc (d : Char) (item : Str) (res : List Str) (rest : Str) :
    split_on_unescaped_comma_loop1 item true res (d :: rest) =
      split_on_unescaped_comma_loop1 (item ++ [d]) false res rest := by
  simp [split_on_unescaped_comma_loop1]

theorem split_loop : ∀ (n : Nat) (l : Str), l.length ≤ n → ∀ (item : Str) (res : List Str),
    splitFinish (split_on_unescaped_comma_loop1 item false res l) = res ++ prependHead item (splitUnescComma l) := by
  intro n
  induction n using Nat.strongRecOn with
  | _ n ih =>
    intro l hl item res
    match l, hl with
    | [], _ => simp [split_on_unescaped_comma_loop1, splitFinish, splitUnescComma, prependHead]
    | [c], _ =>
      by_cases h1 : c = '\\'
      · subst h1
        simp [split_on_unescaped_comma_loop1, splitFinish, splitUnescComma, prependHead]
      · by_cases h2 : c = ','
        · subst h2
          simp [split_on_unescaped_comma_loop1, splitFinish, splitUnescComma, prependHead]
        · simp [split_on_unescaped_comma_loop1, splitFinish, splitUnescComma, prependHead, h1, h2]
    | c :: d :: cs, hl =>
      have hl2 : cs.length < n := by simp at hl; omega
      have hl1 : (d :: cs).length < n := by simp at hl ⊢; omega
      by_cases h1 : c = '\\'
      · subst h1
        rw [step_bs, step_esc, ih _ hl2 cs (Nat.le_refl _)]
        simp only [splitUnescComma, BS, if_true]
        cases hs : splitUnescComma cs with
        | nil => exact absurd hs (splitUnescComma_ne_nil cs)
        | cons hd tl => simp [prependHead]
      · have h1' : ¬ c = BS := h1
        by_cases h2 : c = ','
        · subst h2
          rw [step_comma, ih _ hl1 (d :: cs) (Nat.le_refl _)]
          simp only [splitUnescComma, h1', if_false, if_true]
          cases hs : splitUnescComma (d :: cs) with
          | nil => exact absurd hs (splitUnescComma_ne_nil _)
          | cons hd tl => simp [prependHead]
        · rw [step_plain c h1 h2, ih _ hl1 (d :: cs) (Nat.le_refl _)]
          simp only [splitUnescComma, h1', h2, if_false]
          cases hs : splitUnescComma (d :: cs) with
          | nil => exact absurd hs (splitUnescComma_ne_nil _)
          | cons hd tl => simp [prependHead]

theorem split_on_unescaped_comma_eq (text : Str) : split_on_unescaped_comma text = splitUnescComma text := by
  have := split_loop text.length text (Nat.le_refl _) [] []
  simp only [splitFinish, List.nil_append] at this
  simp only [split_on_unescaped_comma]
  rw [this]
  cases hs : splitUnescComma text with
  | nil => exact absurd hs (splitUnescComma_ne_nil _)
  | cons hd tl => simp [prependHead]

end ICal.Bodies
