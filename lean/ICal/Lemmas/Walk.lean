/-
  Helper lemmas for C20: traversal.
-/
import ICal.Model.Walk
namespace ICal

/-! ### walk = filtered pre-order -/

/-- the test `_walk` applies to each component -/
def walkTest (name? : Option Str) (sel : Comp → Bool) (c : Comp) : Bool :=
  (match name? with | none => true | some k => c.name == k) && sel c

mutual
theorem walkAux_filter (name? : Option Str) (sel : Comp → Bool) :
    ∀ c, walkAux name? sel c = (preorder c).filter (walkTest name? sel)
  | .mk n p subs => by
    simp only [walkAux, preorder, List.filter_cons, walkAuxL_filter name? sel subs, walkTest, Comp.name]
    split <;> simp <;> split <;> simp
theorem walkAuxL_filter (name? : Option Str) (sel : Comp → Bool) :
    ∀ cs, walkAuxL name? sel cs = (preorderL cs).filter (walkTest name? sel)
  | [] => by simp [walkAuxL, preorderL]
  | c :: cs => by
    simp only [walkAuxL, preorderL, List.filter_append, walkAux_filter name? sel c, walkAuxL_filter name? sel cs]
end

mutual
theorem preorder_length : ∀ c, (preorder c).length = size c
  | .mk n p subs => by simp [preorder, size, preorderL_length subs]; omega
theorem preorderL_length : ∀ cs, (preorderL cs).length = sizeL cs
  | [] => by simp [preorderL, sizeL]
  | c :: cs => by simp [preorderL, sizeL, preorder_length c, preorderL_length cs]
end

theorem preorderL_flatMap : ∀ cs, preorderL cs = cs.flatMap preorder
  | [] => by simp [preorderL]
  | c :: cs => by simp [preorderL, preorderL_flatMap cs]

theorem preorder_eq (n : Str) (p : List Entry) (subs : List Comp) :
    preorder (.mk n p subs) = .mk n p subs :: subs.flatMap preorder := by
  rw [preorder, preorderL_flatMap]

/-! ### positions -/

theorem compAt_nil (c : Comp) : compAt c [] = some c := by
  cases c; simp [compAt]

theorem compAt_cons (n : Str) (p : List Entry) (subs : List Comp) (i : Nat) (rest : List Nat) :
    compAt (.mk n p subs) (i :: rest) = (subs[i]?).bind (fun c => compAt c rest) := by
  rw [compAt]; cases subs[i]? <;> simp

mutual
theorem positions_preorder : ∀ c, (positions c).map (compAt c) = (preorder c).map some
  | .mk n p subs => by
    simp only [positions, preorder, List.map_cons, compAt_nil]
    congr 1
    have h := positionsL_preorder n p subs []
    simpa using h
theorem positionsL_preorder (n : Str) (p : List Entry) : ∀ (cs pre : List Comp),
    (positionsL pre.length cs).map (compAt (.mk n p (pre ++ cs))) = (preorderL cs).map some
  | [], _ => by simp [positionsL, preorderL]
  | c :: cs, pre => by
    simp only [positionsL, preorderL, List.map_append, List.map_map]
    congr 1
    · rw [← positions_preorder c]
      apply List.map_congr_left
      intro path _
      simp [compAt_cons]
    · have h := positionsL_preorder n p cs (pre ++ [c])
      simpa using h
end

theorem positionsL_head (cs : List Comp) : ∀ (i : Nat) (path : List Nat), path ∈ positionsL i cs →
    ∃ j rest, path = j :: rest ∧ i ≤ j := by
  induction cs with
  | nil => intro i path h; simp [positionsL] at h
  | cons c cs ih =>
    intro i path h
    simp only [positionsL, List.mem_append, List.mem_map] at h
    rcases h with ⟨q, _, rfl⟩ | h
    · exact ⟨i, q, rfl, Nat.le_refl _⟩
    · obtain ⟨j, rest, e, hj⟩ := ih (i + 1) path h
      exact ⟨j, rest, e, by omega⟩

mutual
theorem positions_nodup : ∀ c, (positions c).Nodup
  | .mk n p subs => by
    simp only [positions, List.nodup_cons]
    refine ⟨?_, positionsL_nodup subs 0⟩
    intro h
    obtain ⟨j, rest, e, _⟩ := positionsL_head subs 0 [] h
    cases e
theorem positionsL_nodup : ∀ (cs : List Comp) (i : Nat), (positionsL i cs).Nodup
  | [], _ => by simp [positionsL]
  | c :: cs, i => by
    simp only [positionsL]
    rw [List.nodup_append]
    refine ⟨?_, positionsL_nodup cs (i + 1), ?_⟩
    · exact List.Pairwise.map _ (fun a b h => by simpa using h) (positions_nodup c)
    · intro a ha b hb hab
      subst hab
      simp only [List.mem_map] at ha
      obtain ⟨q, _, rfl⟩ := ha
      obtain ⟨j, rest, e, hj⟩ := positionsL_head cs (i + 1) _ hb
      simp at e
      omega
end

mutual
theorem positions_complete : ∀ (c : Comp) (path : List Nat) (d : Comp),
    compAt c path = some d → path ∈ positions c
  | .mk n p subs, [], _, _ => by simp [positions]
  | .mk n p subs, i :: rest, d, h => by
    simp only [positions, List.mem_cons, reduceCtorEq, false_or]
    rw [compAt_cons] at h
    have := positionsL_complete subs 0 i rest d (by simpa using h)
    simpa using this
theorem positionsL_complete : ∀ (cs : List Comp) (k i : Nat) (rest : List Nat) (d : Comp),
    (cs[i]?).bind (fun c => compAt c rest) = some d → (k + i) :: rest ∈ positionsL k cs
  | [], _, _, _, _, h => by simp at h
  | c :: cs, k, 0, rest, d, h => by
    simp only [positionsL, List.mem_append, List.mem_map]
    left
    exact ⟨rest, positions_complete c rest d (by simpa using h), by simp⟩
  | c :: cs, k, i + 1, rest, d, h => by
    simp only [positionsL, List.mem_append]
    right
    have := positionsL_complete cs (k + 1) i rest d (by simpa using h)
    have e : k + 1 + i = k + (i + 1) := by omega
    rw [e] at this
    exact this
end

end ICal
