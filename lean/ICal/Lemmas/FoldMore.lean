/-
  More lemmas for folding (C06, clause pass round 10): short lines are not folded; the physical
  lines of a whole serialised component (`Contentlines.to_ical`) at the octet level.
-/
import ICal.Lemmas.FoldBytes
import ICal.Lemmas.FoldLines
namespace ICal

/-- the per-character path leaves a line alone while the octet budget is not reached -/
theorem foldUni_short (limit : Nat) (sep : Str) (l : Str) :
    ∀ cnt, cnt + octets l < limit → foldUni limit sep cnt l = l := by
  induction l with
  | nil => intro cnt _; simp [foldUni]
  | cons c cs ih =>
    intro cnt h
    rw [octets_cons] at h
    have h1 : ¬ (cnt + w c ≥ limit) := by omega
    simp only [foldUni, h1, if_false]
    rw [ih (cnt + w c) (by omega)]

theorem chunks_short (n : Nat) (l : Str) (hne : l ≠ []) (h : l.length ≤ n) : chunks n l = [l] := by
  have hn : n ≠ 0 := by
    intro e; subst e
    exact hne (List.eq_nil_of_length_eq_zero (by omega))
  rw [chunks.eq_1]
  have h0 : ¬ (n = 0 ∨ l = []) := by simp [hn, hne]
  rw [dif_neg h0, List.take_of_length_le h, List.drop_eq_nil_of_le h, chunks.eq_1]
  simp

/-- the last piece of an octet string, and what a following CR LF does to the split -/
theorem splitCRLF_app (a t : List UInt8) :
    ∃ init last, splitCRLF a = init ++ [last] ∧
      splitCRLF (a ++ 13 :: 10 :: t) = init ++ last :: splitCRLF t := by
  fun_induction splitCRLF a with
  | case1 => exact ⟨[], [], rfl, by simp [splitCRLF]⟩
  | case2 b => exact ⟨[], [b], rfl, by simp [splitCRLF]⟩
  | case3 b c bs h ih =>
    obtain ⟨init, last, h1, h2⟩ := ih
    refine ⟨[] :: init, last, by simp [h1], ?_⟩
    simp [splitCRLF, h, h2]
  | case4 b c bs h hnil ih =>
    obtain ⟨init, last, h1, _⟩ := ih
    rw [hnil] at h1; simp at h1
  | case5 b c bs h hd tl heq ih =>
    obtain ⟨init, last, h1, h2⟩ := ih
    rw [heq] at h1
    have e : (b :: c :: bs) ++ 13 :: 10 :: t = b :: c :: (bs ++ 13 :: 10 :: t) := by simp
    have e2 : c :: (bs ++ 13 :: 10 :: t) = (c :: bs) ++ 13 :: 10 :: t := by simp
    rw [e, splitCRLF, if_neg h, e2, h2]
    cases init with
    | nil =>
      simp at h1; obtain ⟨rfl, rfl⟩ := h1
      exact ⟨[], b :: hd, rfl, rfl⟩
    | cons i is =>
      simp at h1; obtain ⟨rfl, rfl⟩ := h1
      exact ⟨(b :: hd) :: is, last, rfl, rfl⟩

theorem splitCRLF_app_mem (a t : List UInt8) :
    ∀ p ∈ splitCRLF (a ++ 13 :: 10 :: t), p ∈ splitCRLF a ∨ p ∈ splitCRLF t := by
  obtain ⟨init, last, h1, h2⟩ := splitCRLF_app a t
  intro p hp
  rw [h2] at hp; rw [h1]
  simp only [List.mem_append, List.mem_cons, List.mem_singleton, List.not_mem_nil, or_false] at hp ⊢
  rcases hp with hp | hp | hp
  · exact Or.inl (Or.inl hp)
  · exact Or.inl (Or.inr hp)
  · exact Or.inr hp

theorem utf8_crlf_cons (t : Str) : utf8 (CR :: LF :: t) = 13 :: 10 :: utf8 t := by
  have : utf8 (CR :: LF :: t) = utf8 [CR, LF] ++ utf8 t := by rw [← utf8_app]; rfl
  rw [this]
  have : utf8 [CR, LF] = [13, 10] := by decide
  rw [this]; rfl

/-- physical lines of a CRLF-terminated sequence of (already folded) lines -/
theorem splitCRLF_body_mem (fs : List Str) :
    ∀ p ∈ splitCRLF (utf8 (body fs)), p = [] ∨ ∃ f ∈ fs, p ∈ splitCRLF (utf8 f) := by
  induction fs with
  | nil => intro p hp; simp [body, utf8, splitCRLF] at hp; exact Or.inl hp
  | cons f fs ih =>
    intro p hp
    rw [body_cons, utf8_app, utf8_crlf_cons] at hp
    rcases splitCRLF_app_mem _ _ p hp with hp | hp
    · exact Or.inr ⟨f, by simp, hp⟩
    · rcases ih p hp with h | ⟨g, hg, hpg⟩
      · exact Or.inl h
      · exact Or.inr ⟨g, by simp [hg], hpg⟩



theorem mapM_ok_mem {α β ε : Type} (f : α → Except ε β) :
    ∀ (xs : List α) (ys : List β), xs.mapM f = .ok ys → ∀ y ∈ ys, ∃ x ∈ xs, f x = .ok y := by
  intro xs
  induction xs with
  | nil => intro ys h y hy; simp [List.mapM_nil, pure, Except.pure] at h; subst h; simp at hy
  | cons x xs ih =>
    intro ys h y hy
    rw [List.mapM_cons] at h
    cases hx : f x with
    | error e => rw [hx] at h; simp [bind, Except.bind] at h
    | ok b =>
      rw [hx] at h
      cases hxs : xs.mapM f with
      | error e => rw [hxs] at h; simp [bind, Except.bind] at h
      | ok bs =>
        rw [hxs] at h
        simp [bind, Except.bind, pure, Except.pure] at h
        subst h
        rcases List.mem_cons.mp hy with rfl | hy
        · exact ⟨x, by simp, hx⟩
        · obtain ⟨x', hx', hfx'⟩ := ih bs hxs y hy
          exact ⟨x', by simp [hx'], hfx'⟩

theorem joinSegs_length (sep : Str) : ∀ segs : List Str,
    (joinSegs sep segs).length = segs.flatten.length + sep.length * (segs.length - 1)
  | [] => by simp [joinSegs]
  | [s] => by simp [joinSegs]
  | s :: t :: ss => by
    have ih := joinSegs_length sep (t :: ss)
    simp only [joinSegs, List.length_append, ih, List.flatten_cons, List.length_cons]
    simp only [Nat.add_sub_cancel, Nat.mul_add, Nat.mul_one]
    omega

end ICal
