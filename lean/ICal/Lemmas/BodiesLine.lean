/-
  Equality of the regenerated content-line bodies (ICal/Gen/BodiesLine.lean, tools/py2lean.py) with the
  hand model of ICal/Model/Line.lean: the two `.replace` chains, `Contentline.raw_value` (a `while`
  loop with an index, `continue` and `return`: recursion on fuel; the theorem shows the fuel
  `len + 1` suffices and the loop equals the structural scanner `rawValueGo`) and the scanning loop
  of `Contentline.parts` (a fragment: the loop and the initialisation of its state), and the WHOLE of
  `Contentline.parts` with its external calls as parameters: `validate_token`, `Parameters.from_ical`
  and the expression `Parameters((unescape_string(key), unescape_list_or_string(value)) for ..)`;
  `parts_eq` instantiates them with the hand model's `validToken`, `paramsFromIcal` and the re-keying
  fold, and proves the translated function equal to the model `parts`.
-/
import ICal.Gen.BodiesLine
import ICal.Model.Line
import ICal.Lemmas.BodiesRT
set_option linter.unusedSimpArgs false
namespace ICal.Bodies
open ICal ICal.PyRT ICal.Gen.BodiesLine

/-! ## the `.replace` chains -/

theorem escape_string_eq (s : Str) : escape_string s = escapeString s := by
  simp [escape_string, escapeString, applyChain, Gen.escapeStringChain]

theorem unescape_string_eq (s : Str) : unescape_string s = unescapeString s := by
  simp [unescape_string, unescapeString, applyChain, Gen.unescapeStringChain]

/-! ## `Contentline.raw_value` -/

/-- what `raw_value` makes of the outcome of its loop -/
def rawFinish : Loop (Int × Bool) Str → Str
  | .ret v => v
  | .fell _ => []

theorem raw_value_loop (self : Str) : ∀ (fuel n : Nat) (inq : Bool), n ≤ self.length → self.length - n < fuel →
    ∃ r, raw_value_loop1 self fuel (n : Int) inq = .ok r ∧ rawFinish r = rawValueGo (self.drop n) inq := by
  intro fuel
  induction fuel with
  | zero => intro n inq _ h; omega
  | succ f ih =>
    intro n inq hn hf
    unfold raw_value_loop1
    by_cases hlt : n < self.length
    · have hc : (decide ((n : Int) < strLen self)) = true := by simp [strLen_eq]; omega
      obtain ⟨ch, tl, hd⟩ : ∃ ch tl, self.drop n = ch :: tl := by
        cases h : self.drop n with
        | nil => simp at h; omega
        | cons a b => exact ⟨a, b, rfl⟩
      have htl : self.drop (n + 1) = tl := by
        have := congrArg (List.drop 1) hd; simpa [List.drop_drop, Nat.add_comm] using this
      have e1 : ((n : Int) + 1) = ((n + 1 : Nat) : Int) := by push_cast; rfl
      have e2 : ((n : Int) + 2) = ((n + 2 : Nat) : Int) := by push_cast; rfl
      simp only [hc, if_true, strIndex_nat self n ch tl hd, e1, e2, pySliceI_nat, pySliceFromI_nat, htl,
        bind, Except.bind, hd]
      have hrest2 : ∀ d rest, tl = d :: rest → self.drop (n + 2) = rest := by
        intro d rest e
        have := congrArg (List.drop 1) htl
        rw [e] at this
        have e3 : 1 + (n + 1) = n + 2 := by omega
        simpa [List.drop_drop, e3] using this
      have hsub : n + 2 - (n + 1) = 1 := by omega
      simp only [hsub]
      cases tl with
      | nil =>
        obtain ⟨r, hr, hr2⟩ := ih (n + 1) (if ch == DQ then !inq else inq) (by omega) (by omega)
        simp only [htl] at hr2
        have hnot : [[','], [':'], [';'], ['\\']].contains (List.take 1 ([] : Str)) = false := by decide
        simp only [hnot, Bool.and_false, Bool.false_eq_true, if_false]
        by_cases h1 : (ch == ':' && !inq) = true
        · exact ⟨_, by simp only [h1, if_true]; rfl, by simp [rawFinish, rawValueGo]⟩
        · refine ⟨r, by simp only [h1, if_false]; exact hr, ?_⟩
          rw [hr2]; simp [rawValueGo]
      | cons d rest =>
        have hd2 := hrest2 d rest rfl
        have hcon : [[','], [':'], [';'], ['\\']].contains (List.take 1 (d :: rest)) =
            (d == ',' || d == ':' || d == ';' || d == BS) := by
          rw [Bool.eq_iff_iff]
          simp [BS, or_assoc]
        simp only [hcon]
        by_cases h0 : (ch == '\\' && (d == ',' || d == ':' || d == ';' || d == BS)) = true
        · obtain ⟨r, hr, hr2⟩ := ih (n + 2) inq (by have := congrArg List.length hd; simp at this; omega) (by omega)
          refine ⟨r, by simp only [h0, if_true]; exact hr, ?_⟩
          rw [hr2, hd2]
          have h0' : (ch == BS && (d == ',' || d == ':' || d == ';' || d == BS)) = true := h0
          simp [rawValueGo, h0']
        · have h0' : ¬ (ch == BS && (d == ',' || d == ':' || d == ';' || d == BS)) = true := h0
          by_cases h1 : (ch == ':' && !inq) = true
          · exact ⟨_, by simp only [h0, h1, if_true, if_false]; rfl, by simp [rawFinish, rawValueGo, h0', h1]⟩
          · obtain ⟨r, hr, hr2⟩ := ih (n + 1) (if ch == DQ then !inq else inq) (by omega) (by omega)
            refine ⟨r, by simp only [h0, h1, if_false]; exact hr, ?_⟩
            rw [hr2, htl]
            simp [rawValueGo, h0', h1]
    · have hc : (decide ((n : Int) < strLen self)) = false := by simp [strLen_eq]; omega
      have : self.drop n = [] := List.drop_of_length_le (by omega)
      simp [hc, this, rawValueGo, rawFinish, pure, Except.pure]

theorem raw_value_eq (line : Str) : raw_value line = .ok (rawValue line) := by
  obtain ⟨r, hr, hr2⟩ := raw_value_loop line (line.length + 1) 0 false (by omega) (by omega)
  simp only [raw_value, rawValue]
  have : raw_value_loop1 line (line.length + 1) (0 : Int) false = .ok r := hr
  simp only [this, bind, Except.bind]
  simp only [List.drop_zero] at hr2
  rw [← hr2]
  cases r <;> rfl

/-! ## the scanning loop of `Contentline.parts` -/

def optInt (o : Option Nat) : Option Int := o.map (fun n => (n : Int))

theorem truthy_optInt (o : Option Nat) : truthy (optInt o) = !falsy o := by
  cases o with
  | none => rfl
  | some n => cases n with
    | zero => rfl
    | succ k =>
      show ((((k + 1 : Nat) : Int)) != 0) = _
      have : ((k + 1 : Nat) : Int) ≠ 0 := by omega
      simp only [falsy, Bool.not_false, bne_iff_ne, ne_eq]
      exact this

theorem parts_scan_step (ch : Char) (rest : Str) (i : Nat) (iL : Option Int) (ns vs : Option Nat) (inq : Bool) :
    parts_scan_loop1 (i : Int) iL (optInt ns) (optInt vs) inq (ch :: rest) =
      parts_scan_loop1 ((i + 1 : Nat) : Int) (some (i : Int))
        (optInt (if !inq && (ch == ':' || ch == ';') && falsy ns then some i else ns))
        (optInt (if !inq && ch == ':' && falsy vs then some i else vs)) (if ch == DQ then !inq else inq) rest := by
  have e1 : ((i : Int) + 1) = ((i + 1 : Nat) : Int) := by push_cast; rfl
  simp only [parts_scan_loop1, truthy_optInt, e1]
  cases inq <;> cases hn : falsy ns <;> cases hv : falsy vs <;> by_cases hc1 : ch = ':' <;> by_cases hc2 : ch = ';' <;>
    simp [hc1, hc2, optInt, DQ]

theorem parts_scan_loop (l : Str) : ∀ (i : Nat) (iL : Option Int) (ns vs : Option Nat) (inq : Bool),
    (parts_scan_loop1 (i : Int) iL (optInt ns) (optInt vs) inq l).1 = optInt (scanParts l i inq ns vs).1 ∧
    (parts_scan_loop1 (i : Int) iL (optInt ns) (optInt vs) inq l).2.1 = optInt (scanParts l i inq ns vs).2 ∧
    (parts_scan_loop1 (i : Int) iL (optInt ns) (optInt vs) inq l).2.2.2 =
      (if l = [] then iL else some (((i + l.length - 1 : Nat)) : Int)) := by
  induction l with
  | nil => intro i iL ns vs inq; simp [parts_scan_loop1, scanParts]
  | cons ch rest ih =>
    intro i iL ns vs inq
    rw [parts_scan_step]
    obtain ⟨h1, h2, h3⟩ := ih (i + 1) (some (i : Int))
      (if !inq && (ch == ':' || ch == ';') && falsy ns then some i else ns)
      (if !inq && ch == ':' && falsy vs then some i else vs) (if ch == DQ then !inq else inq)
    refine ⟨by rw [h1]; rfl, by rw [h2]; rfl, ?_⟩
    rw [h3]
    cases rest with
    | nil => simp
    | cons a b => simp; omega

/-- the scanning loop of `parts()` on the escaped line: the two split positions are those of the hand model;
    `i` after the loop is the last index (the source reads it as `i + 1`, the length), unbound for the empty line -/
theorem parts_scan_eq (st : Str) :
    parts_scan st = (optInt (scanParts st 0 false none none).1, optInt (scanParts st 0 false none none).2,
      if st = [] then none else some (((st.length - 1 : Nat)) : Int)) := by
  obtain ⟨h1, h2, h3⟩ := parts_scan_loop st 0 none none none false
  have e0 : ((0 : Nat) : Int) = 0 := rfl
  have en : optInt none = (none : Option Int) := rfl
  rw [e0, en] at h1 h2 h3
  simp only [parts_scan]
  rw [Prod.mk.injEq, Prod.mk.injEq]
  refine ⟨h1, h2, ?_⟩
  rw [h3]; simp

/-! ## the whole of `Contentline.parts` -/

/-- the loop of the translated `parts` (in `Py`, because the function can raise) is the loop of the fragment -/
theorem parts_loop_pure (l : Str) : ∀ (i : Int) (iL ns vs : Option Int) (inq : Bool),
    parts_loop1 i iL ns vs inq l = .ok (parts_scan_loop1 i iL ns vs inq l) := by
  induction l with
  | nil => intro i iL ns vs inq; rfl
  | cons ch rest ih => intro i iL ns vs inq; simp only [parts_loop1, parts_scan_loop1]; exact ih _ _ _ _ _

/-- the hand model's external pieces, as the parameters of the translated `parts` -/
def validateTokenP (n : Str) : Py Unit := if validToken n then .ok () else .error .valueError
def paramsFromIcalP (t : Str) (strict : Bool) : Py Params :=
  match paramsFromIcal t strict with
  | some p => .ok p
  | none => .error .valueError
def paramsUnescapeP (ps : Params) : Params :=
  ps.foldl (fun acc kv => Params.put acc (upper (unescapeString kv.1)) (unescapePVal kv.2)) []

theorem pySliceO_to (s : Str) (o : Option Nat) :
    pySliceO s none (optInt o) = (match o with | none => s | some k => s.take k) := by
  cases o with
  | none => simp [pySliceO, optClamp, optInt]
  | some k =>
    have e : optInt (some k) = some (k : Int) := rfl
    simp only [pySliceO, e, optClamp, clampIdx_nat, List.drop_zero, Nat.sub_zero]
    by_cases h : k ≤ s.length
    · rw [Nat.min_eq_left h]
    · have h' : s.length ≤ k := by omega
      rw [Nat.min_eq_right h', List.take_of_length_le (Nat.le_refl _), List.take_of_length_le h']

theorem pySliceO_nat (s : Str) (a b : Nat) :
    pySliceO s (some (a : Int)) (some (b : Int)) = (s.drop a).take (b - a) := by
  have := pySliceI_nat s a b
  simpa [pySliceO, optClamp, pySliceI] using this

theorem throwPy_eq {α : Type} (e : Exc) : (throw e : Py α) = Except.error e := rfl

theorem unescapeString_nil : unescapeString [] = [] := by decide

/-- everything after the value split position is known -/
theorem parts_tail (cs : List Exc) (hcs : cs.contains Exc.valueError = true)
    (st name : Str) (ns : Option Nat) (vsplit : Nat) (strict : Bool) :
    remap cs
      (if (falsy ns || some ((optInt ns).getD 0 + 1) == some (vsplit : Int)) = true then throw Exc.valueError
       else
        (intOfOpt (optInt ns) >>= fun v_1 =>
          paramsFromIcalP (pySliceO st (some (v_1 + 1)) (some (vsplit : Int))) strict >>= fun v_2 =>
          intOfOpt (some (vsplit : Int)) >>= fun v =>
          (Except.ok (name, paramsUnescapeP v_2, unescapeString (pySliceFromI st (v + 1))) : Py (Str × Params × Str)))) =
    (match
      (if (falsy ns || ns.getD 0 + 1 == vsplit) = true then none
       else
        match paramsFromIcal (List.take (vsplit - (ns.getD 0 + 1)) (List.drop (ns.getD 0 + 1) st)) strict with
        | none => none
        | some ps =>
          some (name, List.foldl (fun acc kv => Params.put acc (upper (unescapeString kv.fst)) (unescapePVal kv.snd)) [] ps,
            unescapeString (List.drop (vsplit + 1) st))) with
     | some r => Except.ok r
     | none => Except.error Exc.valueError) := by
  have hgd : (optInt ns).getD 0 = ((ns.getD 0 : Nat) : Int) := by cases ns <;> rfl
  have hcond : (falsy ns || some ((optInt ns).getD 0 + 1) == some (vsplit : Int)) =
      (falsy ns || ns.getD 0 + 1 == vsplit) := by
    rw [hgd, Bool.eq_iff_iff]
    simp only [Bool.or_eq_true, beq_iff_eq, Option.some.injEq]
    constructor <;> intro h <;> rcases h with h | h
    · exact Or.inl h
    · right; omega
    · exact Or.inl h
    · right; omega
  rw [hcond]
  by_cases hc : (falsy ns || ns.getD 0 + 1 == vsplit) = true
  · simp [hc, remap, throwPy_eq, hcs]
  · simp only [hc, Bool.false_eq_true, if_false]
    cases ns with
    | none => simp [falsy] at hc
    | some k =>
      have e1 : ((k : Int) + 1) = ((k + 1 : Nat) : Int) := by push_cast; rfl
      have e2 : ((vsplit : Int) + 1) = ((vsplit + 1 : Nat) : Int) := by push_cast; rfl
      have eo : optInt (some k) = some (k : Int) := rfl
      simp only [bind, Except.bind, eo, intOfOpt, e1, e2, pySliceO_nat, pySliceFromI_nat, Option.getD_some, paramsFromIcalP]
      cases paramsFromIcal (List.take (vsplit - (k + 1)) (List.drop (k + 1) st)) strict with
      | none => simp [remap, hcs]
      | some ps => simp [remap, pure, Except.pure, paramsUnescapeP]

theorem parts_eq (line : Str) (strict : Bool) :
    Gen.BodiesLine.parts line validateTokenP strict paramsFromIcalP paramsUnescapeP =
      (match ICal.parts line strict with
       | some r => .ok r
       | none => .error .valueError) := by
  obtain ⟨h1, h2, h3⟩ := parts_scan_loop (escapeString line) 0 none none none false
  have e0 : ((0 : Nat) : Int) = 0 := rfl
  have en : optInt none = (none : Option Int) := rfl
  rw [e0, en] at h1 h2 h3
  simp only [Gen.BodiesLine.parts, ICal.parts, escape_string_eq, unescape_string_eq, parts_loop_pure, bind, Except.bind]
  -- the exception classes that `except ValueError` catches, as the generated code lists them
  first
    | (rw [show (valueErrors : List Exc) = id valueErrors from rfl]; generalize hL : id valueErrors = cs)
    | (rw [show ([Exc.valueError] : List Exc) = id [Exc.valueError] from rfl]; generalize hL : id [Exc.valueError] = cs)
  have hcs : cs.contains Exc.valueError = true := by subst hL; decide
  clear hL
  generalize hst : escapeString line = st at *
  generalize hr : parts_scan_loop1 0 none none none false st = r at *
  obtain ⟨r1, r2, r3, r4⟩ := r
  simp only at h1 h2 h3
  subst h1 h2 h3
  generalize hsc : scanParts st 0 false none none = sc
  obtain ⟨ns, vs⟩ := sc
  have tstr : ∀ x : Str, truthy x = !x.isEmpty := fun _ => rfl
  simp only [pySliceO_to, truthy_optInt, tstr]
  clear hr hsc e0 en hst
  generalize hname : unescapeString (match ns with | none => st | some k => List.take k st) = name
  by_cases hemp : name.isEmpty = true
  · simp [hemp, remap, throwPy_eq, hcs]
  · have hne : st ≠ [] := by
      intro e; subst e
      have : name = [] := by rw [← hname]; cases ns <;> simp [unescapeString_nil]
      simp [this] at hemp
    have hL : 0 < st.length := List.length_pos_iff.mpr hne
    simp only [hemp, Bool.not_false, Bool.not_true, Bool.false_eq_true, if_false, hne, Bool.not_not]
    by_cases hvt : validToken name = true
    · simp only [validateTokenP, hvt, if_true, Bool.not_true, Bool.false_eq_true, if_false]
      by_cases hf : falsy vs = true
      · simp only [hf, if_true, getBound, pure, Except.pure]
        have ev : (((0 + st.length - 1 : Nat)) : Int) + 1 = (st.length : Int) := by omega
        simp only [ev]
        have := parts_tail cs hcs st name ns st.length strict
        simp only [bind, Except.bind] at this
        exact this
      · simp only [hf, if_false, Bool.false_eq_true, pure, Except.pure]
        cases vs with
        | none => simp [falsy] at hf
        | some k =>
          have := parts_tail cs hcs st name ns k strict
          simp only [bind, Except.bind] at this
          exact this
    · simp [validateTokenP, hvt, remap, hcs]

end ICal.Bodies
