/-
  Component level of folding: several content lines, each folded, joined by CR LF and
  terminated by CR LF; unfolding the whole text and splitting it on line breaks restores
  the lines.  Helper lemmas for `ICal.C06.lines_roundtrip`.
-/
import ICal.Lemmas.Fold
namespace ICal

/-! ### what may follow a genuine line break -/

/-- a text before which `CR LF` is a genuine line break and not a fold: it is empty, or starts
    with a character that is none of SP, HT, LF, and whose successor is not LF (so a leading CR
    does not start another line break) -/
def okStart : Str → Prop
  | [] => True
  | c :: cs => c ≠ SP ∧ c ≠ HT ∧ c ≠ LF ∧ cs.head? ≠ some LF

theorem eatNL_nil : eatNL [] = none := by
  unfold eatNL; rfl

theorem eatNL_okStart (t : Str) (h : okStart t) : eatNL t = none := by
  cases t with
  | nil => exact eatNL_nil
  | cons c cs => exact eatNL_none_of c cs h.2.2.1 (fun _ => h.2.2.2)

theorem okStart_head_ne_LF (t : Str) (h : okStart t) : t.head? ≠ some LF := by
  cases t with
  | nil => simp
  | cons c cs => simpa using h.2.2.1

/-- the scanner copies a character at which a run of line breaks starts that is not followed
    by fold whitespace -/
theorem unfold_cons_of_eatNL (c : Char) (cs r : Str) (h : eatNL (c :: cs) = some r)
    (h2 : ∀ x rest, r = x :: rest → Gen.foldWs.contains x = false) :
    unfold (c :: cs) = c :: unfold cs := by
  rw [unfold]; split
  · next x rest heq =>
    rw [h] at heq
    simp only [Option.some.injEq] at heq
    rw [h2 x rest heq]; rfl
  · rfl

theorem foldWs_not (x : Char) (h1 : x ≠ SP) (h2 : x ≠ HT) : Gen.foldWs.contains x = false := by
  simp only [Gen.foldWs, SP, HT] at *
  simp [h1, h2]

/-- a CR LF before an `okStart` text is copied -/
theorem unfold_break (t : Str) (h : okStart t) :
    unfold (CR :: LF :: t) = CR :: LF :: unfold t := by
  have hn := eatNL_okStart t h
  have hws : ∀ x rest, t = x :: rest → Gen.foldWs.contains x = false := by
    intro x rest e; subst e
    exact foldWs_not x h.1 h.2.1
  have e1 : eatNL (CR :: LF :: t) = some t := by
    simp only [CR, LF]; rw [eatNL]; simp [hn]
  have e2 : eatNL (LF :: t) = some t := by
    simp only [LF]; rw [eatNL]; simp [hn]
  rw [unfold_cons_of_eatNL CR (LF :: t) t e1 hws, unfold_cons_of_eatNL LF t t e2 hws]

/-! ### unfolding a folded line followed by more text -/

/-- `unfold_join` with a continuation -/
theorem unfold_join_append : ∀ (segs : List Str) (t : Str), (∀ s ∈ segs, LF ∉ s) →
    t.head? ≠ some LF →
    unfold (joinSegs sep3 segs ++ t) = segs.flatten ++ unfold t
  | [], t, _, _ => by simp [joinSegs]
  | [s], t, h, ht => by
    have := unfold_seg s t (h s (by simp)) ht
    simpa [joinSegs] using this
  | s :: u :: ss, t, h, ht => by
    have ih := unfold_join_append (u :: ss) t
      (fun x hx => h x (by simp at hx ⊢; right; exact hx)) ht
    simp only [joinSegs, List.append_assoc]
    rw [unfold_seg s _ (h s (by simp)) (by simp [sep3, LF, CR]), unfold_sep, ih]
    simp

/-- a folded line followed by a genuine line break -/
theorem unfold_joined_break (segs : List Str) (t : Str) (h : ∀ s ∈ segs, LF ∉ s)
    (ht : okStart t) :
    unfold (joinSegs sep3 segs ++ CR :: LF :: t) = segs.flatten ++ CR :: LF :: unfold t := by
  rw [unfold_join_append segs _ h (by simp [CR, LF]), unfold_break t ht]

/-! ### how a folded line starts -/

theorem chunks_cons (n : Nat) (hn : n ≠ 0) (c : Char) (cs : Str) :
    chunks n (c :: cs) = (c :: cs).take n :: chunks n ((c :: cs).drop n) := by
  rw [chunks]; simp [hn]

theorem foldUni_head_ne_LF (limit : Nat) (cnt : Nat) (l : Str) (h : l.head? ≠ some LF) :
    (foldUni limit sep3 cnt l).head? ≠ some LF := by
  cases l with
  | nil => simp [foldUni]
  | cons d ds =>
    simp only [foldUni]
    split
    · simp [sep3, CR, LF]
    · simpa using h

theorem joinSegs_head_ne_LF (s : Str) (ss : List Str) (h : s.head? ≠ some LF) :
    (joinSegs sep3 (s :: ss)).head? ≠ some LF := by
  cases s with
  | nil =>
    cases ss with
    | nil => simp [joinSegs]
    | cons u us => simp [joinSegs, sep3, CR, LF]
  | cons d ds =>
    rw [joinSegs_cons_cons]; simpa using h

/-- a folded non-empty line keeps its first character, and its second character is not LF
    (there is no fold before the first character: one character always fits) -/
theorem foldline_cons (c : Char) (cs : Str) (h : cs.head? ≠ some LF) :
    ∃ r, foldline (c :: cs) = c :: r ∧ r.head? ≠ some LF := by
  unfold foldline foldlineWith
  rw [foldSep_eq]
  split
  · have hn : Gen.foldLimit - Gen.foldSliceMinus = 73 + 1 := by decide
    rw [hn, chunks_cons _ (by omega)]
    simp only [List.take_succ_cons]
    rw [joinSegs_cons_cons]
    refine ⟨_, rfl, ?_⟩
    apply joinSegs_head_ne_LF
    cases cs with
    | nil => simp
    | cons d ds => simpa using h
  · have hw : w c ≤ 4 := Char.utf8Size_le_four c
    have hlt : ¬ (0 + w c ≥ Gen.foldLimit) := by simp [Gen.foldLimit]; omega
    simp only [foldUni, hlt, if_false]
    exact ⟨_, rfl, foldUni_head_ne_LF _ _ _ h⟩

theorem head?_ne_of_not_mem (l : Str) (h : LF ∉ l) : l.head? ≠ some LF := by
  cases l with
  | nil => simp
  | cons d ds => simp at h ⊢; intro e; exact h.1 e.symm

/-- a folded real content line, followed by anything that does not start with LF, is an
    `okStart` text -/
theorem okStart_foldline (l t : Str) (hne : l ≠ []) (hlf : LF ∉ l)
    (hsp : l.head? ≠ some SP) (hht : l.head? ≠ some HT) (ht : t.head? ≠ some LF) :
    okStart (foldline l ++ t) := by
  cases l with
  | nil => exact absurd rfl hne
  | cons c cs =>
    have hc : c ≠ LF := by intro e; apply hlf; simp [e]
    have hcs : LF ∉ cs := by intro e; apply hlf; simp [e]
    obtain ⟨r, hr, hr2⟩ := foldline_cons c cs (head?_ne_of_not_mem cs hcs)
    rw [hr]
    simp only [List.cons_append, okStart]
    refine ⟨by simpa using hsp, by simpa using hht, hc, ?_⟩
    cases r with
    | nil => simpa using ht
    | cons d ds => simpa using hr2

/-! ### the whole text -/

/-- every line followed by CR LF, concatenated -/
def body (ls : List Str) : Str := (ls.map (· ++ [CR, LF])).flatten

theorem body_cons (l : Str) (ls : List Str) : body (l :: ls) = l ++ CR :: LF :: body ls := by
  simp [body]

theorem joinWith_append_sep (sep : Str) : ∀ (fs : List Str), fs ≠ [] →
    joinWith sep fs ++ sep = (fs.map (· ++ sep)).flatten
  | [], h => absurd rfl h
  | [x], _ => by simp [joinWith]
  | x :: y :: rest, _ => by
    have ih := joinWith_append_sep sep (y :: rest) (by simp)
    simp only [joinWith, List.append_assoc]
    rw [ih]; simp

/-- the predicate on real content lines -/
def RealLine (l : Str) : Prop := l ≠ [] ∧ LF ∉ l ∧ l.head? ≠ some SP ∧ l.head? ≠ some HT

theorem unfold_body (ls : List Str) (h : ∀ l ∈ ls, RealLine l) :
    okStart (body (ls.map foldline)) ∧ unfold (body (ls.map foldline)) = body ls := by
  induction ls with
  | nil => simp [body, okStart, unfold]
  | cons l ls ih =>
    obtain ⟨ihs, ihu⟩ := ih (fun x hx => h x (by simp [hx]))
    obtain ⟨hne, hlf, hsp, hht⟩ := h l (by simp)
    simp only [List.map_cons, body_cons]
    refine ⟨okStart_foldline l _ hne hlf hsp hht (by simp [CR, LF]), ?_⟩
    obtain ⟨segs, h1, h2, _⟩ : ∃ segs, foldline l = joinSegs sep3 segs ∧ segs.flatten = l ∧ True := by
      unfold foldline foldlineWith
      rw [foldSep_eq]
      split
      · exact ⟨_, rfl, chunks_flatten _ _ (by decide), trivial⟩
      · exact ⟨_, foldUni_eq_join _ _ _ _, segsUni_flatten _ _ _, trivial⟩
    have hseg : ∀ s ∈ segs, LF ∉ s := by
      intro s hs hmem; apply hlf; rw [← h2]
      exact List.mem_flatten.mpr ⟨s, hs, hmem⟩
    rw [h1, unfold_joined_break segs _ hseg ihs, h2, ihu]

/-! ### splitting -/

theorem splitNewline_line (l t : Str) (h : LF ∉ l) :
    splitNewline (l ++ CR :: LF :: t) = l :: splitNewline t := by
  induction l with
  | nil =>
    simp only [List.nil_append]
    rw [splitNewline]
    simp [CR, LF]
  | cons c cs ih =>
    have hc : c ≠ LF := by intro e; apply h; simp [e]
    have hcs : LF ∉ cs := by intro e; apply h; simp [e]
    have hh : (cs ++ CR :: LF :: t).head? ≠ some LF := by
      cases cs with
      | nil => simp [CR, LF]
      | cons d ds => simp at hcs ⊢; intro e; exact hcs.1 e.symm
    rw [List.cons_append, splitNewline]
    simp only [hc, if_false, hh, and_false]
    rw [ih hcs]

theorem splitNewline_body (ls : List Str) (h : ∀ l ∈ ls, LF ∉ l) :
    splitNewline (body ls) = ls ++ [[]] := by
  induction ls with
  | nil => simp [body, splitNewline]
  | cons l ls ih =>
    rw [body_cons, splitNewline_line l _ (h l (by simp)), ih (fun x hx => h x (by simp [hx]))]
    rfl

/-- the serialised text of real content lines does not start with a byte-order mark -/
theorem stripBOM_linesToIcal (ls : List Str) (h : ∀ l ∈ ls, l.head? ≠ some BOM ∧ LF ∉ l) :
    stripBOM (linesToIcal ls) = linesToIcal ls := by
  unfold linesToIcal
  cases hk : ls.filter (fun l => !l.isEmpty) with
  | nil => simp [joinWith, stripBOM, CR, BOM]
  | cons k ks =>
    have hkm : k ∈ ls.filter (fun l => !l.isEmpty) := by rw [hk]; simp
    rw [List.mem_filter] at hkm
    obtain ⟨hb, hlf⟩ := h k hkm.1
    cases k with
    | nil => simp at hkm
    | cons c cs =>
      have hc : c ≠ BOM := by simpa using hb
      have hcs : cs.head? ≠ some LF := by
        cases cs with
        | nil => simp
        | cons d ds => simp; intro e; apply hlf; simp [e]
      obtain ⟨r, hr, _⟩ := foldline_cons c cs hcs
      simp only [List.map_cons, hr]
      cases ks with
      | nil => simp [joinWith, stripBOM, hc]
      | cons k2 ks2 => simp [joinWith, stripBOM, hc]

end ICal
