/-
  Equality of the regenerated `vMonth.__new__` on a str (ICal/Gen/BodiesDec.lean, tools/py2lean.py: all digits, or a last
  character - `month[-1]`, IndexError on the empty str - that must be `L` unless what precedes it is not all digits, then
  `int(month[:-1])`) with the hand model `vMonthNew` of ICal/Model/Codec.lean.  The int object made by
  `super().__new__` is the pair (index, leap).
-/
import ICal.Lemmas.BodiesDec
import ICal.Lemmas.Codec
set_option linter.unusedSimpArgs false
namespace ICal.Bodies
open ICal ICal.PyRT ICal.Gen.BodiesDec

theorem clamp_neg1 (n : Nat) : clampIdx n (-1) = n - 1 := by
  unfold clampIdx
  by_cases h : n = 0
  · subst h; simp
  · have : (-1 : Int) + (n : Int) = ((n - 1 : Nat) : Int) := by omega
    simp [this]

theorem pySliceToI_neg1 (s : Str) : pySliceToI s (-1) = s.dropLast := by
  simp [pySliceToI, clamp_neg1, List.dropLast_eq_take]

theorem strIndex_neg1 (s : Str) :
    strIndex s (-1) = (match s.getLast? with | some l => .ok l | none => .error .indexError) := by
  unfold strIndex
  cases s with
  | nil => simp
  | cons c r =>
    have hlen : ¬ ((-1 : Int) < -(((c :: r).length : Nat) : Int) ∨ (-1 : Int) ≥ (((c :: r).length : Nat) : Int)) := by
      simp; omega
    simp only [hlen, if_false, clamp_neg1]
    have : (c :: r)[(c :: r).length - 1]? = (c :: r).getLast? := by
      rw [List.getLast?_eq_getElem?]
    rw [this]
    cases h : (c :: r).getLast? with
    | none => simp at h
    | some l => rfl

def moNew (i : Int) : Int × Bool := (i, false)
def moSetLeap (m : Int × Bool) (l : Bool) : Int × Bool := (m.1, l)

/-- the translated `vMonth.__new__` on a str is the model's `vMonthNew` -/
theorem vMonth_new_eq (t : Str) :
    vMonth_new (month := t) (params := ()) (new_int := moNew) (set_leap := moSetLeap) (params_of := fun _ => ()) (set_params := fun m _ => m) =
      liftRes id (vMonthNew t) := by
  unfold vMonth_new vMonthNew
  by_cases hd : isDigitStr t = true
  · obtain ⟨hne, hds⟩ := (Codec.isDigitStr_iff t).1 hd
    simp only [hd, if_true, intOfStr_eq, Codec.pyIntE_digits t hds hne, liftRes, bind, Except.bind, pure, Except.pure, moNew, moSetLeap, id]
  · simp only [hd, if_false, Bool.false_eq_true, strIndex_neg1, pySliceToI_neg1]
    cases hl : t.getLast? with
    | none => rfl
    | some l =>
      simp only [bind, Except.bind]
      by_cases hc : (l ≠ 'L' ∧ isDigitStr t.dropLast = true)
      · have : ((!(l == 'L')) && isDigitStr t.dropLast) = true := by simp [hc.1, hc.2]
        simp [this, hc, liftRes, throw, throwThe, MonadExceptOf.throw]
      · have : ((!(l == 'L')) && isDigitStr t.dropLast) = false := by
          by_cases h1 : l = 'L' <;> by_cases h2 : isDigitStr t.dropLast = true <;> simp_all
        simp only [this, Bool.false_eq_true, if_false, hc, intOfStr_eq, pyIntE]
        cases hp : pyInt t.dropLast with
        | none => simp [liftRes]
        | some z => simp [liftRes, pure, Except.pure, moNew, moSetLeap]

end ICal.Bodies
