/-
  Equality of the regenerated `Event.end` / `Todo.end` and `tools.is_date` (ICal/Gen/BodiesSE.lean, tools/py2lean.py)
  with the hand model ICal/Model/StartEnd.lean (`endOf`, `Val.isDate`).  `self._get_start_end_duration()` (the
  validity checks) is external: the three values it returned are parameters of the translated `end`, as they are
  the arguments of the model's `endOf`.  The model's errors are the Python exception classes (`liftSE`).
-/
import ICal.Gen.BodiesSE
set_option linter.unusedSimpArgs false
namespace ICal.Bodies
open ICal ICal.PyRT ICal.SE ICal.Gen.BodiesSE

def liftSE : Except SE.Err SE.Val → Py (Option SE.Val)
  | .ok v => .ok (some v)
  | .error .invalidCalendar => .error .invalidCalendar
  | .error .incompleteComponent => .error .incompleteComponent
  | .error .typeError => .error .typeError
  | .error .valueError => .error .valueError
  | .error .attributeError => .error .attributeError

theorem se_is_date_eq (v : SE.Val) : is_date v = v.isDate := by
  cases v <;> rfl

theorem se_end_core (st en : Option SE.Val) (du : Option Int) :
    Event_end (start := st) (end_ := en) (duration := du) = liftSE (endOf st en du) ∧
      Todo_end (start := st) (end_ := en) (duration := du) = liftSE (endOf st en du) := by
  have h1 : tdsOfUnits 0 1 0 0 0 = 86400 := by decide
  constructor <;>
    (simp only [Event_end, Todo_end, endOf, se_is_date_eq, h1]
     cases en <;> cases du <;> cases st <;>
       simp [liftSE, pure, Except.pure, throw, throwThe, MonadExceptOf.throw]
     all_goals (split <;> simp [liftSE, *]))

theorem Event_end_eq (st en : Option SE.Val) (du : Option Int) :
    Event_end (start := st) (end_ := en) (duration := du) = liftSE (endOf st en du) :=
  (se_end_core st en du).1

theorem Todo_end_eq (st en : Option SE.Val) (du : Option Int) :
    Todo_end (start := st) (end_ := en) (duration := du) = liftSE (endOf st en du) :=
  (se_end_core st en du).2

end ICal.Bodies
