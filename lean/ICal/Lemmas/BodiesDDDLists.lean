/-
  Equality of the regenerated `vDDDLists.__init__` (ICal/Gen/BodiesAdd.lean, tools/py2lean.py) with the hand model of
  ICal/Model/Encode.lean (`listParams`, `mkDDD`): an argument without `__iter__` is wrapped in a list; every element goes
  through `vDDDTypes(..)` (the first exception ends it); TZID is that of the LAST element that has one and is set only when
  it is true; `values = {dt.params.get('VALUE') for dt in vDDD}` is a Python set (`pyDedup`): VALUE is set when the set has
  exactly one element and that is not None (`values.pop()` of a one-element set).  Pieces: ICal/Model/AddPieces.lean.
-/
import ICal.Model.AddPieces
set_option linter.unusedSimpArgs false
namespace ICal.Bodies
open ICal ICal.PyRT ICal.Enc ICal.Gen.BodiesAdd

theorem mem_pyDedup {α : Type} [BEq α] [LawfulBEq α] (y : α) : ∀ (l : List α), y ∈ pyDedup l ↔ y ∈ l := by
  intro l
  induction l with
  | nil => simp [pyDedup]
  | cons x xs ih =>
    simp only [pyDedup, List.mem_cons, List.mem_filter, ih]
    by_cases h : y = x <;> simp [h, bne_iff_ne]

/-- a set of one element that is not None: every value is that element -/
theorem dedup_uniform (l : List (Option PVal)) :
    (((pyDedup l).length : Int) == 1 && !((pyDedup l).contains none)) =
      (uniformValue l).isSome ∧
    ((uniformValue l).isSome = true → pyDedup l = [uniformValue l]) := by
  cases l with
  | nil => simp [pyDedup, uniformValue]
  | cons v rest =>
    have hall : ((pyDedup rest).filter (fun y => !(y == v)) = []) ↔ rest.all (fun y => y == v) = true := by
      simp only [List.filter_eq_nil_iff, List.all_eq_true]
      constructor
      · intro h y hy
        have := h y ((mem_pyDedup y rest).2 hy)
        simpa using this
      · intro h y hy
        have := h y ((mem_pyDedup y rest).1 hy)
        simpa using this
    simp only [pyDedup, uniformValue, List.length_cons]
    by_cases hr : rest.all (fun y => y == v) = true
    · have hf := hall.2 hr
      cases v with
      | none => simp [hf, hr]
      | some x => simp [hf, hr]
    · have hf : (pyDedup rest).filter (fun y => !(y == v)) ≠ [] := fun h => hr (hall.1 h)
      have hlen : ((pyDedup rest).filter (fun y => !(y == v))).length ≠ 0 := by
        intro h; exact hf (List.length_eq_zero_iff.mp h)
      have hr' : rest.all (fun y => y == v) = false := by simpa using hr
      constructor
      · simp only [hr', Bool.and_false, Option.isSome_none, Bool.false_eq_true, if_false]
        simp
        intro h
        exfalso
        apply hlen
        omega
      · simp [hr']

theorem liftEnc_ok {α : Type} (v : α) : liftEnc (Except.ok v : Res α) = Except.ok v := rfl

def stepTz (t : Option PVal) (v : Val) : Option PVal := if hasTzidL v then some (tzidOfL v) else t

theorem init_loop (xs : List PyVal) : ∀ (acc : List Val) (tz : Option PVal),
    vDDDLists_init_loop1 (make_ddd := fun v => liftEnc (mkDDD v)) (has_tzid := hasTzidL) (tzid_of := tzidOfL) acc tz xs =
      liftEnc ((Enc.mapRes mkDDD xs).map (fun vs => (acc ++ vs, vs.foldl stepTz tz))) ∧
    vDDDLists_init_loop2 (make_ddd := fun v => liftEnc (mkDDD v)) (has_tzid := hasTzidL) (tzid_of := tzidOfL) acc tz xs =
      liftEnc ((Enc.mapRes mkDDD xs).map (fun vs => (acc ++ vs, vs.foldl stepTz tz))) := by
  induction xs with
  | nil => intro acc tz; simp [vDDDLists_init_loop1, vDDDLists_init_loop2, Enc.mapRes, Except.map, liftEnc, pure, Except.pure]
  | cons x xs ih =>
    intro acc tz
    simp only [vDDDLists_init_loop1, vDDDLists_init_loop2, Enc.mapRes]
    cases hx : mkDDD x with
    | error e => cases e <;> exact ⟨rfl, rfl⟩
    | ok v =>
      simp only [liftEnc_ok, bind, Except.bind]
      have h := ih (acc ++ [v]) (stepTz tz v)
      unfold stepTz at h
      rw [h.1, h.2]
      cases hm : Enc.mapRes mkDDD xs with
      | error e => cases e <;> exact ⟨rfl, rfl⟩
      | ok vs => simp [Except.map, liftEnc, stepTz]; rfl

theorem foldl_stepTz (vs : List Val) : ∀ (t : Option PVal), vs.foldl stepTz t = (lastTzid vs).or t := by
  induction vs with
  | nil => intro t; simp [lastTzid]
  | cons v vs ih =>
    intro t
    simp only [List.foldl_cons, ih, lastTzid, List.reverse_cons, List.findSome?_append, List.findSome?_cons, List.findSome?_nil]
    unfold stepTz hasTzidL tzidOfL
    cases h1 : List.findSome? (fun v => Params.get? v.params kTZID) vs.reverse with
    | some z => simp
    | none =>
      cases h2 : Params.get? v.params kTZID with
      | none => simp
      | some z => simp

/-- what `__init__` makes of the wrapped objects: VALUE when all of them carry one and the same, the TZID of the last one
    that has one if it is true -/
theorem init_params (vs : List Val) :
    (let values := pyDedup (vs.map valueOfL)
     (if ((values.length : Int) == 1 && !(values.contains none)) then
        (setPopOnly values >>= fun t => (pure (paramsSetL [] kVALUE t) : Py Params))
      else pure []) >>= fun ps =>
      (pure (if tzidTruthyL (lastTzid vs) then paramsSetL ps kTZID (lastTzid vs) else ps) : Py Params)) =
      .ok (listParams vs) := by
  have hd := dedup_uniform (vs.map valueOfL)
  have hv : vs.map valueOfL = vs.map (fun v => Params.get? v.params kVALUE) := rfl
  simp only [hd.1]
  unfold listParams
  rw [← hv]
  cases hu : uniformValue (vs.map valueOfL) with
  | none =>
    simp only [Option.isSome_none, Bool.false_eq_true, if_false, bind, Except.bind, pure, Except.pure]
    cases hl : lastTzid vs with
    | none => simp [tzidTruthyL]
    | some z => cases hz : Enc.truthy z <;> simp [tzidTruthyL, hz, paramsSetL, Params.put]
  | some x =>
    have := hd.2 (by simp [hu])
    simp only [this, hu, Option.isSome_some, if_true, setPopOnly, bind, Except.bind, pure, Except.pure, paramsSetL, Params.put]
    cases hl : lastTzid vs with
    | none => simp [tzidTruthyL]
    | some z =>
      have hk : (kVALUE == kTZID) = false := by decide
      cases hz : Enc.truthy z <;> simp [tzidTruthyL, hz, paramsSetL, Params.put, hk]

/-- the translated `vDDDLists.__init__` on an iterable: the model's `listParams` of the wrapped objects -/
theorem ddd_lists_init_many (xs : List PyVal) :
    dddListsInitP (.many xs) = liftEnc ((Enc.mapRes mkDDD xs).map (fun vs => (listParams vs, vs))) := by
  unfold dddListsInitP vDDDLists_init
  simp only []
  rw [(init_loop xs [] none).2]
  cases hm : Enc.mapRes mkDDD xs with
  | error e => cases e <;> rfl
  | ok vs =>
    have hp := init_params vs
    simp only [Except.map, liftEnc_ok, bind, Except.bind, List.nil_append, foldl_stepTz, Option.or_none] at hp ⊢
    simp only [pure, Except.pure, kVALUE, kTZID] at hp ⊢
    have e1 : "VALUE".toList = ['V', 'A', 'L', 'U', 'E'] := by decide
    have e2 : "TZID".toList = ['T', 'Z', 'I', 'D'] := by decide
    simp only [e1, e2] at hp
    by_cases hc : ((((pyDedup (List.map valueOfL vs)).length : Int) == 1 && !(pyDedup (List.map valueOfL vs)).contains none) = true)
    · simp only [hc, if_true] at hp ⊢
      cases hs : setPopOnly (pyDedup (List.map valueOfL vs)) with
      | error e => simp [hs] at hp
      | ok t =>
        simp only [hs, Except.ok.injEq] at hp ⊢
        simp only [hp]
    · simp only [hc, if_false, Bool.false_eq_true, Except.ok.injEq] at hp ⊢
      simp only [hp]

/-- the translated `vDDDLists.__init__` on an object that is no iterable (it is wrapped in a list): the model's `listParams` of the wrapped objects -/
theorem ddd_lists_init_one (v : PyVal) :
    dddListsInitP (.one v) = liftEnc ((Enc.mapRes mkDDD [v]).map (fun vs => (listParams vs, vs))) := by
  unfold dddListsInitP vDDDLists_init
  simp only []
  rw [(init_loop [v] [] none).1]
  cases hm : Enc.mapRes mkDDD [v] with
  | error e => cases e <;> rfl
  | ok vs =>
    have hp := init_params vs
    simp only [Except.map, liftEnc_ok, bind, Except.bind, List.nil_append, foldl_stepTz, Option.or_none] at hp ⊢
    simp only [pure, Except.pure, kVALUE, kTZID] at hp ⊢
    have e1 : "VALUE".toList = ['V', 'A', 'L', 'U', 'E'] := by decide
    have e2 : "TZID".toList = ['T', 'Z', 'I', 'D'] := by decide
    simp only [e1, e2] at hp
    by_cases hc : ((((pyDedup (List.map valueOfL vs)).length : Int) == 1 && !(pyDedup (List.map valueOfL vs)).contains none) = true)
    · simp only [hc, if_true] at hp ⊢
      cases hs : setPopOnly (pyDedup (List.map valueOfL vs)) with
      | error e => simp [hs] at hp
      | ok t =>
        simp only [hs, Except.ok.injEq] at hp ⊢
        simp only [hp]
    · simp only [hc, if_false, Bool.false_eq_true, Except.ok.injEq] at hp ⊢
      simp only [hp]

end ICal.Bodies
