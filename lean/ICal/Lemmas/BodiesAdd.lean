/-
  Equality of the regenerated `Component.add` (ICal/Gen/BodiesAdd.lean, tools/py2lean.py) with the hand model `addProp`
  of ICal/Model/Encode.lean: a datetime under one of the names of the UTC tuple is converted first; a list argument is
  encoded element by element unless the name is one of the list names (then as a whole), anything else as one object;
  `if name in self:` - the old value and the new one are told apart by `isinstance(.., list)` and give old + new,
  old.append(new), [old] + new or [old, new]; `self[name] = value`.  The pieces are those of ICal/Model/AddPieces.lean.
-/
import ICal.Model.AddPieces
set_option linter.unusedSimpArgs false
namespace ICal.Bodies
open ICal ICal.PyRT ICal.Enc ICal.Gen.BodiesAdd

/-! ### `Component._encode` -/

theorem filter_absent (ps : Params) (k : Str) (h : ps.any (fun e => e.1 == k) = false) :
    ps.filter (fun e => e.1 != k) = ps := by
  induction ps with
  | nil => rfl
  | cons p ps ih =>
    simp only [List.any_cons, Bool.or_eq_false_iff] at h
    have hp : p.1 ≠ k := by intro e; simp [e] at h
    simp [List.filter_cons, hp, ih h.2]

/-- the loop over `parameters.items()`: None deletes the key (when present), a value sets it -/
theorem encode_loop (upd : List (Str × Option PVal)) : ∀ (o : EncObj),
    (Component_encode_loop1 (params_has := paramsHasE) (params_del := paramsDelE) (params_set := paramsSetE) o upd).map EncObj.val =
      .ok { o.val with params := mergeParams o.val.params upd } := by
  induction upd with
  | nil => intro o; simp [Component_encode_loop1, mergeParams, pure, Except.pure, Except.map]
  | cons kv upd ih =>
    intro o
    obtain ⟨k, item⟩ := kv
    rw [Component_encode_loop1]
    cases item with
    | none =>
      simp only []
      by_cases hh : paramsHasE o k = true
      · simp only [hh, if_true]
        rw [ih]
        simp [paramsDelE, EncObj.val, mergeParams]
      · simp only [hh, if_false, Bool.false_eq_true]
        rw [ih]
        have hf : o.val.params.filter (fun e => e.1 != upper k) = o.val.params :=
          filter_absent _ _ (by
            unfold paramsHasE at hh
            cases hb : o.val.params.any (fun e => e.1 == upper k)
            · rfl
            · exact absurd hb hh)
        simp [mergeParams, hf]
    | some v =>
      simp only []
      rw [ih]
      simp [paramsSetE, EncObj.val, mergeParams]

/-- the translated `_encode` is the model's `encodeOne` (a value of one of the value classes is not encoded again; the
    class of the name makes the object otherwise; then the parameters are merged: None deletes) -/
theorem encode_eq (name : Str) (v : PyVal) (upd : List (Str × Option PVal)) :
    (encodeOneP name v upd).map EncObj.val = liftEnc (encodeOne name v upd) := by
  have h1 : ((1 : Int) != 0) = true := by decide
  have hl := encode_loop upd
  unfold encodeOneP Component_encode encodeOne
  simp only [Truthy.truthy, h1, Bool.not_true, Bool.false_eq_true, if_false]
  cases hk : keptTyped v with
  | some o =>
    simp only [isTypedE, hk, Option.isSome_some, if_true, bind, Except.bind, pure, Except.pure]
    cases upd with
    | nil => simp [Except.map, EncObj.val, hk, mergeParams, liftEnc]
    | cons kv r =>
      simp only [List.isEmpty_cons, Bool.not_false, if_true]
      have := hl (EncObj.raw v)
      simp only [EncObj.val, hk, Option.getD_some] at this
      cases hloop : Component_encode_loop1 (params_has := paramsHasE) (params_del := paramsDelE) (params_set := paramsSetE) (EncObj.raw v) (kv :: r) with
      | error e => rw [hloop] at this; simp [Except.map] at this
      | ok w => rw [hloop] at this; simp only [Except.map] at this; simp [Except.map, this, liftEnc]
  | none =>
    simp only [isTypedE, hk, Option.isSome_none, Bool.false_eq_true, if_false, constructE]
    cases hc : construct1 (forProperty name) v with
    | error e => cases e <;> rfl
    | ok o =>
      simp only [Except.map, liftEnc, bind, Except.bind, pure, Except.pure]
      cases upd with
      | nil => simp [Except.map, EncObj.val, mergeParams, liftEnc]
      | cons kv r =>
        simp only [List.isEmpty_cons, Bool.not_false, if_true]
        have := hl (EncObj.obj o)
        simp only [EncObj.val] at this
        cases hloop : Component_encode_loop1 (params_has := paramsHasE) (params_del := paramsDelE) (params_set := paramsSetE) (EncObj.obj o) (kv :: r) with
        | error e => rw [hloop] at this; simp [Except.map] at this
        | ok w => rw [hloop] at this; simp only [Except.map] at this; simp [Except.map, liftEnc, this]

theorem encodeU_one (upd : List (Str × Option PVal)) (name : Str) (v : PyVal) :
    encodeU upd name (PyOneMany.one v) () 1 = liftEnc (encodeOne name v upd) := encode_eq name v upd

theorem encodeU_many (upd : List (Str × Option PVal)) (name : Str) (xs : List PyVal) :
    encodeU upd name (PyOneMany.many xs) () 1 = liftEnc (encodeWhole name (.list xs) upd) := rfl

theorem mapM_encode (upd : List (Str × Option PVal)) (name : Str) : ∀ (xs : List PyVal),
    List.mapM (fun v => (encodeU upd name (PyOneMany.one v) () 1) >>= fun (t : Val) => (pure t : Py Val)) xs =
      liftEnc (Enc.mapRes (fun v => encodeOne name v upd) xs) := by
  intro xs
  induction xs with
  | nil => rfl
  | cons x xs ih =>
    rw [List.mapM_cons, ih]
    simp only [Enc.mapRes, encodeU_one]
    cases hx : encodeOne name x upd with
    | error e => cases e <;> rfl
    | ok y =>
      cases hm : Enc.mapRes (fun v => encodeOne name v upd) xs with
      | error e => cases e <;> rfl
      | ok ys => rfl

/-- the "set value" stage of the translated code on a stored value -/
def setStage (props : List Entry) (name : Str) (value : PyOneMany Val) : Py (List Entry) :=
  Component_add_tail props name value
where
  Component_add_tail (self_ : List Entry) (name : Str) (value : PyOneMany Val) : Py (List Entry) := do
    let m11' : PyOneMany Val ← (
      if ((hasKeyU self_ name)) then do
        let t12' : PyOneMany Val ← getItemU self_ name
        let oldval : PyOneMany Val := t12'
        match oldval with
        | .many n16' => do
          match value with
          | .many n18' => do
            let value : List Val := (n16' ++ n18')
            pure ((PyOneMany.many value))
          | .one n17' => do
            let oldval : List Val := (n16' ++ [n17'])
            let value : List Val := oldval
            pure ((PyOneMany.many value))
        | .one n13' => do
          match value with
          | .many n15' => do
            let value : List Val := ([n13'] ++ n15')
            pure ((PyOneMany.many value))
          | .one n14' => do
            let value : List Val := [n13', n14']
            pure ((PyOneMany.many value))
      else do
        pure (value))
    let value : PyOneMany Val := m11'
    let self : List Entry := (setItemU self_ name value)
    pure self

def storedU : Stored → PyOneMany Val
  | .one v => .one v
  | .many vs => .many vs

theorem setStage_eq (props : List Entry) (name : Str) (st : Stored) :
    setStage props name (storedU st) = .ok (accumulate props (upper name) st) := by
  unfold setStage setStage.Component_add_tail hasKeyU getItemU accumulate
  cases hf : props.find? (fun e => e.name == upper name) with
  | none => cases st <;> simp [bind, Except.bind, pure, Except.pure, setItemU, storedU]
  | some e =>
    obtain ⟨en, il, ev⟩ := e
    cases il with
    | true => cases st <;> simp [bind, Except.bind, pure, Except.pure, setItemU, storedU]
    | false =>
      cases ev with
      | nil => cases st <;> simp [bind, Except.bind, pure, Except.pure, setItemU, storedU]
      | cons x r =>
        cases r with
        | nil => cases st <;> simp [bind, Except.bind, pure, Except.pure, setItemU, storedU]
        | cons y r2 => cases st <;> simp [bind, Except.bind, pure, Except.pure, setItemU, storedU]

/-- closes the goals that differ only in how the nested `match` is written -/
macro "tail_cases" props:term "," name:term : tactic => `(tactic|
  (simp only [liftEnc, Except.map, storedU, bind, Except.bind, pure, Except.pure]
   cases hasKeyU $props $name
   · rfl
   · simp only [if_true]
     cases getItemU $props $name with
     | error e => rfl
     | ok o => cases o <;> rfl))

/-- the translated `add` is the encoding stage followed by the set stage -/
theorem add_split (props : List Entry) (name : Str) (a : PyArg) (upd : List (Str × Option PVal)) :
    componentAddP props name a upd =
      (liftEnc ((addValue name a upd).map storedU) >>= fun v => setStage props name v) := by
  have hu : ([['d', 't', 's', 't', 'a', 'm', 'p'], ['c', 'r', 'e', 'a', 't', 'e', 'd'], ['l', 'a', 's', 't', '-', 'm', 'o', 'd', 'i', 'f', 'i', 'e', 'd'],
      ['a', 'c', 'k', 'n', 'o', 'w', 'l', 'e', 'd', 'g', 'e', 'd']] : List Str) = Gen.addUtcNames := rfl
  have hlst : ([['r', 'd', 'a', 't', 'e'], ['e', 'x', 'd', 'a', 't', 'e'], ['c', 'a', 't', 'e', 'g', 'o', 'r', 'i', 'e', 's']] : List Str) = Gen.addListNames := rfl
  unfold componentAddP Component_add addValue forceUtc setStage setStage.Component_add_tail
  simp only [hu, hlst, Truthy.truthy]
  have h1 : ((1 : Int) != 0) = true := by decide
  simp only [h1, if_true]
  cases a with
  | list xs =>
    simp only [argU, isDatetimeU, Bool.false_and, Bool.false_eq_true, if_false]
    by_cases hl : Gen.addListNames.contains (lower name) = true
    · simp only [hl, Bool.not_true, Bool.false_eq_true, if_false, if_true, encodeU_one, encodeU_many]
      cases encodeWhole name (.list xs) upd with
      | error e => cases e <;> rfl
      | ok v => tail_cases props, name
    · simp only [hl, Bool.not_false, if_true, if_false, Bool.false_eq_true]
      rw [mapM_encode]
      cases Enc.mapRes (fun v => encodeOne name v upd) xs with
      | error e => cases e <;> rfl
      | ok vs => tail_cases props, name
  | one v =>
    by_cases hd : isDatetimeU (PyOneMany.one v) = true
    · obtain ⟨t, rfl⟩ : ∃ t, v = .atom (.dt t) := by
        cases v with
        | atom x => cases x <;> simp [isDatetimeU] at hd; exact ⟨_, rfl⟩
        | _ => simp [isDatetimeU] at hd
      by_cases hn : Gen.addUtcNames.contains (lower name) = true
      · simp only [argU, isDatetimeU, hn, Bool.and_self, if_true, localizeUtcU, encodeU_one, encodeU_many]
        cases encodeOne name (.atom (.dt t.toUtc)) upd with
        | error e => cases e <;> rfl
        | ok w => tail_cases props, name
      · simp only [argU, isDatetimeU, hn, Bool.and_false, Bool.false_eq_true, if_false, encodeU_one, encodeU_many]
        cases encodeOne name (.atom (.dt t)) upd with
        | error e => cases e <;> rfl
        | ok w => tail_cases props, name
    · have hf : forceUtc name (.one v) = .one v := by
        unfold forceUtc
        cases v with
        | atom x => cases x <;> simp [isDatetimeU] at hd ⊢
        | _ => rfl
      have hd' : isDatetimeU (PyOneMany.one v) = false := by simpa using hd
      simp only [argU, hd', Bool.false_and, Bool.false_eq_true, if_false, encodeU_one, encodeU_many]
      unfold forceUtc at hf
      rw [hf]
      simp only []
      cases encodeOne name v upd with
      | error e => cases e <;> rfl
      | ok w => tail_cases props, name

/-- the translated `Component.add(name, value, parameters)` is the model's `addProp` -/
theorem add_eq (props : List Entry) (name : Str) (a : PyArg) (upd : List (Str × Option PVal)) :
    componentAddP props name a upd = liftEnc (addProp props name a upd) := by
  rw [add_split]
  unfold addProp
  cases addValue name a upd with
  | error e => cases e <;> rfl
  | ok st => simp only [Except.map, liftEnc, bind, Except.bind, setStage_eq]

end ICal.Bodies
