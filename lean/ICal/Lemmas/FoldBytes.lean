/-
  Octet level of folding: the UTF-8 octets of a folded line, split on the two-octet
  sequence 13 10, are the physical lines.  Helper lemmas for `ICal.C06.fold_bytes_width`
  and `ICal.C06.fold_bytes_utf8`.
-/
import ICal.Lemmas.Fold
namespace ICal

/-- split an octet string on the two-octet sequence CR LF (13, 10) -/
def splitCRLF : List UInt8 → List (List UInt8)
  | [] => [[]]
  | [b] => [[b]]
  | b :: c :: bs =>
    if b = 13 ∧ c = 10 then [] :: splitCRLF bs
    else match splitCRLF (c :: bs) with
      | [] => [[b]]
      | hd :: tl => (b :: hd) :: tl

/-! ### the octet 10 occurs only as the encoding of LF -/

theorem ofNat_eq_ten (n : Nat) (h : UInt8.ofNat n = 10) : n % 256 = 10 := by
  have h2 : (UInt8.ofNat n).toNat = 10 := by rw [h]; rfl
  simpa using h2

theorem lf_of_mem_encode (c : Char) (h : (10 : UInt8) ∈ String.utf8EncodeChar c) : c = LF := by
  unfold String.utf8EncodeChar at h
  simp only [] at h
  split at h
  · next hv =>
    simp only [List.mem_singleton] at h
    have := ofNat_eq_ten _ h.symm
    have hv' : c.val.toNat = 10 := by omega
    apply Char.ext
    apply UInt32.toNat_inj.mp
    rw [hv']; rfl
  · split at h
    · simp only [List.mem_cons, List.not_mem_nil, or_false] at h
      rcases h with h | h <;> (have := ofNat_eq_ten _ h.symm; omega)
    · split at h
      · simp only [List.mem_cons, List.not_mem_nil, or_false] at h
        rcases h with h | h | h <;> (have := ofNat_eq_ten _ h.symm; omega)
      · simp only [List.mem_cons, List.not_mem_nil, or_false] at h
        rcases h with h | h | h | h <;> (have := ofNat_eq_ten _ h.symm; omega)

theorem ten_not_mem_utf8 (s : Str) (h : LF ∉ s) : (10 : UInt8) ∉ utf8 s := by
  intro hm
  simp only [utf8, List.mem_flatMap] at hm
  obtain ⟨c, hc, hcm⟩ := hm
  exact h (lf_of_mem_encode c hcm ▸ hc)

/-! ### splitting -/

/-- an octet string without 10 followed by 13 10: the break is found exactly there
    (a trailing 13 of `p` stays in `p`, because 13 13 is not a break) -/
theorem splitCRLF_line (p t : List UInt8) (h : (10 : UInt8) ∉ p) :
    splitCRLF (p ++ 13 :: 10 :: t) = p :: splitCRLF t := by
  induction p with
  | nil => simp [splitCRLF]
  | cons b bs ih =>
    have hbs : (10 : UInt8) ∉ bs := by intro e; apply h; simp [e]
    have ih := ih hbs
    cases bs with
    | nil =>
      simp only [List.cons_append, List.nil_append] at ih ⊢
      rw [splitCRLF]
      have : ¬ (b = 13 ∧ (13 : UInt8) = 10) := by intro ⟨_, e⟩; exact absurd e (by decide)
      simp only [this, if_false, ih]
    | cons d ds =>
      have hd : d ≠ 10 := by intro e; apply h; simp [e]
      simp only [List.cons_append] at ih ⊢
      rw [splitCRLF]
      simp only [hd, and_false, if_false, ih]

theorem splitCRLF_plain (p : List UInt8) (h : (10 : UInt8) ∉ p) : splitCRLF p = [p] := by
  induction p with
  | nil => simp [splitCRLF]
  | cons b bs ih =>
    have hbs : (10 : UInt8) ∉ bs := by intro e; apply h; simp [e]
    have ih := ih hbs
    cases bs with
    | nil => simp [splitCRLF]
    | cons d ds =>
      have hd : d ≠ 10 := by intro e; apply h; simp [e]
      rw [splitCRLF]
      simp only [hd, and_false, if_false, ih]

/-! ### the octets of a folded line -/

theorem utf8_app (a b : Str) : utf8 (a ++ b) = utf8 a ++ utf8 b := by
  simp [utf8]

theorem utf8_sep3 : utf8 sep3 = [13, 10, 32] := by decide

theorem utf8_SP_cons (s : Str) : utf8 (SP :: s) = 32 :: utf8 s := by
  have : utf8 (SP :: s) = utf8 [SP] ++ utf8 s := by rw [← utf8_app]; rfl
  rw [this]
  have : utf8 [SP] = [32] := by decide
  rw [this]; rfl

/-- the physical lines of a folded line: the first segment, then SP + segment for each
    further segment -/
theorem splitCRLF_join (s : Str) (ss : List Str) (h : ∀ x ∈ s :: ss, LF ∉ x) :
    ∀ pre : List UInt8, (10 : UInt8) ∉ pre →
    splitCRLF (pre ++ utf8 (joinSegs sep3 (s :: ss))) =
      (pre ++ utf8 s) :: ss.map (fun x => utf8 (SP :: x)) := by
  induction ss generalizing s with
  | nil =>
    intro pre hpre
    simp only [joinSegs, List.map_nil]
    apply splitCRLF_plain
    intro hm
    rcases List.mem_append.mp hm with hm | hm
    · exact hpre hm
    · exact ten_not_mem_utf8 s (h s (by simp)) hm
  | cons t ts ih =>
    intro pre hpre
    have hs := ten_not_mem_utf8 s (h s (by simp))
    have ih := ih t (fun x hx => h x (by simp at hx ⊢; right; exact hx)) [32] (by decide)
    simp only [joinSegs, utf8_app, utf8_sep3, List.map_cons, utf8_SP_cons]
    have e : pre ++ (utf8 s ++ [13, 10, 32] ++ utf8 (joinSegs sep3 (t :: ts))) =
        (pre ++ utf8 s) ++ 13 :: 10 :: ([32] ++ utf8 (joinSegs sep3 (t :: ts))) := by simp
    rw [e, splitCRLF_line _ _ (by
      intro hm
      rcases List.mem_append.mp hm with hm | hm
      · exact hpre hm
      · exact hs hm), ih]
    simp [utf8_SP_cons]

/-- every physical line of a segmentation is the UTF-8 of a segment or of SP + segment -/
theorem splitCRLF_join_mem (segs : List Str) (h : ∀ x ∈ segs, LF ∉ x) :
    ∀ p ∈ splitCRLF (utf8 (joinSegs sep3 segs)),
      p = [] ∨ ∃ x ∈ segs, p = utf8 x ∨ p = utf8 (SP :: x) := by
  intro p hp
  cases segs with
  | nil =>
    left
    simpa [joinSegs, utf8, splitCRLF] using hp
  | cons s ss =>
    right
    have := splitCRLF_join s ss h [] (by simp)
    simp only [List.nil_append] at this
    rw [this] at hp
    rcases List.mem_cons.mp hp with rfl | hp
    · exact ⟨s, by simp, Or.inl rfl⟩
    · obtain ⟨x, hx, rfl⟩ := List.mem_map.mp hp
      exact ⟨x, by simp [hx], Or.inr rfl⟩

theorem utf8_len (l : Str) : (utf8 l).length = octets l := by
  induction l with
  | nil => simp [utf8, octets]
  | cons c cs ih =>
    have : utf8 (c :: cs) = String.utf8EncodeChar c ++ utf8 cs := by simp [utf8]
    rw [this, List.length_append, ih, octets_cons]
    simp [w]

end ICal
