/-
  Equality of the regenerated descriptor closures `p_set` / `p_del` of `create_single_property` and of `_set_duration` /
  `_del_duration` (ICal/Gen/BodiesSEDesc.lean, tools/py2lean.py) with the hand model ICal/Model/StartEnd.lean (`pSet`,
  `setDuration`, the deleter step of `step`), for the pieces of ICal/Model/SEDescPieces.lean.
-/
import ICal.Model.SEDescPieces
import ICal.Lemmas.StartEnd
set_option linter.unusedSimpArgs false
namespace ICal.Bodies
open ICal ICal.PyRT ICal.SE ICal.Gen.BodiesSEDesc

theorem exclNames_event : exclNames .event = [keyName .dtend, keyName .duration] := by decide
theorem exclNames_todo : exclNames .todo = [keyName .due, keyName .duration] := by decide
theorem exclNames_journal : exclNames .journal = [] := by decide

theorem keyOf_upper_keyName (k : Key) : keyOfName (upper (keyName k)) = some k := by cases k <;> decide

/-- the model's `exclusive` is the regenerated tuple seen through `keyOfName` -/
theorem exclusive_eq (c : Cls) : exclusive c = (exclNames c).filterMap keyOfName := by
  unfold exclusive exclNames
  generalize List.find? _ _ = o
  cases o <;> rfl

theorem p_del_eq (s : St) (k : Key) : pDelB s k = s.put k .absent := by
  simp [pDelB, p_del, sePop, keyOf_upper_keyName]

theorem del_duration_eq (s : St) : delDurationB s = s.put .duration .absent := by
  have h : keyOfName (upper (['D', 'U', 'R', 'A', 'T', 'I', 'O', 'N'] : Str)) = some .duration := by decide
  simp [delDurationB, del_duration, sePop, h]

theorem set_duration_eq (s : St) (x : Arg) : setDurationB s x = seLift (setDuration s x) := by
  have h1 : keyOfName (upper (['d', 'u', 'r', 'a', 't', 'i', 'o', 'n'] : Str)) = some .duration := by decide
  have h2 : keyOfName (upper (['D', 'T', 'E', 'N', 'D'] : Str)) = some .dtend := by decide
  have h3 : keyOfName (upper (['D', 'U', 'E'] : Str)) = some .due := by decide
  cases x with
  | none => simp [setDurationB, set_duration, argOpt, sePopD, sePop, h1, setDuration, seLift, pure, Except.pure]
  | wrong => simp [setDurationB, set_duration, argOpt, seIsTd, setDuration, seLift, throw, throwThe, MonadExceptOf.throw, seExc]
  | val v =>
    cases v <;>
      simp [setDurationB, set_duration, argOpt, seIsTd, seWrapDur, seWrap, seSetItem, sePop, h1, h2, h3, setDuration, seLift,
        throw, throwThe, MonadExceptOf.throw, seExc, pure, Except.pure, bind, Except.bind]

theorem keyName_inj (a b : Key) : keyName a = keyName b ↔ a = b := by cases a <;> cases b <;> decide

theorem p_set_eq (c : Cls) (s : St) (k : Key) (x : Arg) : pSetB c s k x = seLift (pSet c s k x) := by
  cases x with
  | none => simp [pSetB, p_set, argOpt, p_del, sePop, keyOf_upper_keyName, pSet, seLift, pure, Except.pure]
  | wrong => simp [pSetB, p_set, argOpt, seIsDT, pSet, seLift, throw, throwThe, MonadExceptOf.throw, seExc]
  | val v =>
    by_cases hv : v.isDT = true
    · cases c <;> cases k <;>
        simp [pSetB, p_set, p_set_loop1, argOpt, seIsDT, hv, seWrap, seSetItem, sePopD, sePop, keyOf_upper_keyName, pSet, seLift,
          popOthers, exclusive_event, exclusive_todo, exclusive_journal, exclNames_event, exclNames_todo, exclNames_journal,
          keyName_inj, pure, Except.pure, bind, Except.bind]
    · simp [pSetB, p_set, argOpt, seIsDT, hv, pSet, seLift, throw, throwThe, MonadExceptOf.throw, seExc]

theorem step_eq (c : Cls) (s : St) (op : Op) : stepB c s op = seLift (step c s op) := by
  cases op with
  | set a x =>
    simp only [stepB, step]
    generalize target c a = t
    cases t with
    | none => rfl
    | some k =>
      cases k
      · exact p_set_eq c s _ x
      · exact p_set_eq c s _ x
      · exact p_set_eq c s _ x
      · exact set_duration_eq s x
  | del k =>
    simp only [stepB, step]
    by_cases hd : descr c k = true
    · by_cases hk : k = .duration
      · subst hk; simp [hd, del_duration_eq, seLift]
      · simp [hd, hk, p_del_eq, seLift]
    · simp [hd, seLift, seExc]
  | add k x => rfl

end ICal.Bodies
