/-
  Equality of the regenerated second half of `Timezone.get_transitions` (ICal/Gen/BodiesTz.lean, tools/py2lean.py wave 8:
  `transition_times`, the loop over `enumerate(transitions)`, the search backwards over `range(num - 1, -1, -1)` and forwards
  over `range(num, len(transitions))` with `transitions[index]`, the local that is `False` or a timedelta, `if not dst_offset`
  - true for `False` AND for `timedelta(0)` -, `assert dst_offset is not False`) with the hand model `infoGo` / `dstOffset` of
  ICal/Model/Tz.lean.  The index loops are related to the model's structural recursion (`before` = the reversed prefix,
  `cur :: after` = the rest) by `bwd_loop` / `fwd_loop`.
-/
import ICal.Model.TzInfoPieces
set_option linter.unusedSimpArgs false
set_option linter.unusedVariables false
namespace ICal.Bodies
open ICal ICal.PyRT ICal.Tz ICal.Gen.BodiesTz

abbrev Tup := Int × Int × Int × Str

/-- `firstStd` on tuples -/
def firstStdT (dst : Str → Bool) : List Tup → Option Int
  | [] => none
  | x :: xs => if dst x.2.2.2 then firstStdT dst xs else some x.2.2.1

theorem firstStdT_map (dst : Str → Bool) : ∀ l : List Tr, firstStdT dst (l.map trTuple) = firstStd dst l
  | [] => rfl
  | x :: xs => by simp [firstStdT, firstStd, trTuple, firstStdT_map dst xs]

theorem listGetI_append (pre : List Tup) (x : Tup) (rest : List Tup) :
    listGetI (pre ++ x :: rest) (pre.length : Int) = .ok x := by
  unfold listGetI
  have h : ¬ ((pre.length : Int) < 0) := by omega
  simp [h]

/-- what a search loop leaves in `dst_offset` -/
def found (dst : Str → Bool) (osto : Int) (acc : Option Int) (l : List Tup) : Option Int :=
  match firstStdT dst l with
  | some s => some (osto - s)
  | none => acc

theorem fwd_loop (dst : Str → Bool) (cur : Tup) (acc : Option Int) : ∀ (suffix pre : List Tup),
    get_transitions_info_loop3 (pre ++ suffix) () (dstOfP dst) cur acc
      (rangeUp ((pre ++ suffix).length : Int) 1 suffix.length (pre.length : Int)) = .ok (found dst cur.2.2.1 acc suffix)
  | [], pre => by simp [rangeUp, get_transitions_info_loop3, found, firstStdT, pure, Except.pure]
  | x :: xs, pre => by
    have hlt : (pre.length : Int) < ((pre ++ x :: xs).length : Int) := by simp; omega
    have ih := fwd_loop dst cur acc xs (pre ++ [x])
    have e1 : pre ++ [x] ++ xs = pre ++ x :: xs := by simp
    have e2 : ((pre ++ [x]).length : Int) = (pre.length : Int) + 1 := by simp
    rw [e1, e2] at ih
    simp only [List.length_cons, rangeUp, hlt, if_true, get_transitions_info_loop3, listGetI_append, dstOfP, bind, Except.bind,
      found, firstStdT]
    by_cases hd : dst x.2.2.2 = true
    · simp only [hd, Bool.not_true, Bool.false_eq_true, if_false, if_true]
      simpa [found] using ih
    · simp [hd, pure, Except.pure]

theorem bwd_loop (dst : Str → Bool) (cur : Tup) (acc : Option Int) : ∀ (rev rest : List Tup),
    get_transitions_info_loop2 (rev.reverse ++ rest) () (dstOfP dst) cur acc
      (rangeDown (-1) (-1) rev.length ((rev.length : Int) - 1)) = .ok (found dst cur.2.2.1 acc rev)
  | [], rest => by simp [rangeDown, get_transitions_info_loop2, found, firstStdT, pure, Except.pure]
  | x :: rev', rest => by
    have hgt : (((rev'.length + 1 : Nat) : Int) - 1) > -1 := by omega
    have e0 : (((rev'.length + 1 : Nat) : Int) - 1) = ((rev'.reverse).length : Int) := by rw [List.length_reverse]; omega
    have e1 : (x :: rev').reverse ++ rest = rev'.reverse ++ x :: rest := by simp
    have ih := bwd_loop dst cur acc rev' (x :: rest)
    have e3 : ((rev'.reverse).length : Int) + -1 = (rev'.length : Int) - 1 := by rw [List.length_reverse]; omega
    simp only [List.length_cons, rangeDown, hgt, if_true, get_transitions_info_loop2, e1]
    rw [e0, listGetI_append]
    simp only [dstOfP, bind, Except.bind, found, firstStdT, e3]
    by_cases hd : dst x.2.2.2 = true
    · simp only [hd, Bool.not_true, Bool.false_eq_true, if_false, if_true]
      simpa [found] using ih
    · simp [hd, pure, Except.pure]

theorem pyRange_down (n : Nat) : pyRange ((n : Int) - 1) (-1) (-1) = .ok (rangeDown (-1) (-1) n ((n : Int) - 1)) := by
  have h : ((n : Int) - 1 - -1).toNat = n := by omega
  simp [pyRange, h]

theorem pyRange_up (k m : Nat) : pyRange (k : Int) ((k + m : Nat) : Int) 1 = .ok (rangeUp ((k + m : Nat) : Int) 1 m (k : Int)) := by
  have h : (((k + m : Nat) : Int) - (k : Int)).toNat = m := by omega
  unfold pyRange
  rw [h]
  simp

/-- the view of the model's rows as the tuples appended to `transition_info` -/
def entTuple (e : Ent) : Int × Int × Str := (e.off, e.dst, e.name)

theorem dstOffset_eq (dst : Str → Bool) (before : List Tr) (cur : Tr) (after : List Tr) (hd : dst cur.name = true) :
    dstOffset dst before cur after =
      (let l := found dst cur.osto none (before.map trTuple)
       if !(truthy l) then found dst cur.osto l ((cur :: after).map trTuple) else l) := by
  simp only [dstOffset, hd, Bool.not_true, Bool.false_eq_true, if_false, found, firstStdT_map]
  cases h1 : firstStd dst before with
  | none =>
    simp only [truthy]
    cases h2 : firstStd dst (cur :: after) <;> simp
  | some s =>
    by_cases h0 : cur.osto - s = 0
    · simp only [h0, truthy, ne_eq, not_true_eq_false, if_false]
      cases h2 : firstStd dst (cur :: after) <;> simp
    · simp [h0, truthy]

theorem outer_loop (dst : Str → Bool) : ∀ (rest pre : List Tr) (acc : List (Int × Int × Str)),
    get_transitions_info_loop1 ((pre ++ rest).map trTuple) () (dstOfP dst) (pre.length : Int) acc (rest.map trTuple) =
      match infoGo dst pre.reverse rest with
      | some es => .ok (acc ++ es.map entTuple)
      | none => .error .assertionError
  | [], pre, acc => by simp [get_transitions_info_loop1, infoGo, pure, Except.pure]
  | cur :: rest', pre, acc => by
    have ih := fun acc' => outer_loop dst rest' (pre ++ [cur]) acc'
    have e1 : pre ++ [cur] ++ rest' = pre ++ cur :: rest' := by simp
    have e2 : ((pre ++ [cur]).length : Int) = (pre.length : Int) + 1 := by simp
    have e3 : (pre ++ [cur]).reverse = cur :: pre.reverse := by simp
    simp only [e1, e2, e3] at ih
    simp only [List.map_cons, get_transitions_info_loop1, dstOfP, bind, Except.bind, infoGo, trTuple]
    by_cases hd : dst cur.name = true
    · -- daylight: the two searches
      have hT : (pre ++ cur :: rest').map trTuple = ((pre.reverse.map trTuple).reverse) ++ (trTuple cur :: rest'.map trTuple) := by
        simp [List.map_reverse]
      have hlen : ((pre.reverse.map trTuple).length : Int) = (pre.length : Int) := by simp
      have hb := bwd_loop dst (trTuple cur) none (pre.reverse.map trTuple) (trTuple cur :: rest'.map trTuple)
      rw [← hT, hlen] at hb
      have hlenN : (pre.reverse.map trTuple).length = pre.length := by simp
      rw [hlenN] at hb
      have hT2 : (pre ++ cur :: rest').map trTuple = pre.map trTuple ++ (cur :: rest').map trTuple := by simp
      have hf := fun l => fwd_loop dst (trTuple cur) l ((cur :: rest').map trTuple) (pre.map trTuple)
      simp only [← hT2] at hf
      have hl1 : (((pre ++ cur :: rest').map trTuple).length : Int) = ((pre.length + (rest'.length + 1) : Nat) : Int) := by simp
      have hl2 : ((cur :: rest').map trTuple).length = rest'.length + 1 := by simp
      have hl3 : ((pre.map trTuple).length : Int) = (pre.length : Int) := by simp
      simp only [hl1, hl2, hl3] at hf
      have hlenT : ((pre ++ cur :: rest').map trTuple).length = pre.length + (rest'.length + 1) := by simp
      simp only [hd, Bool.not_true, Bool.false_eq_true, if_false, pyRange_down, hlenT, pyRange_up, trTuple] at hb hf ⊢
      rw [hb]
      simp only []
      rw [dstOffset_eq dst pre.reverse cur rest' hd]
      simp only [trTuple, List.map_cons] at hf ⊢
      by_cases ht : truthy (found dst cur.osto none (pre.reverse.map trTuple)) = true
      · simp only [ht, Bool.not_true, Bool.false_eq_true, if_false]
        cases hfd : found dst cur.osto none (pre.reverse.map trTuple) with
        | none => rw [hfd] at ht; exact absurd ht (by decide)
        | some d =>
          simp only [ih]
          cases infoGo dst (cur :: pre.reverse) rest' <;> simp [entTuple]
      · have ht' : truthy (found dst cur.osto none (pre.reverse.map trTuple)) = false := by simpa using ht
        simp only [ht', Bool.not_false, if_true, hf]
        cases hfd : found dst cur.osto (found dst cur.osto none (pre.reverse.map trTuple))
            (trTuple cur :: rest'.map trTuple) with
        | none => simp only [trTuple] at hfd; simp only [hfd]; rfl
        | some d =>
          simp only [trTuple] at hfd
          simp only [hfd, ih]
          cases infoGo dst (cur :: pre.reverse) rest' <;> simp [entTuple]
    · -- standard time
      have hd' : dst cur.name = false := by simpa using hd
      simp only [hd', Bool.not_false, if_true, tdSeconds, dstOffset, ih]
      cases infoGo dst (cur :: pre.reverse) rest' <;> simp [entTuple]

theorem infoGo_utc (dst : Str → Bool) : ∀ (trs before : List Tr) (es : List Ent), infoGo dst before trs = some es →
    es.map (·.utc) = trs.map (fun t => t.loc - t.osfrom)
  | [], _, es, h => by simp [infoGo] at h; subst h; rfl
  | cur :: rest, before, es, h => by
    simp only [infoGo] at h
    cases hd : dstOffset dst before cur rest with
    | none => simp [hd] at h
    | some d =>
      cases ht : infoGo dst (cur :: before) rest with
      | none => simp [hd, ht] at h
      | some tl =>
        simp only [hd, ht, Option.some.injEq] at h
        subst h
        simp [infoGo_utc dst rest (cur :: before) tl ht]

/-- the regenerated fragment on the model's sorted transitions: the model's `infoGo`, AssertionError where it has none -/
theorem transitionsInfoP_eq (dst : Str → Bool) (trs : List Tr) :
    transitionsInfoP dst trs = infoView (infoGo dst [] trs) := by
  have h := outer_loop dst trs [] []
  simp only [List.reverse_nil] at h
  change get_transitions_info_loop1 (trs.map trTuple) () (dstOfP dst) 0 [] (trs.map trTuple) = _ at h
  unfold transitionsInfoP get_transitions_info infoView
  cases hi : infoGo dst [] trs with
  | none =>
    simp only [hi] at h
    simp only [h, bind, Except.bind]
  | some es =>
    simp only [hi] at h
    simp only [h, bind, Except.bind, pure, Except.pure, List.nil_append, entTuple, infoGo_utc dst trs [] es hi, List.map_map,
      Function.comp_def, trTuple]
    rfl

end ICal.Bodies
