/-
  Equality of the REGENERATED function bodies (ICal/Gen/Bodies.lean, written by tools/py2lean.py from
  the current source text on every run) with the hand-written model (ICal/Model/Codec.lean).

  Every theorem `<function>_eq` says: on the domain of the hand model, the translated body computes
  what the hand model computes.  All C03 theorems about `durTo`, `offTo`, `vDateTo`, `vDatetimeTo`,
  `vMonthTo`, `boolTo`, `intTo` are therefore theorems about what the code says now - not about a
  sample of its behaviour.  If a body changes its meaning these proofs stop checking.

  Correspondence of values:  `timedelta` (whole seconds) = `TD` in CPython's normal form (`TD.wf`)
  = the `Int` of seconds of the hand model through `TD.toSeconds` / `TD.ofSeconds` (inverse to each
  other, proved below);  `date` / `datetime` = the records `PyDate` / `PyDateTime` of ints, built
  from the model's `PDate` / `PDateTime` by `dateOf` / `dateTimeOf`.
-/
import ICal.Gen.Bodies
import ICal.Model.Codec
namespace ICal.Bodies
open ICal ICal.PyRT ICal.Gen.Bodies

/-! ## the runtime on the values the hand model uses (naturals embedded in `Int`) -/

theorem strInt_nat (n : Nat) : strInt (n : Int) = natToStr n := by
  have : ¬ ((n : Int) < 0) := by omega
  simp [strInt, intToStr, this]

theorem fmtZ_nat (w n : Nat) : fmtZ w (n : Int) = pad w n := by
  have : ¬ ((n : Int) < 0) := by omega
  simp [fmtZ, this]

theorem pyAbs_nat (n : Nat) : pyAbs (n : Int) = (n : Int) := by simp [pyAbs]

theorem truthy_nat (n : Nat) : truthy (n : Int) = decide (n ≠ 0) := by
  show ((n : Int) != 0) = _
  by_cases h : n = 0
  · subst h; rfl
  · have : (n : Int) ≠ 0 := by omega
    simp [h]

theorem truthy_str (s : Str) : truthy s = !s.isEmpty := rfl

theorem floorDiv_3600 (n : Nat) : floorDiv (n : Int) 3600 = ((n / 3600 : Nat) : Int) := by simp [floorDiv]
theorem floorDiv_60 (n : Nat) : floorDiv (n : Int) 60 = ((n / 60 : Nat) : Int) := by simp [floorDiv]
theorem pyMod_3600 (n : Nat) : pyMod (n : Int) 3600 = ((n % 3600 : Nat) : Int) := by simp [pyMod]
theorem pyMod_60 (n : Nat) : pyMod (n : Int) 60 = ((n % 60 : Nat) : Int) := by simp [pyMod]

/-! ## DATE, DATE-TIME, month, BOOLEAN, INTEGER -/

def dateOf (d : PDate) : PyDate := ⟨d.y, d.m, d.d⟩
def dateTimeOf (t : PDateTime) : PyDateTime := ⟨t.date.y, t.date.m, t.date.d, t.h, t.mi, t.s⟩
def UTC : Str := ['U', 'T', 'C']

theorem vDate_to_ical_eq (d : PDate) : vDate_to_ical (dateOf d) = vDateTo d := by
  simp [vDate_to_ical, dateOf, vDateTo, fmtZ_nat]

theorem vDatetime_to_ical_eq (t : PDateTime) (tzid : Option Str) (h : t.utc = (tzid == some UTC)) :
    vDatetime_to_ical (dateTimeOf t) tzid = vDatetimeTo t := by
  simp only [vDatetime_to_ical, dateTimeOf, vDatetimeTo, vDateTo, hmsTo, fmtZ_nat, h, UTC]
  cases (tzid == some ['U', 'T', 'C']) <;> simp

theorem vMonth_str_eq (n : Int) (leap : Bool) : vMonth_str n leap = vMonthTo n leap := by
  simp [vMonth_str, vMonthTo, strInt]

theorem vMonth_to_ical_eq (n : Int) (leap : Bool) : vMonth_to_ical n leap = vMonthTo n leap := by
  simp [vMonth_to_ical, vMonth_str_eq]

theorem vBoolean_to_ical_eq (n : Int) : vBoolean_to_ical n = boolTo (n != 0) := by
  simp [vBoolean_to_ical, boolTo, truthy]

theorem vInt_to_ical_eq (n : Int) : vInt_to_ical n = intTo n := by
  simp [vInt_to_ical, intTo, strInt]

/-! ## timedelta normal forms -/

/-- the normalised timedelta of `a ≥ 0` seconds -/
def absTD (a : Nat) : TD := ⟨((a / 86400 : Nat) : Int), a % 86400⟩

theorem td_nonneg (td : TD) (h : td.wf) (hd : 0 ≤ td.days) : td = absTD td.toSeconds.natAbs := by
  obtain ⟨D, S⟩ := td
  simp only [TD.wf] at h
  simp only [absTD, TD.toSeconds, TD.mk.injEq] at *
  constructor <;> omega

theorem td_neg (td : TD) (h : td.wf) (hd : td.days < 0) : TD.neg td = absTD td.toSeconds.natAbs := by
  obtain ⟨D, S⟩ := td
  simp only [TD.wf] at h
  simp only [absTD, TD.neg, TD.norm, TD.toSeconds, TD.mk.injEq] at *
  constructor <;> omega

theorem td_sub_zero (td : TD) : TD.sub TD.zero td = TD.neg td := by
  simp [TD.sub, TD.neg, TD.zero]

theorem td_lt_zero (td : TD) : TD.lt td TD.zero = true ↔ td.days < 0 := by
  unfold TD.lt TD.zero
  simp

theorem toSeconds_neg_iff (td : TD) (h : td.wf) : td.toSeconds < 0 ↔ td.days < 0 := by
  simp only [TD.wf, TD.toSeconds] at *
  omega

/-! ## `TD` and the `Int` of seconds -/

theorem ofSeconds_wf (s : Int) : (TD.ofSeconds s).wf := by
  simp only [TD.ofSeconds, TD.norm, TD.wf]; omega

theorem toSeconds_ofSeconds (s : Int) : (TD.ofSeconds s).toSeconds = s := by
  simp only [TD.ofSeconds, TD.norm, TD.toSeconds]; omega

theorem ofSeconds_toSeconds (td : TD) (h : td.wf) : TD.ofSeconds td.toSeconds = td := by
  obtain ⟨D, S⟩ := td
  simp only [TD.wf] at h
  simp only [TD.ofSeconds, TD.norm, TD.toSeconds, TD.mk.injEq]
  constructor <;> omega

theorem neg_wf (td : TD) : (TD.neg td).wf := by
  simp only [TD.neg, TD.norm, TD.wf]; omega

theorem toSeconds_neg (td : TD) : (TD.neg td).toSeconds = -td.toSeconds := by
  simp only [TD.neg, TD.norm, TD.toSeconds]; omega

theorem sub_wf (a b : TD) : (TD.sub a b).wf := by
  simp only [TD.sub, TD.norm, TD.wf]; omega

theorem toSeconds_sub (a b : TD) : (TD.sub a b).toSeconds = a.toSeconds - b.toSeconds := by
  simp only [TD.sub, TD.norm, TD.toSeconds]; omega

theorem lt_iff (a b : TD) (ha : a.wf) (hb : b.wf) : TD.lt a b = true ↔ a.toSeconds < b.toSeconds := by
  simp only [TD.wf] at ha hb
  simp only [TD.lt, TD.toSeconds, Bool.or_eq_true, Bool.and_eq_true, decide_eq_true_eq]
  omega

/-! ## DURATION -/

theorem vDuration_abs (a : Nat) : vDuration_to_ical (absTD a) = durBodyOf a := by
  have hd : ¬ (((a / 86400 : Nat) : Int) < 0) := by omega
  have hz : ∀ d : Nat, ((d : Int) == 0) = decide (d = 0) := by
    intro d; by_cases h : d = 0 <;> simp [h]
  simp only [vDuration_to_ical, absTD, TD.secondsI, hd, decide_false, Bool.false_eq_true, if_false,
    hz, floorDiv_3600, floorDiv_60, pyMod_3600, pyMod_60, truthy_nat, strInt_nat, pyAbs_nat, truthy_str,
    durBodyOf, timepartOf, hmsText]
  by_cases h0 : a % 86400 = 0
  · by_cases h4 : a / 86400 = 0 <;> simp_all
  · by_cases h1 : a % 86400 / 3600 = 0 <;> by_cases h2 : a % 86400 % 3600 / 60 = 0 <;>
      by_cases h3 : a % 86400 % 60 = 0 <;> by_cases h4 : a / 86400 = 0 <;> simp_all

/-- a negative timedelta is encoded as `-` followed by the encoding of `-td` -/
theorem vDuration_neg (td : TD) (hd : td.days < 0) (hn : 0 ≤ (TD.neg td).days) :
    vDuration_to_ical td = '-' :: vDuration_to_ical (TD.neg td) := by
  have hn' : ¬ ((TD.neg td).days < 0) := by omega
  simp only [vDuration_to_ical, hd, hn', decide_true, decide_false, if_true, Bool.false_eq_true, if_false]
  simp only [apply_ite (List.cons '-'), List.nil_append, List.cons_append, List.append_assoc]

theorem vDuration_to_ical_eq (td : TD) (h : td.wf) : vDuration_to_ical td = durTo td.toSeconds := by
  unfold durTo
  by_cases hd : td.days < 0
  · have hs : td.toSeconds < 0 := (toSeconds_neg_iff td h).2 hd
    have e := td_neg td h hd
    rw [vDuration_neg td hd (by rw [e]; simp only [absTD]; omega), e, vDuration_abs, if_pos hs]
  · have hs : ¬ td.toSeconds < 0 := fun x => hd ((toSeconds_neg_iff td h).1 x)
    rw [if_neg hs]
    conv => lhs; rw [td_nonneg td h (by omega)]
    exact vDuration_abs _

/-! ## UTC-OFFSET -/

theorem td_lt_zero_false (td : TD) (h : 0 ≤ td.days) : TD.lt td TD.zero = false := by
  have := td_lt_zero td
  cases hb : TD.lt td TD.zero
  · rfl
  · have := this.1 hb; omega

theorem vUTCOffset_abs (a : Nat) : vUTCOffset_to_ical (absTD a) = offTo (a : Int) := by
  have hl : TD.lt (absTD a) TD.zero = false := td_lt_zero_false _ (by simp only [absTD]; omega)
  have e1 : ((a / 86400 : Nat) : Int) * 24 + ((a % 86400 / 3600 : Nat) : Int) = ((a / 3600 : Nat) : Int) := by omega
  have e2 : a % 86400 % 3600 / 60 = a % 3600 / 60 := by omega
  have e3 : a % 86400 % 60 = a % 60 := by omega
  have hs : ¬ ((a : Int) < 0) := by omega
  simp only [vUTCOffset_to_ical, hl, Bool.false_eq_true, if_false]
  simp only [absTD, TD.secondsI, floorDiv_3600, floorDiv_60, pyMod_3600, pyMod_60, e1, e2, e3, pyAbs_nat,
    fmtZ_nat, truthy_nat, offTo, Int.natAbs_natCast, hs]
  by_cases h : a % 60 = 0 <;> simp [h, fmt1]

theorem vUTCOffset_neg (td : TD) (hd : td.days < 0) (hn : 0 ≤ (TD.neg td).days) :
    vUTCOffset_to_ical td = '-' :: (vUTCOffset_to_ical (TD.neg td)).tail := by
  have h1 : TD.lt td TD.zero = true := (td_lt_zero td).2 hd
  have h2 : TD.lt (TD.neg td) TD.zero = false := td_lt_zero_false _ hn
  simp only [vUTCOffset_to_ical, h1, h2, if_true, Bool.false_eq_true, if_false, td_sub_zero]
  simp [fmt1]

theorem offTo_neg (a : Nat) (h : 0 < a) : offTo (-(a : Int)) = '-' :: (offTo (a : Int)).tail := by
  have h2 : ¬ ((a : Int) < 0) := by omega
  have h3 : a ≠ 0 := by omega
  simp [offTo, h2, h3]

theorem vUTCOffset_to_ical_eq (td : TD) (h : td.wf) : vUTCOffset_to_ical td = offTo td.toSeconds := by
  by_cases hd : td.days < 0
  · have hs : td.toSeconds < 0 := (toSeconds_neg_iff td h).2 hd
    have e := td_neg td h hd
    have ea : td.toSeconds = -((td.toSeconds.natAbs : Nat) : Int) := by omega
    rw [vUTCOffset_neg td hd (by rw [e]; simp only [absTD]; omega), e, vUTCOffset_abs]
    conv => rhs; rw [ea]
    exact (offTo_neg _ (by omega)).symm
  · have hs : 0 ≤ td.toSeconds := by
      have := toSeconds_neg_iff td h; omega
    have ea : td.toSeconds = ((td.toSeconds.natAbs : Nat) : Int) := by omega
    conv => lhs; rw [td_nonneg td h (by omega)]
    conv => rhs; rw [ea]
    exact vUTCOffset_abs _

/-! ## the same, stated on the hand model's own domain (`Int` seconds) -/

theorem vDuration_of_seconds (s : Int) : vDuration_to_ical (TD.ofSeconds s) = durTo s := by
  rw [vDuration_to_ical_eq _ (ofSeconds_wf s), toSeconds_ofSeconds]

theorem vUTCOffset_of_seconds (s : Int) : vUTCOffset_to_ical (TD.ofSeconds s) = offTo s := by
  rw [vUTCOffset_to_ical_eq _ (ofSeconds_wf s), toSeconds_ofSeconds]

end ICal.Bodies
