/-
  Helper lemmas for C16 about the start/end/duration model (ICal/Model/StartEnd.lean).
-/
import ICal.Model.StartEnd
namespace ICal.SE

theorem getProp_err {sl : Slot} {e : Err} (h : getProp sl = .error e) : e = .invalidCalendar := by
  unfold getProp at h
  split at h
  · simp at h
  · simp at h; exact h.symm
  · split at h <;> simp at h; exact h.symm

theorem getDur_err {sl : Slot} {e : Err} (h : getDur sl = .error e) : e = .invalidCalendar := by
  unfold getDur at h
  split at h <;> simp at h <;> exact h.symm

theorem getSED_ok_iff {c : Cls} {s : St} {st en : Option Val} {du : Option Int} :
    getSED c s = .ok (st, en, du) ↔
      getProp s.dtstart = .ok st ∧ getProp (s.get (endKey c)) = .ok en ∧ getDur s.duration = .ok du ∧
        forbidden st en du = false := by
  unfold getSED
  cases h1 : getProp s.dtstart <;> cases h2 : getProp (s.get (endKey c)) <;> cases h3 : getDur s.duration <;>
    simp [bind, Except.bind]
  rename_i a b d
  by_cases hf : forbidden a b d = true
  · simp [hf]; intro h1 h2 h3; subst h1 h2 h3; exact hf
  · simp [hf]; intro h1 h2 h3; subst h1 h2 h3; simpa using hf

theorem getSED_err {c : Cls} {s : St} {e : Err} (h : getSED c s = .error e) : e = .invalidCalendar := by
  unfold getSED at h
  cases h1 : getProp s.dtstart <;> cases h2 : getProp (s.get (endKey c)) <;> cases h3 : getDur s.duration <;>
    simp [bind, Except.bind, h1, h2, h3] at h
  all_goals first
    | (subst h; exact getProp_err h1)
    | (subst h; exact getProp_err h2)
    | (subst h; exact getDur_err h3)
    | (split at h <;> simp at h; exact h.symm)

theorem getProp_ok_some {sl : Slot} {v : Val} (h : getProp sl = .ok (some v)) : sl = .one v ∧ v.isDT = true := by
  unfold getProp at h
  split at h
  · simp at h
  · simp at h
  · split at h <;> simp at h; subst h; simp [*]

theorem getProp_one_ok {a : Val} {o : Option Val} (h : getProp (.one a) = .ok o) : o = some a := by
  simp only [getProp] at h
  split at h
  · simp at h; exact h.symm
  · simp at h

theorem getProp_ok_none {sl : Slot} (h : getProp sl = .ok none) : sl = .absent := by
  unfold getProp at h
  split at h
  · rfl
  · simp at h
  · split at h <;> simp at h

theorem getDur_ok_some {sl : Slot} {x : Int} (h : getDur sl = .ok (some x)) : sl = .one (.dur x) := by
  unfold getDur at h
  split at h <;> simp at h; subst h; rfl

theorem getDur_ok_none {sl : Slot} (h : getDur sl = .ok none) : sl = .absent := by
  unfold getDur at h
  split at h <;> simp at h; rfl

/-- `.start` after the checks -/
def startOf : Option Val → Except Err Val
  | none => .error .incompleteComponent
  | some v => .ok v

theorem getStart_ok {c : Cls} {s : St} {st en : Option Val} {du : Option Int} (hc : c ≠ .journal)
    (h : getSED c s = .ok (st, en, du)) : getStart c s = startOf st := by
  cases c <;> simp [getStart, h, bind, Except.bind, startOf] at * <;> cases st <;> rfl

theorem getStart_err {c : Cls} {s : St} {e : Err} (hc : c ≠ .journal)
    (h : getSED c s = .error e) : getStart c s = .error e := by
  cases c <;> simp [getStart, h, bind, Except.bind] at *

theorem getEnd_ok {c : Cls} {s : St} {st en : Option Val} {du : Option Int} (hc : c ≠ .journal)
    (h : getSED c s = .ok (st, en, du)) : getEnd c s = endOf st en du := by
  cases c <;> simp [getEnd, h, bind, Except.bind] at *

theorem getEnd_err {c : Cls} {s : St} {e : Err} (hc : c ≠ .journal)
    (h : getSED c s = .error e) : getEnd c s = .error e := by
  cases c <;> simp [getEnd, h, bind, Except.bind] at *

theorem getDuration_eq {p : Prov} {c : Cls} {s : St} (hc : c ≠ .journal) :
    getDuration p c s = (getEnd c s).bind (fun e => (getStart c s).bind (fun v => Val.sub p e v)) := by
  cases c <;> simp [getDuration, bind] at *


/-- what `_get_start_end_duration` guarantees about the triple it returns -/
structure WF (st en : Option Val) (du : Option Int) : Prop where
  hs : ∀ v, st = some v → v.isDT = true
  he : ∀ v, en = some v → v.isDT = true
  hf : forbidden st en du = false

theorem getSED_wf {c : Cls} {s : St} {st en : Option Val} {du : Option Int}
    (h : getSED c s = .ok (st, en, du)) : WF st en du := by
  obtain ⟨h1, h2, _, h4⟩ := getSED_ok_iff.mp h
  refine ⟨?_, ?_, h4⟩
  · intro v hv; subst hv; exact (getProp_ok_some h1).2
  · intro v hv; subst hv; exact (getProp_ok_some h2).2

theorem sub_addDur (p : Prov) {v : Val} (x : Int) (hv : v.isDT = true) (hd : v.isDate = true → x % 86400 = 0) :
    Val.sub p (v.addDur x) v = .ok x := by
  cases v <;> simp [Val.isDT, Val.isDate, Val.isDatetime] at hv hd <;>
    simp [Val.addDur, Val.sub, Val.isAware, Val.sameTz, Val.wall, Val.offset]
  · omega
  · omega
  · omega
  · split <;> omega

theorem sub_self (p : Prov) {v : Val} (hv : v.isDT = true) : Val.sub p v v = .ok 0 := by
  cases v <;> simp [Val.isDT, Val.isDate, Val.isDatetime] at hv <;>
    simp [Val.sub, Val.isAware, Val.sameTz, Val.wall, Val.offset]

theorem endOf_defined (p : Prov) {v : Val} {en : Option Val} {du : Option Int} (w : WF (some v) en du) :
    ∃ e, endOf (some v) en du = .ok e ∧ ∃ d, Val.sub p e v = .ok d := by
  have hv := w.hs v rfl
  have hf := w.hf
  cases en with
  | none =>
    cases du with
    | none =>
      by_cases hd : v.isDate = true
      · refine ⟨v.addDur 86400, by simp [endOf, hd], 86400, sub_addDur p 86400 hv (by intro; rfl)⟩
      · refine ⟨v, by simp [endOf, hd], 0, sub_self p hv⟩
    | some x =>
      refine ⟨v.addDur x, by simp [endOf], x, sub_addDur p x hv ?_⟩
      intro hd
      cases v <;> simp [Val.isDate] at hd
      simpa [forbidden, dateWithTime, kindMismatch, tzMismatch] using hf
  | some e =>
    have he := w.he e rfl
    cases du with
    | some x => simp [forbidden] at hf
    | none =>
      refine ⟨e, by simp [endOf], ?_⟩
      cases v <;> cases e <;> simp [Val.isDT, Val.isDate, Val.isDatetime] at hv he <;>
        simp [forbidden, dateWithTime, kindMismatch, tzMismatch, Val.isDate, Val.isDatetime, Val.isFloating] at hf <;>
        simp [Val.sub, Val.isAware]


/-! ## the exclusivity invariant -/

/-! Bridge to the generated table: what `exclusive` of each class is in cal.py *now*.  These are re-checked
    against the regenerated `Gen.compClasses` on every run; `inv_step` below is proved through them, so an edit
    of `Event.exclusive` / `Todo.exclusive` in cal.py that changes the group breaks a proof obligation. -/
theorem exclusive_event : exclusive .event = [.dtend, .duration] := by decide
theorem exclusive_todo : exclusive .todo = [.due, .duration] := by decide
theorem exclusive_journal : exclusive .journal = [] := by decide

theorem inv_init : Inv St.init := by simp [Inv, St.init, Slot.present]

theorem inv_step (c : Cls) (s : St) (op : Op) (he : op.isEdit = true) (hi : Inv s) : Inv (next c s op) := by
  obtain ⟨s1, s2, s3, s4⟩ := s
  cases op with
  | add k x => simp [Op.isEdit] at he
  | del k =>
    unfold next step
    by_cases hd : descr c k = true
    · cases k <;> simp [hd, St.put, Inv, Slot.present] at * <;> first | exact hi | (intros; simp_all)
    · simpa [hd] using hi
  | set a x =>
    unfold next step
    cases c <;> cases a <;> (try rename_i k; cases k) <;> cases x <;> (try rename_i v; cases v) <;>
      simp [target, descr, endKey, pSet, setDuration, popOthers, exclusive_event, exclusive_todo, exclusive_journal,
            St.put, Inv, Slot.present,
            Val.isDT, Val.isDate, Val.isDatetime] at * <;>
      first | exact hi | (intros; simp_all)

theorem inv_run (c : Cls) (ops : List Op) (s : St) (h : ∀ op ∈ ops, op.isEdit = true) (hi : Inv s) :
    Inv (run c s ops) := by
  induction ops generalizing s with
  | nil => exact hi
  | cons op rest ih =>
    simp only [run, List.foldl_cons]
    exact ih (next c s op) (fun o ho => h o (List.mem_cons_of_mem _ ho))
      (inv_step c s op (h op List.mem_cons_self) hi)


/-! ## reporting -/

theorem getProp_present {sl : Slot} {o : Option Val} (h : getProp sl = .ok o) (hp : sl.present = true) :
    ∃ v, o = some v ∧ sl = .one v := by
  cases o with
  | none => rw [getProp_ok_none h] at hp; simp [Slot.present] at hp
  | some v => exact ⟨v, rfl, (getProp_ok_some h).1⟩

theorem getDur_present {sl : Slot} {o : Option Int} (h : getDur sl = .ok o) (hp : sl.present = true) :
    ∃ x, o = some x := by
  cases o with
  | none => rw [getDur_ok_none h] at hp; simp [Slot.present] at hp
  | some x => exact ⟨x, rfl⟩

/-- an error of the checks reaches all three computed getters unchanged -/
theorem sed_error_all (p : Prov) {c : Cls} {s : St} {e : Err} (hc : c ≠ .journal) (h : getSED c s = .error e) :
    getStart c s = .error .invalidCalendar ∧ getEnd c s = .error .invalidCalendar ∧
      getDuration p c s = .error .invalidCalendar := by
  have := getSED_err h; subst this
  refine ⟨getStart_err hc h, getEnd_err hc h, ?_⟩
  rw [getDuration_eq hc, getEnd_err hc h]; rfl

/-- the checks fail as soon as the triple they see is forbidden -/
theorem sed_forbidden {c : Cls} {s : St}
    (h : ∀ st en du, getProp s.dtstart = .ok st → getProp (s.get (endKey c)) = .ok en → getDur s.duration = .ok du →
      forbidden st en du = true) :
    ∃ e, getSED c s = .error e := by
  cases hh : getSED c s with
  | error e => exact ⟨e, rfl⟩
  | ok t =>
    obtain ⟨st, en, du⟩ := t
    obtain ⟨h1, h2, h3, h4⟩ := getSED_ok_iff.mp hh
    rw [h st en du h1 h2 h3] at h4; simp at h4

theorem startOf_err {st : Option Val} {e : Err} (h : startOf st = .error e) : e = .incompleteComponent := by
  cases st <;> simp [startOf] at h; exact h.symm

theorem endOf_err {st en : Option Val} {du : Option Int} {e : Err} (h : endOf st en du = .error e) :
    e = .incompleteComponent := by
  unfold endOf at h
  cases en <;> cases du <;> cases st <;> simp at h <;> first | exact h.symm | (split at h <;> simp at h)

end ICal.SE
