/-
  Helper lemmas for C12 (Model/Tz): the sort of get_transitions, the table built by infoGo,
  bisect_right on a sorted table, the RFC reading specAt, the zone cache.
-/
import ICal.Model.Tz
namespace ICal.Tz

/-! ## rounding -/

theorem roundMin_id {x : Int} (h : x % 60 = 0) : roundMin x = x := by
  unfold roundMin; omega

/-! ## sorting by local time -/

theorem trLe_loc {a b : Tr} (h : trLe a b = true) : a.loc ≤ b.loc := by
  unfold trLe at h
  by_cases h1 : a.loc < b.loc
  · omega
  · by_cases h2 : b.loc < a.loc
    · simp [h1, h2] at h
    · omega

theorem trLe_false_loc {a b : Tr} (h : trLe a b = false) : b.loc ≤ a.loc := by
  unfold trLe at h
  by_cases h1 : a.loc < b.loc
  · simp [h1] at h
  · omega

theorem mem_insertTr {x y : Tr} {l : List Tr} : y ∈ insertTr x l ↔ y = x ∨ y ∈ l := by
  induction l with
  | nil => simp [insertTr]
  | cons z zs ih =>
    unfold insertTr
    split
    · simp
    · simp [ih]; constructor
      · rintro (h | h | h) <;> simp [h]
      · rintro (h | h | h) <;> simp [h]

theorem mem_sortTr {y : Tr} {l : List Tr} : y ∈ sortTr l ↔ y ∈ l := by
  induction l with
  | nil => simp [sortTr]
  | cons z zs ih => simp [sortTr, mem_insertTr, ih]

abbrev LocLe (a b : Tr) : Prop := a.loc ≤ b.loc

theorem pairwise_insertTr {x : Tr} {l : List Tr} (h : l.Pairwise LocLe) : (insertTr x l).Pairwise LocLe := by
  induction l with
  | nil => simp [insertTr]
  | cons z zs ih =>
    unfold insertTr
    rw [List.pairwise_cons] at h
    split
    · next hle =>
      have hxz := trLe_loc hle
      refine List.Pairwise.cons ?_ (List.Pairwise.cons h.1 h.2)
      intro a ha
      rcases List.mem_cons.mp ha with rfl | ha
      · exact hxz
      · exact Int.le_trans hxz (h.1 a ha)
    · next hle =>
      have hzx := trLe_false_loc (by simpa using hle)
      refine List.Pairwise.cons ?_ (ih h.2)
      intro a ha
      rcases mem_insertTr.mp ha with rfl | ha
      · exact hzx
      · exact h.1 a ha

theorem pairwise_sortTr (l : List Tr) : (sortTr l).Pairwise LocLe := by
  induction l with
  | nil => simp [sortTr]
  | cons z zs ih => exact pairwise_insertTr ih

/-! ## dedup -/

theorem mem_dedup {x : Int} {l : List Int} : x ∈ dedup l ↔ x ∈ l := by
  induction l with
  | nil => simp [dedup]
  | cons y ys ih =>
    unfold dedup
    split
    · next h =>
      have hy : y ∈ ys := by simpa using h
      rw [ih]; constructor
      · intro h; exact List.mem_cons_of_mem _ h
      · intro h; rcases List.mem_cons.mp h with rfl | h
        · exact hy
        · exact h
    · simp [ih]

theorem mem_extractOffsets {c : Tr} {o : Obs} :
    c ∈ extractOffsets o ↔ ∃ l ∈ o.onsets, c = ⟨l, roundMin o.offFrom, roundMin o.offTo, o.name⟩ := by
  unfold extractOffsets
  simp only [List.mem_map, mem_dedup]
  constructor
  · rintro ⟨l, hl, rfl⟩; exact ⟨l, hl, rfl⟩
  · rintro ⟨l, hl, rfl⟩; exact ⟨l, hl, rfl⟩

theorem mem_sortedTrs {c : Tr} {obs : List Obs} :
    c ∈ sortedTrs obs ↔ ∃ o ∈ obs, ∃ l ∈ o.onsets, c = ⟨l, roundMin o.offFrom, roundMin o.offTo, o.name⟩ := by
  unfold sortedTrs
  rw [mem_sortTr, List.mem_flatMap]
  constructor
  · rintro ⟨o, ho, hc⟩; exact ⟨o, ho, mem_extractOffsets.mp hc⟩
  · rintro ⟨o, ho, hc⟩; exact ⟨o, ho, mem_extractOffsets.mpr hc⟩

/-! ## the table -/

/-- how a table row relates to its tuple -/
def RowOf (dst : Str → Bool) (c : Tr) (e : Ent) : Prop :=
  e.utc = c.loc - c.osfrom ∧ e.off = c.osto ∧ e.name = c.name ∧ (dst c.name = false → e.dst = 0)

theorem dstOffset_std {dst : Str → Bool} {bef aft : List Tr} {c : Tr} {d : Int}
    (h : dstOffset dst bef c aft = some d) (hs : dst c.name = false) : d = 0 := by
  unfold dstOffset at h
  simp [hs] at h
  exact h.symm

theorem infoGo_spec (dst : Str → Bool) : ∀ (l bef : List Tr) (es : List Ent), infoGo dst bef l = some es →
    es.map (·.utc) = l.map (fun c => c.loc - c.osfrom) ∧ ∀ e ∈ es, ∃ c ∈ l, RowOf dst c e := by
  intro l
  induction l with
  | nil => intro bef es h; simp [infoGo] at h; subst h; simp
  | cons c cs ih =>
    intro bef es h
    unfold infoGo at h
    split at h
    · next d tl hd htl =>
      simp only [Option.some.injEq] at h
      subst h
      obtain ⟨h1, h2⟩ := ih (c :: bef) tl htl
      refine ⟨by simp [h1], ?_⟩
      intro e he
      rcases List.mem_cons.mp he with rfl | he
      · exact ⟨c, List.mem_cons_self, rfl, rfl, rfl, fun hs => dstOffset_std hd hs⟩
      · obtain ⟨c', hc', hr⟩ := h2 e he
        exact ⟨c', List.mem_cons_of_mem _ hc', hr⟩
    · simp at h

/-! ## bisect_right on a sorted list -/

theorem bisectGo_spec (a : List Int) (x : Int)
    (hs : ∀ i j, i ≤ j → j < a.length → a.getD i 0 ≤ a.getD j 0) :
    ∀ (f lo hi : Nat), hi ≤ a.length → lo ≤ hi → hi - lo < f →
      (∀ i, i < lo → a.getD i 0 ≤ x) → (∀ i, hi ≤ i → i < a.length → x < a.getD i 0) →
      lo ≤ bisectGo a x f lo hi ∧ bisectGo a x f lo hi ≤ hi ∧
      (∀ i, i < bisectGo a x f lo hi → a.getD i 0 ≤ x) ∧
      (∀ i, bisectGo a x f lo hi ≤ i → i < a.length → x < a.getD i 0) := by
  intro f
  induction f with
  | zero => intro lo hi _ _ h; omega
  | succ f ih =>
    intro lo hi hhi hle hf hlo hup
    unfold bisectGo
    by_cases hlt : lo < hi
    · simp only [hlt, if_true]
      have hm1 : lo ≤ (lo + hi) / 2 := by omega
      have hm2 : (lo + hi) / 2 < hi := by omega
      by_cases hx : x < a.getD ((lo + hi) / 2) 0
      · simp only [hx, if_true]
        have := ih lo ((lo + hi) / 2) (by omega) hm1 (by omega) hlo
          (fun i hi1 hi2 => Int.lt_of_lt_of_le hx (hs _ _ hi1 hi2))
        refine ⟨this.1, by omega, this.2.2.1, this.2.2.2⟩
      · simp only [hx, if_false]
        have hx' : a.getD ((lo + hi) / 2) 0 ≤ x := by omega
        have := ih ((lo + hi) / 2 + 1) hi hhi (by omega) (by omega)
          (fun i hi1 => Int.le_trans (hs i _ (by omega) (by omega)) hx') hup
        refine ⟨by omega, this.2.1, this.2.2.1, this.2.2.2⟩
    · simp only [hlt, if_false]
      have : lo = hi := by omega
      subst this
      exact ⟨Nat.le_refl _, Nat.le_refl _, hlo, hup⟩

theorem bisectRight_spec (a : List Int) (x : Int) (hs : a.Pairwise (· ≤ ·)) :
    bisectRight a x ≤ a.length ∧ (∀ i, i < bisectRight a x → a.getD i 0 ≤ x) ∧
    (∀ i, bisectRight a x ≤ i → i < a.length → x < a.getD i 0) := by
  have hmono : ∀ i j, i ≤ j → j < a.length → a.getD i 0 ≤ a.getD j 0 := by
    intro i j hij hj
    rcases Nat.lt_or_eq_of_le hij with h | rfl
    · have hi : i < a.length := by omega
      have e1 : a.getD i 0 = a[i] := by simp [List.getD_eq_getElem?_getD, hi]
      have e2 : a.getD j 0 = a[j] := by simp [List.getD_eq_getElem?_getD, hj]
      rw [e1, e2]
      exact (List.pairwise_iff_getElem.mp hs) i j hi hj h
    · exact Int.le_refl _
  have := bisectGo_spec a x hmono (a.length + 1) 0 a.length (Nat.le_refl _) (Nat.zero_le _) (by omega)
    (fun i hi => by omega) (fun i h1 h2 => by omega)
  exact ⟨this.2.1, this.2.2.1, this.2.2.2⟩

/-! ## RFC reading -/

/-- `b` is an onset not after `t` such that no onset not after `t` is later -/
def IsLatest (es : List (Int × Obs)) (t : Int) (b : Int × Obs) : Prop :=
  b ∈ es ∧ b.1 ≤ t ∧ ∀ c ∈ es, c.1 ≤ t → c.1 ≤ b.1

theorem foldl_better_spec (t : Int) : ∀ (es : List (Int × Obs)) (acc : Option (Int × Obs)),
    (∀ a, acc = some a → a.1 ≤ t) →
    (match es.foldl (better t) acc with
     | none => acc = none ∧ ∀ c ∈ es, ¬ c.1 ≤ t
     | some b => (acc = some b ∨ b ∈ es) ∧ b.1 ≤ t ∧ (∀ a, acc = some a → a.1 ≤ b.1) ∧ ∀ c ∈ es, c.1 ≤ t → c.1 ≤ b.1) := by
  intro es
  induction es with
  | nil =>
    intro acc hacc
    cases acc with
    | none => simp
    | some a => simpa using hacc a rfl
  | cons e es ih =>
    intro acc hacc
    simp only [List.foldl_cons]
    have hacc' : ∀ a, better t acc e = some a → a.1 ≤ t := by
      intro a ha
      unfold better at ha
      split at ha
      · next hle =>
        cases acc with
        | none => simp at ha; subst ha; exact hle
        | some b =>
          simp only at ha
          split at ha
          · simp at ha; subst ha; exact hle
          · simp at ha; subst ha; exact hacc b rfl
      · exact hacc a ha
    have := ih (better t acc e) hacc'
    split
    · next hr =>
      rw [hr] at this
      obtain ⟨h1, h2⟩ := this
      unfold better at h1
      split at h1
      · next hle =>
        cases acc with
        | none => simp at h1
        | some b => simp only at h1; split at h1 <;> simp at h1
      · next hle =>
        refine ⟨h1, ?_⟩
        intro c hc
        rcases List.mem_cons.mp hc with rfl | hc
        · exact hle
        · exact h2 c hc
    · next b hr =>
      rw [hr] at this
      obtain ⟨h1, h2, h3, h4⟩ := this
      unfold better at h1 h3
      by_cases hle : e.1 ≤ t
      · simp only [hle, if_true] at h1 h3
        cases acc with
        | none =>
          simp only at h1 h3
          refine ⟨?_, h2, by simp, ?_⟩
          · rcases h1 with h1 | h1
            · right; simp at h1; subst h1; exact List.mem_cons_self
            · right; exact List.mem_cons_of_mem _ h1
          · intro c hc hct
            rcases List.mem_cons.mp hc with rfl | hc
            · exact h3 _ rfl
            · exact h4 c hc hct
        | some a =>
          simp only at h1 h3
          by_cases hlt : a.1 < e.1
          · simp only [hlt, if_true] at h1 h3
            have heb := h3 e rfl
            refine ⟨?_, h2, ?_, ?_⟩
            · rcases h1 with h1 | h1
              · right; simp at h1; subst h1; exact List.mem_cons_self
              · right; exact List.mem_cons_of_mem _ h1
            · intro a' ha'; simp at ha'; subst ha'; omega
            · intro c hc hct
              rcases List.mem_cons.mp hc with rfl | hc
              · exact heb
              · exact h4 c hc hct
          · simp only [hlt, if_false] at h1 h3
            have hab := h3 a rfl
            refine ⟨?_, h2, ?_, ?_⟩
            · rcases h1 with h1 | h1
              · left; exact h1
              · right; exact List.mem_cons_of_mem _ h1
            · intro a' ha'; simp at ha'; subst ha'; exact hab
            · intro c hc hct
              rcases List.mem_cons.mp hc with rfl | hc
              · omega
              · exact h4 c hc hct
      · simp only [hle, if_false] at h1 h3
        refine ⟨?_, h2, h3, ?_⟩
        · rcases h1 with h1 | h1
          · left; exact h1
          · right; exact List.mem_cons_of_mem _ h1
        · intro c hc hct
          rcases List.mem_cons.mp hc with rfl | hc
          · exact absurd hct hle
          · exact h4 c hc hct

theorem specAt_latest {obs : List Obs} {t : Int} {b : Int × Obs} (h : specAt obs t = some b) :
    IsLatest (specEntries obs) t b := by
  have := foldl_better_spec t (specEntries obs) none (by simp)
  unfold specAt at h
  rw [h] at this
  obtain ⟨h1, h2, _, h4⟩ := this
  rcases h1 with h1 | h1
  · simp at h1
  · exact ⟨h1, h2, h4⟩

theorem specAt_none {obs : List Obs} {t : Int} (h : specAt obs t = none) :
    ∀ c ∈ specEntries obs, ¬ c.1 ≤ t := by
  have := foldl_better_spec t (specEntries obs) none (by simp)
  unfold specAt at h
  rw [h] at this
  exact this.2

theorem mem_specEntries {obs : List Obs} {p : Int × Obs} :
    p ∈ specEntries obs ↔ ∃ o ∈ obs, ∃ l ∈ o.onsets, p = (l - o.offFrom, o) := by
  unfold specEntries
  simp only [List.mem_flatMap, List.mem_map]
  constructor
  · rintro ⟨o, ho, l, hl, rfl⟩; exact ⟨o, ho, l, hl, rfl⟩
  · rintro ⟨o, ho, l, hl, rfl⟩; exact ⟨o, ho, l, hl, rfl⟩

/-! ## the `dst` dict -/

theorem dstOf_eq {obs : List Obs} (hn : ∀ o ∈ obs, ∀ o' ∈ obs, o.name = o'.name → o.isDst = o'.isDst)
    {o : Obs} (ho : o ∈ obs) : dstOf obs o.name = o.isDst := by
  unfold dstOf
  split
  · next o' hf =>
    have hm : o' ∈ obs := by
      have := List.mem_of_find?_eq_some hf
      simpa using this
    have hp := List.find?_some hf
    have : o'.name = o.name := by simpa using hp
    exact hn o' hm o ho this
  · next hf =>
    rw [List.find?_eq_none] at hf
    have := hf o (by simpa using ho)
    simp at this


/-! ## hypotheses of the C12 theorems -/

/-- the pytz table is ascending in its UTC column -/
def SortedUTC (ts : List Ent) : Prop := (ts.map Ent.utc).Pairwise (· ≤ ·)

instance (ts : List Ent) : Decidable (SortedUTC ts) := by unfold SortedUTC; infer_instance

/-- offsets are whole minutes (the domain of the property; the pytz path rounds, dateutil does not) -/
def WholeMinutes (obs : List Obs) : Prop := ∀ o ∈ obs, o.offFrom % 60 = 0 ∧ o.offTo % 60 = 0

/-- a TZNAME is not shared by a STANDARD and a DAYLIGHT observance (the `dst` dict is keyed by name) -/
def NamesConsistent (obs : List Obs) : Prop := ∀ o ∈ obs, ∀ o' ∈ obs, o.name = o'.name → o.isDst = o'.isDst

/-- observances that start at the very same instant say the same (else "the observance in effect" is undefined) -/
def UniqueOnsets (obs : List Obs) : Prop :=
  ∀ p ∈ specEntries obs, ∀ q ∈ specEntries obs, p.1 = q.1 →
    p.2.offTo = q.2.offTo ∧ p.2.name = q.2.name ∧ p.2.isDst = q.2.isDst

/-- two onsets at different instants are further apart than the difference of their TZOFFSETFROMs -/
def WellSeparated (obs : List Obs) : Prop :=
  ∀ o ∈ obs, ∀ l ∈ o.onsets, ∀ o' ∈ obs, ∀ l' ∈ o'.onsets,
    l - roundMin o.offFrom < l' - roundMin o'.offFrom →
      roundMin o.offFrom - roundMin o'.offFrom < (l' - roundMin o'.offFrom) - (l - roundMin o.offFrom)

instance (obs : List Obs) : Decidable (WholeMinutes obs) := by unfold WholeMinutes; infer_instance
instance (obs : List Obs) : Decidable (NamesConsistent obs) := by unfold NamesConsistent; infer_instance
instance (obs : List Obs) : Decidable (WellSeparated obs) := by unfold WellSeparated; infer_instance

/-- the row a sorted table answers with is a latest row not after `t` -/
theorem lookup_latest (ts : List Ent) (hs : SortedUTC ts) (t : Int) (e0 : Ent) (h0 : ts.head? = some e0)
    (h0t : e0.utc ≤ t) :
    ∃ e, lookup ts t = some e ∧ e ∈ ts ∧ e.utc ≤ t ∧ ∀ e' ∈ ts, e'.utc ≤ t → e'.utc ≤ e.utc := by
  obtain ⟨hr1, hr2, hr3⟩ := bisectRight_spec (ts.map Ent.utc) t (show (ts.map Ent.utc).Pairwise (· ≤ ·) from hs)
  have hlen : 0 < ts.length := by
    cases ts with
    | nil => simp at h0
    | cons a as => simp
  have hget : ∀ i (hi : i < ts.length), (ts.map Ent.utc).getD i 0 = (ts[i]).utc := by
    intro i hi
    simp [List.getD_eq_getElem?_getD, hi]
  have hr0 : 0 < bisectRight (ts.map Ent.utc) t := by
    apply Nat.pos_of_ne_zero
    intro h
    have := hr3 0 (by omega) (by simpa using hlen)
    rw [hget 0 hlen] at this
    have e : ts[0] = e0 := by
      cases ts with
      | nil => simp at h0
      | cons a as => simpa using h0
    rw [e] at this
    omega
  simp only [List.length_map] at hr1 hr3
  have hidx : bisectRight (ts.map Ent.utc) t - 1 < ts.length := by omega
  refine ⟨ts[bisectRight (ts.map Ent.utc) t - 1], ?_, List.getElem_mem _, ?_, ?_⟩
  · unfold lookup; simp [hidx]
  · rw [← hget _ hidx]; exact hr2 _ (by omega)
  · intro e' he' het
    obtain ⟨j, hj, rfl⟩ := List.getElem_of_mem he'
    by_cases hjr : j < bisectRight (ts.map Ent.utc) t
    · rcases Nat.lt_or_eq_of_le (show j ≤ bisectRight (ts.map Ent.utc) t - 1 by omega) with hlt | heq
      · have := (List.pairwise_iff_getElem.mp (show (ts.map Ent.utc).Pairwise (· ≤ ·) from hs)) j (bisectRight (ts.map Ent.utc) t - 1)
          (by simpa using hj) (by simpa using hidx) hlt
        simpa using this
      · subst heq; exact Int.le_refl _
    · have := hr3 j (by omega) hj
      rw [hget j hj] at this
      omega

/-! ## zone cache -/

variable {δ : Type}

theorem cacheGet_append_single (c : Cache δ) (k k' : Str) (d : δ) :
    cacheGet (c ++ [(k, d)]) k' = match cacheGet c k' with
      | some x => some x
      | none => if k = k' then some d else none := by
  induction c with
  | nil => simp [cacheGet]
  | cons p r ih =>
    obtain ⟨pk, pd⟩ := p
    simp only [List.cons_append, cacheGet]
    split
    · rfl
    · exact ih

/-- what END:VTIMEZONE does to one key of the cache -/
theorem cacheGet_endVtz (P : Prov) (c : Cache δ) (x : Str) (d : δ) (k : Str) :
    cacheGet (endVtz P c x d) k =
      match cacheGet c k with
      | some y => some y
      | none => if stripSlash x = k ∧ P.knows (stripSlash x) = false ∧ P.knows x = false then some d else none := by
  unfold endVtz
  simp only
  split
  · next h =>
    simp only [Bool.and_eq_true, Bool.not_eq_true', Option.isNone_iff_eq_none] at h
    rw [cacheGet_append_single]
    cases hk : cacheGet c k with
    | some y => rfl
    | none =>
      simp only
      by_cases hxk : stripSlash x = k
      · subst hxk; simp [h.1.1, h.1.2]
      · simp [hxk]
  · next h =>
    cases hk : cacheGet c k with
    | some y => rfl
    | none =>
      simp only
      by_cases hxk : stripSlash x = k
      · subst hxk
        simp only [Bool.and_eq_true, Bool.not_eq_true', Option.isNone_iff_eq_none, hk, and_true, not_and,
          Bool.not_eq_false] at h
        simp only [true_and]
        split
        · next h' => exact absurd (h h'.1) (by simp [h'.2])
        · rfl
      · simp [hxk]

theorem firstDef_append (a b : List (Item δ)) (k : Str) :
    firstDef (a ++ b) k = match firstDef a k with | some d => some d | none => firstDef b k := by
  induction a with
  | nil => simp [firstDef]
  | cons it r ih =>
    cases it with
    | vtz x d =>
      simp only [List.cons_append, firstDef]
      split
      · rfl
      · exact ih
    | use x => simp only [List.cons_append, firstDef]; exact ih

end ICal.Tz
