/-
  Lemmas for property parameters (C08): dquote / q_join / q_split / Parameters.to_ical / from_ical.
  The generated character classes are used only through the bridging lemmas of the first section,
  so a change of the source constants breaks exactly those.
-/
import ICal.Model.Params
import ICal.Lemmas.PyStr
namespace ICal

/-! ## bridging lemmas to the generated constants -/
section bridge

theorem gen_dquoteFrom : Gen.dquoteFrom = DQ := by decide
theorem gen_dquoteTo : Gen.dquoteTo = ['\''] := by decide
theorem gen_dquoteTo_noDQ : DQ ∉ Gen.dquoteTo := by decide

theorem quotable_comma : inClass Gen.quotable ',' = true := by decide
theorem quotable_semi : inClass Gen.quotable ';' = true := by decide
theorem quotable_colon : inClass Gen.quotable ':' = true := by decide
theorem quotable_DQ : inClass Gen.quotable DQ = false := by decide
theorem qunsafe_DQ : inClass Gen.qunsafeChar DQ = true := by decide

/-- UNSAFE_CHAR is QUNSAFE_CHAR plus characters that `dquote` puts inside quotes -/
theorem unsafe_sub (c : Char) (h : inClass Gen.unsafeChar c = true) :
    inClass Gen.qunsafeChar c = true ∨ inClass Gen.quotable c = true := by
  revert h
  simp only [inClass, Gen.unsafeChar, Gen.qunsafeChar, Gen.quotable, List.any_cons, List.any_nil,
    Bool.or_eq_true, Bool.and_eq_true, decide_eq_true_eq, Bool.or_false]
  omega

/-- a character of a NAME token is none of the structural characters -/
theorem tokChar_ne (c : Char) (h : (isAsciiWord c || Gen.nameExtra.contains c) = true) :
    c ≠ DQ ∧ c ≠ '=' ∧ c ≠ ';' ∧ c ≠ ',' := by
  refine ⟨?_, ?_, ?_, ?_⟩ <;> (rintro rfl; revert h; decide)

end bridge

/-! ## dquote -/
section dquote

theorem rep1_of_not_mem (a : Char) (r : Str) : ∀ (v : Str), a ∉ v → rep1 a r v = v := by
  intro v
  induction v with
  | nil => intro _; simp [rep1]
  | cons c cs ih =>
    intro h
    have hc : c ≠ a := fun e => h (by simp [e])
    have hcs : a ∉ cs := fun e => h (by simp [e])
    simp [rep1, hc, ih hcs]

theorem mem_rep1_of_ne (a : Char) (r : Str) (c : Char) (hc : c ≠ a) :
    ∀ (v : Str), c ∈ v → c ∈ rep1 a r v := by
  intro v
  induction v with
  | nil => intro h; simp at h
  | cons d ds ih =>
    intro h
    simp only [rep1]
    split
    · next hd =>
      have : c ∈ ds := by
        rcases List.mem_cons.mp h with e | e
        · exact absurd (e.trans hd) hc
        · exact e
      exact List.mem_append_right _ (ih this)
    · rcases List.mem_cons.mp h with e | e
      · simp [e]
      · exact List.mem_cons_of_mem _ (ih e)

/-- the result of the quote substitution has no double quote -/
theorem rep1_noDQ (r : Str) (hr : DQ ∉ r) : ∀ (v : Str), DQ ∉ rep1 DQ r v := by
  intro v
  induction v with
  | nil => simp [rep1]
  | cons c cs ih =>
    simp only [rep1]
    split
    · simp [hr, ih]
    · next h => simp [ih, Ne.symm h]

theorem dquote_def (v : Str) :
    dquote v = if (rep1 DQ ['\''] v).any (inClass Gen.quotable) then DQ :: rep1 DQ ['\''] v ++ [DQ]
               else rep1 DQ ['\''] v := by
  simp [dquote, gen_dquoteFrom, gen_dquoteTo]

/-- for a value without double quote the substitution does nothing -/
theorem dquote_of_noDQ (v : Str) (hv : DQ ∉ v) :
    dquote v = if v.any (inClass Gen.quotable) then DQ :: v ++ [DQ] else v := by
  rw [dquote_def, rep1_of_not_mem DQ _ v hv]

theorem dquote_eq_nil (v : Str) (h : dquote v = []) : v = [] := by
  rw [dquote_def] at h
  split at h
  · simp at h
  · cases v with
    | nil => rfl
    | cons c cs =>
      simp only [rep1] at h
      split at h <;> simp at h

end dquote

/-! ## q_split on joined balanced segments -/
section qsplit

/-- scan a segment from quote state `q`: `none` if `q_split` would split inside it,
    otherwise the quote state at its end -/
def nextQ (q : Bool) (c : Char) : Bool := if c = DQ then !q else q

def scanQ (sep : Char) : Bool → Str → Option Bool
  | q, [] => some q
  | q, c :: cs =>
    if (!(nextQ q c) && c == sep) = true then none else scanQ sep (nextQ q c) cs

/-- scanned from "not in quotes", the segment never shows `sep` outside quotes and ends outside quotes -/
def Balanced (sep : Char) (s : Str) : Prop := scanQ sep false s = some false

instance (sep : Char) (s : Str) : Decidable (Balanced sep s) := by unfold Balanced; infer_instance

theorem scanQ_append (sep : Char) : ∀ (a b : Str) (q : Bool),
    scanQ sep q (a ++ b) = (scanQ sep q a).bind (fun q' => scanQ sep q' b) := by
  intro a
  induction a with
  | nil => intro b q; simp [scanQ]
  | cons c cs ih =>
    intro b q
    simp only [List.cons_append, scanQ]
    by_cases hns : (!(nextQ q c) && c == sep) = true
    · simp [hns]
    · simp only [hns]; exact ih b _

theorem Balanced.append {sep : Char} {a b : Str} (ha : Balanced sep a) (hb : Balanced sep b) :
    Balanced sep (a ++ b) := by
  unfold Balanced at *
  rw [scanQ_append, ha]; exact hb

/-- a segment without double quote and without `sep` keeps the quote state -/
theorem scanQ_plain (sep : Char) : ∀ (s : Str) (q : Bool), DQ ∉ s → sep ∉ s → scanQ sep q s = some q := by
  intro s
  induction s with
  | nil => intro q _ _; rfl
  | cons c cs ih =>
    intro q h1 h2
    have c1 : c ≠ DQ := fun e => h1 (by simp [e])
    have c2 : c ≠ sep := fun e => h2 (by simp [e])
    have t1 : DQ ∉ cs := fun e => h1 (by simp [e])
    have t2 : sep ∉ cs := fun e => h2 (by simp [e])
    simp [scanQ, nextQ, c1, c2, ih q t1 t2]

/-- inside quotes only a double quote matters -/
theorem scanQ_inq (sep : Char) : ∀ (s : Str), DQ ∉ s → scanQ sep true s = some true := by
  intro s
  induction s with
  | nil => intro _; rfl
  | cons c cs ih =>
    intro h1
    have c1 : c ≠ DQ := fun e => h1 (by simp [e])
    have t1 : DQ ∉ cs := fun e => h1 (by simp [e])
    simp [scanQ, nextQ, c1, ih t1]

theorem balanced_plain (sep : Char) (s : Str) (h1 : DQ ∉ s) (h2 : sep ∉ s) : Balanced sep s :=
  scanQ_plain sep s false h1 h2

theorem balanced_quoted (sep : Char) (hs : sep ≠ DQ) (s : Str) (h1 : DQ ∉ s) :
    Balanced sep (DQ :: s ++ [DQ]) := by
  unfold Balanced
  have : scanQ sep false (DQ :: s ++ [DQ]) = scanQ sep true (s ++ [DQ]) := by
    simp [scanQ, nextQ]
  rw [this, scanQ_append, scanQ_inq sep s h1]
  simp [scanQ, nextQ, Ne.symm hs]

/-- one step of the loop on a character that is not a split point, more input following -/
theorem qSplitGo_step (sep : Char) (ms : Option Nat) (q : Bool) (n : Nat) (cur : Str) (c : Char) (rest : Str)
    (hns : (!(nextQ q c) && c == sep) = false) (hr : rest ≠ []) (hm : ms ≠ some n) :
    qSplitGo sep ms q n cur (c :: rest) = qSplitGo sep ms (nextQ q c) n (cur ++ [c]) rest := by
  have hr' : rest.isEmpty = false := by cases rest <;> simp_all
  unfold nextQ at hns ⊢
  rw [qSplitGo]
  simp [hns, hr', hm]

/-- (a) a segment followed by more input is moved to the accumulator -/
theorem qSplitGo_seg (sep : Char) (n : Nat) (t : Str) (ht : t ≠ []) :
    ∀ (s : Str) (q q' : Bool) (cur : Str), scanQ sep q s = some q' →
      qSplitGo sep none q n cur (s ++ t) = qSplitGo sep none q' n (cur ++ s) t := by
  intro s
  induction s with
  | nil => intro q q' cur h; simp [scanQ] at h; simp [h]
  | cons c cs ih =>
    intro q q' cur h
    simp only [scanQ] at h
    by_cases hns : (!(nextQ q c) && c == sep) = true
    · simp [hns] at h
    · simp only [hns] at h
      have hns' : (!(nextQ q c) && c == sep) = false := by simpa using hns
      rw [List.cons_append, qSplitGo_step sep none q n cur c (cs ++ t) hns' (by simp [ht]) (by simp),
        ih _ q' _ h]
      simp

/-- (b) a last, non-empty segment without split point -/
theorem qSplitGo_last (sep : Char) (n : Nat) :
    ∀ (s : Str) (q q' : Bool) (cur : Str), s ≠ [] → scanQ sep q s = some q' →
      qSplitGo sep none q n cur s = [cur ++ s] := by
  intro s
  induction s with
  | nil => intro q q' cur h; exact absurd rfl h
  | cons c cs ih =>
    intro q q' cur _ h
    simp only [scanQ] at h
    by_cases hns : (!(nextQ q c) && c == sep) = true
    · simp [hns] at h
    · simp only [hns] at h
      have hns' : (!(nextQ q c) && c == sep) = false := by simpa using hns
      cases cs with
      | nil => unfold nextQ at hns'; rw [qSplitGo]; simp [hns']
      | cons d ds =>
        rw [qSplitGo_step sep none q n cur c (d :: ds) hns' (by simp) (by simp),
          ih _ q' _ (by simp) h]
        simp

/-- (c) a separator met outside quotes -/
theorem qSplitGo_sep (sep : Char) (hs : sep ≠ DQ) (n : Nat) (cur rest : Str) :
    qSplitGo sep none false n cur (sep :: rest) =
      if rest = [] then [cur, []] else cur :: qSplitGo sep none false (n + 1) [] rest := by
  rw [qSplitGo]
  cases rest with
  | nil => simp [hs]
  | cons d ds => simp [hs]

theorem joinWith_eq_nil (sep : Char) : ∀ (segs : List Str), joinWith [sep] segs = [] → segs = [] ∨ segs = [[]] := by
  intro segs h
  match segs, h with
  | [], _ => exact Or.inl rfl
  | [x], h => simp [joinWith] at h; simp [h]
  | x :: y :: r, h => simp [joinWith] at h

theorem qSplitGo_join (sep : Char) (hs : sep ≠ DQ) :
    ∀ (rest : List Str) (s : Str) (n : Nat) (cur : Str), joinWith [sep] (s :: rest) ≠ [] →
      (∀ x ∈ s :: rest, Balanced sep x) →
      qSplitGo sep none false n cur (joinWith [sep] (s :: rest)) = (cur ++ s) :: rest := by
  intro rest
  induction rest with
  | nil =>
    intro s n cur hne hb
    simp only [joinWith] at hne ⊢
    exact qSplitGo_last sep n s false false cur hne (hb s (by simp))
  | cons y r ih =>
    intro s n cur hne hb
    have hs' : Balanced sep s := hb s (by simp)
    simp only [joinWith, List.append_assoc, List.singleton_append]
    rw [qSplitGo_seg sep n _ (by simp) s false false cur hs', qSplitGo_sep sep hs]
    split
    · next hj =>
      rcases joinWith_eq_nil sep _ hj with e | e
      · simp at e
      · simp [e]
    · next hj =>
      rw [ih y (n + 1) [] hj (fun x hx => hb x (List.mem_cons_of_mem _ hx))]
      simp

theorem qSplit_join (sep : Char) (hs : sep ≠ DQ) (segs : List Str) (hne : joinWith [sep] segs ≠ [])
    (hb : ∀ s ∈ segs, Balanced sep s) : qSplit (joinWith [sep] segs) sep = segs := by
  unfold qSplit
  have : ((none : Option Nat) == some 0) = false := by simp
  simp only [this]
  cases segs with
  | nil => simp [joinWith] at hne
  | cons a b => rw [if_neg (by simp), qSplitGo_join sep hs b a 0 [] hne hb]; simp

end qsplit

/-! ## `KEY=value` items -/
section item

theorem validToken_chars (k : Str) (hk : validToken k = true) :
    k ≠ [] ∧ ∀ c ∈ k, c ≠ DQ ∧ c ≠ '=' ∧ c ≠ ';' ∧ c ≠ ',' := by
  unfold validToken at hk
  simp only [Bool.and_eq_true, Bool.not_eq_true', List.all_eq_true] at hk
  refine ⟨?_, fun c hc => tokChar_ne c (hk.2 c hc)⟩
  intro e; rw [e] at hk; simp at hk

theorem validToken_noDQ (k : Str) (hk : validToken k = true) : DQ ∉ k :=
  fun h => ((validToken_chars k hk).2 DQ h).1 rfl

theorem validToken_noSep (k : Str) (hk : validToken k = true) : ';' ∉ k :=
  fun h => ((validToken_chars k hk).2 ';' h).2.2.1 rfl

theorem qSplitGo_key (v : Str) : ∀ (k : Str) (cur : Str), (∀ c ∈ k, c ≠ DQ ∧ c ≠ '=') →
    qSplitGo '=' (some 1) false 0 cur (k ++ '=' :: v) = [cur ++ k, v] := by
  intro k
  induction k with
  | nil =>
    intro cur _
    rw [List.nil_append, qSplitGo]
    simp [DQ]
  | cons c cs ih =>
    intro cur h
    have hc := h c (by simp)
    have hns : (!(nextQ false c) && c == '=') = false := by simp [nextQ, hc.1, hc.2]
    have hq : nextQ false c = false := by simp [nextQ, hc.1]
    rw [List.cons_append, qSplitGo_step '=' (some 1) false 0 cur c _ hns (by simp) (by simp), hq,
      ih _ (fun d hd => h d (List.mem_cons_of_mem _ hd))]
    simp

theorem qSplit_key_val (k v : Str) (hk : validToken k = true) :
    qSplit (k ++ '=' :: v) '=' (some 1) = [k, v] := by
  unfold qSplit
  rw [if_neg (by simp), qSplitGo_key v k [] (fun c hc => ⟨((validToken_chars k hk).2 c hc).1,
    ((validToken_chars k hk).2 c hc).2.1⟩)]
  simp

end item

/-! ## values -/
section values

/-- `dquote` output is balanced for every separator that `dquote` quotes -/
theorem dquote_balanced_of_noDQ (sep : Char) (hq : inClass Gen.quotable sep = true) (hs : sep ≠ DQ)
    (v : Str) (hv : DQ ∉ v) : Balanced sep (dquote v) := by
  rw [dquote_of_noDQ v hv]
  split
  · exact balanced_quoted sep hs v hv
  · next h =>
    refine balanced_plain sep v hv ?_
    intro hm
    apply h
    rw [List.any_eq_true]
    exact ⟨sep, hm, hq⟩

/-- the same without the assumption on `v`: the substitution removes every double quote -/
theorem dquote_balanced_any (sep : Char) (hq : inClass Gen.quotable sep = true) (hs : sep ≠ DQ)
    (v : Str) : Balanced sep (dquote v) := by
  have hv : DQ ∉ rep1 DQ ['\''] v := rep1_noDQ _ (by decide) v
  rw [dquote_def]
  split
  · exact balanced_quoted sep hs _ hv
  · next h =>
    refine balanced_plain sep _ hv ?_
    intro hm
    apply h
    rw [List.any_eq_true]
    exact ⟨sep, hm, hq⟩

theorem balanced_joinWith (sep c : Char) (hc : Balanced sep [c]) :
    ∀ (l : List Str), (∀ x ∈ l, Balanced sep x) → Balanced sep (joinWith [c] l) := by
  intro l
  induction l with
  | nil => intro _; rfl
  | cons x r ih =>
    intro h
    cases r with
    | nil => simpa [joinWith] using h x (by simp)
    | cons y r' =>
      simp only [joinWith]
      exact ((h x (by simp)).append hc).append (ih (fun z hz => h z (List.mem_cons_of_mem _ hz)))

/-- the value domain: no double quote and nothing from QUNSAFE_CHAR -/
def ValueOk (x : Str) : Prop := DQ ∉ x ∧ ∀ c ∈ x, inClass Gen.qunsafeChar c = false

instance (x : Str) : Decidable (ValueOk x) := by unfold ValueOk; infer_instance

theorem dropWhileDQ_of_not_mem (l : Str) (h : DQ ∉ l) : l.dropWhile (· == DQ) = l := by
  cases l with
  | nil => rfl
  | cons c cs =>
    have : c ≠ DQ := fun e => h (by simp [e])
    simp [this]

theorem stripDQ_quoted (x : Str) (h : DQ ∉ x) : stripDQ (DQ :: x ++ [DQ]) = x := by
  unfold stripDQ
  have e1 : (DQ :: x ++ [DQ]).dropWhile (· == DQ) = (x ++ [DQ]).dropWhile (· == DQ) := by
    simp
  rw [e1]
  cases x with
  | nil => simp
  | cons c cs =>
    have hc : c ≠ DQ := fun e => h (by simp [e])
    have e2 : (c :: cs ++ [DQ]).dropWhile (· == DQ) = c :: cs ++ [DQ] := by
      simp [hc]
    rw [e2]
    have e3 : (c :: cs ++ [DQ]).reverse = DQ :: (c :: cs).reverse := by simp
    rw [e3]
    have e4 : (DQ :: (c :: cs).reverse).dropWhile (· == DQ) = ((c :: cs).reverse).dropWhile (· == DQ) := by
      simp
    rw [e4, dropWhileDQ_of_not_mem _ (fun hm => h (List.mem_reverse.mp hm))]
    simp

theorem startsWithDQ_of_not_mem (x : Str) (h : DQ ∉ x) : startsWithDQ x = false := by
  cases x with
  | nil => rfl
  | cons c cs =>
    have : c ≠ DQ := fun e => h (by simp [e])
    simp [startsWithDQ, this]

theorem parse_dquote (x : Str) (hx : ValueOk x) (rest : List Str) :
    parseParamVals false (dquote x :: rest) = (parseParamVals false rest).map (x :: ·) := by
  rw [dquote_of_noDQ x hx.1]
  split
  · have s : startsWithDQ (DQ :: x ++ [DQ]) = true := by simp [startsWithDQ]
    have e : endsWithDQ (DQ :: x ++ [DQ]) = true := by
      have : DQ :: x ++ [DQ] = (DQ :: x) ++ [DQ] := by simp
      rw [endsWithDQ, this, List.getLast?_concat]; simp
    have v : validParamValue x true = true := by
      simp only [validParamValue, if_true, Bool.not_eq_true', List.any_eq_false]
      intro c hc; simp [hx.2 c hc]
    rw [parseParamVals]
    simp only [s, e, Bool.and_self, if_true, stripDQ_quoted x hx.1, v]
  · next hq =>
    have s : startsWithDQ x = false := startsWithDQ_of_not_mem x hx.1
    have v : validParamValue x false = true := by
      simp only [validParamValue, Bool.false_eq_true, if_false, Bool.not_eq_true', List.any_eq_false]
      intro c hc hu
      rcases unsafe_sub c hu with h1 | h1
      · simp [hx.2 c hc] at h1
      · exact hq (List.any_eq_true.mpr ⟨c, hc, h1⟩)
    rw [parseParamVals]
    simp [s, v]

theorem parse_map_dquote : ∀ (xs : List Str), (∀ x ∈ xs, ValueOk x) →
    parseParamVals false (xs.map dquote) = some xs := by
  intro xs
  induction xs with
  | nil => intro _; simp [parseParamVals]
  | cons x r ih =>
    intro h
    rw [List.map_cons, parse_dquote x (h x (by simp)), ih (fun y hy => h y (List.mem_cons_of_mem _ hy))]
    simp

theorem parse_qJoin (xs : List Str) (hd : ∀ x ∈ xs, ValueOk x) (hq : qJoin xs ≠ []) :
    parseParamVals false (qSplit (qJoin xs) ',') = some xs := by
  unfold qJoin at *
  rw [qSplit_join ',' (by decide) _ hq, parse_map_dquote xs hd]
  intro s hs
  obtain ⟨x, hx, rfl⟩ := List.mem_map.mp hs
  exact dquote_balanced_of_noDQ ',' quotable_comma (by decide) x (hd x hx).1

/-- the serialised list is empty only for the list holding one empty string -/
theorem qJoin_eq_nil (xs : List Str) (hne : xs ≠ []) (h : qJoin xs = []) : xs = [[]] := by
  unfold qJoin at h
  rcases joinWith_eq_nil ',' _ h with e | e
  · simp [hne] at e
  · cases xs with
    | nil => simp at e
    | cons x r =>
      cases r with
      | nil => simp at e; rw [dquote_eq_nil x e]
      | cons y r' => simp at e

end values

/-! ## code-point order on strings (used for the sorted output) -/
section strorder

theorem strLt_asymm' : ∀ (a b : Str), strLt a b = true → strLt b a = false := by
  intro a
  induction a with
  | nil => intro b h; cases b <;> simp [strLt] at *
  | cons x xs ih =>
    intro b h
    cases b with
    | nil => simp [strLt] at h
    | cons y ys =>
      simp only [strLt] at h ⊢
      by_cases h1 : x.toNat < y.toNat
      · have : ¬ y.toNat < x.toNat := by omega
        simp [this, h1]
      · by_cases h2 : y.toNat < x.toNat
        · simp [h1, h2] at h
        · simp [h1, h2] at h ⊢; exact ih ys h

/-- `strLe` is total -/
theorem strLe_of_not (a b : Str) (h : strLe a b = false) : strLe b a = true := by
  unfold strLe at *
  have : strLt b a = true := by simpa using h
  simp [strLt_asymm' b a this]

/-- negative transitivity of `<` -/
theorem strLt_negtrans' : ∀ (c a b : Str), strLt c a = true → strLt c b = true ∨ strLt b a = true := by
  intro c
  induction c with
  | nil =>
    intro a b h
    cases a with
    | nil => simp [strLt] at h
    | cons y ys => cases b <;> simp [strLt]
  | cons x xs ih =>
    intro a b h
    cases a with
    | nil => simp [strLt] at h
    | cons y ys =>
      cases b with
      | nil => simp [strLt]
      | cons z zs =>
        simp only [strLt] at h ⊢
        by_cases h1 : x.toNat < y.toNat
        · by_cases h2 : x.toNat < z.toNat
          · simp [h2]
          · by_cases h3 : z.toNat < x.toNat
            · have : z.toNat < y.toNat := by omega
              simp [this]
            · have e : z.toNat = x.toNat := by omega
              have : z.toNat < y.toNat := by omega
              simp [this]
        · by_cases h1' : y.toNat < x.toNat
          · simp [h1, h1'] at h
          · simp [h1, h1'] at h
            have e : x.toNat = y.toNat := by omega
            by_cases h2 : x.toNat < z.toNat
            · simp [h2]
            · by_cases h3 : z.toNat < x.toNat
              · have : z.toNat < y.toNat := by omega
                simp [this]
              · have hz1 : ¬ z.toNat < y.toNat := by omega
                have hz2 : ¬ y.toNat < z.toNat := by omega
                simp [h2, h3, hz1, hz2]
                exact ih ys zs h

theorem strLe_trans' (a b c : Str) (h1 : strLe a b = true) (h2 : strLe b c = true) : strLe a c = true := by
  unfold strLe at *
  cases h : strLt c a
  · rfl
  · rcases strLt_negtrans' c a b h with h' | h'
    · simp [h'] at h2
    · simp [h'] at h1

end strorder

/-! ## sorting by key -/
section sort

theorem insertByKey_perm (kv : Str × PVal) : ∀ (l : Params), (insertByKey kv l).Perm (kv :: l) := by
  intro l
  induction l with
  | nil => simp [insertByKey]
  | cons x xs ih =>
    simp only [insertByKey]
    split
    · exact List.Perm.refl _
    · exact (List.Perm.cons x ih).trans (List.Perm.swap kv x xs)

theorem sortByKey_perm : ∀ (m : Params), (sortByKey m).Perm m := by
  intro m
  induction m with
  | nil => exact List.Perm.refl _
  | cons kv r ih =>
    have : sortByKey (kv :: r) = insertByKey kv (sortByKey r) := rfl
    rw [this]
    exact (insertByKey_perm kv _).trans (List.Perm.cons kv ih)

/-- sorted by key in code point order -/
def KeySorted (p : Params) : Prop := List.Pairwise (fun a b => strLe a b = true) (p.map Prod.fst)

theorem insertByKey_sorted (kv : Str × PVal) : ∀ (l : Params), KeySorted l → KeySorted (insertByKey kv l) := by
  intro l
  induction l with
  | nil => intro _; simp [insertByKey, KeySorted]
  | cons x xs ih =>
    intro h
    unfold KeySorted at h
    rw [List.map_cons, List.pairwise_cons] at h
    simp only [insertByKey]
    split
    · next hle =>
      unfold KeySorted
      rw [List.map_cons, List.pairwise_cons]
      refine ⟨?_, by rw [List.map_cons, List.pairwise_cons]; exact h⟩
      intro k hk
      rw [List.map_cons, List.mem_cons] at hk
      rcases hk with e | e
      · rw [e]; exact hle
      · exact strLe_trans' _ _ _ hle (h.1 k e)
    · next hle =>
      have hle' : strLe x.1 kv.1 = true := strLe_of_not _ _ (by simpa using hle)
      have ih' := ih h.2
      unfold KeySorted at ih' ⊢
      rw [List.map_cons, List.pairwise_cons]
      refine ⟨?_, ih'⟩
      intro k hk
      have : k ∈ (kv :: xs).map Prod.fst := ((insertByKey_perm kv xs).map Prod.fst).mem_iff.mp hk
      rw [List.map_cons, List.mem_cons] at this
      rcases this with e | e
      · rw [e]; exact hle'
      · exact h.1 k e

theorem sortByKey_sorted : ∀ (m : Params), KeySorted (sortByKey m) := by
  intro m
  induction m with
  | nil => simp [sortByKey, KeySorted]
  | cons kv r ih =>
    have : sortByKey (kv :: r) = insertByKey kv (sortByKey r) := rfl
    rw [this]
    exact insertByKey_sorted kv _ ih

end sort

/-! ## ASCII upper-casing is idempotent -/
section upper

theorem upperC_idem' (c : Char) : upperC (upperC c) = upperC c := by
  unfold upperC
  by_cases h : 'a' ≤ c ∧ c ≤ 'z'
  · simp only [h, and_self, if_true]
    have h1 : 97 ≤ c.toNat := by
      have := h.1; rw [Char.le_def, UInt32.le_iff_toNat_le] at this; exact this
    have h2 : c.toNat ≤ 122 := by
      have := h.2; rw [Char.le_def, UInt32.le_iff_toNat_le] at this; exact this
    have hv : (Char.ofNat (c.toNat - 32)).toNat = c.toNat - 32 := by
      have : (c.toNat - 32).isValidChar := by left; omega
      rw [Char.ofNat, dif_pos this]
      show (UInt32.ofNatLT _ _).toNat = _
      simp [UInt32.toNat_ofNatLT]
    have : ¬ ('a' ≤ Char.ofNat (c.toNat - 32) ∧ Char.ofNat (c.toNat - 32) ≤ 'z') := by
      intro ⟨g, _⟩
      rw [Char.le_def, UInt32.le_iff_toNat_le] at g
      have : (97 : Nat) ≤ (Char.ofNat (c.toNat - 32)).toNat := g
      omega
    simp [this]
  · simp [h]

theorem upper_idem (k : Str) : upper (upper k) = upper k := by
  simp [upper, List.map_map, Function.comp_def, upperC_idem']

end upper

/-! ## the parameter map: domain, canonical form, round trip -/
section params

/-- a value of the domain: a string, or a non-empty list of strings, all `ValueOk` -/
def PValOk : PVal → Prop
  | .one x => ValueOk x
  | .many xs => xs ≠ [] ∧ ∀ x ∈ xs, ValueOk x

instance (v : PVal) : Decidable (PValOk v) := by
  cases v <;> unfold PValOk <;> infer_instance

/-- what a `Parameters` object built from strings and lists of strings looks like:
    distinct upper-cased NAME keys, values from the value domain -/
def ParamDomain (m : Params) : Prop :=
  (m.map Prod.fst).Nodup ∧ ∀ kv ∈ m, (validToken kv.1 = true ∧ upper kv.1 = kv.1) ∧ PValOk kv.2

instance (m : Params) : Decidable (ParamDomain m) := by unfold ParamDomain; infer_instance

/-- what the parser stores for a value: a one-element list comes back as its element -/
def canonVal : PVal → PVal
  | .many [x] => .one x
  | v => v

def canon (m : Params) : Params := (sortByKey m).map (fun kv => (kv.1, canonVal kv.2))

theorem paramDomain_perm {m m' : Params} (hp : m'.Perm m) (hd : ParamDomain m) : ParamDomain m' :=
  ⟨((hp.map Prod.fst).nodup_iff).mpr hd.1, fun kv hkv => hd.2 kv (hp.mem_iff.mp hkv)⟩

theorem paramDomain_sort (m : Params) (hd : ParamDomain m) : ParamDomain (sortByKey m) :=
  paramDomain_perm (sortByKey_perm m) hd

theorem put_fresh (p : Params) (k : Str) (v : PVal) (h : k ∉ p.map Prod.fst) :
    Params.put p k v = p ++ [(k, v)] := by
  unfold Params.put
  rw [if_neg]
  intro hany
  rw [List.any_eq_true] at hany
  obtain ⟨kv, hkv, he⟩ := hany
  exact h (List.mem_map.mpr ⟨kv, hkv, by simpa using he⟩)

/-- the text of one item -/
def itemText (kv : Str × PVal) : Str := upper kv.1 ++ ['='] ++ paramValue kv.2

theorem paramValue_balanced (sep : Char) (hq : inClass Gen.quotable sep = true) (hs : sep ≠ DQ)
    (hc : Balanced sep [',']) (v : PVal) : Balanced sep (paramValue v) := by
  cases v with
  | one x => exact dquote_balanced_any sep hq hs x
  | many xs =>
    unfold paramValue qJoin
    refine balanced_joinWith sep ',' hc _ ?_
    intro s hs'
    obtain ⟨x, _, rfl⟩ := List.mem_map.mp hs'
    exact dquote_balanced_any sep hq hs x

/-- a whole item `KEY=value` holds no `;` outside quotes -/
theorem item_balanced (kv : Str × PVal) (hk : validToken kv.1 = true) (hu : upper kv.1 = kv.1) :
    Balanced ';' (itemText kv) := by
  unfold itemText
  rw [hu]
  refine ((balanced_plain ';' kv.1 (validToken_noDQ _ hk) (validToken_noSep _ hk)).append
    (by decide)).append ?_
  exact paramValue_balanced ';' quotable_semi (by decide) (by decide) kv.2

theorem item_ne_nil (kv : Str × PVal) : itemText kv ≠ [] := by
  unfold itemText; simp

theorem parseParam_item (kv : Str × PVal) (hk : validToken kv.1 = true) (hu : upper kv.1 = kv.1)
    (hv : PValOk kv.2) : parseParam false (itemText kv) = some (kv.1, canonVal kv.2) := by
  obtain ⟨k, v⟩ := kv
  simp only at hk hu hv ⊢
  unfold parseParam itemText
  simp only [hu]
  have e : k ++ ['='] ++ paramValue v = k ++ '=' :: paramValue v := by simp
  rw [e, qSplit_key_val k _ hk]
  simp only [hk, Bool.not_true, Bool.false_eq_true, if_false, hu]
  cases v with
  | one x =>
    have hv : ValueOk x := hv
    simp only [paramValue]
    by_cases he : dquote x = []
    · have : x = [] := dquote_eq_nil x he
      subst this
      rw [he]
      simp [qSplit, qSplitGo, parseParamVals, canonVal]
    · have := parse_qJoin [x] (by simpa using hv) (by simpa [qJoin, joinWith] using he)
      simp only [qJoin, List.map_cons, List.map_nil, joinWith] at this
      rw [this]
      simp [canonVal]
  | many xs =>
    have hv : xs ≠ [] ∧ ∀ x ∈ xs, ValueOk x := hv
    simp only [paramValue]
    by_cases he : qJoin xs = []
    · have : xs = [[]] := qJoin_eq_nil xs hv.1 he
      subst this
      rw [he]
      simp [qSplit, qSplitGo, parseParamVals, canonVal]
    · rw [parse_qJoin xs hv.2 he]
      match xs, hv.1 with
      | [x], _ => simp [canonVal]
      | x :: y :: r, _ => simp [canonVal]

/-- the loop of `from_ical` over the items of a map with fresh distinct keys appends them in order;
    `F` is the loop body, characterised by `hF` -/
theorem fold_items (F : Option Params → Str → Option Params)
    (hF : ∀ ps param k v, parseParam false param = some (k, v) → F (some ps) param = some (Params.put ps k v)) :
    ∀ (s : Params) (acc : Params), ParamDomain s →
    (∀ k ∈ s.map Prod.fst, k ∉ acc.map Prod.fst) →
    (s.map itemText).foldl F (some acc) = some (acc ++ s.map (fun kv => (kv.1, canonVal kv.2))) := by
  intro s
  induction s with
  | nil => intro acc _ _; simp
  | cons kv r ih =>
    intro acc hd hf
    have hkv := hd.2 kv (by simp)
    have hnd := hd.1
    rw [List.map_cons, List.nodup_cons] at hnd
    rw [List.map_cons, List.foldl_cons, hF acc _ _ _ (parseParam_item kv hkv.1.1 hkv.1.2 hkv.2)]
    rw [put_fresh acc kv.1 _ (hf kv.1 (by simp))]
    rw [ih _ ⟨hnd.2, fun x hx => hd.2 x (List.mem_cons_of_mem _ hx)⟩]
    · simp
    · intro k hk hacc
      rw [List.map_append, List.mem_append] at hacc
      rcases hacc with h | h
      · exact hf k (by simp [hk]) h
      · simp only [List.map_cons, List.map_nil, List.mem_singleton] at h
        exact hnd.1 (h ▸ hk)

theorem joinWith_ne_nil (sep : Str) (x : Str) (r : List Str) (hx : x ≠ []) : joinWith sep (x :: r) ≠ [] := by
  cases r with
  | nil => simpa [joinWith] using hx
  | cons y r' => simp [joinWith, hx]

theorem fromIcal_toIcal (m : Params) (hd : ParamDomain m) :
    paramsFromIcal (paramsToIcal m true) false = some (canon m) := by
  have hs := paramDomain_sort m hd
  unfold paramsFromIcal paramsToIcal canon
  simp only [if_true]
  generalize sortByKey m = s at hs
  have ht : (s.map fun kv => upper kv.1 ++ ['='] ++ paramValue kv.2) = s.map itemText := rfl
  rw [ht]
  cases s with
  | nil => simp [joinWith, qSplit, qSplitGo]
  | cons kv r =>
    rw [qSplit_join ';' (by decide) _ (by
        rw [List.map_cons]; exact joinWith_ne_nil _ _ _ (item_ne_nil kv)) (by
        intro t ht
        obtain ⟨x, hx, rfl⟩ := List.mem_map.mp ht
        exact item_balanced x (hs.2 x hx).1.1 (hs.2 x hx).1.2)]
    rw [fold_items _ (by intro ps param k v h; simp only [h]) (kv :: r) [] hs (by simp)]
    simp

end params


/-! ## reading the result -/
section read

theorem get?_of_mem : ∀ (p : Params), (p.map Prod.fst).Nodup → ∀ (k : Str) (v : PVal), (k, v) ∈ p →
    p.get? k = some v := by
  intro p
  induction p with
  | nil => intro _ k v h; simp at h
  | cons x r ih =>
    intro hn k v h
    rw [List.map_cons, List.nodup_cons] at hn
    unfold Params.get?
    rw [List.find?_cons]
    rcases List.mem_cons.mp h with e | e
    · subst e; simp
    · have hne : x.1 ≠ k := by
        intro e'
        exact hn.1 (List.mem_map.mpr ⟨(k, v), e, e'.symm⟩)
      have : (x.1 == k) = false := by simpa using hne
      simp only [this]
      exact ih hn.2 k v e

theorem canon_keys (m : Params) : (canon m).map Prod.fst = (sortByKey m).map Prod.fst := by
  simp [canon, List.map_map, Function.comp_def]

theorem canon_nodup (m : Params) (hd : ParamDomain m) : ((canon m).map Prod.fst).Nodup := by
  rw [canon_keys]; exact (paramDomain_sort m hd).1

theorem canon_sorted (m : Params) : KeySorted (canon m) := by
  unfold KeySorted; rw [canon_keys]; exact sortByKey_sorted m

theorem canon_mem (m : Params) (kv : Str × PVal) (h : kv ∈ m) : (kv.1, canonVal kv.2) ∈ canon m :=
  List.mem_map.mpr ⟨kv, (sortByKey_perm m).mem_iff.mpr h, rfl⟩

theorem canon_length (m : Params) : (canon m).length = m.length := by
  simp [canon, (sortByKey_perm m).length_eq]

theorem canon_get? (m : Params) (hd : ParamDomain m) (kv : Str × PVal) (h : kv ∈ m) :
    (canon m).get? kv.1 = some (canonVal kv.2) :=
  get?_of_mem _ (canon_nodup m hd) _ _ (canon_mem m kv h)

end read

/-- a concrete map for the non-vacuity checks of C08 -/
def sampleParams : Params :=
  [(['X', '-', 'B'], .many [['a', ',', 'b'], ['c']]),
   (['C', 'N'], .one ['x', ',', ';', ':', ' ', 'y']),
   (['E'], .one []),
   (['A', '.', '1'], .many [['o', 'n', 'e']]),
   (['Z', '_'], .many [[], []])]

end ICal
