/-
  Helper lemmas for C20: the greedy one-to-one matching of `Component.__eq__` and the property-map
  comparison of `CaselessDict.__eq__`.
-/
import ICal.Lemmas.Walk
import ICal.Lemmas.Parse
namespace ICal

open List

/-- element-wise relation between two lists of the same length -/
inductive Forall2 {α β} (R : α → β → Prop) : List α → List β → Prop
  | nil : Forall2 R [] []
  | cons {a b as bs} : R a b → Forall2 R as bs → Forall2 R (a :: as) (b :: bs)

/-- `as` can be matched one-to-one with `bs` along `R` -/
def Matching {α β} (R : α → β → Prop) (as : List α) (bs : List β) : Prop :=
  ∃ l, l.Perm bs ∧ Forall2 R as l

namespace Forall2
variable {α β γ : Type} {R : α → β → Prop}

theorem length_eq {as : List α} {bs : List β} (h : Forall2 R as bs) : as.length = bs.length := by
  induction h with
  | nil => rfl
  | cons _ _ ih => simp [ih]

theorem imp_mem {S : α → β → Prop} {as : List α} {bs : List β} (h : Forall2 R as bs)
    (f : ∀ a ∈ as, ∀ b ∈ bs, R a b → S a b) : Forall2 S as bs := by
  induction h with
  | nil => exact .nil
  | cons hr _ ih =>
    refine .cons (f _ (by simp) _ (by simp) hr) (ih ?_)
    intro a ha b hb
    exact f a (by simp [ha]) b (by simp [hb])

theorem flip {as : List α} {bs : List β} (h : Forall2 R as bs) : Forall2 (fun b a => R a b) bs as := by
  induction h with
  | nil => exact .nil
  | cons hr _ ih => exact .cons hr ih

theorem append {a1 a2 : List α} {b1 b2 : List β} (h1 : Forall2 R a1 b1) (h2 : Forall2 R a2 b2) :
    Forall2 R (a1 ++ a2) (b1 ++ b2) := by
  induction h1 with
  | nil => exact h2
  | cons hr _ ih => exact .cons hr ih

theorem refl_of {R : α → α → Prop} : ∀ (l : List α), (∀ a ∈ l, R a a) → Forall2 R l l
  | [], _ => .nil
  | a :: l, h => .cons (h a (by simp)) (refl_of l (fun b hb => h b (by simp [hb])))

/-- split at an element of the right list -/
theorem split_right {as : List α} {bs : List β} (h : Forall2 R as bs) {y : β} (hy : y ∈ bs) :
    ∃ pu q pv u v, as = pu ++ q :: pv ∧ bs = u ++ y :: v ∧ Forall2 R pu u ∧ R q y ∧ Forall2 R pv v := by
  induction h with
  | nil => cases hy
  | @cons a b as bs hr ht ih =>
    rcases List.mem_cons.1 hy with rfl | hy'
    · exact ⟨[], a, as, [], bs, rfl, rfl, .nil, hr, ht⟩
    · obtain ⟨pu, q, pv, u, v, e1, e2, f1, hq, f2⟩ := ih hy'
      exact ⟨a :: pu, q, pv, b :: u, v, by simp [e1], by simp [e2], .cons hr f1, hq, f2⟩

/-- a permutation of the left list is matched by a permutation of the right list -/
theorem perm_left {as as' : List α} (hp : as'.Perm as) :
    ∀ {l : List β}, Forall2 R as l → ∃ l', l'.Perm l ∧ Forall2 R as' l' := by
  induction hp with
  | nil => intro l h; exact ⟨l, Perm.refl _, h⟩
  | cons x _ ih =>
    intro l h
    cases h with
    | cons hr ht =>
      obtain ⟨l', p', f'⟩ := ih ht
      exact ⟨_ :: l', p'.cons _, .cons hr f'⟩
  | swap x y t =>
    intro l h
    cases h with
    | cons hr ht =>
      cases ht with
      | cons hr2 ht2 => exact ⟨_ :: _ :: _, Perm.swap _ _ _, .cons hr2 (.cons hr ht2)⟩
  | trans _ _ ih1 ih2 =>
    intro l h
    obtain ⟨l1, p1, f1⟩ := ih2 h
    obtain ⟨l2, p2, f2⟩ := ih1 f1
    exact ⟨l2, p2.trans p1, f2⟩

theorem comp {S : β → γ → Prop} {as : List α} {bs : List β} (h : Forall2 R as bs) :
    ∀ {cs : List γ}, Forall2 S bs cs → Forall2 (fun a c => ∃ b, b ∈ bs ∧ R a b ∧ S b c) as cs := by
  induction h with
  | nil => intro cs h2; cases h2; exact .nil
  | cons hr _ ih =>
    intro cs h2
    cases h2 with
    | cons hs ht =>
      refine .cons ⟨_, by simp, hr, hs⟩ ((ih ht).imp_mem ?_)
      intro a _ c _ ⟨b, hb, h1, h2⟩
      exact ⟨b, by simp [hb], h1, h2⟩

theorem map_left {δ : Type} (f : δ → α) {as : List δ} {bs : List β} :
    Forall2 R (as.map f) bs ↔ Forall2 (fun a b => R (f a) b) as bs := by
  constructor
  · intro h
    induction as generalizing bs with
    | nil => cases h; exact .nil
    | cons a as ih => cases h with | cons hr ht => exact .cons hr (ih ht)
  · intro h
    induction h with
    | nil => exact .nil
    | cons hr _ ih => exact .cons hr ih

end Forall2

namespace Matching
variable {α β γ : Type} {R : α → β → Prop}

theorem length_eq {as : List α} {bs : List β} (h : Matching R as bs) : as.length = bs.length := by
  obtain ⟨l, p, f⟩ := h
  rw [f.length_eq, p.length_eq]

theorem symm {as : List α} {bs : List β} (h : Matching R as bs) : Matching (fun b a => R a b) bs as := by
  obtain ⟨l, p, f⟩ := h
  obtain ⟨l', p', f'⟩ := Forall2.perm_left p.symm f.flip
  exact ⟨l', p', f'⟩

theorem trans {S : β → γ → Prop} {as : List α} {bs : List β} {cs : List γ}
    (h1 : Matching R as bs) (h2 : Matching S bs cs) :
    Matching (fun a c => ∃ b, b ∈ bs ∧ R a b ∧ S b c) as cs := by
  obtain ⟨l1, p1, f1⟩ := h1
  obtain ⟨l2, p2, f2⟩ := h2
  obtain ⟨l2', p2', f2'⟩ := Forall2.perm_left p1 f2
  refine ⟨l2', p2'.trans p2, (f1.comp f2').imp_mem ?_⟩
  intro a _ c _ ⟨b, hb, h1, h2⟩
  exact ⟨b, p1.mem_iff.1 hb, h1, h2⟩

theorem imp_mem {S : α → β → Prop} {as : List α} {bs : List β} (h : Matching R as bs)
    (f : ∀ a ∈ as, ∀ b ∈ bs, R a b → S a b) : Matching S as bs := by
  obtain ⟨l, p, g⟩ := h
  exact ⟨l, p, g.imp_mem (fun a ha b hb => f a ha b (p.mem_iff.1 hb))⟩

end Matching

/-! ### removeFirst / greedy -/

section greedy
variable {α : Type}

theorem removeFirst_some {p : α → Bool} : ∀ {xs r : List α}, removeFirst p xs = some r →
    ∃ y, p y = true ∧ xs.Perm (y :: r)
  | [], _, h => by simp [removeFirst] at h
  | x :: xs, r, h => by
    simp only [removeFirst] at h
    by_cases hx : p x = true
    · simp only [hx, if_true, Option.some.injEq] at h
      subst h
      exact ⟨x, hx, Perm.refl _⟩
    · simp only [hx, Bool.false_eq_true, if_false, Option.map_eq_some_iff] at h
      obtain ⟨r', hr', rfl⟩ := h
      obtain ⟨y, hy, hp⟩ := removeFirst_some hr'
      exact ⟨y, hy, (hp.cons x).trans (Perm.swap _ _ _)⟩

theorem removeFirst_none {p : α → Bool} : ∀ {xs : List α}, removeFirst p xs = none → ∀ x ∈ xs, p x = false
  | [], _ => by simp
  | x :: xs, h => by
    simp only [removeFirst] at h
    by_cases hx : p x = true
    · simp [hx] at h
    · simp only [hx, Bool.false_eq_true, if_false, Option.map_eq_none_iff] at h
      intro z hz
      rcases List.mem_cons.1 hz with rfl | hz
      · simpa using hx
      · exact removeFirst_none h z hz

/-- a successful greedy run is a one-to-one matching -/
theorem greedy_sound : ∀ (ps : List (α → Bool)) (xs : List α), greedy ps xs = true →
    ps.length = xs.length → Matching (fun p x => p x = true) ps xs
  | [], xs, _, hl => by
    have : xs = [] := List.length_eq_zero_iff.1 (by simpa using hl.symm)
    subst this
    exact ⟨[], Perm.refl _, .nil⟩
  | p :: ps, xs, h, hl => by
    simp only [greedy] at h
    split at h
    · next r hr =>
      obtain ⟨y, hy, hp⟩ := removeFirst_some hr
      have hlen : ps.length = r.length := by
        have := hp.length_eq
        simp only [List.length_cons] at this hl
        omega
      obtain ⟨l, pl, fl⟩ := greedy_sound ps r h hlen
      exact ⟨y :: l, (pl.cons y).trans hp.symm, .cons hy fl⟩
    · cases h

/-- greedy fails as soon as one predicate rejects every candidate -/
theorem greedy_false_of_unmatched : ∀ (ps : List (α → Bool)) (xs : List α) (p : α → Bool),
    p ∈ ps → (∀ x ∈ xs, p x = false) → greedy ps xs = false
  | [], _, _, h, _ => by cases h
  | q :: ps, xs, p, hmem, hall => by
    simp only [greedy]
    split
    · next r hr =>
      obtain ⟨y, hy, hp⟩ := removeFirst_some hr
      rcases List.mem_cons.1 hmem with rfl | hmem'
      · have := hall y (hp.mem_iff.2 (by simp))
        simp [this] at hy
      · exact greedy_false_of_unmatched ps r p hmem'
          (fun x hx => hall x (hp.mem_iff.2 (by simp [hx])))
    · rfl

/-- a matching is found by the greedy run when the predicates are "rectangular" (as the
    classes of an equivalence are): two predicates that share one candidate share all -/
theorem greedy_complete : ∀ (ps : List (α → Bool)) (xs : List α),
    Matching (fun p x => p x = true) ps xs →
    (∀ p ∈ ps, ∀ q ∈ ps, ∀ x ∈ xs, ∀ y ∈ xs, p x = true → p y = true → q x = true → q y = true) →
    greedy ps xs = true
  | [], _, _, _ => by simp [greedy]
  | p :: ps, xs, ⟨l, pl, fl⟩, D => by
    cases fl with
    | @cons _ x0 _ l' hp0 fl' =>
    have hx0 : x0 ∈ xs := pl.mem_iff.1 (by simp)
    simp only [greedy]
    split
    · next r hr =>
      obtain ⟨y, hy, hp⟩ := removeFirst_some hr
      have hyxs : y ∈ xs := hp.mem_iff.2 (by simp)
      have hsub : ∀ z ∈ r, z ∈ xs := fun z hz => hp.mem_iff.2 (by simp [hz])
      apply greedy_complete ps r
      · -- a matching of the remaining predicates into r
        have hperm : (y :: r).Perm (x0 :: l') := hp.symm.trans pl.symm
        have hy' : y ∈ x0 :: l' := hperm.mem_iff.1 (by simp)
        rcases List.mem_cons.1 hy' with rfl | hyl
        · exact ⟨l', hperm.cons_inv.symm, fl'⟩
        · obtain ⟨pu, q, pv, u, v, e1, e2, f1, hq, f2⟩ := fl'.split_right hyl
          subst e1 e2
          have hq0 : q x0 = true :=
            D p (by simp) q (by simp) y hyxs x0 hx0 hy hp0 hq
          refine ⟨u ++ x0 :: v, ?_, f1.append (.cons hq0 f2)⟩
          have h1 : (y :: r).Perm (y :: (u ++ x0 :: v)) := by
            refine hperm.trans ?_
            refine ((perm_middle (a := y) (l₁ := u) (l₂ := v)).cons x0).trans ?_
            refine (Perm.swap y x0 _).trans ?_
            exact ((perm_middle (a := x0) (l₁ := u) (l₂ := v)).symm).cons y
          exact h1.cons_inv.symm
      · intro p1 hp1 q1 hq1 a ha b hb
        exact D p1 (by simp [hp1]) q1 (by simp [hq1]) a (hsub a ha) b (hsub b hb)
    · next hnone =>
      have := removeFirst_none hnone x0 hx0
      simp [this] at hp0

/-- when every predicate accepts the candidate at its own position, greedy takes exactly that one -/
theorem greedy_diag : ∀ (ps : List (α → Bool)) (xs : List α),
    Forall2 (fun p x => p x = true) ps xs → greedy ps xs = true
  | [], _, _ => by simp [greedy]
  | p :: ps, _, h => by
    cases h with
    | cons hp ht => simp [greedy, removeFirst, hp, greedy_diag ps _ ht]

end greedy

/-! ### property maps -/

theorem subset_of_nodup_of_length {α} {l₁ l₂ : List α} (h₁ : l₁.Nodup) (hsub : l₁ ⊆ l₂)
    (hlen : l₂.length ≤ l₁.length) : l₂ ⊆ l₁ := by
  intro x hx
  apply Classical.byContradiction
  intro hnot
  have hn : (x :: l₁).Nodup := List.nodup_cons.2 ⟨hnot, h₁⟩
  have hs : (x :: l₁) ⊆ l₂ := by
    intro z hz
    rcases List.mem_cons.1 hz with rfl | hz
    · exact hx
    · exact hsub hz
  have := hn.length_le_of_subset hs
  simp only [List.length_cons] at this
  omega

section props
variable (veq : Val → Val → Bool)

theorem listEq_refl {α} (eq : α → α → Bool) (hr : ∀ v, eq v v = true) : ∀ l, listEq eq l l = true
  | [] => rfl
  | a :: l => by simp [listEq, hr a, listEq_refl eq hr l]

theorem listEq_symm {α} (eq : α → α → Bool) (hs : ∀ a b, eq a b = true → eq b a = true) :
    ∀ l m, listEq eq l m = true → listEq eq m l = true
  | [], [], _ => rfl
  | [], _ :: _, h => by simp [listEq] at h
  | _ :: _, [], h => by simp [listEq] at h
  | a :: l, b :: m, h => by
    simp only [listEq, Bool.and_eq_true] at h ⊢
    exact ⟨hs _ _ h.1, listEq_symm eq hs l m h.2⟩

theorem listEq_trans {α} (eq : α → α → Bool) (ht : ∀ a b c, eq a b = true → eq b c = true → eq a c = true) :
    ∀ l m k, listEq eq l m = true → listEq eq m k = true → listEq eq l k = true
  | [], [], [], _, _ => rfl
  | [], [], _ :: _, _, h => by simp [listEq] at h
  | [], _ :: _, _, h, _ => by simp [listEq] at h
  | _ :: _, [], _, h, _ => by simp [listEq] at h
  | _ :: _, _ :: _, [], _, h => by simp [listEq] at h
  | a :: l, b :: m, c :: k, h1, h2 => by
    simp only [listEq, Bool.and_eq_true] at h1 h2 ⊢
    exact ⟨ht _ _ _ h1.1 h2.1, listEq_trans eq ht l m k h1.2 h2.2⟩

theorem entryEq_refl (hr : ∀ v, veq v v = true) (a : Entry) : entryEq veq a a = true := by
  simp [entryEq, listEq_refl veq hr]

theorem entryEq_symm (hs : ∀ a b, veq a b = true → veq b a = true) (a b : Entry)
    (h : entryEq veq a b = true) : entryEq veq b a = true := by
  simp only [entryEq, Bool.and_eq_true, beq_iff_eq] at h ⊢
  exact ⟨h.1.symm, listEq_symm veq hs _ _ h.2⟩

theorem entryEq_trans (ht : ∀ a b c, veq a b = true → veq b c = true → veq a c = true) (a b c : Entry)
    (h1 : entryEq veq a b = true) (h2 : entryEq veq b c = true) : entryEq veq a c = true := by
  simp only [entryEq, Bool.and_eq_true, beq_iff_eq] at h1 h2 ⊢
  exact ⟨h1.1.trans h2.1, listEq_trans veq ht _ _ _ h1.2 h2.2⟩

theorem propsEq_iff (p q : List Entry) : propsEq veq p q = true ↔
    p.length = q.length ∧ ∀ a ∈ p, ∃ b, q.find? (fun b => b.name == a.name) = some b ∧ entryEq veq a b = true := by
  simp only [propsEq, Bool.and_eq_true, beq_iff_eq, List.all_eq_true]
  constructor
  · rintro ⟨hl, h⟩
    refine ⟨hl, fun a ha => ?_⟩
    have := h a ha
    split at this
    · next b hb => exact ⟨b, hb, this⟩
    · cases this
  · rintro ⟨hl, h⟩
    refine ⟨hl, fun a ha => ?_⟩
    obtain ⟨b, hb, he⟩ := h a ha
    simp [hb, he]

theorem find_of_distinct : ∀ (p : List Entry), keysDistinct p → ∀ a ∈ p,
    p.find? (fun b => b.name == a.name) = some a
  | [], _, _, h => by cases h
  | x :: t, hd, a, ha => by
    simp only [keysDistinct, List.map_cons, List.nodup_cons] at hd
    rcases List.mem_cons.1 ha with rfl | hat
    · simp
    · have hne : x.name ≠ a.name := fun e => hd.1 (e ▸ List.mem_map_of_mem hat)
      rw [List.find?_cons_of_neg (by simpa using hne)]
      exact find_of_distinct t hd.2 a hat

theorem propsEq_refl (hr : ∀ v, veq v v = true) (p : List Entry) (hd : keysDistinct p) :
    propsEq veq p p = true := by
  rw [propsEq_iff]
  exact ⟨rfl, fun a ha => ⟨a, find_of_distinct p hd a ha, entryEq_refl veq hr a⟩⟩

theorem propsEq_trans (ht : ∀ a b c, veq a b = true → veq b c = true → veq a c = true)
    (p q r : List Entry) (h1 : propsEq veq p q = true) (h2 : propsEq veq q r = true) :
    propsEq veq p r = true := by
  rw [propsEq_iff] at h1 h2 ⊢
  refine ⟨h1.1.trans h2.1, fun a ha => ?_⟩
  obtain ⟨b, hb, hab⟩ := h1.2 a ha
  have hbq : b ∈ q := List.mem_of_find?_eq_some hb
  have hbn : b.name = a.name := by simpa using List.find?_some hb
  obtain ⟨c, hc, hbc⟩ := h2.2 b hbq
  exact ⟨c, by rw [← hbn]; exact hc, entryEq_trans veq ht a b c hab hbc⟩

theorem propsEq_symm (hs : ∀ a b, veq a b = true → veq b a = true)
    (p q : List Entry) (hp : keysDistinct p) (hq : keysDistinct q)
    (h : propsEq veq p q = true) : propsEq veq q p = true := by
  rw [propsEq_iff] at h ⊢
  refine ⟨h.1.symm, fun b hb => ?_⟩
  -- every key of q is a key of p (pigeonhole on the duplicate-free key lists)
  have hsub : p.map (·.name) ⊆ q.map (·.name) := by
    intro k hk
    obtain ⟨a, ha, rfl⟩ := List.mem_map.1 hk
    obtain ⟨b', hb', _⟩ := h.2 a ha
    have : b'.name = a.name := by simpa using List.find?_some hb'
    exact this ▸ List.mem_map_of_mem (List.mem_of_find?_eq_some hb')
  have hsup := subset_of_nodup_of_length hp hsub (by simp [h.1])
  obtain ⟨a, ha, han⟩ := List.mem_map.1 (hsup (List.mem_map_of_mem hb))
  obtain ⟨b', hb', hab'⟩ := h.2 a ha
  have hfb : q.find? (fun x => x.name == b.name) = some b := find_of_distinct q hq b hb
  have : b' = b := by
    have han' : a.name = b.name := han
    rw [han'] at hb'
    rw [hfb] at hb'
    exact (Option.some.inj hb').symm
  subst this
  refine ⟨a, ?_, entryEq_symm veq hs a b' hab'⟩
  have han' : a.name = b'.name := han
  rw [← han']
  exact find_of_distinct p hp a ha

/-- permuting the insertion order of the properties (distinct keys) keeps the maps equal -/
theorem propsEq_perm (hr : ∀ v, veq v v = true) (p p' : List Entry) (hd : keysDistinct p)
    (hperm : p'.Perm p) : propsEq veq p p' = true := by
  rw [propsEq_iff]
  have hd' : keysDistinct p' := (hperm.map (fun e : Entry => e.name)).symm.nodup hd
  exact ⟨hperm.length_eq.symm, fun a ha =>
    ⟨a, find_of_distinct p' hd' a (hperm.mem_iff.2 ha), entryEq_refl veq hr a⟩⟩

end props

/-! ### components -/

theorem size_pos (a : Comp) : 1 ≤ size a := by
  cases a; simp [size]

theorem size_le_sizeL : ∀ {cs : List Comp} {c : Comp}, c ∈ cs → size c ≤ sizeL cs
  | [], _, h => by cases h
  | d :: cs, c, h => by
    simp only [sizeL]
    rcases List.mem_cons.1 h with rfl | h
    · omega
    · have := size_le_sizeL h; omega

theorem size_child {a c : Comp} (h : c ∈ a.subs) : size c < size a := by
  cases a with
  | mk n p s =>
    have := size_le_sizeL (cs := s) h
    simp only [size]; omega

theorem WFL_mem : ∀ {cs : List Comp}, Comp.WFL cs → ∀ c ∈ cs, Comp.WF c
  | [], _, _, h => by cases h
  | d :: cs, hw, c, h => by
    simp only [Comp.WFL] at hw
    rcases List.mem_cons.1 h with rfl | h
    · exact hw.1
    · exact WFL_mem hw.2 c h

theorem WFL_of_mem : ∀ {cs : List Comp}, (∀ c ∈ cs, Comp.WF c) → Comp.WFL cs
  | [], _ => by simp [Comp.WFL]
  | d :: cs, h => by
    simp only [Comp.WFL]
    exact ⟨h d (by simp), WFL_of_mem (fun c hc => h c (by simp [hc]))⟩

theorem WF_iff (a : Comp) : Comp.WF a ↔ keysDistinct a.props ∧ ∀ c ∈ a.subs, Comp.WF c := by
  cases a with
  | mk n p s =>
    simp only [Comp.WF, Comp.props, Comp.subs]
    exact ⟨fun h => ⟨h.1, WFL_mem h.2⟩, fun h => ⟨h.1, WFL_of_mem h.2⟩⟩

section comp
variable (veq : Val → Val → Bool)

theorem compEqL_eq_map : ∀ cs, compEqL veq cs = cs.map (compEq veq)
  | [] => by simp [compEqL]
  | c :: cs => by simp [compEqL, compEqL_eq_map cs]

theorem compEq_def (a b : Comp) : compEq veq a b =
    (a.name == b.name && a.subs.length == b.subs.length && propsEq veq a.props b.props &&
      greedy (a.subs.map (compEq veq)) b.subs) := by
  cases a with
  | mk n p s => simp only [compEq, compEqL_eq_map, Comp.name, Comp.subs, Comp.props]

/-- what a successful comparison establishes (no hypothesis on `veq`) -/
theorem compEq_sound (a b : Comp) (h : compEq veq a b = true) :
    a.name = b.name ∧ propsEq veq a.props b.props = true ∧
      Matching (fun c d => compEq veq c d = true) a.subs b.subs := by
  rw [compEq_def] at h
  simp only [Bool.and_eq_true, beq_iff_eq] at h
  obtain ⟨⟨⟨hn, hl⟩, hp⟩, hg⟩ := h
  refine ⟨hn, hp, ?_⟩
  obtain ⟨l, pl, fl⟩ := greedy_sound _ _ hg (by simpa using hl)
  exact ⟨l, pl, (Forall2.map_left (compEq veq)).1 fl⟩

/-- a one-to-one matching of the subcomponents is found by the greedy loop when equality is
    "rectangular" on the subcomponents -/
theorem compEq_complete (a b : Comp) (hn : a.name = b.name) (hp : propsEq veq a.props b.props = true)
    (hm : Matching (fun c d => compEq veq c d = true) a.subs b.subs)
    (D : ∀ c ∈ a.subs, ∀ c' ∈ a.subs, ∀ x ∈ b.subs, ∀ y ∈ b.subs,
      compEq veq c x = true → compEq veq c y = true → compEq veq c' x = true → compEq veq c' y = true) :
    compEq veq a b = true := by
  rw [compEq_def]
  simp only [Bool.and_eq_true, beq_iff_eq]
  refine ⟨⟨⟨hn, hm.length_eq⟩, hp⟩, ?_⟩
  apply greedy_complete
  · obtain ⟨l, pl, fl⟩ := hm
    exact ⟨l, pl, (Forall2.map_left (compEq veq)).2 fl⟩
  · intro p hp q hq x hx y hy
    obtain ⟨c, hc, rfl⟩ := List.mem_map.1 hp
    obtain ⟨c', hc', rfl⟩ := List.mem_map.1 hq
    exact D c hc c' hc' x hx y hy

/-- `veq` is an equivalence relation -/
structure VEquiv : Prop where
  refl : ∀ v, veq v v = true
  symm : ∀ a b, veq a b = true → veq b a = true
  trans : ∀ a b c, veq a b = true → veq b c = true → veq a c = true

theorem compEq_refl (hr : ∀ v, veq v v = true) : ∀ (n : Nat) (a : Comp), size a ≤ n → Comp.WF a →
    compEq veq a a = true
  | 0, a, h, _ => by have := size_pos a; omega
  | n + 1, a, h, hw => by
    rw [compEq_def]
    simp only [Bool.and_eq_true, beq_iff_eq]
    have hw' := (WF_iff a).1 hw
    refine ⟨⟨by simp, propsEq_refl veq hr _ hw'.1⟩, ?_⟩
    apply greedy_diag
    rw [Forall2.map_left]
    apply Forall2.refl_of
    intro c hc
    exact compEq_refl hr n c (by have := size_child hc; omega) (hw'.2 c hc)

theorem compEq_symm_trans (hv : VEquiv veq) : ∀ (n : Nat),
    (∀ a b, size a ≤ n → size b ≤ n → Comp.WF a → Comp.WF b →
      compEq veq a b = true → compEq veq b a = true) ∧
    (∀ a b c, size a ≤ n → size b ≤ n → size c ≤ n → Comp.WF a → Comp.WF b → Comp.WF c →
      compEq veq a b = true → compEq veq b c = true → compEq veq a c = true)
  | 0 => by
    constructor
    · intro a _ h; have := size_pos a; omega
    · intro a _ _ h; have := size_pos a; omega
  | n + 1 => by
    obtain ⟨S, T⟩ := compEq_symm_trans hv n
    have sz : ∀ {a c : Comp}, size a ≤ n + 1 → c ∈ a.subs → size c ≤ n := by
      intro a c h hc; have := size_child hc; omega
    constructor
    · intro a b ha hb wa wb h
      obtain ⟨hn, hp, hm⟩ := compEq_sound veq a b h
      have wa' := (WF_iff a).1 wa
      have wb' := (WF_iff b).1 wb
      apply compEq_complete veq b a hn.symm (propsEq_symm veq hv.symm _ _ wa'.1 wb'.1 hp)
      · exact hm.symm.imp_mem (fun d hd c hc hcd =>
          S c d (sz ha hc) (sz hb hd) (wa'.2 c hc) (wb'.2 d hd) hcd)
      · intro d hd d' hd' x hx y hy h1 h2 h3
        -- d' ~ x ~ d ~ y
        have e1 := S d x (sz hb hd) (sz ha hx) (wb'.2 d hd) (wa'.2 x hx) h1
        have e2 := T d' x d (sz hb hd') (sz ha hx) (sz hb hd) (wb'.2 d' hd') (wa'.2 x hx) (wb'.2 d hd) h3 e1
        exact T d' d y (sz hb hd') (sz hb hd) (sz ha hy) (wb'.2 d' hd') (wb'.2 d hd) (wa'.2 y hy) e2 h2
    · intro a b c ha hb hc wa wb wc h1 h2
      obtain ⟨hn1, hp1, hm1⟩ := compEq_sound veq a b h1
      obtain ⟨hn2, hp2, hm2⟩ := compEq_sound veq b c h2
      have wa' := (WF_iff a).1 wa
      have wb' := (WF_iff b).1 wb
      have wc' := (WF_iff c).1 wc
      apply compEq_complete veq a c (hn1.trans hn2) (propsEq_trans veq hv.trans _ _ _ hp1 hp2)
      · exact (hm1.trans hm2).imp_mem (fun x hx z hz ⟨y, hy, hxy, hyz⟩ =>
          T x y z (sz ha hx) (sz hb hy) (sz hc hz) (wa'.2 x hx) (wb'.2 y hy) (wc'.2 z hz) hxy hyz)
      · intro d hd d' hd' x hx y hy e1 e2 e3
        have f1 := S d x (sz ha hd) (sz hc hx) (wa'.2 d hd) (wc'.2 x hx) e1
        have f2 := T d' x d (sz ha hd') (sz hc hx) (sz ha hd) (wa'.2 d' hd') (wc'.2 x hx) (wa'.2 d hd) e3 f1
        exact T d' d y (sz ha hd') (sz ha hd) (sz hc hy) (wa'.2 d' hd') (wa'.2 d hd) (wc'.2 y hy) f2 e2

end comp

/-! ### the tree the parser returns for a serialisation (`sortedTree`, Lemmas/Parse.lean) -/

mutual
/-- C01's well-formedness (`PropsOK` demands pairwise distinct names) gives key distinctness -/
theorem compWF_of_WF (dec : Dec) : ∀ t, WF dec t → Comp.WF t
  | .mk n p subs, h => by
    simp only [WF] at h
    simp only [Comp.WF]
    exact ⟨h.2.2.1.1, compWFL_of_WFs dec subs h.2.2.2⟩
theorem compWFL_of_WFs (dec : Dec) : ∀ cs, WFs dec cs → Comp.WFL cs
  | [], _ => by simp [Comp.WFL]
  | c :: cs, h => by
    simp only [WFs] at h
    simp only [Comp.WFL]
    exact ⟨compWF_of_WF dec c h.1, compWFL_of_WFs dec cs h.2⟩
end

section sorted
variable (veq : Val → Val → Bool) (b : Bool)

mutual
/-- `sortedTree` permutes the entries of every component and keeps the subcomponents in place,
    so the result is equal to the original — in both directions -/
theorem compEq_sortedTree (hr : ∀ v, veq v v = true) : ∀ t, Comp.WF t →
    compEq veq t (sortedTree b t) = true ∧ compEq veq (sortedTree b t) t = true
  | .mk n p subs, hw => by
    simp only [Comp.WF] at hw
    have hperm := sortedProps_perm b n p hw.1
    have hd' : keysDistinct (sortedProps b n p) :=
      (hperm.map (fun e : Entry => e.name)).symm.nodup hw.1
    have ih := compEq_sortedTrees hr subs hw.2
    simp only [sortedTree]
    constructor
    · rw [compEq_def]
      simp only [Comp.name, Comp.subs, Comp.props, Bool.and_eq_true, beq_iff_eq]
      refine ⟨⟨⟨trivial, ih.1.length_eq⟩, propsEq_perm veq hr p _ hw.1 hperm⟩, ?_⟩
      exact greedy_diag _ _ ((Forall2.map_left (compEq veq)).2 ih.1)
    · rw [compEq_def]
      simp only [Comp.name, Comp.subs, Comp.props, Bool.and_eq_true, beq_iff_eq]
      refine ⟨⟨⟨trivial, ih.2.length_eq⟩, propsEq_perm veq hr _ p hd' hperm.symm⟩, ?_⟩
      exact greedy_diag _ _ ((Forall2.map_left (compEq veq)).2 ih.2)
theorem compEq_sortedTrees (hr : ∀ v, veq v v = true) : ∀ cs, Comp.WFL cs →
    Forall2 (fun c d => compEq veq c d = true) cs (sortedTrees b cs) ∧
    Forall2 (fun c d => compEq veq c d = true) (sortedTrees b cs) cs
  | [], _ => by simp only [sortedTrees]; exact ⟨.nil, .nil⟩
  | c :: cs, hw => by
    simp only [Comp.WFL] at hw
    simp only [sortedTrees]
    have h1 := compEq_sortedTree hr c hw.1
    have h2 := compEq_sortedTrees hr cs hw.2
    exact ⟨.cons h1.1 h2.1, .cons h1.2 h2.2⟩
end

end sorted

end ICal
