import ICal.Model.Fold
namespace ICal

def sep3 : Str := [CR, LF, SP]

theorem foldSep_eq : Gen.foldSep = sep3 := by decide

/-! ### unfolding -/

theorem unfold_cons_plain (c : Char) (cs : Str) (h : eatNL (c :: cs) = none) :
    unfold (c :: cs) = c :: unfold cs := by
  rw [unfold]; split
  · next x rest heq => rw [h] at heq; cases heq
  · rfl

theorem eatNL_none_of (c : Char) (cs : Str) (h1 : c ≠ LF)
    (h2 : c = CR → cs.head? ≠ some LF) : eatNL (c :: cs) = none := by
  unfold eatNL
  split
  · next cs' heq =>
    simp at heq; obtain ⟨rfl, rfl⟩ := heq
    exact absurd rfl (h2 rfl)
  · next cs' heq => simp at heq; exact absurd heq.1 h1
  · rfl

/-- scanning a segment without LF copies it, provided what follows does not start with LF -/
theorem unfold_seg (s t : Str) (hs : LF ∉ s) (ht : t.head? ≠ some LF) :
    unfold (s ++ t) = s ++ unfold t := by
  induction s with
  | nil => simp
  | cons c cs ih =>
    have hc : c ≠ LF := by intro h; apply hs; simp [h]
    have hcs : LF ∉ cs := by intro h; apply hs; simp [h]
    have hn : eatNL (c :: (cs ++ t)) = none := by
      apply eatNL_none_of c _ hc
      intro _
      cases cs with
      | nil => simpa using ht
      | cons d ds =>
        simp
        intro h; apply hcs; simp [h]
    rw [List.cons_append, unfold_cons_plain _ _ hn, ih hcs]; rfl

theorem unfold_sep (t : Str) : unfold (sep3 ++ t) = unfold t := by
  have h : eatNL ('\r' :: '\n' :: ' ' :: t) = some (' ' :: t) := by
    simp [eatNL]
  simp only [sep3, CR, LF, SP, List.cons_append, List.nil_append]
  rw [unfold]; split
  · next x rest heq => rw [h] at heq; simp at heq; obtain ⟨rfl, rfl⟩ := heq; simp [Gen.foldWs]
  · next hne => exact absurd h (by intro h'; exact hne _ _ h')

/-- exact unfolding: for every segmentation without LF, unfolding the joined text restores the line -/
theorem unfold_join : ∀ (segs : List Str), (∀ s ∈ segs, LF ∉ s) →
    unfold (joinSegs sep3 segs) = segs.flatten
  | [], _ => by simp [joinSegs, unfold]
  | [s], h => by
    have := unfold_seg s [] (h s (by simp)) (by simp)
    simpa [joinSegs, unfold] using this
  | s :: t :: ss, h => by
    have ih := unfold_join (t :: ss) (fun x hx => h x (by simp at hx ⊢; right; exact hx))
    simp only [joinSegs, List.append_assoc]
    rw [unfold_seg s _ (h s (by simp)) (by simp [sep3, LF, CR]), unfold_sep, ih]
    simp

/-! ### the octet-counting path -/

/-- the same computation as `foldUni`, returning the segments -/
def segsUni (limit : Nat) : Nat → Str → List Str
  | _, [] => [[]]
  | cnt, c :: cs =>
    if cnt + w c ≥ limit then [] :: (match segsUni limit (w c) cs with
                                      | [] => [[c]]
                                      | s :: ss => (c :: s) :: ss)
    else match segsUni limit (cnt + w c) cs with
         | [] => [[c]]
         | s :: ss => (c :: s) :: ss

theorem segsUni_ne_nil (limit cnt : Nat) (l : Str) : segsUni limit cnt l ≠ [] := by
  induction l generalizing cnt with
  | nil => simp [segsUni]
  | cons c cs ih =>
    simp only [segsUni]; split
    · simp
    · split <;> simp

theorem joinSegs_cons_cons (sep : Str) (c : Char) (s : Str) (ss : List Str) :
    joinSegs sep ((c :: s) :: ss) = c :: joinSegs sep (s :: ss) := by
  cases ss <;> simp [joinSegs]

theorem joinSegs_nil_cons (sep : Str) (s : Str) (ss : List Str) :
    joinSegs sep ([] :: s :: ss) = sep ++ joinSegs sep (s :: ss) := by
  simp [joinSegs]

theorem foldUni_eq_join (limit : Nat) (sep : Str) (cnt : Nat) (l : Str) :
    foldUni limit sep cnt l = joinSegs sep (segsUni limit cnt l) := by
  induction l generalizing cnt with
  | nil => simp [foldUni, segsUni, joinSegs]
  | cons c cs ih =>
    simp only [foldUni, segsUni]
    split
    · rw [ih]
      cases h : segsUni limit (w c) cs with
      | nil => exact absurd h (segsUni_ne_nil _ _ _)
      | cons s ss => simp [joinSegs_nil_cons, joinSegs_cons_cons]
    · rw [ih]
      cases h : segsUni limit (cnt + w c) cs with
      | nil => exact absurd h (segsUni_ne_nil _ _ _)
      | cons s ss => simp [joinSegs_cons_cons]

theorem segsUni_flatten (limit cnt : Nat) (l : Str) : (segsUni limit cnt l).flatten = l := by
  induction l generalizing cnt with
  | nil => simp [segsUni]
  | cons c cs ih =>
    simp only [segsUni]
    split
    · have := ih (w c)
      cases h : segsUni limit (w c) cs with
      | nil => exact absurd h (segsUni_ne_nil _ _ _)
      | cons s ss => rw [h] at this; simpa using this
    · have := ih (cnt + w c)
      cases h : segsUni limit (cnt + w c) cs with
      | nil => exact absurd h (segsUni_ne_nil _ _ _)
      | cons s ss => rw [h] at this; simpa using this

theorem octets_cons (c : Char) (s : Str) : octets (c :: s) = w c + octets s := by
  simp [octets]

theorem octets_append (a b : Str) : octets (a ++ b) = octets a + octets b := by
  simp [octets]

/-- width invariant: the open segment fits in what is left of the budget, later ones in limit-1 -/
theorem segsUni_width (limit : Nat) (hl : 5 ≤ limit) (l : Str) :
    ∀ cnt, cnt < limit →
    (∀ s, (segsUni limit cnt l).head? = some s → cnt + octets s ≤ limit - 1) ∧
    (∀ s ∈ (segsUni limit cnt l).tail, octets s ≤ limit - 1) := by
  induction l with
  | nil => intro cnt hc; simp [segsUni, octets]; omega
  | cons c cs ih =>
    intro cnt hc
    have hw : w c ≤ 4 := Char.utf8Size_le_four c
    simp only [segsUni]
    split
    · have := ih (w c) (by omega)
      cases h : segsUni limit (w c) cs with
      | nil => exact absurd h (segsUni_ne_nil _ _ _)
      | cons s ss =>
        rw [h] at this
        simp only [List.head?_cons, Option.some.injEq, List.tail_cons, List.mem_cons] at this ⊢
        refine ⟨by intro s' hs'; subst hs'; simp [octets]; omega, ?_⟩
        intro s' hs'
        rcases hs' with rfl | hs'
        · have := this.1 s rfl; rw [octets_cons]; omega
        · exact this.2 s' hs'
    · next hnf =>
      have := ih (cnt + w c) (by omega)
      cases h : segsUni limit (cnt + w c) cs with
      | nil => exact absurd h (segsUni_ne_nil _ _ _)
      | cons s ss =>
        rw [h] at this
        simp only [List.head?_cons, Option.some.injEq, List.tail_cons] at this ⊢
        refine ⟨by intro s' hs'; subst hs'; have := this.1 s rfl; rw [octets_cons]; omega, this.2⟩

theorem segsUni_all_width (limit : Nat) (hl : 5 ≤ limit) (l : Str) :
    ∀ s ∈ segsUni limit 0 l, octets s ≤ limit - 1 := by
  have := segsUni_width limit hl l 0 (by omega)
  intro s hs
  cases h : segsUni limit 0 l with
  | nil => rw [h] at hs; simp at hs
  | cons s0 ss =>
    rw [h] at hs this
    simp only [List.head?_cons, Option.some.injEq, List.tail_cons, List.mem_cons] at this hs
    rcases hs with rfl | hs
    · have := this.1 s rfl; omega
    · exact this.2 s hs

/-! ### the ASCII path -/

theorem chunks_flatten (n : Nat) (l : Str) (hn : n ≠ 0) : (chunks n l).flatten = l := by
  induction l using chunks.induct n with
  | case1 l h =>
    rw [chunks]; simp only [h, dite_true, List.flatten_nil]
    rcases h with h | h
    · exact absurd h hn
    · exact h.symm
  | case2 l h ih =>
    rw [chunks]; simp only [h, dite_false, List.flatten_cons, ih, List.take_append_drop]

theorem chunks_len (n : Nat) (l : Str) : ∀ s ∈ chunks n l, s.length ≤ n := by
  induction l using chunks.induct n with
  | case1 l h => rw [chunks]; simp [h]
  | case2 l h ih =>
    rw [chunks]; simp only [h, dite_false, List.mem_cons]
    intro s hs
    rcases hs with rfl | hs
    · simp [List.length_take]; omega
    · exact ih s hs

theorem octets_ascii (l : Str) (h : isAscii l = true) : octets l = l.length := by
  induction l with
  | nil => simp [octets]
  | cons c cs ih =>
    simp only [isAscii, List.all_cons, Bool.and_eq_true, decide_eq_true_eq] at h
    have hc : w c = 1 := by
      unfold w Char.utf8Size
      have e : c.val.toNat = c.toNat := rfl
      have h2 : c.val ≤ 127 := by
        rw [UInt32.le_iff_toNat_le]
        have : c.toNat ≤ 127 := by omega
        simpa [e] using this
      simp [h2]
    have := ih (by simpa [isAscii] using h.2)
    rw [octets_cons, hc, this]; simp; omega

theorem isAscii_of_mem_flatten (segs : List Str) (h : isAscii segs.flatten = true) :
    ∀ s ∈ segs, isAscii s = true := by
  intro s hs
  simp only [isAscii, List.all_eq_true, decide_eq_true_eq] at h ⊢
  intro c hc
  exact h c (List.mem_flatten.mpr ⟨s, hs, hc⟩)

end ICal
