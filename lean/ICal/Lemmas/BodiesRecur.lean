/-
  Equality of the regenerated `vRecur.parse_type`, `vRecur.from_ical` and `vRecur.to_ical` (ICal/Gen/BodiesRecur.lean,
  tools/py2lean.py) with the hand model `parseType`, `recurFrom`, `recurTo` of ICal/Model/Recur.lean:
  the class of a part is looked up by the key as written (`cls.types` is caseless, default vText); a pair that does not
  split into exactly two parts on `=` is skipped (`continue` in the handler of the inner `try`); `recur[key] = ..`;
  ValueError passes, every other exception becomes ValueError; `cls(recur)`.  In `to_ical` a value that is no sequence is
  wrapped before it is encoded (`PyOneMany`), the parts of a key are joined with `,`, the pairs with `;` in the order of
  `sorted_items()`.  The external pieces are those of ICal/Model/RecurPieces.lean.
-/
import ICal.Model.RecurPieces
set_option linter.unusedSimpArgs false
namespace ICal.Bodies
open ICal ICal.PyRT ICal.Gen.BodiesRecur

theorem mapM_liftCR {α β : Type} (f : α → CRes β) : ∀ (xs : List α),
    List.mapM (fun v => (liftCR (f v)) >>= fun (t : β) => (pure t : Py β)) xs = liftCR (mapRes f xs) := by
  intro xs
  induction xs with
  | nil => rfl
  | cons x xs ih =>
    rw [List.mapM_cons, ih]
    simp only [mapRes]
    cases hx : f x with
    | error e => cases e <;> rfl
    | ok y =>
      cases hm : mapRes f xs with
      | error e => cases e <;> rfl
      | ok ys => rfl

/-- `parse_type(key, values)` is the model's `parseType` -/
theorem parse_type_eq (k v : Str) : recurParseTypeP k v = liftCR (parseType k v) := by
  unfold recurParseTypeP vRecur_parse_type parseType
  simp only []
  rw [mapM_liftCR]

/-- the loop of `from_ical` with the exception of the part decoder as raised (the model's `recurFromGo` turns it into
    ValueError at once; in the source the outer `try` does) -/
def recurFromGoE : List Str → Rule → CRes Rule
  | [], m => .ok m
  | p :: ps, m =>
    match splitOnChar '=' p with
    | [k, v] =>
      match parseType k v with
      | .ok vs => recurFromGoE ps (CDict.cdSetitem upper m k vs)
      | .error e => .error e
    | _ => recurFromGoE ps m

theorem recurFromGo_of_E (ps : List Str) : ∀ (m : Rule),
    recurFromGo ps m = (match recurFromGoE ps m with | .ok r => .ok r | .error _ => .error .valueError) := by
  induction ps with
  | nil => intro m; rfl
  | cons p ps ih =>
    intro m
    simp only [recurFromGo, recurFromGoE]
    cases hs : splitOnChar '=' p with
    | nil => exact ih m
    | cons a l1 =>
      cases l1 with
      | nil => exact ih m
      | cons b l2 =>
        cases l2 with
        | cons c l3 => exact ih m
        | nil =>
          simp only []
          cases parseType a b with
          | error e => rfl
          | ok vs => exact ih _

theorem from_ical_loop (ps : List Str) : ∀ (m : Rule),
    vRecur_from_ical_loop1 (type_of := recurTypeOf) (part_from := fun ty t => liftCR (partFrom ty t))
        (set_item := fun m k vs => CDict.cdSetitem upper m k vs) m ps = liftCR (recurFromGoE ps m) := by
  induction ps with
  | nil => intro m; rfl
  | cons p ps ih =>
    intro m
    rw [vRecur_from_ical_loop1]
    simp only [recurFromGoE]
    have hp := parse_type_eq
    unfold recurParseTypeP at hp
    cases hs : splitOnChar '=' p with
    | nil => simpa [listUnpack2, bind, Except.bind, caught, valueErrors] using ih m
    | cons a l1 =>
      cases l1 with
      | nil => simpa [listUnpack2, bind, Except.bind, caught, valueErrors] using ih m
      | cons b l2 =>
        cases l2 with
        | cons c l3 => simpa [listUnpack2, bind, Except.bind, caught, valueErrors] using ih m
        | nil =>
          simp only [listUnpack2, bind, Except.bind, pure, Except.pure]
          rw [hp]
          cases hq : parseType a b with
          | error e => cases e <;> rfl
          | ok vs => simpa [liftCR] using ih _

/-- `vRecur.from_ical(text)` is the model's `recurFrom`: a rule, or ValueError (ValueError passes the outer `try`, every
    other exception becomes one) -/
theorem from_ical_eq (t : Str) : recurFromP t = liftCR (recurFrom t) := by
  unfold recurFromP vRecur_from_ical recurFrom
  simp only []
  rw [from_ical_loop, recurFromGo_of_E]
  cases recurFromGoE (splitOnChar ';' t) [] with
  | ok r => rfl
  | error e => cases e <;> rfl

theorem liftCR_ok {α : Type} (v : α) : liftCR (Except.ok v : CRes α) = Except.ok v := rfl

/-- one pair of `to_ical`, the value a sequence: the model's `pairTo` -/
theorem to_ical_step (k : Str) (vs : List PartVal) (acc : List Str) (rest : List (Str × PyOneMany PartVal)) :
    vRecur_to_ical_loop1 (type_of := recurTypeOf) (part_to := fun ty v => liftCR (partTo ty v)) (from_unicode := id) acc
        ((k, PyOneMany.many vs) :: rest) =
      (liftCR (pairTo k vs) >>= fun s =>
        vRecur_to_ical_loop1 (type_of := recurTypeOf) (part_to := fun ty v => liftCR (partTo ty v)) (from_unicode := id) (acc ++ [s]) rest) := by
  rw [vRecur_to_ical_loop1]
  simp only [id]
  rw [mapM_liftCR]
  unfold pairTo
  cases mapRes (partTo (recurTypeOf k)) vs with
  | error e => cases e <;> rfl
  | ok ts => simp [liftCR, bind, Except.bind, Except.map]

theorem to_ical_loop (items : List (Str × List PartVal)) : ∀ (acc : List Str),
    vRecur_to_ical_loop1 (type_of := recurTypeOf) (part_to := fun ty v => liftCR (partTo ty v)) (from_unicode := id) acc
        (items.map (fun kv => (kv.1, PyOneMany.many kv.2))) =
      (liftCR (mapRes (fun kv => pairTo kv.1 kv.2) items) >>= fun r => pure (acc ++ r)) := by
  induction items with
  | nil => intro acc; simp [vRecur_to_ical_loop1, mapRes, liftCR, bind, Except.bind, pure, Except.pure]
  | cons kv items ih =>
    intro acc
    rw [List.map_cons, to_ical_step]
    simp only [mapRes]
    generalize pairTo kv.1 kv.2 = a
    cases a with
    | error e => cases e <;> rfl
    | ok s1 =>
      simp only [liftCR_ok, bind, Except.bind]
      rw [ih]
      generalize mapRes (fun kv => pairTo kv.1 kv.2) items = b
      cases b with
      | error e => cases e <;> rfl
      | ok r => simp [liftCR, bind, Except.bind, pure, Except.pure]

/-- `vRecur.to_ical()` is the model's `recurTo` -/
theorem to_ical_eq_recur (r : Rule) : recurToP r = liftCR (recurTo r) := by
  unfold recurToP recurToItemsP vRecur_to_ical recurTo
  simp only []
  rw [to_ical_loop]
  cases mapRes (fun kv => pairTo kv.1 kv.2) (recurItems r) with
  | error e => cases e <;> rfl
  | ok ts => simp [liftCR, bind, Except.bind, pure, Except.pure, Except.map]

/-- a value that is no sequence is wrapped: `{'COUNT': 3}` is written as `{'COUNT': [3]}` is -/
theorem to_ical_wraps (k : Str) (v : PartVal) (rest : List (Str × PyOneMany PartVal)) :
    recurToItemsP ((k, .one v) :: rest) = recurToItemsP ((k, .many [v]) :: rest) := by
  unfold recurToItemsP vRecur_to_ical
  simp only [vRecur_to_ical_loop1]

end ICal.Bodies
