/-
  Helper lemmas for C02 (model: ICal/Model/Encode.lean).
-/
import ICal.Model.Encode
import ICal.Lemmas.Parse
namespace ICal.Enc

/-! ## class of a constructed value -/

theorem beq_str {a b : Str} (h : (a == b) = true) : a = b := by simpa using h

theorem mkDDD_kind {v : PyVal} {val : Val} (h : mkDDD v = .ok val) : val.kind = cDDD := by
  unfold mkDDD at h
  split at h <;> first | (injection h with h; subst h; rfl) | cases h

theorem mkDDDLists_kind {a : PyArg} {val : Val} (h : mkDDDLists a = .ok val) : val.kind = cDDDLists := by
  unfold mkDDDLists at h
  split at h
  · cases h
  · split at h
    · cases h
    · injection h with h; subst h; rfl

theorem mkTextual_kind {cls : Str} {v : PyVal} {val : Val} (h : mkTextual cls v = .ok val) : val.kind = cls := by
  unfold mkTextual at h
  split at h
  · injection h with h; subst h; rfl
  · cases h

theorem mkInt_kind {cls : Str} {v : PyVal} {val : Val} (h : mkInt cls v = .ok val) : val.kind = cls := by
  unfold mkInt at h
  split at h
  · injection h with h; subst h; rfl
  · cases h

theorem mkBoolean_kind {cls : Str} {v : PyVal} {val : Val} (h : mkBoolean cls v = .ok val) : val.kind = cls := by
  unfold mkBoolean at h
  split at h
  · injection h with h; subst h; rfl
  · cases h

theorem mkFloat_kind {cls : Str} {v : PyVal} {val : Val} (h : mkFloat cls v = .ok val) : val.kind = cls := by
  unfold mkFloat at h
  split at h
  · injection h with h; subst h; rfl
  · cases h

theorem mkGeo_kind {cls : Str} {v : PyVal} {val : Val} (h : mkGeo cls v = .ok val) : val.kind = cls := by
  unfold mkGeo at h
  split at h
  · injection h with h; subst h; rfl
  · split at h <;> cases h
  · cases h

theorem mkPeriod_kind {cls : Str} {v : PyVal} {val : Val} (h : mkPeriod cls v = .ok val) : val.kind = cls := by
  unfold mkPeriod at h
  split at h
  · split at h
    · injection h with h; subst h; rfl
    · cases h
  all_goals cases h

theorem mkUTCOffset_kind {cls : Str} {v : PyVal} {val : Val} (h : mkUTCOffset cls v = .ok val) : val.kind = cls := by
  unfold mkUTCOffset at h
  split at h
  · injection h with h; subst h; rfl
  · cases h

theorem mkRecur_kind {cls : Str} {v : PyVal} {val : Val} (h : mkRecur cls v = .ok val) : val.kind = cls := by
  unfold mkRecur at h
  split at h
  · injection h with h; subst h; rfl
  · cases h

theorem mkCategory1_kind {cls : Str} {v : PyVal} {val : Val} (h : mkCategory1 cls v = .ok val) : val.kind = cls := by
  unfold mkCategory1 at h
  split at h
  · cases h
  · cases h
  · split at h
    · injection h with h; subst h; rfl
    · cases h

/-- a value built by a class constructor is an instance of that class -/
theorem construct1_kind {cls : Str} {v : PyVal} {val : Val} (h : construct1 cls v = .ok val) : val.kind = cls := by
  unfold construct1 at h
  split at h
  · exact mkTextual_kind h
  split at h
  · exact mkInt_kind h
  split at h
  · exact mkBoolean_kind h
  split at h
  · exact mkFloat_kind h
  split at h
  · exact mkGeo_kind h
  split at h
  · rename_i hc; rw [mkDDD_kind h]; exact (beq_str hc).symm
  split at h
  · rename_i hc; rw [mkDDDLists_kind h]; exact (beq_str hc).symm
  split at h
  · exact mkPeriod_kind h
  split at h
  · exact mkUTCOffset_kind h
  split at h
  · exact mkRecur_kind h
  split at h
  · exact mkCategory1_kind h
  · cases h

/-! ## the property mapping -/

def Stored.vals : Stored → List Val
  | .one v => [v]
  | .many vs => vs

def Stored.isMany : Stored → Bool
  | .one _ => false
  | .many _ => true

def replaceAt (k : Str) (new : Entry) : List Entry → List Entry
  | [] => []
  | e :: es => (if e.name == k then new else e) :: replaceAt k new es

theorem map_eq_replaceAt (k : Str) (new : Entry) (props : List Entry) :
    props.map (fun e => if e.name == k then new else e) = replaceAt k new props := by
  induction props with
  | nil => rfl
  | cons e es ih => simp only [List.map_cons, replaceAt, ih]

theorem find_replaceAt_same (k : Str) (il : Bool) (vs : List Val) : ∀ (props : List Entry),
    props.any (fun e => e.name == k) = true →
    (replaceAt k ⟨k, il, vs⟩ props).find? (fun e => e.name == k) = some ⟨k, il, vs⟩ := by
  intro props
  induction props with
  | nil => intro h; simp at h
  | cons e es ih =>
    intro h
    have hkk : ((k : Str) == k) = true := by simp
    cases he : (e.name == k) with
    | true =>
      simp only [replaceAt, he, if_true, List.find?_cons, hkk]
    | false =>
      have h' : es.any (fun e => e.name == k) = true := by simpa [List.any, he] using h
      simp only [replaceAt, he, List.find?_cons, Bool.false_eq_true, if_false]
      exact ih h'

theorem find_replaceAt_other (k k' : Str) (il : Bool) (vs : List Val) (hkk : (k == k') = false) :
    ∀ (props : List Entry),
    (replaceAt k ⟨k, il, vs⟩ props).find? (fun e => e.name == k') = props.find? (fun e => e.name == k') := by
  intro props
  induction props with
  | nil => rfl
  | cons e es ih =>
    cases he : (e.name == k) with
    | true =>
      have hek : e.name = k := beq_str he
      have hk' : (e.name == k') = false := by rw [hek]; exact hkk
      simp only [replaceAt, he, if_true, List.find?_cons, hkk, hk']
      exact ih
    | false =>
      simp only [replaceAt, he, List.find?_cons, Bool.false_eq_true, if_false]
      cases hk2 : (e.name == k') with
      | true => rfl
      | false => exact ih

theorem setEntry_eq (props : List Entry) (k : Str) (il : Bool) (vs : List Val) :
    setEntry props k il vs = if hasKey props k then replaceAt k ⟨k, il, vs⟩ props else props ++ [⟨k, il, vs⟩] := by
  unfold setEntry; rw [map_eq_replaceAt]

theorem find_setEntry_same (props : List Entry) (k : Str) (il : Bool) (vs : List Val) :
    (setEntry props k il vs).find? (fun e => e.name == k) = some ⟨k, il, vs⟩ := by
  rw [setEntry_eq]
  by_cases h : hasKey props k = true
  · rw [if_pos h]; exact find_replaceAt_same k il vs props h
  · rw [if_neg h]
    have h' : ∀ e ∈ props, (e.name == k) = false := by
      intro e he
      cases hb : (e.name == k) with
      | false => rfl
      | true => exact absurd (List.any_eq_true.mpr ⟨e, he, hb⟩) h
    rw [List.find?_append, List.find?_eq_none.mpr (by intro e he; simp [h' e he])]
    simp [List.find?]

theorem find_setEntry_other (props : List Entry) (k k' : Str) (il : Bool) (vs : List Val) (hk : k' ≠ k) :
    (setEntry props k il vs).find? (fun e => e.name == k') = props.find? (fun e => e.name == k') := by
  have hkk : (k == k') = false := by
    cases h : (k == k') with
    | false => rfl
    | true => exact absurd (beq_str h).symm hk
  rw [setEntry_eq]
  split
  · exact find_replaceAt_other k k' il vs hkk props
  · rw [List.find?_append]
    simp [List.find?, hkk]

theorem hasKey_eq_find (props : List Entry) (k : Str) :
    hasKey props k = (props.find? (fun e => e.name == k)).isSome := by
  unfold hasKey
  induction props with
  | nil => rfl
  | cons e es ih =>
    simp only [List.any, List.find?]
    cases (e.name == k) with
    | true => rfl
    | false => simpa using ih

theorem find_accumulate_same (props : List Entry) (k : Str) (s : Stored) :
    (accumulate props k s).find? (fun e => e.name == k) =
      some ⟨k, hasKey props k || s.isMany, valuesOf props k ++ s.vals⟩ := by
  unfold accumulate valuesOf
  rw [hasKey_eq_find]
  cases hf : props.find? (fun e => e.name == k) with
  | none => cases s <;> simp [find_setEntry_same, Stored.isMany, Stored.vals]
  | some old => cases s <;> simp [find_setEntry_same, Stored.isMany, Stored.vals]

theorem find_accumulate_other (props : List Entry) (k k' : Str) (s : Stored) (hk : k' ≠ k) :
    (accumulate props k s).find? (fun e => e.name == k') = props.find? (fun e => e.name == k') := by
  unfold accumulate
  split <;> exact find_setEntry_other _ _ _ _ _ hk

theorem valuesOf_accumulate (props : List Entry) (k : Str) (s : Stored) :
    valuesOf (accumulate props k s) k = valuesOf props k ++ s.vals := by
  show (match (accumulate props k s).find? (fun e => e.name == k) with | some e => e.vals | none => []) = _
  rw [find_accumulate_same]

theorem isListOf_accumulate (props : List Entry) (k : Str) (s : Stored) :
    isListOf (accumulate props k s) k = (hasKey props k || s.isMany) := by
  show (match (accumulate props k s).find? (fun e => e.name == k) with | some e => e.isList | none => false) = _
  rw [find_accumulate_same]

theorem hasKey_accumulate (props : List Entry) (k : Str) (s : Stored) : hasKey (accumulate props k s) k = true := by
  rw [hasKey_eq_find, find_accumulate_same]; rfl

theorem valuesOf_accumulate_other (props : List Entry) (k k' : Str) (s : Stored) (hk : k' ≠ k) :
    valuesOf (accumulate props k s) k' = valuesOf props k' := by
  unfold valuesOf; rw [find_accumulate_other _ _ _ _ hk]

theorem isListOf_accumulate_other (props : List Entry) (k k' : Str) (s : Stored) (hk : k' ≠ k) :
    isListOf (accumulate props k s) k' = isListOf props k' := by
  unfold isListOf; rw [find_accumulate_other _ _ _ _ hk]

/-- repeated `add` of one name -/
def addAll (props : List Entry) (k : Str) (ss : List Stored) : List Entry :=
  ss.foldl (fun p s => accumulate p k s) props

theorem valuesOf_addAll (ss : List Stored) : ∀ (props : List Entry) (k : Str),
    valuesOf (addAll props k ss) k = valuesOf props k ++ ss.flatMap Stored.vals := by
  induction ss with
  | nil => intro props k; simp [addAll]
  | cons s ss ih =>
    intro props k
    show valuesOf (addAll (accumulate props k s) k ss) k = _
    rw [ih, valuesOf_accumulate]; simp

theorem valuesOf_addAll_other (ss : List Stored) : ∀ (props : List Entry) (k k' : Str), k' ≠ k →
    valuesOf (addAll props k ss) k' = valuesOf props k' := by
  induction ss with
  | nil => intro props k k' _; rfl
  | cons s ss ih =>
    intro props k k' hk
    show valuesOf (addAll (accumulate props k s) k ss) k' = _
    rw [ih _ _ _ hk, valuesOf_accumulate_other _ _ _ _ hk]

theorem isListOf_addAll (ss : List Stored) : ∀ (props : List Entry) (k : Str), ss ≠ [] →
    isListOf (addAll props k ss) k = (hasKey props k || decide (2 ≤ ss.length) || ss.any Stored.isMany) := by
  induction ss with
  | nil => intro _ _ h; exact absurd rfl h
  | cons s ss ih =>
    intro props k _
    show isListOf (addAll (accumulate props k s) k ss) k = _
    cases ss with
    | nil =>
      show isListOf (accumulate props k s) k = _
      rw [isListOf_accumulate]; simp
    | cons s2 rest =>
      rw [ih _ _ (by simp), hasKey_accumulate]
      simp

/-! ## parameters -/

theorem get_cons_same (k : Str) (v : PVal) (rest : Params) : Params.get? ((k, v) :: rest) k = some v := by
  simp [Params.get?, List.find?]

theorem get_cons_other (k k' : Str) (v : PVal) (rest : Params) (h : (k == k') = false) :
    Params.get? ((k, v) :: rest) k' = Params.get? rest k' := by
  simp [Params.get?, List.find?, h]

theorem uniformValue_all (x : PVal) : ∀ (l : List (Option PVal)), l ≠ [] → (∀ y ∈ l, y = some x) →
    uniformValue l = some x := by
  intro l hne hall
  cases l with
  | nil => exact absurd rfl hne
  | cons a rest =>
    have ha : a = some x := hall a List.mem_cons_self
    subst ha
    unfold uniformValue
    have : rest.all (fun y => y == some x) = true := by
      rw [List.all_eq_true]; intro y hy; rw [hall y (List.mem_cons_of_mem _ hy)]; simp
    simp [this]

theorem uniformValue_none_head (rest : List (Option PVal)) : uniformValue (none :: rest) = none := by
  simp [uniformValue]

theorem kVALUE_ne_kTZID : (kVALUE == kTZID) = false := by decide

theorem listParams_value (vs : List Val) (x : PVal) (hne : vs ≠ [])
    (h : ∀ v ∈ vs, Params.get? v.params kVALUE = some x) : Params.get? (listParams vs) kVALUE = some x := by
  unfold listParams
  rw [uniformValue_all x (vs.map (fun v => Params.get? v.params kVALUE)) (by simpa using hne)
    (by intro y hy; obtain ⟨v, hv, rfl⟩ := List.mem_map.mp hy; exact h v hv)]
  exact get_cons_same _ _ _

theorem lastTzid_all (vs : List Val) (z : PVal) (hne : vs ≠ [])
    (h : ∀ v ∈ vs, Params.get? v.params kTZID = some z) : lastTzid vs = some z := by
  unfold lastTzid
  have hr : vs.reverse ≠ [] := by simpa using hne
  cases hrev : vs.reverse with
  | nil => exact absurd hrev hr
  | cons a rest =>
    have ha : a ∈ vs := by
      have : a ∈ vs.reverse := by rw [hrev]; exact List.mem_cons_self
      simpa using this
    simp [List.findSome?, h a ha]

theorem listParams_tzid (vs : List Val) (z : PVal) (hne : vs ≠ []) (ht : truthy z = true)
    (h : ∀ v ∈ vs, Params.get? v.params kTZID = some z) : Params.get? (listParams vs) kTZID = some z := by
  unfold listParams
  rw [lastTzid_all vs z hne h]
  simp only [ht, if_true]
  split
  · rw [List.cons_append, get_cons_other _ _ _ _ kVALUE_ne_kTZID]; exact get_cons_same _ _ _
  · exact get_cons_same _ _ _

/-- a list of dates / of zoned datetimes through `vDDDTypes` element by element -/
theorem mapRes_mkDDD_atoms (as : List PyAtom) :
    mapRes mkDDD (as.map PyVal.atom) = .ok (as.map (fun a => ⟨cDDD, atomText a, atomParams a⟩)) := by
  induction as with
  | nil => rfl
  | cons a as ih => simp only [List.map, mapRes, mkDDD, ih]

theorem mapRes_mkDDD_periods (ps : List (PyAtom × PyAtom)) :
    mapRes mkDDD (ps.map (fun p => PyVal.period p.1 p.2)) =
      .ok (ps.map (fun p => ⟨cDDD, (periodText p.1 p.2).getD toIcalError, periodParamsDDD p.1⟩)) := by
  induction ps with
  | nil => rfl
  | cons a as ih => simp only [List.map, mapRes, mkDDD, ih]

/-! ## moved from Props: inversions, class equations, list values, put, build -/

theorem kind_date_inv (v : PyVal) (h : (valueKind v).rfcType = some .date) : ∃ d, v = .atom (.date d) := by
  cases v with
  | atom a =>
    cases a with
    | date d => exact ⟨d, rfl⟩
    | dt t =>
      exfalso
      simp only [valueKind, PyAtom.kind, DT.kind] at h
      split at h
      · cases h
      · split at h <;> cases h
    | dur s => cases h
    | time t => cases h
  | _ => cases h

theorem kind_binary_inv (v : PyVal) (h : (valueKind v).rfcType = some .binary) : ∃ b, v = .binary b := by
  cases v with
  | binary b => exact ⟨b, rfl⟩
  | atom a =>
    exfalso
    cases a with
    | dt t =>
      simp only [valueKind, PyAtom.kind, DT.kind] at h
      split at h
      · cases h
      · split at h <;> cases h
    | _ => cases h
  | _ => cases h

theorem construct1_cDDD (v : PyVal) : construct1 cDDD v = mkDDD v := rfl
theorem construct1_cDDDLists (v : PyVal) : construct1 cDDDLists v = mkDDDLists (.one v) := rfl
theorem construct1_cPeriod (v : PyVal) : construct1 cPeriod v = mkPeriod cPeriod v := rfl

theorem alt_cases : ∀ r ∈ rfc5545Props, ∀ τ ∈ r.alts, r.name ≠ nTRIGGER → τ ≠ .period →
    (τ = .date ∧ (forProperty r.name = cDDD ∨ forProperty r.name = cDDDLists)) ∨ τ = .binary := by
  decide +kernel


/-- the elements of a list of dates / datetimes / durations / times as vDDDLists holds them -/
def atomVals (as : List PyAtom) : List Val := as.map (fun a => ⟨cDDD, atomText a, atomParams a⟩)
def periodVals (ps : List (PyAtom × PyAtom)) : List Val :=
  ps.map (fun p => ⟨cDDD, (Enc.periodText p.1 p.2).getD toIcalError, periodParamsDDD p.1⟩)

/-- A list under RDATE / EXDATE is ONE vDDDLists value (not split element by element). -/
theorem add_list_atoms (n : Str) (hc : forProperty n = cDDDLists)
    (hl : Gen.addListNames.contains (lower n) = true) (as : List PyAtom) :
    addValue n (.list (as.map PyVal.atom)) [] =
      .ok (.one ⟨cDDDLists, listText (atomVals as), listParams (atomVals as)⟩) := by
  simp only [addValue, forceUtc, hl, if_true, encodeWhole, hc]
  have : construct cDDDLists (.list (as.map PyVal.atom)) = mkDDDLists (.list (as.map PyVal.atom)) := rfl
  rw [this]
  simp only [mkDDDLists, listElems, mapRes_mkDDD_atoms, mergeParams, List.foldl, Except.map, atomVals]

theorem add_list_periods (n : Str) (hc : forProperty n = cDDDLists)
    (hl : Gen.addListNames.contains (lower n) = true) (ps : List (PyAtom × PyAtom)) :
    addValue n (.list (ps.map (fun p => .period p.1 p.2))) [] =
      .ok (.one ⟨cDDDLists, listText (periodVals ps), listParams (periodVals ps)⟩) := by
  simp only [addValue, forceUtc, hl, if_true, encodeWhole, hc]
  have : construct cDDDLists (.list (ps.map (fun p => .period p.1 p.2))) =
      mkDDDLists (.list (ps.map (fun p => .period p.1 p.2))) := rfl
  rw [this]
  simp only [mkDDDLists, listElems, mapRes_mkDDD_periods, mergeParams, List.foldl, Except.map, periodVals]


theorem get_put_same (ps : Params) (k : Str) (x : PVal) : Params.get? (Params.put ps k x) k = some x := by
  have hkk : ((k : Str) == k) = true := by simp
  unfold Params.put
  split
  · rename_i h
    unfold Params.get?
    induction ps with
    | nil => simp at h
    | cons kv rest ih =>
      cases hk : (kv.1 == k) with
      | true => simp only [List.map_cons, hk, if_true, List.find?_cons, hkk, Option.map]
      | false =>
        have h' : rest.any (fun kv => kv.1 == k) = true := by simpa [List.any, hk] using h
        simp only [List.map_cons, hk, Bool.false_eq_true, if_false, List.find?_cons]
        exact ih h'
  · rename_i h
    have h' : ∀ kv ∈ ps, (kv.1 == k) = false := by
      intro kv hkv
      cases hb : (kv.1 == k) with
      | false => rfl
      | true => exact absurd (List.any_eq_true.mpr ⟨kv, hkv, hb⟩) h
    unfold Params.get?
    rw [List.find?_append, List.find?_eq_none.mpr (by intro e he; simp [h' e he])]
    simp [List.find?]


theorem buildList_length : ∀ (subs : List Spec) (cs : List Comp) (o : List Outcome),
    buildList subs = some (cs, o) → cs.length = subs.length := by
  intro subs
  induction subs with
  | nil => intro cs o h; unfold buildList at h; injection h with h; injection h with h _; subst h; rfl
  | cons s ss ih =>
    intro cs o h
    unfold buildList at h
    split at h
    · rename_i c o1 cs' os h1 h2
      injection h with h; injection h with h _; subst h
      simp [ih cs' os h2]
    · cases h


/-! ## built trees lie in the domain of C01 (`WF`) -/

theorem forProperty_upper (n : Str) : forProperty (upper n) = forProperty n := by
  unfold forProperty; rw [CDict.upper_idem']

theorem names_replaceAt (k : Str) (il : Bool) (vs : List Val) : ∀ props : List Entry,
    (replaceAt k ⟨k, il, vs⟩ props).map (·.name) = props.map (·.name) := by
  intro props
  induction props with
  | nil => rfl
  | cons e es ih =>
    cases he : (e.name == k) with
    | true => simp only [replaceAt, he, if_true, List.map_cons, ih]; rw [beq_str he]
    | false => simp only [replaceAt, he, Bool.false_eq_true, if_false, List.map_cons, ih]

theorem mem_replaceAt (k : Str) (new : Entry) : ∀ (props : List Entry) (e : Entry),
    e ∈ replaceAt k new props → e = new ∨ (e ∈ props ∧ (e.name == k) = false) := by
  intro props
  induction props with
  | nil => intro e h; cases h
  | cons a as ih =>
    intro e h
    simp only [replaceAt, List.mem_cons] at h
    rcases h with h | h
    · cases ha : (a.name == k) with
      | true => left; rw [h, ha]; rfl
      | false => right; rw [ha] at h; simp only [Bool.false_eq_true, if_false] at h; subst h; exact ⟨List.mem_cons_self, ha⟩
    · rcases ih e h with h' | ⟨h', hn⟩
      · exact Or.inl h'
      · exact Or.inr ⟨List.mem_cons_of_mem _ h', hn⟩

theorem hasKey_false_names (props : List Entry) (k : Str) (h : hasKey props k = false) : ∀ e ∈ props, (e.name == k) = false := by
  intro e he
  cases hb : (e.name == k) with
  | false => rfl
  | true =>
    have : hasKey props k = true := List.any_eq_true.mpr ⟨e, he, hb⟩
    rw [h] at this; cases this

theorem mem_setEntry (props : List Entry) (k : Str) (il : Bool) (vs : List Val) (e : Entry)
    (h : e ∈ setEntry props k il vs) : e = ⟨k, il, vs⟩ ∨ (e ∈ props ∧ (e.name == k) = false) := by
  rw [setEntry_eq] at h
  cases hk : hasKey props k with
  | true => rw [hk] at h; exact mem_replaceAt k _ props e h
  | false =>
    rw [hk] at h
    simp only [Bool.false_eq_true, if_false, List.mem_append, List.mem_singleton] at h
    rcases h with h | h
    · exact Or.inr ⟨h, hasKey_false_names props k hk e h⟩
    · exact Or.inl h

theorem names_setEntry_nodup (props : List Entry) (k : Str) (il : Bool) (vs : List Val)
    (h : (props.map (·.name)).Nodup) : ((setEntry props k il vs).map (·.name)).Nodup := by
  rw [setEntry_eq]
  cases hk : hasKey props k with
  | true => simp only [if_true]; rw [names_replaceAt]; exact h
  | false =>
    simp only [Bool.false_eq_true, if_false, List.map_append, List.map_cons, List.map_nil]
    rw [List.nodup_append]
    refine ⟨h, by simp, ?_⟩
    intro a ha b hb
    simp only [List.mem_singleton] at hb
    subst hb
    obtain ⟨e, he, rfl⟩ := List.mem_map.mp ha
    intro heq
    have := hasKey_false_names props b hk e he
    rw [heq] at this
    simp at this

theorem accumulate_one (props : List Entry) (k : Str) (v : Val) :
    accumulate props k (.one v) = setEntry props k (hasKey props k) (valuesOf props k ++ [v]) := by
  unfold accumulate valuesOf
  rw [hasKey_eq_find]
  cases props.find? (fun e => e.name == k) with
  | none => rfl
  | some old => rfl

/-- the structural part of C01's `EntryOK` (everything but the decoder fixpoint) -/
def EntryShape (e : Entry) : Prop :=
  NameOK e.name ∧ e.vals ≠ [] ∧ e.isList = decide (2 ≤ e.vals.length) ∧ ∀ v ∈ e.vals, v.kind = forProperty e.name

def PropsShape (props : List Entry) : Prop :=
  (props.map (·.name)).Nodup ∧ ∀ e ∈ props, EntryShape e

theorem propsShape_nil : PropsShape [] := ⟨List.nodup_nil, fun _ h => by cases h⟩

theorem propsShape_accumulate (props : List Entry) (k : Str) (v : Val) (h : PropsShape props)
    (hk : NameOK k) (hv : v.kind = forProperty k) : PropsShape (accumulate props k (.one v)) := by
  rw [accumulate_one]
  refine ⟨names_setEntry_nodup _ _ _ _ h.1, ?_⟩
  intro e he
  rcases mem_setEntry _ _ _ _ _ he with rfl | ⟨he', _⟩
  · -- the new entry
    cases hf : props.find? (fun e => e.name == k) with
    | none =>
      have hh : hasKey props k = false := by rw [hasKey_eq_find, hf]; rfl
      have hvs : valuesOf props k = [] := by unfold valuesOf; rw [hf]
      rw [hh, hvs]
      refine ⟨hk, by simp, by simp, ?_⟩
      intro w hw
      simp only [List.nil_append, List.mem_singleton] at hw
      subst hw; exact hv
    | some old =>
      have hh : hasKey props k = true := by rw [hasKey_eq_find, hf]; rfl
      have hvs : valuesOf props k = old.vals := by unfold valuesOf; rw [hf]
      have hold : old ∈ props := List.mem_of_find?_eq_some hf
      have hname : old.name = k := beq_str (by simpa using List.find?_some hf)
      obtain ⟨_, hne, _, hkinds⟩ := h.2 old hold
      rw [hh, hvs]
      refine ⟨hk, by simp, ?_, ?_⟩
      · have : 1 ≤ old.vals.length := by
          cases hv' : old.vals with
          | nil => exact absurd hv' hne
          | cons _ _ => simp
        simp only [List.length_append, List.length_cons, List.length_nil]
        symm; rw [decide_eq_true_iff]; omega
      · intro w hw
        simp only [List.mem_append, List.mem_singleton] at hw
        rcases hw with hw | hw
        · have := hkinds w hw; rw [hname] at this; exact this
        · subst hw; exact hv
  · exact h.2 e he'

theorem forceUtc_one (n : Str) (v : PyVal) (hv : keptTyped v = none) :
    ∃ v', forceUtc n (.one v) = .one v' ∧ keptTyped v' = none := by
  unfold forceUtc
  split
  · split
    · exact ⟨_, rfl, rfl⟩
    · exact ⟨v, rfl, hv⟩
  · exact ⟨v, rfl, hv⟩

theorem encodeOne_kind (n : Str) (v : PyVal) (upd : List (Str × Option PVal)) (val : Val)
    (hv : keptTyped v = none) (h : encodeOne n v upd = .ok val) : val.kind = forProperty n := by
  unfold encodeOne at h
  rw [hv] at h
  simp only at h
  cases hc : construct1 (forProperty n) v with
  | error e => rw [hc] at h; cases h
  | ok o =>
    rw [hc] at h
    injection h with h
    subst h
    show o.kind = forProperty n
    exact construct1_kind hc

theorem addValue_one_kind (n : Str) (v : PyVal) (upd : List (Str × Option PVal)) (s : Stored)
    (hv : keptTyped v = none) (h : addValue n (.one v) upd = .ok s) :
    ∃ val, s = .one val ∧ val.kind = forProperty n := by
  obtain ⟨v', hf, hv'⟩ := forceUtc_one n v hv
  unfold addValue at h
  rw [hf] at h
  simp only at h
  cases he : encodeOne n v' upd with
  | error e => rw [he] at h; cases h
  | ok val =>
    rw [he] at h
    injection h with h
    exact ⟨val, h.symm, encodeOne_kind n v' upd val hv' he⟩

/-- calls of `add(name, value, parameters)` with one not-yet-typed value under a name the C01
    domain admits -/
def ScalarAdd : Op → Prop
  | .add n (.one v) _ => keptTyped v = none ∧ NameOK (upper n)
  | _ => False

instance (op : Op) : Decidable (ScalarAdd op) := by
  cases op with
  | add n a upd =>
    cases a with
    | one v => unfold ScalarAdd; infer_instance
    | list xs => unfold ScalarAdd; infer_instance
  | _ => unfold ScalarAdd; infer_instance

theorem propsShape_runOps (comp : Str) : ∀ (ops : List Op) (props props' : List Entry) (outs : List Outcome),
    (∀ op ∈ ops, ScalarAdd op) → PropsShape props → runOps comp props ops = some (props', outs) →
    PropsShape props' := by
  intro ops
  induction ops with
  | nil =>
    intro props props' outs _ hp h
    unfold runOps at h; injection h with h; injection h with h _; subst h; exact hp
  | cons op ops ih =>
    intro props props' outs hall hp h
    have hop := hall op List.mem_cons_self
    have hrest : ∀ o ∈ ops, ScalarAdd o := fun o ho => hall o (List.mem_cons_of_mem _ ho)
    -- every outcome of the first call leaves a mapping of the right shape
    have step : ∀ p1, applyOp comp props op = .ok p1 → PropsShape p1 := by
      intro p1 h1
      cases op with
      | add n a upd =>
        cases a with
        | list xs => exact absurd hop (by simp [ScalarAdd])
        | one v =>
          obtain ⟨hv, hn⟩ := hop
          simp only [applyOp, addProp] at h1
          cases ha : addValue n (.one v) upd with
          | error e => rw [ha] at h1; cases h1
          | ok s =>
            rw [ha] at h1
            injection h1 with h1
            obtain ⟨val, rfl, hk⟩ := addValue_one_kind n v upd s hv ha
            subst h1
            exact propsShape_accumulate props (upper n) val hp hn (by rw [forProperty_upper]; exact hk)
      | _ => exact absurd hop (by simp [ScalarAdd])
    unfold runOps at h
    split at h
    · rename_i p1 h1
      cases hr : runOps comp p1 ops with
      | none => rw [hr] at h; cases h
      | some r =>
        rw [hr] at h
        injection h with h; injection h with h _; subst h
        exact ih p1 r.1 r.2 hrest (step p1 h1) hr
    · cases hr : runOps comp props ops with
      | none => rw [hr] at h; cases h
      | some r =>
        rw [hr] at h
        injection h with h; injection h with h _; subst h
        exact ih props r.1 r.2 hrest hp hr
    · cases hr : runOps comp props ops with
      | none => rw [hr] at h; cases h
      | some r =>
        rw [hr] at h
        injection h with h; injection h with h _; subst h
        exact ih props r.1 r.2 hrest hp hr
    · cases h

mutual
/-- component names as C01's domain wants them, scalar adds only -/
def ScalarSpec : Spec → Prop
  | .mk name ops subs => upper name = name ∧ escapeChar name = name ∧ (∀ op ∈ ops, ScalarAdd op) ∧ ScalarSpecs subs
def ScalarSpecs : List Spec → Prop
  | [] => True
  | s :: ss => ScalarSpec s ∧ ScalarSpecs ss
end

mutual
/-- every value of the tree is a fixpoint of the decoder the parser will call for it -/
def DecFix (dec : Dec) : Comp → Prop
  | .mk _ props subs =>
    (∀ e ∈ props, ∀ v ∈ e.vals, dec (forProperty e.name) v.text (tzArg e.name v.params) = some v.text) ∧ DecFixs dec subs
def DecFixs (dec : Dec) : List Comp → Prop
  | [] => True
  | c :: cs => DecFix dec c ∧ DecFixs dec cs
end

mutual
theorem build_wf (dec : Dec) : ∀ (s : Spec) (t : Comp) (o : List Outcome),
    ScalarSpec s → build s = some (t, o) → DecFix dec t → WF dec t
  | .mk name ops subs, t, o, hs, hb, hd => by
    unfold ScalarSpec at hs
    obtain ⟨h1, h2, h3, h4⟩ := hs
    unfold build at hb
    split at hb
    · rename_i props out cs outs hr hl
      injection hb with hb; injection hb with hb _; subst hb
      unfold DecFix at hd
      unfold WF
      have hshape := propsShape_runOps name ops [] props out h3 propsShape_nil hr
      refine ⟨h1, h2, ⟨hshape.1, ?_⟩, buildList_wf dec subs cs outs h4 hl hd.2⟩
      intro e he
      obtain ⟨a, b, c, d⟩ := hshape.2 e he
      exact ⟨a, b, c, fun v hv => ⟨d v hv, hd.1 e he v hv⟩⟩
    · cases hb
theorem buildList_wf (dec : Dec) : ∀ (ss : List Spec) (cs : List Comp) (o : List Outcome),
    ScalarSpecs ss → buildList ss = some (cs, o) → DecFixs dec cs → WFs dec cs
  | [], cs, o, _, hb, _ => by
    unfold buildList at hb; injection hb with hb; injection hb with hb _; subst hb; unfold WFs; trivial
  | s :: ss, cs, o, hs, hb, hd => by
    unfold ScalarSpecs at hs
    unfold buildList at hb
    split at hb
    · rename_i c o1 cs' os h1 h2
      injection hb with hb; injection hb with hb _; subst hb
      unfold DecFixs at hd
      unfold WFs
      exact ⟨build_wf dec s c o1 hs.1 h1 hd.1, buildList_wf dec ss cs' os hs.2 h2 hd.2⟩
    · cases hb
end

end ICal.Enc
