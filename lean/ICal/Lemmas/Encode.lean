/-
  Helper lemmas for C02 (model: ICal/Model/Encode.lean).
-/
import ICal.Model.Encode
namespace ICal.Enc

/-! ## class of a constructed value -/

theorem beq_str {a b : Str} (h : (a == b) = true) : a = b := by simpa using h

theorem mkDDD_kind {v : PyVal} {val : Val} (h : mkDDD v = .ok val) : val.kind = cDDD := by
  unfold mkDDD at h
  split at h <;> first | (injection h with h; subst h; rfl) | cases h

theorem mkDDDLists_kind {a : PyArg} {val : Val} (h : mkDDDLists a = .ok val) : val.kind = cDDDLists := by
  unfold mkDDDLists at h
  split at h
  · cases h
  · split at h
    · cases h
    · injection h with h; subst h; rfl

/-- a value built by a class constructor is an instance of that class -/
theorem construct1_kind {cls : Str} {v : PyVal} {val : Val} (h : construct1 cls v = .ok val) : val.kind = cls := by
  unfold construct1 at h
  split at h
  · split at h
    · injection h with h; subst h; rfl
    · cases h
  · split at h
    · cases hz : pyIntOf v with
      | error e => rw [hz] at h; cases h
      | ok z => rw [hz] at h; injection h with h; subst h; rfl
    · split at h
      · cases hz : pyIntOf v with
        | error e => rw [hz] at h; cases h
        | ok z => rw [hz] at h; injection h with h; subst h; rfl
      · split at h
        · split at h
          · injection h with h; subst h; rfl
          · cases h
        · split at h
          · split at h
            · injection h with h; subst h; rfl
            · split at h <;> cases h
            · cases h
          · split at h
            · rename_i hc; rw [mkDDD_kind h]; exact (beq_str hc).symm
            · split at h
              · rename_i hc; rw [mkDDDLists_kind h]; exact (beq_str hc).symm
              · split at h
                · split at h
                  · split at h
                    · injection h with h; subst h; rfl
                    · cases h
                  all_goals cases h
                · split at h
                  · split at h
                    · injection h with h; subst h; rfl
                    · cases h
                  · split at h
                    · split at h
                      · injection h with h; subst h; rfl
                      · cases h
                    · split at h
                      · split at h
                        · cases h
                        · cases h
                        · split at h
                          · injection h with h; subst h; rfl
                          · cases h
                      · cases h

end ICal.Enc
