/-
  Helper lemmas for C02 (model: ICal/Model/Encode.lean).
-/
import ICal.Model.Encode
namespace ICal.Enc

/-! ## class of a constructed value -/

theorem beq_str {a b : Str} (h : (a == b) = true) : a = b := by simpa using h

theorem mkDDD_kind {v : PyVal} {val : Val} (h : mkDDD v = .ok val) : val.kind = cDDD := by
  unfold mkDDD at h
  split at h <;> first | (injection h with h; subst h; rfl) | cases h

theorem mkDDDLists_kind {a : PyArg} {val : Val} (h : mkDDDLists a = .ok val) : val.kind = cDDDLists := by
  unfold mkDDDLists at h
  split at h
  · cases h
  · split at h
    · cases h
    · injection h with h; subst h; rfl

theorem mkTextual_kind {cls : Str} {v : PyVal} {val : Val} (h : mkTextual cls v = .ok val) : val.kind = cls := by
  unfold mkTextual at h
  split at h
  · injection h with h; subst h; rfl
  · cases h

theorem mkInt_kind {cls : Str} {v : PyVal} {val : Val} (h : mkInt cls v = .ok val) : val.kind = cls := by
  unfold mkInt at h
  split at h
  · injection h with h; subst h; rfl
  · cases h

theorem mkBoolean_kind {cls : Str} {v : PyVal} {val : Val} (h : mkBoolean cls v = .ok val) : val.kind = cls := by
  unfold mkBoolean at h
  split at h
  · injection h with h; subst h; rfl
  · cases h

theorem mkFloat_kind {cls : Str} {v : PyVal} {val : Val} (h : mkFloat cls v = .ok val) : val.kind = cls := by
  unfold mkFloat at h
  split at h
  · injection h with h; subst h; rfl
  · cases h

theorem mkGeo_kind {cls : Str} {v : PyVal} {val : Val} (h : mkGeo cls v = .ok val) : val.kind = cls := by
  unfold mkGeo at h
  split at h
  · injection h with h; subst h; rfl
  · split at h <;> cases h
  · cases h

theorem mkPeriod_kind {cls : Str} {v : PyVal} {val : Val} (h : mkPeriod cls v = .ok val) : val.kind = cls := by
  unfold mkPeriod at h
  split at h
  · split at h
    · injection h with h; subst h; rfl
    · cases h
  all_goals cases h

theorem mkUTCOffset_kind {cls : Str} {v : PyVal} {val : Val} (h : mkUTCOffset cls v = .ok val) : val.kind = cls := by
  unfold mkUTCOffset at h
  split at h
  · injection h with h; subst h; rfl
  · cases h

theorem mkRecur_kind {cls : Str} {v : PyVal} {val : Val} (h : mkRecur cls v = .ok val) : val.kind = cls := by
  unfold mkRecur at h
  split at h
  · injection h with h; subst h; rfl
  · cases h

theorem mkCategory1_kind {cls : Str} {v : PyVal} {val : Val} (h : mkCategory1 cls v = .ok val) : val.kind = cls := by
  unfold mkCategory1 at h
  split at h
  · cases h
  · cases h
  · split at h
    · injection h with h; subst h; rfl
    · cases h

/-- a value built by a class constructor is an instance of that class -/
theorem construct1_kind {cls : Str} {v : PyVal} {val : Val} (h : construct1 cls v = .ok val) : val.kind = cls := by
  unfold construct1 at h
  split at h
  · exact mkTextual_kind h
  split at h
  · exact mkInt_kind h
  split at h
  · exact mkBoolean_kind h
  split at h
  · exact mkFloat_kind h
  split at h
  · exact mkGeo_kind h
  split at h
  · rename_i hc; rw [mkDDD_kind h]; exact (beq_str hc).symm
  split at h
  · rename_i hc; rw [mkDDDLists_kind h]; exact (beq_str hc).symm
  split at h
  · exact mkPeriod_kind h
  split at h
  · exact mkUTCOffset_kind h
  split at h
  · exact mkRecur_kind h
  split at h
  · exact mkCategory1_kind h
  · cases h

/-! ## the property mapping -/

def Stored.vals : Stored → List Val
  | .one v => [v]
  | .many vs => vs

def Stored.isMany : Stored → Bool
  | .one _ => false
  | .many _ => true

def replaceAt (k : Str) (new : Entry) : List Entry → List Entry
  | [] => []
  | e :: es => (if e.name == k then new else e) :: replaceAt k new es

theorem map_eq_replaceAt (k : Str) (new : Entry) (props : List Entry) :
    props.map (fun e => if e.name == k then new else e) = replaceAt k new props := by
  induction props with
  | nil => rfl
  | cons e es ih => simp only [List.map_cons, replaceAt, ih]

theorem find_replaceAt_same (k : Str) (il : Bool) (vs : List Val) : ∀ (props : List Entry),
    props.any (fun e => e.name == k) = true →
    (replaceAt k ⟨k, il, vs⟩ props).find? (fun e => e.name == k) = some ⟨k, il, vs⟩ := by
  intro props
  induction props with
  | nil => intro h; simp at h
  | cons e es ih =>
    intro h
    have hkk : ((k : Str) == k) = true := by simp
    cases he : (e.name == k) with
    | true =>
      simp only [replaceAt, he, if_true, List.find?_cons, hkk]
    | false =>
      have h' : es.any (fun e => e.name == k) = true := by simpa [List.any, he] using h
      simp only [replaceAt, he, List.find?_cons, Bool.false_eq_true, if_false]
      exact ih h'

theorem find_replaceAt_other (k k' : Str) (il : Bool) (vs : List Val) (hkk : (k == k') = false) :
    ∀ (props : List Entry),
    (replaceAt k ⟨k, il, vs⟩ props).find? (fun e => e.name == k') = props.find? (fun e => e.name == k') := by
  intro props
  induction props with
  | nil => rfl
  | cons e es ih =>
    cases he : (e.name == k) with
    | true =>
      have hek : e.name = k := beq_str he
      have hk' : (e.name == k') = false := by rw [hek]; exact hkk
      simp only [replaceAt, he, if_true, List.find?_cons, hkk, hk']
      exact ih
    | false =>
      simp only [replaceAt, he, List.find?_cons, Bool.false_eq_true, if_false]
      cases hk2 : (e.name == k') with
      | true => rfl
      | false => exact ih

theorem setEntry_eq (props : List Entry) (k : Str) (il : Bool) (vs : List Val) :
    setEntry props k il vs = if hasKey props k then replaceAt k ⟨k, il, vs⟩ props else props ++ [⟨k, il, vs⟩] := by
  unfold setEntry; rw [map_eq_replaceAt]

theorem find_setEntry_same (props : List Entry) (k : Str) (il : Bool) (vs : List Val) :
    (setEntry props k il vs).find? (fun e => e.name == k) = some ⟨k, il, vs⟩ := by
  rw [setEntry_eq]
  by_cases h : hasKey props k = true
  · rw [if_pos h]; exact find_replaceAt_same k il vs props h
  · rw [if_neg h]
    have h' : ∀ e ∈ props, (e.name == k) = false := by
      intro e he
      cases hb : (e.name == k) with
      | false => rfl
      | true => exact absurd (List.any_eq_true.mpr ⟨e, he, hb⟩) h
    rw [List.find?_append, List.find?_eq_none.mpr (by intro e he; simp [h' e he])]
    simp [List.find?]

theorem find_setEntry_other (props : List Entry) (k k' : Str) (il : Bool) (vs : List Val) (hk : k' ≠ k) :
    (setEntry props k il vs).find? (fun e => e.name == k') = props.find? (fun e => e.name == k') := by
  have hkk : (k == k') = false := by
    cases h : (k == k') with
    | false => rfl
    | true => exact absurd (beq_str h).symm hk
  rw [setEntry_eq]
  split
  · exact find_replaceAt_other k k' il vs hkk props
  · rw [List.find?_append]
    simp [List.find?, hkk]

theorem hasKey_eq_find (props : List Entry) (k : Str) :
    hasKey props k = (props.find? (fun e => e.name == k)).isSome := by
  unfold hasKey
  induction props with
  | nil => rfl
  | cons e es ih =>
    simp only [List.any, List.find?]
    cases (e.name == k) with
    | true => rfl
    | false => simpa using ih

theorem find_accumulate_same (props : List Entry) (k : Str) (s : Stored) :
    (accumulate props k s).find? (fun e => e.name == k) =
      some ⟨k, hasKey props k || s.isMany, valuesOf props k ++ s.vals⟩ := by
  unfold accumulate valuesOf
  rw [hasKey_eq_find]
  cases hf : props.find? (fun e => e.name == k) with
  | none => cases s <;> simp [find_setEntry_same, Stored.isMany, Stored.vals]
  | some old => cases s <;> simp [find_setEntry_same, Stored.isMany, Stored.vals]

theorem find_accumulate_other (props : List Entry) (k k' : Str) (s : Stored) (hk : k' ≠ k) :
    (accumulate props k s).find? (fun e => e.name == k') = props.find? (fun e => e.name == k') := by
  unfold accumulate
  split <;> exact find_setEntry_other _ _ _ _ _ hk

theorem valuesOf_accumulate (props : List Entry) (k : Str) (s : Stored) :
    valuesOf (accumulate props k s) k = valuesOf props k ++ s.vals := by
  show (match (accumulate props k s).find? (fun e => e.name == k) with | some e => e.vals | none => []) = _
  rw [find_accumulate_same]

theorem isListOf_accumulate (props : List Entry) (k : Str) (s : Stored) :
    isListOf (accumulate props k s) k = (hasKey props k || s.isMany) := by
  show (match (accumulate props k s).find? (fun e => e.name == k) with | some e => e.isList | none => false) = _
  rw [find_accumulate_same]

theorem hasKey_accumulate (props : List Entry) (k : Str) (s : Stored) : hasKey (accumulate props k s) k = true := by
  rw [hasKey_eq_find, find_accumulate_same]; rfl

theorem valuesOf_accumulate_other (props : List Entry) (k k' : Str) (s : Stored) (hk : k' ≠ k) :
    valuesOf (accumulate props k s) k' = valuesOf props k' := by
  unfold valuesOf; rw [find_accumulate_other _ _ _ _ hk]

theorem isListOf_accumulate_other (props : List Entry) (k k' : Str) (s : Stored) (hk : k' ≠ k) :
    isListOf (accumulate props k s) k' = isListOf props k' := by
  unfold isListOf; rw [find_accumulate_other _ _ _ _ hk]

/-- repeated `add` of one name -/
def addAll (props : List Entry) (k : Str) (ss : List Stored) : List Entry :=
  ss.foldl (fun p s => accumulate p k s) props

theorem valuesOf_addAll (ss : List Stored) : ∀ (props : List Entry) (k : Str),
    valuesOf (addAll props k ss) k = valuesOf props k ++ ss.flatMap Stored.vals := by
  induction ss with
  | nil => intro props k; simp [addAll]
  | cons s ss ih =>
    intro props k
    show valuesOf (addAll (accumulate props k s) k ss) k = _
    rw [ih, valuesOf_accumulate]; simp

theorem valuesOf_addAll_other (ss : List Stored) : ∀ (props : List Entry) (k k' : Str), k' ≠ k →
    valuesOf (addAll props k ss) k' = valuesOf props k' := by
  induction ss with
  | nil => intro props k k' _; rfl
  | cons s ss ih =>
    intro props k k' hk
    show valuesOf (addAll (accumulate props k s) k ss) k' = _
    rw [ih _ _ _ hk, valuesOf_accumulate_other _ _ _ _ hk]

theorem isListOf_addAll (ss : List Stored) : ∀ (props : List Entry) (k : Str), ss ≠ [] →
    isListOf (addAll props k ss) k = (hasKey props k || decide (2 ≤ ss.length) || ss.any Stored.isMany) := by
  induction ss with
  | nil => intro _ _ h; exact absurd rfl h
  | cons s ss ih =>
    intro props k _
    show isListOf (addAll (accumulate props k s) k ss) k = _
    cases ss with
    | nil =>
      show isListOf (accumulate props k s) k = _
      rw [isListOf_accumulate]; simp
    | cons s2 rest =>
      rw [ih _ _ (by simp), hasKey_accumulate]
      simp

/-! ## parameters -/

theorem get_cons_same (k : Str) (v : PVal) (rest : Params) : Params.get? ((k, v) :: rest) k = some v := by
  simp [Params.get?, List.find?]

theorem get_cons_other (k k' : Str) (v : PVal) (rest : Params) (h : (k == k') = false) :
    Params.get? ((k, v) :: rest) k' = Params.get? rest k' := by
  simp [Params.get?, List.find?, h]

theorem uniformValue_all (x : PVal) : ∀ (l : List (Option PVal)), l ≠ [] → (∀ y ∈ l, y = some x) →
    uniformValue l = some x := by
  intro l hne hall
  cases l with
  | nil => exact absurd rfl hne
  | cons a rest =>
    have ha : a = some x := hall a List.mem_cons_self
    subst ha
    unfold uniformValue
    have : rest.all (fun y => y == some x) = true := by
      rw [List.all_eq_true]; intro y hy; rw [hall y (List.mem_cons_of_mem _ hy)]; simp
    simp [this]

theorem uniformValue_none_head (rest : List (Option PVal)) : uniformValue (none :: rest) = none := by
  simp [uniformValue]

theorem kVALUE_ne_kTZID : (kVALUE == kTZID) = false := by decide

theorem listParams_value (vs : List Val) (x : PVal) (hne : vs ≠ [])
    (h : ∀ v ∈ vs, Params.get? v.params kVALUE = some x) : Params.get? (listParams vs) kVALUE = some x := by
  unfold listParams
  rw [uniformValue_all x (vs.map (fun v => Params.get? v.params kVALUE)) (by simpa using hne)
    (by intro y hy; obtain ⟨v, hv, rfl⟩ := List.mem_map.mp hy; exact h v hv)]
  exact get_cons_same _ _ _

theorem lastTzid_all (vs : List Val) (z : PVal) (hne : vs ≠ [])
    (h : ∀ v ∈ vs, Params.get? v.params kTZID = some z) : lastTzid vs = some z := by
  unfold lastTzid
  have hr : vs.reverse ≠ [] := by simpa using hne
  cases hrev : vs.reverse with
  | nil => exact absurd hrev hr
  | cons a rest =>
    have ha : a ∈ vs := by
      have : a ∈ vs.reverse := by rw [hrev]; exact List.mem_cons_self
      simpa using this
    simp [List.findSome?, h a ha]

theorem listParams_tzid (vs : List Val) (z : PVal) (hne : vs ≠ []) (ht : truthy z = true)
    (h : ∀ v ∈ vs, Params.get? v.params kTZID = some z) : Params.get? (listParams vs) kTZID = some z := by
  unfold listParams
  rw [lastTzid_all vs z hne h]
  simp only [ht, if_true]
  split
  · rw [List.cons_append, get_cons_other _ _ _ _ kVALUE_ne_kTZID]; exact get_cons_same _ _ _
  · exact get_cons_same _ _ _

/-- a list of dates / of zoned datetimes through `vDDDTypes` element by element -/
theorem mapRes_mkDDD_atoms (as : List PyAtom) :
    mapRes mkDDD (as.map PyVal.atom) = .ok (as.map (fun a => ⟨cDDD, atomText a, atomParams a⟩)) := by
  induction as with
  | nil => rfl
  | cons a as ih => simp only [List.map, mapRes, mkDDD, ih]

theorem mapRes_mkDDD_periods (ps : List (PyAtom × PyAtom)) :
    mapRes mkDDD (ps.map (fun p => PyVal.period p.1 p.2)) =
      .ok (ps.map (fun p => ⟨cDDD, (periodText p.1 p.2).getD toIcalError, periodParamsDDD p.1⟩)) := by
  induction ps with
  | nil => rfl
  | cons a as ih => simp only [List.map, mapRes, mkDDD, ih]

end ICal.Enc
