/-
  More lemmas for C12 (Model/Tz): rounding, the tuple order of `transitions.sort()`, `sortTr` as the
  unique sorted permutation, `set(transtimes)`, the DST-amount search (`firstStd`, `dstOffset`,
  `infoGo`) and exactly when it fails, the name loop, the zone cache on repeated parses.
-/
import ICal.Lemmas.Tz
import ICal.Lemmas.CDict
set_option linter.unusedSimpArgs false
namespace ICal.Tz
open ICal.CDict (strLe_total strLe_trans strLe_antisymm)

/-! ## rounding -/

/-- the rounded offset is a whole minute and at most 30 s away (half a minute rounds up) -/
theorem roundMin_near (x : Int) : roundMin x % 60 = 0 ∧ x - 30 < roundMin x ∧ roundMin x ≤ x + 30 := by
  unfold roundMin; omega

theorem roundMin_idem (x : Int) : roundMin (roundMin x) = roundMin x :=
  roundMin_id (roundMin_near x).1

/-! ## the tuple order -/

theorem trLe_iff (a b : Tr) : trLe a b = true ↔
    a.loc < b.loc ∨ (a.loc = b.loc ∧ (a.osfrom < b.osfrom ∨ (a.osfrom = b.osfrom ∧
      (a.osto < b.osto ∨ (a.osto = b.osto ∧ strLe a.name b.name = true))))) := by
  unfold trLe
  by_cases h1 : a.loc < b.loc
  · simp [h1]
  · by_cases h2 : b.loc < a.loc
    · simp [h1, h2]; omega
    · have e1 : a.loc = b.loc := by omega
      by_cases h3 : a.osfrom < b.osfrom
      · simp [h1, h2, h3, e1]
      · by_cases h4 : b.osfrom < a.osfrom
        · simp [h1, h2, h3, h4, e1]; omega
        · have e2 : a.osfrom = b.osfrom := by omega
          by_cases h5 : a.osto < b.osto
          · simp [h1, h2, h3, h4, h5, e1, e2]
          · by_cases h6 : b.osto < a.osto
            · simp [h1, h2, h3, h4, h5, h6, e1, e2]; omega
            · have e3 : a.osto = b.osto := by omega
              simp [e1, e2, e3]

theorem trLe_total (a b : Tr) : trLe a b = true ∨ trLe b a = true := by
  rw [trLe_iff, trLe_iff]
  have := strLe_total a.name b.name
  simp only [Bool.or_eq_true] at this
  grind

theorem trLe_trans {a b c : Tr} (h1 : trLe a b = true) (h2 : trLe b c = true) : trLe a c = true := by
  rw [trLe_iff] at h1 h2 ⊢
  have hs := strLe_trans a.name b.name c.name
  grind

theorem trLe_antisymm {a b : Tr} (h1 : trLe a b = true) (h2 : trLe b a = true) : a = b := by
  rw [trLe_iff] at h1 h2
  have hs := strLe_antisymm a.name b.name
  have e : a.loc = b.loc ∧ a.osfrom = b.osfrom ∧ a.osto = b.osto ∧ strLe a.name b.name = true ∧
      strLe b.name a.name = true := by grind
  obtain ⟨e1, e2, e3, e4, e5⟩ := e
  have e6 := hs e4 e5
  cases a; cases b; simp_all

/-! ## `sortTr` is the sorted permutation -/

abbrev TrLe (a b : Tr) : Prop := trLe a b = true

theorem insertTr_perm (x : Tr) (l : List Tr) : (insertTr x l).Perm (x :: l) := by
  induction l with
  | nil => simp [insertTr]
  | cons y ys ih =>
    unfold insertTr
    split
    · exact List.Perm.refl _
    · exact ((List.Perm.cons y ih).trans (List.Perm.swap x y ys))

theorem sortTr_perm (l : List Tr) : (sortTr l).Perm l := by
  induction l with
  | nil => exact List.Perm.refl _
  | cons x xs ih => exact (insertTr_perm x _).trans (List.Perm.cons x ih)

theorem insertTr_sorted {x : Tr} {l : List Tr} (h : l.Pairwise TrLe) : (insertTr x l).Pairwise TrLe := by
  induction l with
  | nil => simp [insertTr]
  | cons z zs ih =>
    unfold insertTr
    rw [List.pairwise_cons] at h
    split
    · next hle =>
      refine List.Pairwise.cons ?_ (List.Pairwise.cons h.1 h.2)
      intro a ha
      rcases List.mem_cons.mp ha with rfl | ha
      · exact hle
      · exact trLe_trans hle (h.1 a ha)
    · next hle =>
      have hzx : trLe z x = true := by
        rcases trLe_total x z with h' | h'
        · exact absurd h' hle
        · exact h'
      refine List.Pairwise.cons ?_ (ih h.2)
      intro a ha
      rcases mem_insertTr.mp ha with rfl | ha
      · exact hzx
      · exact h.1 a ha

theorem sortTr_sorted (l : List Tr) : (sortTr l).Pairwise TrLe := by
  induction l with
  | nil => simp [sortTr]
  | cons z zs ih => exact insertTr_sorted ih

/-- the sort is a function of the multiset: permuted input, same output -/
theorem sortTr_eq_of_perm {l₁ l₂ : List Tr} (h : l₁.Perm l₂) : sortTr l₁ = sortTr l₂ := by
  apply List.Perm.eq_of_pairwise (le := TrLe)
  · intro a b _ _ h1 h2; exact trLe_antisymm h1 h2
  · exact sortTr_sorted l₁
  · exact sortTr_sorted l₂
  · exact (sortTr_perm l₁).trans (h.trans (sortTr_perm l₂).symm)

/-! ## `set(transtimes)` -/

theorem nodup_dedup (l : List Int) : (dedup l).Nodup := by
  induction l with
  | nil => simp [dedup]
  | cons x xs ih =>
    unfold dedup
    split
    · exact ih
    · next h =>
      refine List.nodup_cons.mpr ⟨?_, ih⟩
      rw [mem_dedup]
      simpa using h

theorem dedup_perm {a b : List Int} (h : ∀ x, x ∈ a ↔ x ∈ b) : (dedup a).Perm (dedup b) := by
  rw [List.perm_ext_iff_of_nodup (nodup_dedup a) (nodup_dedup b)]
  intro x
  rw [mem_dedup, mem_dedup]
  exact h x

theorem extractOffsets_perm {o o' : Obs} (hn : o.name = o'.name) (hf : o.offFrom = o'.offFrom)
    (ht : o.offTo = o'.offTo) (h : ∀ x, x ∈ o.onsets ↔ x ∈ o'.onsets) :
    (extractOffsets o).Perm (extractOffsets o') := by
  unfold extractOffsets
  rw [hn, hf, ht]
  exact (dedup_perm h).map _

/-- replacing the onsets of every observance by a list with the same members (any order, any
    multiplicity) does not change the sorted tuple list -/
theorem sortedTrs_onset_sets (f : List Int → List Int) (hf : ∀ l x, x ∈ f l ↔ x ∈ l) (obs : List Obs) :
    sortedTrs (obs.map fun o => { o with onsets := f o.onsets }) = sortedTrs obs := by
  unfold sortedTrs
  apply sortTr_eq_of_perm
  induction obs with
  | nil => exact List.Perm.refl _
  | cons o os ih =>
    simp only [List.map_cons, List.flatMap_cons]
    exact List.Perm.append (extractOffsets_perm rfl rfl rfl (fun x => hf o.onsets x)) ih

theorem dstOf_onset_sets (f : List Int → List Int) (obs : List Obs) (nm : Str) :
    dstOf (obs.map fun o => { o with onsets := f o.onsets }) nm = dstOf obs nm := by
  unfold dstOf
  rw [← List.map_reverse, List.find?_map]
  cases h : List.find? (fun o => o.name == nm) obs.reverse with
  | none =>
    have : List.find? ((fun o : Obs => o.name == nm) ∘ fun o => { o with onsets := f o.onsets }) obs.reverse = none := by
      rw [List.find?_eq_none] at h ⊢
      intro x hx; exact h x hx
    simp [this]
  | some o =>
    have : List.find? ((fun o : Obs => o.name == nm) ∘ fun o => { o with onsets := f o.onsets }) obs.reverse = some o := by
      have e : ((fun o : Obs => o.name == nm) ∘ fun o => { o with onsets := f o.onsets }) = fun o : Obs => o.name == nm := by
        funext x; rfl
      rw [e]; exact h
    simp [this]

/-! ## the DST-amount search -/

theorem firstStd_none {dst : Str → Bool} {l : List Tr} :
    firstStd dst l = none ↔ ∀ x ∈ l, dst x.name = true := by
  induction l with
  | nil => simp [firstStd]
  | cons x xs ih =>
    unfold firstStd
    by_cases h : dst x.name = true
    · simp [h, ih]
    · simp [h]

/-- `firstStd` answers with the TZOFFSETTO of the nearest tuple that leads to standard time -/
theorem firstStd_some {dst : Str → Bool} {l : List Tr} {s : Int} :
    firstStd dst l = some s ↔
      ∃ a x b, l = a ++ x :: b ∧ (∀ y ∈ a, dst y.name = true) ∧ dst x.name = false ∧ s = x.osto := by
  induction l with
  | nil => simp [firstStd]
  | cons z zs ih =>
    unfold firstStd
    by_cases h : dst z.name = true
    · simp only [h, if_true, ih]
      constructor
      · rintro ⟨a, x, b, rfl, h1, h2, h3⟩
        refine ⟨z :: a, x, b, rfl, ?_, h2, h3⟩
        intro y hy
        rcases List.mem_cons.mp hy with rfl | hy
        · exact h
        · exact h1 y hy
      · rintro ⟨a, x, b, he, h1, h2, h3⟩
        cases a with
        | nil =>
          simp only [List.nil_append, List.cons.injEq] at he
          rw [← he.1, h] at h2; cases h2
        | cons a0 as =>
          simp only [List.cons_append, List.cons.injEq] at he
          exact ⟨as, x, b, he.2, fun y hy => h1 y (List.mem_cons_of_mem _ hy), h2, h3⟩
    · have h' : dst z.name = false := by simpa using h
      simp only [h', Bool.false_eq_true, if_false, Option.some.injEq]
      constructor
      · intro e; exact ⟨[], z, zs, rfl, by simp, h', e.symm⟩
      · rintro ⟨a, x, b, he, h1, h2, h3⟩
        cases a with
        | nil =>
          simp only [List.nil_append, List.cons.injEq] at he
          rw [h3, ← he.1]
        | cons a0 as =>
          simp only [List.cons_append, List.cons.injEq] at he
          have := h1 a0 (by simp)
          rw [← he.1, h'] at this; cases this

theorem dstOffset_none {dst : Str → Bool} {bef aft : List Tr} {c : Tr} :
    dstOffset dst bef c aft = none ↔
      (∀ x ∈ bef, dst x.name = true) ∧ dst c.name = true ∧ ∀ x ∈ aft, dst x.name = true := by
  unfold dstOffset
  by_cases hc : dst c.name = true
  · simp only [hc, Bool.not_true, Bool.false_eq_true, if_false, true_and]
    cases hb : firstStd dst bef with
    | some s =>
      have : ¬ ∀ x ∈ bef, dst x.name = true := by
        intro h; rw [firstStd_none.mpr h] at hb; cases hb
      simp only [this, false_and, iff_false]
      split
      · simp
      · split <;> simp
    | none =>
      have hb' := firstStd_none.mp hb
      cases ha : firstStd dst (c :: aft) with
      | some s =>
        have : ¬ ∀ x ∈ aft, dst x.name = true := by
          intro h
          have : firstStd dst (c :: aft) = none := firstStd_none.mpr (by
            intro x hx; rcases List.mem_cons.mp hx with rfl | hx
            · exact hc
            · exact h x hx)
          rw [this] at ha; cases ha
        simp [this]
      | none =>
        have ha' := firstStd_none.mp ha
        simp only [true_iff]
        exact ⟨hb', fun x hx => ha' x (List.mem_cons_of_mem _ hx)⟩
  · have hc' : dst c.name = false := by simpa using hc
    simp [hc']

/-- `get_transitions` fails (the `assert`) exactly when there is a tuple and no tuple at all leads
    to standard time -/
theorem infoGo_none {dst : Str → Bool} : ∀ (l bef : List Tr),
    infoGo dst bef l = none ↔ l ≠ [] ∧ (∀ x ∈ bef, dst x.name = true) ∧ ∀ x ∈ l, dst x.name = true := by
  intro l
  induction l with
  | nil => intro bef; simp [infoGo]
  | cons c cs ih =>
    intro bef
    have hstep : infoGo dst bef (c :: cs) = none ↔
        dstOffset dst bef c cs = none ∨ infoGo dst (c :: bef) cs = none := by
      simp only [infoGo]
      cases h1 : dstOffset dst bef c cs <;> cases h2 : infoGo dst (c :: bef) cs <;> simp
    rw [hstep, dstOffset_none, ih (c :: bef)]
    constructor
    · rintro (⟨h1, h2, h3⟩ | ⟨_, h2, h3⟩)
      · refine ⟨by simp, h1, ?_⟩
        intro x hx; rcases List.mem_cons.mp hx with rfl | hx
        · exact h2
        · exact h3 x hx
      · refine ⟨by simp, fun x hx => h2 x (List.mem_cons_of_mem _ hx), ?_⟩
        intro x hx; rcases List.mem_cons.mp hx with rfl | hx
        · exact h2 x (by simp)
        · exact h3 x hx
    · rintro ⟨_, h1, h2⟩
      left
      exact ⟨h1, h2 c (by simp), fun x hx => h2 x (List.mem_cons_of_mem _ hx)⟩

/-- the row built for the tuple at position `pre.length`: its `before` list is the reversed prefix -/
theorem infoGo_nth {dst : Str → Bool} : ∀ (pre bef : List Tr) (cur : Tr) (post : List Tr) (es : List Ent),
    infoGo dst bef (pre ++ cur :: post) = some es →
      ∃ d, dstOffset dst (pre.reverse ++ bef) cur post = some d ∧
        es[pre.length]? = some ⟨cur.loc - cur.osfrom, cur.osto, d, cur.name⟩ := by
  intro pre
  induction pre with
  | nil =>
    intro bef cur post es h
    simp only [List.nil_append] at h
    unfold infoGo at h
    split at h
    · next d tl hd _ =>
      simp only [Option.some.injEq] at h; subst h
      exact ⟨d, by simpa using hd, by simp⟩
    · cases h
  | cons p ps ih =>
    intro bef cur post es h
    simp only [List.cons_append] at h
    unfold infoGo at h
    split at h
    · next d tl _ htl =>
      simp only [Option.some.injEq] at h; subst h
      obtain ⟨d', h1, h2⟩ := ih (p :: bef) cur post tl htl
      refine ⟨d', ?_, by simpa using h2⟩
      simpa using h1
    · cases h

theorem infoGo_length {dst : Str → Bool} : ∀ (l bef : List Tr) (es : List Ent),
    infoGo dst bef l = some es → es.length = l.length := by
  intro l bef es h
  have := (infoGo_spec dst l bef es h).1
  have := congrArg List.length this
  simpa using this

/-! ## the name loop -/

theorem countP_lt_of_mem {α : Type} (p q : α → Bool) (l : List α) (hpq : ∀ x, p x = true → q x = true)
    (x : α) (hx : x ∈ l) (hq : q x = true) (hp : p x = false) : l.countP p < l.countP q := by
  induction l with
  | nil => cases hx
  | cons y ys ih =>
    have hle : ys.countP p ≤ ys.countP q := List.countP_mono_left (fun z _ => hpq z)
    rcases List.mem_cons.mp hx with rfl | hx
    · simp only [List.countP_cons, hq, hp, if_true]
      simp; omega
    · have := ih hx
      simp only [List.countP_cons]
      by_cases hy : p y = true
      · simp [hy, hpq y hy]; omega
      · have hy' : p y = false := by simpa using hy
        simp only [hy', Bool.false_eq_true, if_false]
        split <;> omega

/-- `_make_unique_tzname` returns a name that is not taken -/
theorem makeUnique_fresh : ∀ (f : Nat) (nm : Str) (taken : List Str),
    taken.countP (fun t => decide (nm.length ≤ t.length)) < f → makeUnique f nm taken ∉ taken := by
  intro f
  induction f with
  | zero => intro nm taken h; omega
  | succ f ih =>
    intro nm taken h
    unfold makeUnique
    by_cases hm : nm ∈ taken
    · have hc : taken.contains nm = true := by simpa using hm
      simp only [hc, if_true]
      apply ih
      have := countP_lt_of_mem (fun t => decide ((nm ++ ['_', '1']).length ≤ t.length))
        (fun t => decide (nm.length ≤ t.length)) taken
        (by intro x hx; simp at hx ⊢; omega) nm hm (by simp) (by simp)
      omega
    · have hc : taken.contains nm = false := by simpa using hm
      simp only [hc, Bool.false_eq_true, if_false]
      exact hm

theorem makeUnique_fresh' (nm : Str) (taken : List Str) : makeUnique (taken.length + 1) nm taken ∉ taken :=
  makeUnique_fresh _ nm taken (by have := List.countP_le_length (p := fun t => decide (nm.length ≤ t.length)) (l := taken); omega)

/-- a name that is not taken is kept as it is -/
theorem makeUnique_keep (f : Nat) (nm : Str) (taken : List Str) (h : nm ∉ taken) :
    makeUnique (f + 1) nm taken = nm := by
  simp [makeUnique, h]

theorem resolveNames_length : ∀ (os : List ObsIn) (taken : List Str), (resolveNames os taken).length = os.length := by
  intro os
  induction os with
  | nil => intro _; rfl
  | cons o os ih =>
    intro taken
    unfold resolveNames
    split <;> simp [ih]

/-- what the loop does to one component: all fields are copied, an explicit TZNAME verbatim -/
def Resolved (i : ObsIn) (o : Obs) : Prop :=
  o.isDst = i.isDst ∧ o.offFrom = i.offFrom ∧ o.offTo = i.offTo ∧ o.onsets = i.onsets ∧
  ∀ nm, i.tzname = some nm → o.name = nm

theorem resolveNames_fields : ∀ (os : List ObsIn) (taken : List Str),
    ∀ p ∈ os.zip (resolveNames os taken), Resolved p.1 p.2 := by
  intro os
  induction os with
  | nil => intro _ p hp; simp [resolveNames] at hp
  | cons o os ih =>
    intro taken p hp
    unfold resolveNames at hp
    split at hp
    · next nm h =>
      simp only [List.zip_cons_cons, List.mem_cons] at hp
      rcases hp with rfl | hp
      · exact ⟨rfl, rfl, rfl, rfl, fun nm' h' => by rw [h] at h'; cases h'; rfl⟩
      · exact ih taken p hp
    · next h =>
      simp only [List.zip_cons_cons, List.mem_cons] at hp
      rcases hp with rfl | hp
      · exact ⟨rfl, rfl, rfl, rfl, fun nm' h' => by rw [h] at h'; cases h'⟩
      · exact ih _ p hp

/-- the generated names, in order -/
def genNames : List ObsIn → List Obs → List Str
  | i :: is, o :: os => if i.tzname.isNone then o.name :: genNames is os else genNames is os
  | _, _ => []

theorem genNames_fresh : ∀ (os : List ObsIn) (taken : List Str),
    (genNames os (resolveNames os taken)).Nodup ∧ ∀ n ∈ genNames os (resolveNames os taken), n ∉ taken := by
  intro os
  induction os with
  | nil => intro _; simp [genNames, resolveNames]
  | cons o os ih =>
    intro taken
    unfold resolveNames
    split
    · next nm h => simp only [genNames, h, Option.isNone_some, Bool.false_eq_true, if_false]; exact ih taken
    · next h =>
      simp only [genNames, h, Option.isNone_none, if_true]
      obtain ⟨h1, h2⟩ := ih (makeUnique (taken.length + 1) o.auto taken :: taken)
      refine ⟨List.nodup_cons.mpr ⟨?_, h1⟩, ?_⟩
      · intro hm; exact h2 _ hm (by simp)
      · intro n hn
        rcases List.mem_cons.mp hn with rfl | hn
        · exact makeUnique_fresh' _ _
        · intro hm; exact h2 n hn (List.mem_cons_of_mem _ hm)

/-! ## the zone cache on repeated parses -/

variable {δ : Type}

/-- the id of a VTIMEZONE can no longer change the cache -/
def Settled (P : Prov) (c : Cache δ) (x : Str) : Prop :=
  P.knows (stripSlash x) = true ∨ P.knows x = true ∨ (cacheGet c (stripSlash x)).isSome = true

theorem endVtz_settled_noop (P : Prov) (c : Cache δ) (x : Str) (d : δ) (h : Settled P c x) :
    endVtz P c x d = c := by
  unfold endVtz
  rcases h with h | h | h
  · simp [h]
  · simp [h]
  · have : (cacheGet c (stripSlash x)).isNone = false := by
      cases hc : cacheGet c (stripSlash x) <;> simp [hc] at h ⊢
    simp [this]

theorem endVtz_settles (P : Prov) (c : Cache δ) (x : Str) (d : δ) : Settled P (endVtz P c x d) x := by
  by_cases h1 : P.knows (stripSlash x) = true
  · exact Or.inl h1
  · by_cases h2 : P.knows x = true
    · exact Or.inr (Or.inl h2)
    · right; right
      rw [cacheGet_endVtz]
      cases hc : cacheGet c (stripSlash x) with
      | some y => rfl
      | none =>
        have h1' : P.knows (stripSlash x) = false := by simpa using h1
        have h2' : P.knows x = false := by simpa using h2
        simp [h1', h2']

theorem settled_mono_endVtz (P : Prov) (c : Cache δ) (x y : Str) (d : δ) (h : Settled P c y) :
    Settled P (endVtz P c x d) y := by
  rcases h with h | h | h
  · exact Or.inl h
  · exact Or.inr (Or.inl h)
  · right; right
    rw [cacheGet_endVtz]
    cases hc : cacheGet c (stripSlash y) with
    | some v => rfl
    | none => rw [hc] at h; cases h

theorem settled_mono_cacheAfter (P : Prov) (y : Str) : ∀ (cal : List (Item δ)) (c : Cache δ),
    Settled P c y → Settled P (cacheAfter P c cal) y := by
  intro cal
  induction cal with
  | nil => intro c h; exact h
  | cons it r ih =>
    intro c h
    cases it with
    | vtz x d => exact ih _ (settled_mono_endVtz P c x y d h)
    | use x => exact ih c h

/-- after a calendar every VTIMEZONE of it is settled -/
theorem cacheAfter_settles (P : Prov) : ∀ (cal : List (Item δ)) (c : Cache δ),
    ∀ x d, Item.vtz x d ∈ cal → Settled P (cacheAfter P c cal) x := by
  intro cal
  induction cal with
  | nil => intro c x d h; cases h
  | cons it r ih =>
    intro c x d h
    rcases List.mem_cons.mp h with rfl | hm
    · exact settled_mono_cacheAfter P x r _ (endVtz_settles P c x d)
    · cases it with
      | vtz x' d' => exact ih _ x d hm
      | use x' => exact ih c x d hm

theorem cacheAfter_noop (P : Prov) : ∀ (cal : List (Item δ)) (c : Cache δ),
    (∀ x d, Item.vtz x d ∈ cal → Settled P c x) → cacheAfter P c cal = c := by
  intro cal
  induction cal with
  | nil => intro c _; rfl
  | cons it r ih =>
    intro c h
    cases it with
    | vtz x d =>
      simp only [cacheAfter]
      rw [endVtz_settled_noop P c x d (h x d (by simp))]
      exact ih c (fun x' d' hm => h x' d' (List.mem_cons_of_mem _ hm))
    | use x => exact ih c (fun x' d' hm => h x' d' (List.mem_cons_of_mem _ hm))

/-- the TZIDs of the date-times of a calendar, in file order -/
def usesOf : List (Item δ) → List Str
  | [] => []
  | .vtz _ _ :: r => usesOf r
  | .use x :: r => x :: usesOf r

/-- with every VTIMEZONE settled the parse does not depend on positions: every date-time is
    answered from the one unchanged cache -/
theorem parseCal_settled (P : Prov) : ∀ (cal : List (Item δ)) (c : Cache δ),
    (∀ x d, Item.vtz x d ∈ cal → Settled P c x) → parseCal P c cal = (usesOf cal).map (useTz P c) := by
  intro cal
  induction cal with
  | nil => intro c _; rfl
  | cons it r ih =>
    intro c h
    cases it with
    | vtz x d =>
      simp only [parseCal, usesOf]
      rw [endVtz_settled_noop P c x d (h x d (by simp))]
      exact ih c (fun x' d' hm => h x' d' (List.mem_cons_of_mem _ hm))
    | use x =>
      simp only [parseCal, usesOf, List.map_cons]
      rw [ih c (fun x' d' hm => h x' d' (List.mem_cons_of_mem _ hm))]

/-! ## the DST amount of one row, by cases -/

theorem firstStd_of_split {dst : Str → Bool} {a b : List Tr} {x : Tr} (ha : ∀ y ∈ a, dst y.name = true)
    (hx : dst x.name = false) : firstStd dst (a ++ x :: b) = some x.osto :=
  firstStd_some.mpr ⟨a, x, b, rfl, ha, hx, rfl⟩

/-- nearest standard tuple before `cur`: `pre = a ++ x :: b` with `b` all DAYLIGHT and `x` STANDARD;
    nearest after: `post = a' ++ y :: b'` with `a'` all DAYLIGHT and `y` STANDARD -/
theorem dstOffset_cases {dst : Str → Bool} {pre post : List Tr} {cur : Tr} {d : Int}
    (h : dstOffset dst pre.reverse cur post = some d) :
    (dst cur.name = false → d = 0) ∧
    (dst cur.name = true → ∀ a x b, pre = a ++ x :: b → (∀ y ∈ b, dst y.name = true) → dst x.name = false →
      (cur.osto ≠ x.osto → d = cur.osto - x.osto) ∧
      (cur.osto = x.osto →
        (∀ a' y b', post = a' ++ y :: b' → (∀ z ∈ a', dst z.name = true) → dst y.name = false →
          d = cur.osto - y.osto) ∧
        ((∀ z ∈ post, dst z.name = true) → d = 0))) ∧
    (dst cur.name = true → (∀ y ∈ pre, dst y.name = true) →
      ∀ a' y b', post = a' ++ y :: b' → (∀ z ∈ a', dst z.name = true) → dst y.name = false →
        d = cur.osto - y.osto) := by
  have hafter : dst cur.name = true → ∀ a' y b', post = a' ++ y :: b' → (∀ z ∈ a', dst z.name = true) →
      dst y.name = false → firstStd dst (cur :: post) = some y.osto := by
    intro hc a' y b' hp ha' hy
    rw [hp]
    exact firstStd_of_split (a := cur :: a') (by
      intro z hz; rcases List.mem_cons.mp hz with rfl | hz
      · exact hc
      · exact ha' z hz) hy
  have hafter_none : dst cur.name = true → (∀ z ∈ post, dst z.name = true) → firstStd dst (cur :: post) = none := by
    intro hc hp
    exact firstStd_none.mpr (by
      intro z hz; rcases List.mem_cons.mp hz with rfl | hz
      · exact hc
      · exact hp z hz)
  refine ⟨?_, ?_, ?_⟩
  · intro hc; exact dstOffset_std h hc
  · intro hc a x b hpre hb hx
    have hbef : firstStd dst pre.reverse = some x.osto := by
      rw [hpre, List.reverse_append, List.reverse_cons, List.append_assoc]
      exact firstStd_of_split (by intro y hy; exact hb y (by simpa using hy)) hx
    unfold dstOffset at h
    simp only [hc, Bool.not_true, Bool.false_eq_true, if_false, hbef] at h
    constructor
    · intro hne
      have : cur.osto - x.osto ≠ 0 := by omega
      simp only [ne_eq, this, not_false_eq_true, if_true, Option.some.injEq] at h
      exact h.symm
    · intro heq
      have : ¬ (cur.osto - x.osto ≠ 0) := by omega
      simp only [this, if_false] at h
      constructor
      · intro a' y b' hp ha' hy
        rw [hafter hc a' y b' hp ha' hy] at h
        simp only [Option.some.injEq] at h
        exact h.symm
      · intro hp
        rw [hafter_none hc hp] at h
        simp only [Option.some.injEq] at h
        exact h.symm
  · intro hc hpre a' y b' hp ha' hy
    have hbef : firstStd dst pre.reverse = none :=
      firstStd_none.mpr (by intro z hz; exact hpre z (by simpa using hz))
    unfold dstOffset at h
    simp only [hc, Bool.not_true, Bool.false_eq_true, if_false, hbef, hafter hc a' y b' hp ha' hy,
      Option.some.injEq] at h
    exact h.symm

/-- generated names are the candidates themselves when the candidates are pairwise distinct and
    not taken -/
def autosOf : List ObsIn → List Str
  | [] => []
  | o :: os => if o.tzname.isNone then o.auto :: autosOf os else autosOf os

theorem genNames_eq_autos : ∀ (os : List ObsIn) (taken : List Str), (autosOf os).Nodup →
    (∀ n ∈ autosOf os, n ∉ taken) → genNames os (resolveNames os taken) = autosOf os := by
  intro os
  induction os with
  | nil => intro _ _ _; rfl
  | cons o os ih =>
    intro taken hnd hdis
    unfold resolveNames
    split
    · next nm h =>
      simp only [autosOf, h, Option.isNone_some, Bool.false_eq_true, if_false] at hnd hdis ⊢
      simp only [genNames, h, Option.isNone_some, Bool.false_eq_true, if_false]
      exact ih taken hnd hdis
    · next h =>
      simp only [autosOf, h, Option.isNone_none, if_true] at hnd hdis ⊢
      simp only [genNames, h, Option.isNone_none, if_true]
      have hk : makeUnique (taken.length + 1) o.auto taken = o.auto :=
        makeUnique_keep _ _ _ (hdis _ (by simp))
      rw [hk]
      rw [List.nodup_cons] at hnd
      congr 1
      apply ih _ hnd.2
      intro n hn hm
      rcases List.mem_cons.mp hm with rfl | hm
      · exact hnd.1 hn
      · exact hdis n (List.mem_cons_of_mem _ hn) hm

end ICal.Tz
