/-
  Equality of the regenerated `CaselessDict.update` / `__init__` / `copy` (ICal/Gen/BodiesCDictMeta.lean, tools/py2lean.py
  wave 8: `*args` / `**kwargs`, `list(args) + [kwargs]`, the loop over the mappings with `hasattr(mapping, 'items')`, the
  inner loop `self[key] = value`; `super().__init__(..)` followed by the re-keying loop over `self.items()`;
  `type(self)(super().copy())`) with the hand model `cdUpdate` / `cdInit` / `cdCopy` of ICal/Model/CDict.lean.
-/
import ICal.Model.CDictInitPieces
import ICal.Lemmas.CDict
set_option linter.unusedSimpArgs false
set_option linter.unusedVariables false
namespace ICal.Bodies
open ICal ICal.PyRT ICal.CDict ICal.Gen.BodiesCDictMeta

variable {V : Type}

/-! ### update -/

theorem update_loop2_eq (up : Str → Str) : ∀ (l : List (Str × V)) (s : Store V),
    cd_update_loop2 (cdSetitem up) s l = .ok (cdUpdate up s l)
  | [], s => by simp [cd_update_loop2, cdUpdate, pure, Except.pure]
  | p :: r, s => by
    simp only [cd_update_loop2, update_loop2_eq up r, cdUpdate, List.foldl_cons]

theorem cdUpdate_append (up : Str → Str) (s : Store V) (a b : List (Str × V)) :
    cdUpdate up s (a ++ b) = cdUpdate up (cdUpdate up s a) b := by
  simp [cdUpdate, List.foldl_append]

theorem update_loop1_eq (up : Str → Str) : ∀ (ms : List (MapArg V)) (s : Store V),
    cd_update_loop1 MapArg.hasItems itemsIterP mapPairsP (cdSetitem up) s ms = .ok (cdUpdate up s (ms.flatMap (·.pairs)))
  | [], s => by simp [cd_update_loop1, cdUpdate, pure, Except.pure]
  | m :: r, s => by
    have hp : mapPairsP (if m.hasItems = true then itemsIterP m else m) = .ok m.pairs := by
      cases m.hasItems <;> simp [mapPairsP, itemsIterP]
    simp only [cd_update_loop1, hp, bind, Except.bind, update_loop2_eq, update_loop1_eq up r, List.flatMap_cons,
      cdUpdate_append]

/-- regenerated `update` = the model's `cdUpdate` over the pairs of the positional mappings, then of the keywords -/
theorem cdUpdateP_eq (tu : Str → Str) (s : Store V) (args : List (MapArg V)) (kw : MapArg V) :
    cdUpdateP tu s args kw = .ok (cdUpdate (foldKey tu) s (allPairs args kw)) := by
  simp only [cdUpdateP, cd_update, update_loop1_eq, bind, Except.bind, pure, Except.pure, allPairs]

/-! ### __init__ -/

/-- one iteration of the re-keying loop of the hand model -/
def rekeyStep (up : Str → Str) (m : Store V) (p : Str × V) : Store V :=
  if p.1 ≠ up p.1 then cdSetitem up (odErase m p.1) (up p.1) p.2 else m

/-- the regenerated loop body IS the model's step, as long as the deletion finds its key -/
theorem init_loop_eq (tu : Str → Str) : ∀ (l : List (Str × V)) (m : Store V),
    cd_init_loop1 tu (fun s k => .ok (odErase s k)) (cdSetitem (foldKey tu)) m l = .ok (l.foldl (rekeyStep (foldKey tu)) m)
  | [], m => by simp [cd_init_loop1, pure, Except.pure]
  | p :: r, m => by
    simp only [cd_init_loop1, List.foldl_cons, rekeyStep]
    by_cases h : p.1 = upper (tu p.1)
    · have hb : (p.1 != upper (tu p.1)) = false := by simp [h.symm]
      have hn : ¬ (p.1 ≠ foldKey tu p.1) := by simp [foldKey, h.symm]
      simp only [hb, hn, if_false, Bool.false_eq_true, bind, Except.bind, pure, Except.pure]
      exact init_loop_eq tu r m
    · have hb : (p.1 != upper (tu p.1)) = true := by simpa using h
      have hn : p.1 ≠ foldKey tu p.1 := by simpa [foldKey] using h
      simp only [hb, hn, if_true, bind, Except.bind, pure, Except.pure, ne_eq, not_false_eq_true]
      exact init_loop_eq tu r _

/-- on entries whose keys are folded the loop does nothing, whatever the deletion would do -/
theorem init_loop_noop (tu : Str → Str) (del : Store V → Str → Py (Store V)) : ∀ (l : List (Str × V)) (m : Store V),
    (∀ k ∈ odKeys l, foldKey tu k = k) → cd_init_loop1 tu del (cdSetitem (foldKey tu)) m l = .ok m
  | [], m, _ => by simp [cd_init_loop1, pure, Except.pure]
  | p :: r, m, h => by
    have hp : upper (tu p.1) = p.1 := h p.1 (by simp [odKeys])
    have hb : (p.1 != upper (tu p.1)) = false := by simp [hp]
    simp only [cd_init_loop1, hb, if_false, Bool.false_eq_true, bind, Except.bind, pure, Except.pure]
    exact init_loop_noop tu del r m (fun k hk => h k (by simp [odKeys] at hk ⊢; exact Or.inr hk))

/-- regenerated `__init__` with a deletion that finds its key = the model's `cdInit` (no hypothesis on `up`) -/
theorem cd_init_model (tu : Str → Str) (args : List (MapArg V)) (kw : MapArg V) :
    cd_init (self_ := ([] : Store V)) (args := args) (kwargs := kw) (super_init := superInitP tu) (items := fun s => s)
      (to_unicode := tu) (super_delitem := fun s k => .ok (odErase s k)) (set_item := cdSetitem (foldKey tu)) =
      .ok (cdInit (foldKey tu) (allPairs args kw)) := by
  simp only [cd_init, superInitP, bind, Except.bind, pure, Except.pure, init_loop_eq, cdInit, cdRekey]
  rfl

/-- regenerated `__init__` with the dict's own deletion (KeyError without the key): never raises -/
theorem cdInitP_eq (tu : Str → Str) (up_idem : ∀ k, foldKey tu (foldKey tu k) = foldKey tu k) (args : List (MapArg V)) (kw : MapArg V) :
    cdInitP tu args kw = .ok (cdInit (foldKey tu) (allPairs args kw)) := by
  have hinv := (inv_cdUpdate (up := foldKey tu) up_idem (allPairs args kw) (inv_nil (V := V))).2
  simp only [cdInitP, cd_init, superInitP, bind, Except.bind, pure, Except.pure]
  rw [init_loop_noop tu superDelitemP _ _ hinv]
  simp only [cdInit, cdRekey_noop hinv]

/-! ### copy -/

theorem cdCopyP_eq (tu : Str → Str) (up_idem : ∀ k, foldKey tu (foldKey tu k) = foldKey tu k) (s : Store V) :
    cdCopyP tu s = .ok (cdCopy (foldKey tu) s) := by
  simp only [cdCopyP, cd_copy, bind, Except.bind, pure, Except.pure, cdInitP_eq tu up_idem, allPairs, cdCopy]
  simp

end ICal.Bodies
