/-
  Equality of the regenerated typed dispatchers of prop.py (ICal/Gen/BodiesDec.lean, ICal/Gen/Bodies.lean, tools/py2lean.py)
  with the hand model of ICal/Model/Codec.lean:
  `vDDDTypes.from_ical` - the ORDER of its tests: duration prefix (`P`, `-P`, `+P` of the upper-cased text), then a
  slash (period), then the length 15 / 16 (datetime), 8 (date), 6 / 7 (time), else ValueError - is `dddCore` / `dddFrom`;
  `vPeriod.from_ical` (`a, b = ical.split('/')`, both parts through the dispatcher, every failure a ValueError) is
  `vPeriodFrom`.  The two call each other in the source; each is translated with the other as a parameter and the knot
  is tied in ICal/Model/DDDPieces.lean (`ddd_inner_indep`: on a text without '/' the dispatcher ignores that parameter).
  `vDDDTypes.to_ical` (instance tests in the order datetime, date, timedelta, time, tuple; a value of the union `PyDDD`
  is narrowed by each test) is `atomTo`, `vPeriod.to_ical` is `vPeriodTo`.  The UTC flag of a datetime is not among the
  fields of `PyDateTime`: it comes back through the parameter for `tzid_from_dt` (`TzAgrees`).
-/
import ICal.Model.DDDPieces
import ICal.Lemmas.BodiesDec
import ICal.Lemmas.Bodies
set_option linter.unusedSimpArgs false
namespace ICal.Bodies
open ICal ICal.PyRT ICal.Gen.BodiesDec ICal.Gen.Bodies

/-- what the translated code holds for a value of the model -/
def dtPy (lu : PyDateTime → PyDateTime) (p : PDateTime) : PyDateTime :=
  if p.utc then lu (dateTimeOf { p with utc := false }) else dateTimeOf p
def atomPy (lu : PyDateTime → PyDateTime) : Atom → PyDDD
  | .date d => .date (dateOf d)
  | .dt t => .dt (dtPy lu t)
  | .time t => .time (timeOf t)
  | .dur s => .dur (TD.ofSeconds s)
def dddPy (lu : PyDateTime → PyDateTime) : DDD → PyDDD
  | .atom a => atomPy lu a
  | .period a b => .period (atomPy lu a) (atomPy lu b)

/-- the dispatcher, for any period decoder that agrees with a decoder of the model -/
theorem ddd_core_eq (lu : PyDateTime → PyDateTime) (per : Str → Unit → Py (PyDDD × PyDDD)) (perM : Str → CRes DDD)
    (h : ∀ s, (per s () >>= fun r => (pure (PyDDD.period r.1 r.2) : Py PyDDD)) = liftRes (dddPy lu) (perM s)) (t : Str) :
    vDDDTypes_from_ical (ical := t) (m_of := durGroups) (period_from_ical := per) (localize_utc := lu) =
      liftRes (dddPy lu) (dddCore perM t) := by
  unfold vDDDTypes_from_ical dddCore
  simp only [vDuration_from_ical_eq, vDatetime_from_ical_eq, vDate_from_ical_eq, vTime_from_ical_eq]
  by_cases hp : (startsWith (upper t) ['P'] || startsWith (upper t) ['-', 'P'] || startsWith (upper t) ['+', 'P']) = true
  · simp only [hp, if_true]
    cases durFromE t with
    | error e => cases e <;> rfl
    | ok v => rfl
  · simp only [hp, if_false, Bool.false_eq_true]
    by_cases hs : (upper t).contains '/' = true
    · simp only [hs, if_true]
      exact h t
    · simp only [hs, if_false, Bool.false_eq_true]
      have hl : strLen t = (t.length : Int) := rfl
      by_cases h15 : t.length = 15 ∨ t.length = 16
      · have : (([(15 : Int), (16 : Int)] : List Int).contains (strLen t)) = true := by
          rcases h15 with h | h <;> simp [hl, h]
        simp only [this, h15, if_true]
        cases vDatetimeFrom t with
        | error e => cases e <;> rfl
        | ok v => rfl
      · have : (([(15 : Int), (16 : Int)] : List Int).contains (strLen t)) = false := by
          simp [hl]; omega
        simp only [this, h15, if_false, Bool.false_eq_true]
        by_cases h8 : t.length = 8
        · have : (strLen t == (8 : Int)) = true := by simp [hl, h8]
          simp only [this, h8, if_true]
          cases vDateFrom t with
          | error e => cases e <;> rfl
          | ok v => rfl
        · have : (strLen t == (8 : Int)) = false := by simp [hl]; omega
          simp only [this, h8, if_false, Bool.false_eq_true]
          by_cases h6 : t.length = 6 ∨ t.length = 7
          · have : (([(6 : Int), (7 : Int)] : List Int).contains (strLen t)) = true := by
              rcases h6 with h | h <;> simp [hl, h]
            simp only [this, h6, if_true]
            cases vTimeFrom t with
            | error e => cases e <;> rfl
            | ok v => rfl
          · have : (([(6 : Int), (7 : Int)] : List Int).contains (strLen t)) = false := by
              simp [hl]; omega
            simp only [this, h6, if_false, Bool.false_eq_true]
            rfl

theorem ddd_inner_eq (lu : PyDateTime → PyDateTime) (t : Str) :
    dddInnerP lu t = liftRes (dddPy lu) (dddCore (fun _ => .error .valueError) t) :=
  ddd_core_eq lu _ _ (fun _ => rfl) t

/-- a part without '/' never reaches the period branch: the dispatcher does not look at its period parameter -/
theorem ddd_inner_indep (lu : PyDateTime → PyDateTime) (per per' : Str → Unit → Py (PyDDD × PyDDD)) (t : Str)
    (h : (upper t).contains '/' = false) :
    vDDDTypes_from_ical (ical := t) (m_of := durGroups) (period_from_ical := per) (localize_utc := lu) =
      vDDDTypes_from_ical (ical := t) (m_of := durGroups) (period_from_ical := per') (localize_utc := lu) := by
  unfold vDDDTypes_from_ical
  simp only [h, Bool.false_eq_true, if_false]

theorem dddCore_fail_atom (t : Str) (d : DDD) (h : dddCore (fun _ => .error .valueError) t = .ok d) : ∃ x, d = .atom x := by
  unfold dddCore at h
  simp only at h
  split at h
  · cases hd : durFromE t <;> simp [hd, Except.map] at h; exact ⟨_, h.symm⟩
  · split at h
    · simp at h
    · split at h
      · cases hd : vDatetimeFrom t <;> simp [hd, Except.map] at h; exact ⟨_, h.symm⟩
      · split at h
        · cases hd : vDateFrom t <;> simp [hd, Except.map] at h; exact ⟨_, h.symm⟩
        · split at h
          · cases hd : vTimeFrom t <;> simp [hd, Except.map] at h; exact ⟨_, h.symm⟩
          · simp at h

/-- `vPeriod.from_ical(t)`: the pair of what the dispatcher makes of the two parts; every failure is ValueError -/
theorem period_eq (lu : PyDateTime → PyDateTime) (t : Str) :
    (periodFromP lu t >>= fun r => (pure (PyDDD.period r.1 r.2) : Py PyDDD)) = liftRes (dddPy lu) (vPeriodFrom t) := by
  unfold periodFromP vPeriod_from_ical vPeriodFrom
  simp only [ddd_inner_eq]
  cases hs : splitOnChar '/' t with
  | nil => rfl
  | cons a l1 =>
    cases l1 with
    | nil => rfl
    | cons b l2 =>
      cases l2 with
      | cons c l3 => rfl
      | nil =>
        simp only [listUnpack2, bind, Except.bind]
        cases ha : dddCore (fun _ => .error .valueError) a with
        | error e => cases e <;> rfl
        | ok x =>
          obtain ⟨xa, rfl⟩ := dddCore_fail_atom a x ha
          cases hb : dddCore (fun _ => .error .valueError) b with
          | error e => cases e <;> rfl
          | ok y =>
            obtain ⟨ya, rfl⟩ := dddCore_fail_atom b y hb
            rfl

/-- the translated `vDDDTypes.from_ical` (with the translated `vPeriod.from_ical`, `vDuration` / `vDatetime` / `vDate` /
    `vTime.from_ical`) is the model's `dddFrom` -/
theorem ddd_from_eq (lu : PyDateTime → PyDateTime) (t : Str) : dddFromP lu t = liftRes (dddPy lu) (dddFrom t) :=
  ddd_core_eq lu _ _ (period_eq lu) t

/-- the UTC flag of the model's datetimes comes back through `tzid_from_dt` -/
def TzAgrees (tz : PyDateTime → Option Str) : Atom → Prop
  | .dt t => t.utc = (tz (dateTimeOf t) == some UTC)
  | _ => True

/-- the translated `vDDDTypes.to_ical` on an atom is the model's `atomTo` (isinstance dispatch: datetime before date) -/
theorem atom_to_eq (tz : PyDateTime → Option Str) (a : Atom) (h : TzAgrees tz a) : atomToP tz a = .ok (atomTo a) := by
  unfold atomToP vDDDTypes_to_ical
  cases a with
  | date d => simp [atomObj, atomTo, pure, Except.pure]; exact vDate_to_ical_eq d
  | dt t => simp [atomObj, atomTo, pure, Except.pure]; exact vDatetime_to_ical_eq t _ h
  | time t => simp [atomObj, atomTo, pure, Except.pure, timeToP, vTimeTo]
  | dur s => simp [atomObj, atomTo, pure, Except.pure]; exact vDuration_of_seconds s

/-- the translated `vPeriod.to_ical` is the model's `vPeriodTo` -/
theorem period_to_eq (tz : PyDateTime → Option Str) (a b : Atom) (ha : TzAgrees tz a) (hb : TzAgrees tz b) :
    periodToP tz a b = .ok (vPeriodTo a b) := by
  have h1 := atom_to_eq tz a ha
  have h2 := atom_to_eq tz b hb
  unfold atomToP at h1 h2
  unfold periodToP vPeriod_to_ical vPeriodTo
  cases b with
  | dur s =>
    simp only [isDurAtom, if_true, Truthy.truthy, durSeconds]
    rw [h1]
    simp [bind, Except.bind, pure, Except.pure, atomTo, vDuration_of_seconds]
  | date d => simp only [isDurAtom] ; rw [h1, h2]; simp [Truthy.truthy, bind, Except.bind, pure, Except.pure]
  | dt d => simp only [isDurAtom] ; rw [h1, h2]; simp [Truthy.truthy, bind, Except.bind, pure, Except.pure]
  | time d => simp only [isDurAtom] ; rw [h1, h2]; simp [Truthy.truthy, bind, Except.bind, pure, Except.pure]

end ICal.Bodies
