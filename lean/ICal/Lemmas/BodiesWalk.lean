/-
  Equality of the regenerated `Component._walk` / `Component.walk` (ICal/Gen/BodiesWalk.lean,
  tools/py2lean.py: recursion over the component tree, the loop over `self.subcomponents` with
  `result += subcomponent._walk(name, select)`, the optional name, the function argument `select`)
  with the hand model `walkAux` / `walk` of ICal/Model/Walk.lean.
-/
import ICal.Gen.BodiesWalk
import ICal.Model.Walk
set_option linter.unusedSimpArgs false
namespace ICal.Bodies
open ICal ICal.PyRT ICal.Gen.BodiesWalk

mutual
theorem Component__walk_eq (name : Option Str) (sel : Comp → Bool) :
    ∀ c, Component__walk c name sel = walkAux name sel c
  | .mk n p subs => by
    simp only [Component__walk, walkAux, Component__walk_loop_eq name sel subs]
    cases name with
    | none => simp
    | some k =>
      by_cases h : n = k <;> simp [h]
theorem Component__walk_loop_eq (name : Option Str) (sel : Comp → Bool) :
    ∀ (l : List Comp) (acc : List Comp), Component__walk_loop1 name sel acc l = acc ++ walkAuxL name sel l
  | [], acc => by simp [Component__walk_loop1, walkAuxL]
  | c :: cs, acc => by
    simp only [Component__walk_loop1, walkAuxL, Component__walk_eq name sel c, Component__walk_loop_eq name sel cs]
    simp
end

theorem Component_walk_eq (name : Option Str) (sel : Comp → Bool) (c : Comp) :
    Component_walk c name sel = walk name sel c := by
  obtain ⟨n, p, subs⟩ := c
  cases name <;> simp [Component_walk, walk, Component__walk_eq]

end ICal.Bodies
