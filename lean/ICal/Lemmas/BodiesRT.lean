/-
  Facts about the wave-3 runtime of the translated bodies (ICal/Model/PyRT.lean): int-indexed slicing
  and indexing on natural-number arguments are `List.drop` / `List.take` / `getElem`.
-/
import ICal.Model.PyRT
namespace ICal.Bodies
open ICal ICal.PyRT

theorem clampIdx_nat (n a : Nat) : clampIdx n (a : Int) = min a n := by
  have : ¬ ((a : Int) < 0) := by omega
  simp [clampIdx, this]

theorem pySliceFromI_nat (s : Str) (a : Nat) : pySliceFromI s (a : Int) = s.drop a := by
  simp only [pySliceFromI, clampIdx_nat]
  by_cases h : a ≤ s.length
  · rw [Nat.min_eq_left h]
  · have h' : s.length ≤ a := by omega
    rw [Nat.min_eq_right h', List.drop_of_length_le (Nat.le_refl _), List.drop_of_length_le h']

theorem pySliceI_nat (s : Str) (a b : Nat) : pySliceI s (a : Int) (b : Int) = (s.drop a).take (b - a) := by
  simp only [pySliceI, clampIdx_nat]
  by_cases h : a ≤ s.length
  · rw [Nat.min_eq_left h]
    by_cases hb : b ≤ s.length
    · rw [Nat.min_eq_left hb]
    · have hb' : s.length ≤ b := by omega
      rw [Nat.min_eq_right hb', List.take_of_length_le (by simp), List.take_of_length_le (by simp; omega)]
  · have h' : s.length ≤ a := by omega
    rw [Nat.min_eq_right h', List.drop_of_length_le (Nat.le_refl _), List.drop_of_length_le h']
    simp

theorem strIndex_nat (s : Str) (n : Nat) (c : Char) (tl : Str) (h : s.drop n = c :: tl) :
    strIndex s (n : Int) = .ok c := by
  have hlt : n < s.length := by
    by_cases hn : n < s.length
    · exact hn
    · rw [List.drop_of_length_le (by omega)] at h; cases h
  have h1 : ¬ ((n : Int) < -(s.length : Int) ∨ (n : Int) ≥ (s.length : Int)) := by omega
  have hg : s[n]? = some c := by
    have := List.getElem?_drop (xs := s) (i := n) (j := 0)
    rw [h] at this; simpa using this.symm
  simp only [strIndex, h1, if_false, clampIdx_nat, Nat.min_eq_left (Nat.le_of_lt hlt), hg]

theorem strLen_eq (s : Str) : strLen s = (s.length : Int) := rfl

end ICal.Bodies
