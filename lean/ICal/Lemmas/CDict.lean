import ICal.Model.CDict
namespace ICal
namespace CDict

/-! ## ordered-dictionary primitives -/
section prim
variable {V : Type}

@[simp] theorem odKeys_nil : odKeys ([] : Store V) = [] := rfl
@[simp] theorem odKeys_cons (p : Str × V) (s : Store V) : odKeys (p :: s) = p.1 :: odKeys s := rfl
@[simp] theorem odKeys_append (a b : Store V) : odKeys (a ++ b) = odKeys a ++ odKeys b := by
  simp [odKeys]

theorem odGet_isSome (s : Store V) (k : Str) : (odGet s k).isSome = true ↔ k ∈ odKeys s := by
  induction s with
  | nil => simp [odGet]
  | cons p r ih =>
    obtain ⟨k', v⟩ := p
    by_cases h : k' = k
    · simp [odGet, h]
    · have h' : ¬ k = k' := fun e => h e.symm
      simp [odGet, h, h', ih]

theorem odHas_iff (s : Store V) (k : Str) : odHas s k = true ↔ k ∈ odKeys s := by
  unfold odHas; exact odGet_isSome s k

theorem odGet_none (s : Store V) (k : Str) : odGet s k = none ↔ k ∉ odKeys s := by
  rw [← odGet_isSome]; cases odGet s k <;> simp

theorem odSet_not_mem (s : Store V) (k : Str) (v : V) (h : k ∉ odKeys s) :
    odSet s k v = s ++ [(k, v)] := by
  induction s with
  | nil => simp [odSet]
  | cons p r ih =>
    obtain ⟨k', v'⟩ := p
    simp at h
    have h1 : ¬ k' = k := fun e => h.1 e.symm
    simp [odSet, h1, ih h.2]

/-- first-insertion order: writing an existing key keeps the key list, a new key goes last -/
theorem odKeys_odSet (s : Store V) (k : Str) (v : V) :
    odKeys (odSet s k v) = if k ∈ odKeys s then odKeys s else odKeys s ++ [k] := by
  induction s with
  | nil => simp [odSet]
  | cons p r ih =>
    obtain ⟨k', v'⟩ := p
    by_cases h : k' = k
    · simp [odSet, h]
    · have h' : ¬ k = k' := fun e => h e.symm
      simp only [odSet, h, if_false, odKeys_cons, ih, List.mem_cons, h', false_or]
      split <;> simp

theorem mem_odKeys_odSet (s : Store V) (k : Str) (v : V) (x : Str) :
    x ∈ odKeys (odSet s k v) ↔ x ∈ odKeys s ∨ x = k := by
  rw [odKeys_odSet]; split
  · constructor
    · exact Or.inl
    · rintro (h | h)
      · exact h
      · subst h; assumption
  · simp

theorem odGet_odSet (s : Store V) (k : Str) (v : V) (x : Str) :
    odGet (odSet s k v) x = if k = x then some v else odGet s x := by
  induction s with
  | nil => simp [odSet, odGet]
  | cons p r ih =>
    obtain ⟨k', v'⟩ := p
    by_cases h : k' = k
    · subst h
      by_cases hx : k' = x <;> simp [odSet, odGet, hx]
    · by_cases hx : k' = x
      · subst hx; simp [odSet, odGet, h, Ne.symm h]
      · simp [odSet, odGet, h, hx, ih]

theorem odErase_sublist (s : Store V) (k : Str) : (odErase s k).Sublist s := by
  induction s with
  | nil => simp [odErase]
  | cons p r ih =>
    obtain ⟨k', v'⟩ := p
    by_cases h : k' = k
    · simp [odErase, h]
    · simp [odErase, h, ih]

theorem odKeys_sublist {a b : Store V} (h : a.Sublist b) : (odKeys a).Sublist (odKeys b) :=
  h.map _

theorem not_mem_odErase (s : Store V) (k : Str) (h : (odKeys s).Nodup) : k ∉ odKeys (odErase s k) := by
  induction s with
  | nil => simp [odErase]
  | cons p r ih =>
    obtain ⟨k', v'⟩ := p
    simp at h
    by_cases e : k' = k
    · subst e; simp [odErase]; exact h.1
    · have e' : ¬ k = k' := fun x => e x.symm
      simp [odErase, e, e']; exact ih h.2

theorem odGet_of_mem (s : Store V) (h : (odKeys s).Nodup) (k : Str) (v : V) (hm : (k, v) ∈ s) :
    odGet s k = some v := by
  induction s with
  | nil => simp at hm
  | cons p r ih =>
    obtain ⟨k', v'⟩ := p
    simp at h
    rcases List.mem_cons.mp hm with e | hm'
    · cases e; simp [odGet]
    · have : k ∈ odKeys r := List.mem_map.mpr ⟨(k, v), hm', rfl⟩
      have ne : ¬ k' = k := fun e => h.1 (e ▸ this)
      simp [odGet, ne, ih h.2 hm']

theorem mem_of_odGet (s : Store V) (k : Str) (v : V) (h : odGet s k = some v) : (k, v) ∈ s := by
  induction s with
  | nil => simp [odGet] at h
  | cons p r ih =>
    obtain ⟨k', v'⟩ := p
    by_cases e : k' = k
    · simp [odGet, e] at h; subst e; subst h; simp
    · simp [odGet, e] at h; exact List.mem_cons_of_mem _ (ih h)

/-- a store with distinct keys is what sequential assignment of its own pairs builds -/
theorem odSetAll_append_nodup (m l : Store V) (h : (odKeys (m ++ l)).Nodup) :
    odSetAll m l = m ++ l := by
  induction l generalizing m with
  | nil => simp [odSetAll]
  | cons p r ih =>
    obtain ⟨k, v⟩ := p
    have hk : k ∉ odKeys m := by
      simp [List.nodup_append] at h
      intro hm; exact (h.2.2 k hm).1 rfl
    have h' : (odKeys ((m ++ [(k, v)]) ++ r)).Nodup := by simpa using h
    have := ih (m ++ [(k, v)]) h'
    simp only [odSetAll, List.foldl_cons] at this ⊢
    rw [odSet_not_mem m k v hk, this]; simp

theorem odSetAll_nodup (l : Store V) (h : (odKeys l).Nodup) : odSetAll [] l = l := by
  simpa using odSetAll_append_nodup [] l (by simpa using h)

end prim

/-! ## the invariant -/
section inv
variable {V : Type} {up : Str → Str}

theorem inv_nil : Inv up ([] : Store V) := by simp [Inv]

theorem inv_odSet {s : Store V} (h : Inv up s) (k : Str) (v : V) (hk : up k = k) :
    Inv up (odSet s k v) := by
  constructor
  · rw [odKeys_odSet]; split
    · exact h.1
    · next hn =>
      rw [List.nodup_append]
      refine ⟨h.1, by simp, ?_⟩
      intro a ha b hb; simp at hb; subst hb; intro e; subst e; exact hn ha
  · intro x hx
    rcases (mem_odKeys_odSet s k v x).mp hx with h1 | h1
    · exact h.2 x h1
    · subst h1; exact hk

theorem inv_sublist {s t : Store V} (h : Inv up s) (hs : t.Sublist s) : Inv up t :=
  ⟨h.1.sublist (odKeys_sublist hs), fun k hk => h.2 k ((odKeys_sublist hs).subset hk)⟩

theorem inv_odErase {s : Store V} (h : Inv up s) (k : Str) : Inv up (odErase s k) :=
  inv_sublist h (odErase_sublist s k)

theorem inv_cdSetitem (up_idem : ∀ k, up (up k) = up k) {s : Store V} (h : Inv up s) (k : Str) (v : V) :
    Inv up (cdSetitem up s k v) := inv_odSet h (up k) v (up_idem k)

theorem inv_cdUpdate (up_idem : ∀ k, up (up k) = up k) (l : List (Str × V)) {s : Store V} (h : Inv up s) :
    Inv up (cdUpdate up s l) := by
  induction l generalizing s with
  | nil => exact h
  | cons p r ih => exact ih (inv_cdSetitem up_idem h p.1 p.2)

/-- the re-keying loop of `__init__` does nothing on a store whose keys are folded -/
theorem cdRekey_go (l m : Store V) (hl : ∀ k ∈ odKeys l, up k = k) :
    l.foldl (fun m p => if p.1 ≠ up p.1 then cdSetitem up (odErase m p.1) (up p.1) p.2 else m) m = m := by
  induction l generalizing m with
  | nil => rfl
  | cons p r ih =>
    have hp : up p.1 = p.1 := hl p.1 (by simp)
    simp only [List.foldl_cons, hp, ne_eq, not_true_eq_false, if_false]
    exact ih m (fun k hk => hl k (by simp [hk]))

theorem cdRekey_noop {s : Store V} (h : ∀ k ∈ odKeys s, up k = k) : cdRekey up s = s :=
  cdRekey_go s s h

theorem cdUpdate_eq (s : Store V) (l : List (Str × V)) :
    cdUpdate up s l = odSetAll s (l.map (foldPair up)) := by
  simp [cdUpdate, odSetAll, List.foldl_map, cdSetitem, foldPair]

theorem cdInit_eq (up_idem : ∀ k, up (up k) = up k) (l : List (Str × V)) :
    cdInit up l = odSetAll [] (l.map (foldPair up)) := by
  unfold cdInit
  rw [cdRekey_noop (inv_cdUpdate up_idem l inv_nil).2, cdUpdate_eq]

theorem inv_cdInit (up_idem : ∀ k, up (up k) = up k) (l : List (Str × V)) : Inv up (cdInit up l) := by
  unfold cdInit
  rw [cdRekey_noop (inv_cdUpdate up_idem l inv_nil).2]
  exact inv_cdUpdate up_idem l inv_nil

theorem foldPair_map_inv {s : Store V} (h : Inv up s) : s.map (foldPair up) = s := by
  have : ∀ p ∈ s, foldPair up p = p := by
    intro p hp
    have : p.1 ∈ odKeys s := List.mem_map.mpr ⟨p, hp, rfl⟩
    simp [foldPair, h.2 p.1 this]
  calc s.map (foldPair up) = s.map id := List.map_congr_left this
    _ = s := by simp

/-- constructing a CaselessDict from a store that satisfies the invariant reproduces it -/
theorem cdInit_self (up_idem : ∀ k, up (up k) = up k) {s : Store V} (h : Inv up s) : cdInit up s = s := by
  rw [cdInit_eq up_idem, foldPair_map_inv h, odSetAll_nodup s h.1]

theorem cdCopy_self (up_idem : ∀ k, up (up k) = up k) {s : Store V} (h : Inv up s) : cdCopy up s = s := by
  unfold cdCopy; rw [cdInit_self up_idem h, cdInit_self up_idem h]

theorem inv_odSetAll_fold (up_idem : ∀ k, up (up k) = up k) (l : List (Str × V)) {s : Store V} (h : Inv up s) :
    Inv up (odSetAll s (l.map (foldPair up))) := by
  rw [← cdUpdate_eq]; exact inv_cdUpdate up_idem l h

theorem inv_cdFromKeys (up_idem : ∀ k, up (up k) = up k) (ks : List Str) (v : V) :
    Inv up (cdFromKeys up ks v) := by
  unfold cdFromKeys
  suffices ∀ (s : Store V), Inv up s → Inv up (ks.foldl (fun m k => cdSetitem up m k v) s) from this [] inv_nil
  induction ks with
  | nil => intro s h; exact h
  | cons k r ih => intro s h; exact ih _ (inv_cdSetitem up_idem h k v)

theorem inv_moveToEnd {s s' : Store V} (h : Inv up s) (k : Str) (last : Bool)
    (hm : odMoveToEnd s k last = some s') : Inv up s' := by
  unfold odMoveToEnd at hm
  split at hm
  · cases hm
  · next v hv =>
    have hk : k ∈ odKeys s := (odGet_isSome s k).mp (by simp [hv])
    have he := inv_odErase h k
    have hnot := not_mem_odErase s k h.1
    cases Option.some.inj hm
    cases last
    · refine ⟨?_, ?_⟩
      · simpa using ⟨hnot, he.1⟩
      · intro x hx; simp at hx
        rcases hx with e | hx
        · subst e; exact h.2 x hk
        · exact he.2 x hx
    · refine ⟨?_, ?_⟩
      · simp [List.nodup_append]
        exact ⟨he.1, fun a ha e => hnot (e ▸ ha)⟩
      · intro x hx; simp at hx
        rcases hx with hx | e
        · exact he.2 x hx
        · subst e; exact h.2 x hk

theorem inv_step [DecidableEq V] (up_idem : ∀ k, up (up k) = up k) {s : Store V} (h : Inv up s) (op : Op V) :
    Inv up (step up s op).1 := by
  cases op with
  | init args => exact inv_cdInit up_idem args
  | setitem k v => exact inv_cdSetitem up_idem h k v
  | delitem k =>
    simp only [step, cdDelitem]; split
    · exact inv_odErase h _
    · exact h
  | setdefault k v =>
    simp only [step, cdSetdefault]; split
    · exact h
    · exact inv_cdSetitem up_idem h _ v
  | pop k d =>
    simp only [step, cdPop]; split
    · exact inv_odErase h _
    · exact h
  | popitem =>
    simp only [step, cdPopitem]; split
    · exact inv_sublist h (List.dropLast_sublist s)
    · exact h
  | update l => exact inv_cdUpdate up_idem l h
  | copy => simp only [step]; rw [cdCopy_self up_idem h]; exact h
  | or other => exact inv_cdUpdate up_idem other (inv_cdInit up_idem s)
  | ior other => exact inv_cdUpdate up_idem other h
  | ror other => exact inv_cdUpdate up_idem s (inv_cdInit up_idem other)
  | fromkeys ks v => exact inv_cdFromKeys up_idem ks v
  | moveToEnd k last =>
    simp only [step]; split
    · next s' hm => exact inv_moveToEnd h (up k) last hm
    · exact h
  | clear => exact inv_nil
  | _ => exact h

theorem inv_run [DecidableEq V] (up_idem : ∀ k, up (up k) = up k) (ops : List (Op V)) {s : Store V}
    (h : Inv up s) : Inv up (run up s ops).1 := by
  induction ops generalizing s with
  | nil => exact h
  | cons op r ih => exact ih (inv_step up_idem h op)

end inv

/-! ## code-point order on strings -/
section strorder

theorem strLt_asymm : ∀ (a b : Str), strLt a b = true → strLt b a = false := by
  intro a
  induction a with
  | nil => intro b h; cases b <;> simp [strLt] at *
  | cons x xs ih =>
    intro b h
    cases b with
    | nil => simp [strLt] at h
    | cons y ys =>
      simp only [strLt] at h ⊢
      by_cases h1 : x.toNat < y.toNat
      · have : ¬ y.toNat < x.toNat := by omega
        simp [this, h1]
      · by_cases h2 : y.toNat < x.toNat
        · simp [h1, h2] at h
        · simp [h1, h2] at h ⊢; exact ih ys h

theorem strLe_total (a b : Str) : (strLe a b || strLe b a) = true := by
  unfold strLe
  cases h : strLt b a
  · simp
  · simp [strLt_asymm b a h]

/-- negative transitivity of `<` -/
theorem strLt_negtrans : ∀ (c a b : Str), strLt c a = true → strLt c b = true ∨ strLt b a = true := by
  intro c
  induction c with
  | nil =>
    intro a b h
    cases a with
    | nil => simp [strLt] at h
    | cons y ys => cases b <;> simp [strLt]
  | cons x xs ih =>
    intro a b h
    cases a with
    | nil => simp [strLt] at h
    | cons y ys =>
      cases b with
      | nil => simp [strLt]
      | cons z zs =>
        simp only [strLt] at h ⊢
        by_cases h1 : x.toNat < y.toNat
        · by_cases h2 : x.toNat < z.toNat
          · simp [h2]
          · by_cases h3 : z.toNat < x.toNat
            · have : z.toNat < y.toNat := by omega
              simp [this]
            · have e : z.toNat = x.toNat := by omega
              have : z.toNat < y.toNat := by omega
              simp [this]
        · by_cases h1' : y.toNat < x.toNat
          · simp [h1, h1'] at h
          · simp [h1, h1'] at h
            have e : x.toNat = y.toNat := by omega
            by_cases h2 : x.toNat < z.toNat
            · simp [h2]
            · by_cases h3 : z.toNat < x.toNat
              · have : z.toNat < y.toNat := by omega
                simp [this]
              · have hz1 : ¬ z.toNat < y.toNat := by omega
                have hz2 : ¬ y.toNat < z.toNat := by omega
                simp [h2, h3, hz1, hz2]
                exact ih ys zs h

theorem strLe_trans (a b c : Str) (h1 : strLe a b = true) (h2 : strLe b c = true) : strLe a c = true := by
  unfold strLe at *
  cases h : strLt c a
  · rfl
  · rcases strLt_negtrans c a b h with h' | h'
    · simp [h'] at h2
    · simp [h'] at h1

theorem strLe_antisymm : ∀ (a b : Str), strLe a b = true → strLe b a = true → a = b := by
  intro a
  induction a with
  | nil => intro b h1 h2; cases b with
    | nil => rfl
    | cons y ys => simp [strLe, strLt] at h2
  | cons x xs ih =>
    intro b h1 h2
    cases b with
    | nil => simp [strLe, strLt] at h1
    | cons y ys =>
      simp only [strLe, strLt] at h1 h2
      by_cases p : x.toNat < y.toNat
      · have : ¬ y.toNat < x.toNat := by omega
        simp [p] at h2
      · by_cases q : y.toNat < x.toNat
        · simp [q] at h1
        · simp [p, q] at h1 h2
          have e : x = y := Char.toNat_inj.mp (by omega)
          subst e
          rw [ih ys (by simp [strLe, h1]) (by simp [strLe, h2])]

end strorder

/-! ## canonsort_keys -/
section canon

/-- index that `{k: i for i, k in enumerate(order)}` assigns: the LAST occurrence -/
def lastIdx : List Str → Str → Nat
  | [], _ => 0
  | _ :: rest, k => if k ∈ rest then lastIdx rest k + 1 else 0

/-- `order` with only the last occurrence of every name kept -/
def dedupLast : List Str → List Str
  | [] => []
  | k :: rest => if k ∈ rest then dedupLast rest else k :: dedupLast rest

theorem odGet_canonMapGo (ks : List Str) : ∀ (i : Nat) (m : Store Nat) (k : Str),
    odGet (canonMapGo i ks m) k = if k ∈ ks then some (i + lastIdx ks k) else odGet m k := by
  induction ks with
  | nil => intro i m k; simp [canonMapGo]
  | cons x r ih =>
    intro i m k
    simp only [canonMapGo, ih, lastIdx, odGet_odSet]
    by_cases h1 : k ∈ r
    · simp [h1]; omega
    · by_cases h2 : x = k
      · subst h2; simp [h1]
      · have : ¬ k = x := fun e => h2 e.symm
        simp [h1, h2, this]

theorem odHas_canonMap (order : List Str) (k : Str) : odHas (canonMap order) k = decide (k ∈ order) := by
  unfold odHas canonMap
  rw [odGet_canonMapGo]
  by_cases h : k ∈ order <;> simp [h, odGet]

theorem canonIdx_eq (order : List Str) (k : Str) (h : k ∈ order) : canonIdx order k = lastIdx order k := by
  unfold canonIdx canonMap
  rw [odGet_canonMapGo]; simp [h]

theorem lastIdx_inj (l : List Str) (a b : Str) (ha : a ∈ l) (hb : b ∈ l)
    (e : lastIdx l a = lastIdx l b) : a = b := by
  induction l with
  | nil => simp at ha
  | cons x r ih =>
    simp only [lastIdx] at e
    by_cases h1 : a ∈ r
    · by_cases h2 : b ∈ r
      · simp [h1, h2] at e; exact ih h1 h2 e
      · simp [h1, h2] at e
    · by_cases h2 : b ∈ r
      · simp [h1, h2] at e
      · simp [h1] at ha; simp [h2] at hb; rw [ha, hb]

theorem mem_dedupLast (l : List Str) (a : Str) : a ∈ dedupLast l ↔ a ∈ l := by
  induction l with
  | nil => simp [dedupLast]
  | cons x r ih =>
    simp only [dedupLast]
    split
    · next h =>
      rw [ih]; constructor
      · exact List.mem_cons_of_mem _
      · intro h'; rcases List.mem_cons.mp h' with e | h''
        · subst e; exact h
        · exact h''
    · simp [ih]

theorem dedupLast_pairwise (l : List Str) :
    (dedupLast l).Pairwise (fun a b => lastIdx l a < lastIdx l b) := by
  induction l with
  | nil => simp [dedupLast]
  | cons x r ih =>
    have lift : (dedupLast r).Pairwise (fun a b => lastIdx (x :: r) a < lastIdx (x :: r) b) := by
      refine ih.imp_of_mem ?_
      intro a b ha hb hab
      have ha' := (mem_dedupLast r a).mp ha
      have hb' := (mem_dedupLast r b).mp hb
      simp [lastIdx, ha', hb', hab]
    simp only [dedupLast]
    split
    · exact lift
    · next hx =>
      rw [List.pairwise_cons]
      refine ⟨?_, lift⟩
      intro b hb
      have hb' := (mem_dedupLast r b).mp hb
      simp [lastIdx, hx, hb']

theorem dedupLast_nodup (l : List Str) : (dedupLast l).Nodup := by
  have := dedupLast_pairwise l
  refine this.imp ?_
  intro a b h e; subst e; omega

theorem dedupLast_of_nodup (l : List Str) (h : l.Nodup) : dedupLast l = l := by
  induction l with
  | nil => rfl
  | cons x r ih =>
    simp at h
    simp [dedupLast, h.1, ih h.2]

theorem sort_perm_eq {le : Str → Str → Bool}
    (tr : ∀ a b c, le a b = true → le b c = true → le a c = true)
    (tot : ∀ a b, (le a b || le b a) = true)
    (l l' : List Str) (h : l.Perm l')
    (anti : ∀ a b, a ∈ l → b ∈ l → le a b = true → le b a = true → a = b) :
    l.mergeSort le = l'.mergeSort le := by
  apply List.Perm.eq_of_pairwise (le := fun a b => le a b = true)
  · intro a b ha hb h1 h2
    have ha' : a ∈ l := (List.mergeSort_perm l le).mem_iff.mp ha
    have hb' : b ∈ l := h.mem_iff.mpr ((List.mergeSort_perm l' le).mem_iff.mp hb)
    exact anti a b ha' hb' h1 h2
  · exact List.pairwise_mergeSort tr tot l
  · exact List.pairwise_mergeSort tr tot l'
  · exact (List.mergeSort_perm l le).trans (h.trans (List.mergeSort_perm l' le).symm)

theorem canonIdx_anti (order : List Str) (a b : Str) (ha : a ∈ order) (hb : b ∈ order)
    (h1 : canonIdx order a ≤ canonIdx order b) (h2 : canonIdx order b ≤ canonIdx order a) : a = b := by
  rw [canonIdx_eq order a ha, canonIdx_eq order b hb] at h1 h2
  exact lastIdx_inj order a b ha hb (by omega)

/-- the result does not depend on the order in which the keys are given -/
theorem canonsort_perm' (order keys keys' : List Str) (h : keys.Perm keys') :
    canonsort keys order = canonsort keys' order := by
  unfold canonsort
  simp only
  congr 1
  · apply sort_perm_eq
    · intro a b c h1 h2; simp at *; omega
    · intro a b; simp; omega
    · exact h.filter _
    · intro a b ha hb h1 h2
      simp [odHas_canonMap] at ha hb h1 h2
      exact canonIdx_anti order a b ha.2 hb.2 h1 h2
  · exact sort_perm_eq strLe_trans strLe_total _ _ (h.filter _) (fun a b _ _ => strLe_antisymm a b)

theorem canonsort_perm_keys (keys order : List Str) : (canonsort keys order).Perm keys := by
  unfold canonsort
  simp only
  refine ((List.mergeSort_perm _ _).append (List.mergeSort_perm _ _)).trans ?_
  exact List.filter_append_perm _ keys

theorem mem_canonsort (keys order : List Str) (k : Str) : k ∈ canonsort keys order ↔ k ∈ keys :=
  (canonsort_perm_keys keys order).mem_iff

/-- what the code computes: the declared names that occur (a name declared twice counts at its
    last position), then the other names sorted by code point -/
theorem canonsort_spec' (keys order : List Str) (hk : keys.Nodup) :
    canonsort keys order =
      (dedupLast order).filter (fun k => decide (k ∈ keys)) ++
      (keys.filter (fun k => decide (k ∉ order))).mergeSort strLe := by
  unfold canonsort
  simp only
  congr 1
  · apply List.Perm.eq_of_pairwise (le := fun a b => decide (canonIdx order a ≤ canonIdx order b) = true)
    · intro a b ha hb h1 h2
      have ha' := (List.mergeSort_perm _ _).mem_iff.mp ha
      simp [odHas_canonMap] at ha' hb h1 h2
      exact canonIdx_anti order a b ha'.2 ((mem_dedupLast order b).mp hb.1) h1 h2
    · apply List.pairwise_mergeSort
      · intro a b c h1 h2; simp at *; omega
      · intro a b; simp; omega
    · apply List.Pairwise.filter
      refine (dedupLast_pairwise order).imp_of_mem ?_
      intro a b ha hb hab
      rw [canonIdx_eq order a ((mem_dedupLast order a).mp ha), canonIdx_eq order b ((mem_dedupLast order b).mp hb)]
      simp; omega
    · refine (List.mergeSort_perm _ _).trans ?_
      rw [List.perm_ext_iff_of_nodup (hk.filter _) ((dedupLast_nodup order).filter _)]
      intro a
      simp [odHas_canonMap, mem_dedupLast]
      exact And.comm
  · congr 1
    apply List.filter_congr
    intro k _
    simp [odHas_canonMap]

end canon

/-! ## refinement of a plain dictionary keyed by folded names -/
section refine
variable {V : Type} [DecidableEq V] {up : Str → Str}

theorem filterMap_congr' {α β : Type} (f g : α → Option β) (l : List α) (h : ∀ a ∈ l, f a = g a) :
    l.filterMap f = l.filterMap g := by
  induction l with
  | nil => rfl
  | cons a r ih =>
    simp only [List.filterMap_cons, h a (by simp)]
    rw [ih (fun b hb => h b (by simp [hb]))]

theorem step_refines (up_idem : ∀ k, up (up k) = up k) {s : Store V} (h : Inv up s) (op : Op V)
    (hx : excluded up s op = false) : step up s op = stepSpec s (foldOp up op) := by
  cases op with
  | init args => simp [step, stepSpec, foldOp, cdInit_eq up_idem]
  | getitem k => rfl
  | setitem k v => rfl
  | delitem k => rfl
  | contains k => rfl
  | hasKey k => rfl
  | get k d => rfl
  | setdefault k v =>
    simp [step, stepSpec, foldOp, cdSetdefault, cdContains, cdGetitem, cdSetitem, up_idem]
  | pop k d =>
    cases d with
    | some d => rfl
    | none =>
      simp only [excluded, Bool.not_eq_false'] at hx
      have : (odGet s (up k)).isSome = true := hx
      simp only [step, stepSpec, foldOp, cdPop]
      cases hg : odGet s (up k) with
      | none => simp [hg] at this
      | some v => rfl
  | popitem => rfl
  | update l => simp [step, stepSpec, foldOp, cdUpdate_eq]
  | copy => simp [step, stepSpec, foldOp, cdCopy_self up_idem h]
  | eq other => simp [step, stepSpec, foldOp, cdEq, cdInit_eq up_idem]
  | ne other => simp [step, stepSpec, foldOp, cdEq, cdInit_eq up_idem]
  | or other => simp [step, stepSpec, foldOp, cdOr, cdUpdate_eq, cdInit_self up_idem h]
  | ior other => simp [step, stepSpec, foldOp, cdUpdate_eq]
  | ror other =>
    simp [step, stepSpec, foldOp, cdRor, cdUpdate_eq, cdInit_eq up_idem, foldPair_map_inv h]
  | fromkeys ks v =>
    simp [step, stepSpec, foldOp, cdFromKeys, odFromKeys, List.foldl_map, cdSetitem]
  | moveToEnd k last => rfl
  | keys => rfl
  | values => rfl
  | items => rfl
  | len => rfl
  | clear => rfl
  | reversed => rfl
  | sortedKeys order => rfl
  | sortedItems order =>
    simp only [step, stepSpec, foldOp, cdSortedItems]
    congr 2
    apply filterMap_congr'
    intro k hk
    rw [h.2 k ((mem_canonsort _ _ k).mp hk)]

theorem run_refines (up_idem : ∀ k, up (up k) = up k) (ops : List (Op V)) {s : Store V} (h : Inv up s)
    (hx : runExcluded up s ops = false) : run up s ops = runSpec s (ops.map (foldOp up)) := by
  induction ops generalizing s with
  | nil => rfl
  | cons op r ih =>
    simp only [runExcluded, Bool.or_eq_false_iff] at hx
    simp only [run, runSpec, List.map_cons]
    rw [← step_refines up_idem h op hx.1, ih (inv_step up_idem h op) hx.2]

/-- `trace` is `run` observed after every step -/
theorem trace_fst (ops : List (Op V)) (s : Store V) :
    (trace up s ops).map Prod.fst = (run up s ops).2 := by
  induction ops generalizing s with
  | nil => rfl
  | cons op r ih => simp [trace, run, ih]

theorem trace_keys_inv (up_idem : ∀ k, up (up k) = up k) (ops : List (Op V)) {s : Store V} (h : Inv up s) :
    ∀ r ∈ trace up s ops, r.2.Nodup ∧ ∀ k ∈ r.2, up k = k := by
  induction ops generalizing s with
  | nil => intro r hr; simp [trace] at hr
  | cons op rest ih =>
    intro r hr
    simp only [trace, List.mem_cons] at hr
    have h' := inv_step up_idem h op
    rcases hr with e | hr
    · subst e; exact h'
    · exact ih h' r hr

theorem trace_length (ops : List (Op V)) (s : Store V) : (trace up s ops).length = ops.length := by
  induction ops generalizing s with
  | nil => rfl
  | cons op r ih => simp [trace, ih]

end refine

/-! ## equality with mappings -/
section eqmap
variable {V : Type} [DecidableEq V] {up : Str → Str}

theorem dictEq_of_perm {s t : Store V} (ht : (odKeys t).Nodup) (hp : t.Perm s) : dictEq s t = true := by
  unfold dictEq
  simp only [Bool.and_eq_true, beq_iff_eq, List.all_eq_true, decide_eq_true_eq]
  refine ⟨hp.length_eq.symm, ?_⟩
  intro p hp'
  exact odGet_of_mem t ht p.1 p.2 (hp.mem_iff.mpr hp')

/-- `dictEq` on stores with distinct keys is equality of content (as finite maps) -/
theorem dictEq_iff {s t : Store V} (hs : (odKeys s).Nodup) (ht : (odKeys t).Nodup) :
    dictEq s t = true ↔ ∀ k, odGet s k = odGet t k := by
  unfold dictEq
  simp only [Bool.and_eq_true, beq_iff_eq, List.all_eq_true, decide_eq_true_eq]
  constructor
  · rintro ⟨hl, hall⟩ k
    have sub : odKeys s ⊆ odKeys t := by
      intro x hx
      obtain ⟨p, hp, rfl⟩ := List.mem_map.mp hx
      exact (odGet_isSome t p.1).mp (by simp [hall p hp])
    cases hg : odGet s k with
    | some v => exact (hall (k, v) (mem_of_odGet s k v hg)).symm
    | none =>
      have hk : k ∉ odKeys s := (odGet_none s k).mp hg
      symm; rw [odGet_none]
      intro hkt
      have sub' : odKeys s ⊆ (odKeys t).erase k := by
        intro x hx
        have : x ≠ k := fun e => hk (e ▸ hx)
        exact (List.mem_erase_of_ne this).mpr (sub hx)
      have l1 := hs.length_le_of_subset sub'
      have l2 : ((odKeys t).erase k).length = (odKeys t).length - 1 := by
        rw [List.length_erase]; simp [hkt]
      have l3 : (odKeys t).length > 0 := List.length_pos_of_mem hkt
      have l4 : (odKeys s).length = (odKeys t).length := by simp [odKeys, hl]
      omega
  · intro hall
    have memiff : ∀ x, x ∈ odKeys s ↔ x ∈ odKeys t := by
      intro x; rw [← odGet_isSome, ← odGet_isSome, hall x]
    have hperm : (odKeys s).Perm (odKeys t) := (List.perm_ext_iff_of_nodup hs ht).mpr memiff
    refine ⟨by simpa [odKeys] using hperm.length_eq, ?_⟩
    intro p hp
    rw [← hall p.1]
    exact odGet_of_mem s hs p.1 p.2 hp

end eqmap

/-! ## the driver's instance of `up`: ASCII upper-casing is idempotent -/
theorem upperC_idem (c : Char) : upperC (upperC c) = upperC c := by
  unfold upperC
  by_cases h : 'a' ≤ c ∧ c ≤ 'z'
  · simp only [h, and_self, if_true]
    have h1 : 97 ≤ c.toNat := by
      have := h.1; rw [Char.le_def, UInt32.le_iff_toNat_le] at this; exact this
    have h2 : c.toNat ≤ 122 := by
      have := h.2; rw [Char.le_def, UInt32.le_iff_toNat_le] at this; exact this
    have hv : (Char.ofNat (c.toNat - 32)).toNat = c.toNat - 32 := by
      have : (c.toNat - 32).isValidChar := by left; omega
      rw [Char.ofNat, dif_pos this]
      show (UInt32.ofNatLT _ _).toNat = _
      simp [UInt32.toNat_ofNatLT]
    have : ¬ ('a' ≤ Char.ofNat (c.toNat - 32) ∧ Char.ofNat (c.toNat - 32) ≤ 'z') := by
      intro ⟨g, _⟩
      rw [Char.le_def, UInt32.le_iff_toNat_le] at g
      have : (97 : Nat) ≤ (Char.ofNat (c.toNat - 32)).toNat := g
      omega
    simp [this]
  · simp [h]

theorem upper_idem' (k : Str) : upper (upper k) = upper k := by
  simp [upper, List.map_map, Function.comp_def, upperC_idem]

end CDict
end ICal
