/-
  Lemmas for content lines (C05): the placeholder pass escape_string / unescape_string,
  the scanning loop of Contentline.parts, from_parts.
  The generated replace chains are used only through the bridging lemmas of the first section.
-/
import ICal.Model.Line
import ICal.Lemmas.Params
namespace ICal

/-! ## bridging lemmas to the generated chains -/
section bridge

/-- the four placeholder codes written by `escape_string` and read by `unescape_string` -/
def percentCodes : List Str := [['%', '2', 'C'], ['%', '3', 'A'], ['%', '3', 'B'], ['%', '5', 'C']]

/-- the second character of a pattern of `escape_string` -/
def special (c : Char) : Bool := c == ',' || c == ':' || c == ';' || c == BS

theorem escapeString_eq (s : Str) :
    escapeString s = rep2 BS BS ['%', '5', 'C'] (rep2 BS ';' ['%', '3', 'B']
      (rep2 BS ':' ['%', '3', 'A'] (rep2 BS ',' ['%', '2', 'C'] s))) := by
  simp only [escapeString, applyChain, Gen.escapeStringChain, List.foldl_cons, List.foldl_nil,
    replaceAll_two, BS]

theorem unescapeChain_pats : Gen.unescapeStringChain.map Prod.fst = percentCodes := by decide

/-- a character of a NAME token is none of `:` `\` `%` `"` `;` and no line feed -/
theorem tokChar_ne' (c : Char) (h : (isAsciiWord c || Gen.nameExtra.contains c) = true) :
    c ≠ ':' ∧ c ≠ BS ∧ c ≠ '%' ∧ c ≠ LF := by
  refine ⟨?_, ?_, ?_, ?_⟩ <;> (rintro rfl; revert h; decide)

/-- LF is refused inside quoted parameter values -/
theorem qunsafe_LF : inClass Gen.qunsafeChar LF = true := by decide
theorem quotable_BS : inClass Gen.quotable BS = true := by decide

end bridge

/-! ## `str.replace` when the pattern does not occur -/
section occurs

/-- `pat in s` for a non-empty pattern -/
def occurs (pat : Str) : Str → Bool
  | [] => false
  | c :: cs => startsWith (c :: cs) pat || occurs pat cs

theorem replaceAll_go_id (pat rep ptl : Str) : ∀ (fuel : Nat) (s : Str), occurs pat s = false →
    replaceAll.go pat rep ptl fuel s = s := by
  intro fuel
  induction fuel with
  | zero => intro s _; cases s <;> simp [replaceAll.go]
  | succ n ih =>
    intro s h
    cases s with
    | nil => simp [replaceAll.go]
    | cons c cs =>
      simp only [occurs, Bool.or_eq_false_iff] at h
      simp only [replaceAll.go, h.1, Bool.false_eq_true, if_false, ih cs h.2]

theorem replaceAll_id (pat rep s : Str) (h : occurs pat s = false) : replaceAll pat rep s = s := by
  unfold replaceAll
  cases pat with
  | nil => rfl
  | cons p ptl => exact replaceAll_go_id _ rep ptl s.length s h

theorem applyChain_id : ∀ (chain : List (Str × Str)) (s : Str),
    (∀ pr ∈ chain, occurs pr.1 s = false) → applyChain chain s = s := by
  intro chain
  induction chain with
  | nil => intro s _; rfl
  | cons pr r ih =>
    intro s h
    have h1 : replaceAll pr.1 pr.2 s = s := replaceAll_id _ _ _ (h pr (by simp))
    have : applyChain (pr :: r) s = applyChain r (replaceAll pr.1 pr.2 s) := rfl
    rw [this, h1]
    exact ih s (fun q hq => h q (List.mem_cons_of_mem _ hq))

/-- an occurrence starts with the first character of the pattern -/
theorem occurs_false_of_head (p : Char) (ps : Str) : ∀ (s : Str), p ∉ s → occurs (p :: ps) s = false := by
  intro s
  induction s with
  | nil => intro _; rfl
  | cons c cs ih =>
    intro h
    have hc : c ≠ p := fun e => h (by simp [e])
    have hcs : p ∉ cs := fun e => h (by simp [e])
    simp [occurs, startsWith, hc, ih hcs]

end occurs

/-! ## the hazard predicates -/
section hazard

/-- no backslash of `s` is immediately followed by one of `,` `:` `;` `\` -/
def NoPlaceholderPair : Str → Bool
  | [] => true
  | [_] => true
  | c :: d :: cs => !(c == BS && special d) && NoPlaceholderPair (d :: cs)

/-- `s` holds none of the substrings `%2C` `%3A` `%3B` `%5C` -/
def NoPercentCode (s : Str) : Bool := percentCodes.all (fun p => !occurs p s)

/-- neither pass of `parts()` changes `s` -/
def Hazardless (s : Str) : Prop := NoPlaceholderPair s = true ∧ NoPercentCode s = true

instance (s : Str) : Decidable (Hazardless s) := by unfold Hazardless; infer_instance

theorem npp_cons_cons (c d : Char) (cs : Str) :
    NoPlaceholderPair (c :: d :: cs) = (!(c == BS && special d) && NoPlaceholderPair (d :: cs)) := rfl

theorem npp_tail (c : Char) (cs : Str) (h : NoPlaceholderPair (c :: cs) = true) : NoPlaceholderPair cs = true := by
  cases cs with
  | nil => rfl
  | cons d ds => rw [npp_cons_cons] at h; simp only [Bool.and_eq_true] at h; exact h.2

theorem npp_of_noBS : ∀ (s : Str), BS ∉ s → NoPlaceholderPair s = true := by
  intro s
  induction s with
  | nil => intro _; rfl
  | cons c cs ih =>
    intro h
    have hc : c ≠ BS := fun e => h (by simp [e])
    have hcs : BS ∉ cs := fun e => h (by simp [e])
    cases cs with
    | nil => rfl
    | cons d ds => rw [npp_cons_cons, ih hcs]; simp [hc]

theorem npc_of_noPercent (s : Str) (h : '%' ∉ s) : NoPercentCode s = true := by
  simp only [NoPercentCode, percentCodes, List.all_cons, List.all_nil, occurs_false_of_head _ _ s h]
  rfl

theorem rep2_id_of_npp (b : Char) (hb : special b = true) (r : Str) : ∀ (s : Str), NoPlaceholderPair s = true →
    rep2 BS b r s = s := by
  intro s
  induction s with
  | nil => intro _; rfl
  | cons c cs ih =>
    intro h
    cases cs with
    | nil => rfl
    | cons d ds =>
      rw [npp_cons_cons] at h
      simp only [Bool.and_eq_true, Bool.not_eq_true', Bool.and_eq_false_iff, beq_eq_false_iff_ne] at h
      have hne : ¬ (c = BS ∧ d = b) := by
        rintro ⟨rfl, rfl⟩
        rcases h.1 with e | e
        · exact e rfl
        · rw [hb] at e; exact Bool.noConfusion e
      simp only [rep2, hne, if_false, ih h.2]

theorem escapeString_id (s : Str) (h : NoPlaceholderPair s = true) : escapeString s = s := by
  rw [escapeString_eq, rep2_id_of_npp ',' (by decide) _ s h, rep2_id_of_npp ':' (by decide) _ s h,
    rep2_id_of_npp ';' (by decide) _ s h, rep2_id_of_npp BS (by decide) _ s h]

theorem unescapeString_id (s : Str) (h : NoPercentCode s = true) : unescapeString s = s := by
  unfold unescapeString
  apply applyChain_id
  intro pr hpr
  have hm : pr.1 ∈ percentCodes := by
    rw [← unescapeChain_pats]; exact List.mem_map.mpr ⟨pr, hpr, rfl⟩
  unfold NoPercentCode at h
  rw [List.all_eq_true] at h
  simpa using h _ hm

theorem startsWith_iff_prefix : ∀ (s p : Str), startsWith s p = true ↔ p <+: s := by
  intro s
  induction s with
  | nil =>
    intro p
    cases p with
    | nil => simp [startsWith]
    | cons a as => simp [startsWith]
  | cons c cs ih =>
    intro p
    cases p with
    | nil => simp [startsWith]
    | cons a as =>
      simp only [startsWith, Bool.and_eq_true, beq_iff_eq, ih as, List.cons_prefix_cons]
      constructor
      · rintro ⟨rfl, h⟩; exact ⟨rfl, h⟩
      · rintro ⟨rfl, h⟩; exact ⟨rfl, h⟩

/-- `occurs` is the substring test -/
theorem occurs_iff_infix (pat : Str) (hp : pat ≠ []) : ∀ (s : Str), occurs pat s = true ↔ pat <:+: s := by
  intro s
  induction s with
  | nil => simp [occurs, hp]
  | cons c cs ih =>
    simp only [occurs, Bool.or_eq_true, ih, startsWith_iff_prefix, List.infix_cons_iff]

theorem npp_iff_occurs : ∀ (s : Str),
    NoPlaceholderPair s = true ↔ ∀ d, special d = true → occurs [BS, d] s = false := by
  intro s
  induction s with
  | nil => simp [NoPlaceholderPair, occurs]
  | cons c cs ih =>
    cases cs with
    | nil => simp [NoPlaceholderPair, occurs, startsWith]
    | cons e es =>
      rw [npp_cons_cons, Bool.and_eq_true, ih]
      constructor
      · rintro ⟨h1, h2⟩ d hd
        have h2' := h2 d hd
        simp only [occurs, startsWith, Bool.and_true, Bool.or_eq_false_iff] at h2' ⊢
        refine ⟨?_, h2'⟩
        by_cases hc : c = BS
        · by_cases he : e = d
          · subst hc he; simp [hd] at h1
          · simp [he]
        · simp [hc]
      · intro h
        refine ⟨?_, fun d hd => ?_⟩
        · by_cases hs : special e = true
          · have := h e hs
            simp only [occurs, startsWith, Bool.and_true, Bool.or_eq_false_iff, beq_self_eq_true] at this
            simp [this.1]
          · simp [hs]
        · have := h d hd
          simp only [occurs, Bool.or_eq_false_iff] at this ⊢
          exact this.2

/-- `NoPlaceholderPair` in terms of the standard substring relation -/
theorem noPlaceholderPair_iff (s : Str) : NoPlaceholderPair s = true ↔
    ∀ d, (d = ',' ∨ d = ':' ∨ d = ';' ∨ d = '\\') → ¬ ['\\', d] <:+: s := by
  rw [npp_iff_occurs]
  constructor
  · intro h d hd hin
    have hs : special d = true := by rcases hd with e | e | e | e <;> (rw [e]; decide)
    have := h d hs
    rw [← Bool.not_eq_true, occurs_iff_infix _ (by simp)] at this
    exact this hin
  · intro h d hd
    rw [← Bool.not_eq_true, occurs_iff_infix _ (by simp)]
    refine h d ?_
    simp only [special, Bool.or_eq_true, beq_iff_eq] at hd
    rcases hd with ((e | e) | e) | e
    · exact Or.inl e
    · exact Or.inr (Or.inl e)
    · exact Or.inr (Or.inr (Or.inl e))
    · exact Or.inr (Or.inr (Or.inr e))

/-- `NoPercentCode` in terms of the standard substring relation -/
theorem noPercentCode_iff (s : Str) : NoPercentCode s = true ↔
    ¬ ['%', '2', 'C'] <:+: s ∧ ¬ ['%', '3', 'A'] <:+: s ∧ ¬ ['%', '3', 'B'] <:+: s ∧ ¬ ['%', '5', 'C'] <:+: s := by
  simp only [NoPercentCode, percentCodes, List.all_cons, List.all_nil, Bool.and_true, Bool.and_eq_true,
    Bool.not_eq_true', ← Bool.not_eq_true, occurs_iff_infix _ (List.cons_ne_nil _ _)]


end hazard

/-! ## the placeholder pass on concatenations -/
section split

/-- the text does not end in a backslash -/
def NoBSEnd (s : Str) : Prop := s.getLast? ≠ some BS

instance (s : Str) : Decidable (NoBSEnd s) := by unfold NoBSEnd; infer_instance

theorem noBSEnd_nil : NoBSEnd [] := by simp [NoBSEnd]

theorem noBSEnd_append {a b : Str} (ha : NoBSEnd a) (hb : NoBSEnd b) : NoBSEnd (a ++ b) := by
  unfold NoBSEnd at *
  rw [List.getLast?_append]
  cases h : b.getLast? with
  | none => simpa using ha
  | some c => rw [h] at hb; simpa using hb

theorem noBSEnd_append_right (a : Str) {b : Str} (hne : b ≠ []) (hb : NoBSEnd b) : NoBSEnd (a ++ b) := by
  unfold NoBSEnd at *
  rw [List.getLast?_append]
  cases h : b.getLast? with
  | none => rw [List.getLast?_eq_none_iff] at h; exact absurd h hne
  | some c => rw [h] at hb; simpa using hb

theorem noBSEnd_tail {c : Char} {cs : Str} (hne : cs ≠ []) (h : NoBSEnd (c :: cs)) : NoBSEnd cs := by
  unfold NoBSEnd at *
  cases cs with
  | nil => exact absurd rfl hne
  | cons d ds => rwa [List.getLast?_cons_cons] at h

theorem noBSEnd_of_not_mem (s : Str) (h : BS ∉ s) : NoBSEnd s := by
  unfold NoBSEnd
  intro e
  exact h (List.mem_of_getLast? e)

theorem rep2_ne_nil (a b : Char) (r : Str) (hr : r ≠ []) : ∀ (s : Str), s ≠ [] → rep2 a b r s ≠ [] := by
  intro s hs
  match s, hs with
  | [c], _ => simp [rep2]
  | c :: d :: cs, _ =>
    simp only [rep2]
    split <;> simp [hr]

/-- a piece that does not end in the first pattern character is replaced independently of what follows -/
theorem rep2_append (a b : Char) (r : Str) (t : Str) : ∀ (s : Str), s.getLast? ≠ some a →
    rep2 a b r (s ++ t) = rep2 a b r s ++ rep2 a b r t := by
  intro s
  induction s using rep2.induct a b with
  | case1 => intro _; rfl
  | case2 c =>
    intro h
    have hc : c ≠ a := by simpa using h
    simp [rep2, rep2_cons_ne a b c r t hc]
  | case3 c d cs hm ih =>
    intro h
    have : cs.getLast? ≠ some a := by
      cases cs with
      | nil => simp
      | cons e es => simpa [List.getLast?_cons_cons] using h
    simp only [List.cons_append, rep2, hm, and_self, if_true, ih this, List.append_assoc]
  | case4 c d cs hm ih =>
    intro h
    have : (d :: cs).getLast? ≠ some a := by rwa [List.getLast?_cons_cons] at h
    have ih' := ih this
    simp only [List.cons_append] at ih' ⊢
    simp only [rep2, hm, if_false, ih', List.cons_append]

/-- the replacement text `%XX` does not end in a backslash, so neither does the result -/
theorem rep2_noBSEnd (b : Char) (r : Str) (hr : r ≠ []) (hre : NoBSEnd r) : ∀ (s : Str), NoBSEnd s →
    NoBSEnd (rep2 BS b r s) := by
  intro s
  induction s using rep2.induct BS b with
  | case1 => intro h; exact h
  | case2 c => intro h; exact h
  | case3 c d cs hm ih =>
    intro h
    simp only [rep2, hm, and_self, if_true]
    cases cs with
    | nil => simpa [rep2] using hre
    | cons e es =>
      exact noBSEnd_append_right _ (rep2_ne_nil _ _ _ hr _ (by simp)) (ih (by
        unfold NoBSEnd at *; simpa [List.getLast?_cons_cons] using h))
  | case4 c d cs hm ih =>
    intro h
    simp only [rep2, hm, if_false]
    have h' : NoBSEnd (d :: cs) := noBSEnd_tail (by simp) h
    have := ih h'
    have hne : rep2 BS b r (d :: cs) ≠ [] := rep2_ne_nil _ _ _ hr _ (by simp)
    exact noBSEnd_append_right [c] hne this

theorem escapeString_noBSEnd (s : Str) (h : NoBSEnd s) : NoBSEnd (escapeString s) := by
  rw [escapeString_eq]
  refine rep2_noBSEnd _ _ (by simp) (by decide) _ (rep2_noBSEnd _ _ (by simp) (by decide) _
    (rep2_noBSEnd _ _ (by simp) (by decide) _ (rep2_noBSEnd _ _ (by simp) (by decide) _ h)))

/-- `escape_string` works on a piece that does not end in a backslash independently of the rest -/
theorem escapeString_append (s t : Str) (h : NoBSEnd s) :
    escapeString (s ++ t) = escapeString s ++ escapeString t := by
  have h1 := rep2_noBSEnd ',' ['%', '2', 'C'] (by simp) (by decide) s h
  have h2 := rep2_noBSEnd ':' ['%', '3', 'A'] (by simp) (by decide) _ h1
  have h3 := rep2_noBSEnd ';' ['%', '3', 'B'] (by simp) (by decide) _ h2
  simp only [escapeString_eq]
  rw [rep2_append _ _ _ t s h, rep2_append _ _ _ _ _ h1, rep2_append _ _ _ _ _ h2, rep2_append _ _ _ _ _ h3]

/-- a single character other than a backslash is left alone -/
theorem escapeString_single (c : Char) : escapeString [c] = [c] := by
  simp [escapeString_eq, rep2]

theorem escapeString_nil : escapeString [] = [] := by
  simp [escapeString_eq, rep2]

/-- a character other than a backslash in front of the text is left alone -/
theorem escapeString_cons (c : Char) (hc : c ≠ BS) (t : Str) : escapeString (c :: t) = c :: escapeString t := by
  have := escapeString_append [c] t (by simpa [NoBSEnd] using hc)
  rw [escapeString_single] at this
  simpa using this

/-- hazard-free text without a final backslash in front of any text: only the rest is changed -/
theorem escapeString_prefix (s t : Str) (h : NoPlaceholderPair s = true) (he : NoBSEnd s) :
    escapeString (s ++ t) = s ++ escapeString t := by
  rw [escapeString_append s t he, escapeString_id s h]

end split


theorem validToken_tok (k : Str) (hk : validToken k = true) :
    ∀ c ∈ k, (isAsciiWord c || Gen.nameExtra.contains c) = true := by
  unfold validToken at hk
  simp only [Bool.and_eq_true, List.all_eq_true] at hk
  exact hk.2

/-! ## the scanning loop of `parts()` -/
section scan

theorem falsy_none : falsy none = true := rfl

theorem falsy_pos {a : Nat} (h : 0 < a) : falsy (some a) = false := by
  cases a with
  | zero => omega
  | succ k => rfl

/-- once both split points are set (and truthy) they stay -/
theorem scanParts_done : ∀ (s : Str) (i : Nat) (q : Bool) (a b : Nat), 0 < a → 0 < b →
    scanParts s i q (some a) (some b) = (some a, some b) := by
  intro s
  induction s with
  | nil => intros; rfl
  | cons c cs ih =>
    intro i q a b ha hb
    simp only [scanParts, falsy_pos ha, falsy_pos hb, Bool.and_false, Bool.false_eq_true, if_false]
    exact ih _ _ a b ha hb

/-- characters that are none of `:` `;` `"` change nothing before the first split point -/
theorem scanParts_plain (t : Str) : ∀ (n : Str) (i : Nat), (∀ c ∈ n, c ≠ ':' ∧ c ≠ ';' ∧ c ≠ DQ) →
    scanParts (n ++ t) i false none none = scanParts t (i + n.length) false none none := by
  intro n
  induction n with
  | nil => intro i _; simp
  | cons c cs ih =>
    intro i h
    obtain ⟨h1, h2, h3⟩ := h c (by simp)
    have b1 : (c == ':') = false := by simpa using h1
    have b2 : (c == ';') = false := by simpa using h2
    have b3 : (c == DQ) = false := by simpa using h3
    simp only [List.cons_append, scanParts, b1, b2, b3, Bool.or_self, Bool.and_false,
      Bool.false_eq_true, if_false, Bool.false_and]
    rw [ih (i + 1) (fun d hd => h d (List.mem_cons_of_mem _ hd))]
    simp only [List.length_cons]
    congr 1
    omega

/-- text without a colon outside quotes moves no split point once the name split is set -/
theorem scanParts_balanced (k : Nat) (hk : 0 < k) (t : Str) : ∀ (s : Str) (i : Nat) (q q' : Bool),
    scanQ ':' q s = some q' →
    scanParts (s ++ t) i q (some k) none = scanParts t (i + s.length) q' (some k) none := by
  intro s
  induction s with
  | nil => intro i q q' h; simp only [scanQ, Option.some.injEq] at h; simp [h]
  | cons c cs ih =>
    intro i q q' h
    simp only [scanQ] at h
    by_cases hns : (!(nextQ q c) && c == ':') = true
    · simp [hns] at h
    · simp only [hns] at h
      have hv : (!q && c == ':') = false := by
        by_cases hc : c = ':'
        · subst hc
          have : nextQ q ':' = q := by simp [nextQ, DQ]
          rw [this] at hns
          simpa using hns
        · simp [hc]
      have hq : (if c == DQ then !q else q) = nextQ q c := by simp [nextQ]
      simp only [List.cons_append, scanParts, falsy_pos hk, hv, hq, Bool.and_false, Bool.false_and,
        Bool.false_eq_true, if_false]
      rw [ih (i + 1) _ q' h]
      simp only [List.length_cons]
      congr 1
      omega

/-- the scan of `NAME:rest` -/
theorem scanParts_name_colon (n w : Str) (hn : validToken n = true) :
    scanParts (n ++ ':' :: w) 0 false none none = (some n.length, some n.length) := by
  have hc := validToken_chars n hn
  have hpos : 0 < n.length := List.length_pos_iff.mpr hc.1
  rw [scanParts_plain _ n 0 (fun c h => ⟨(tokChar_ne' c (validToken_tok n hn c h)).1, (hc.2 c h).2.2.1, (hc.2 c h).1⟩)]
  simp only [scanParts, Nat.zero_add]
  simp only [falsy_none, beq_self_eq_true, Bool.not_false, Bool.true_and, Bool.and_self, if_true]
  exact scanParts_done _ _ _ _ _ hpos hpos

/-- the scan of `NAME;params:rest` for parameter text without colon outside quotes -/
theorem scanParts_name_params (n ptext w : Str) (hn : validToken n = true) (hb : Balanced ':' ptext) :
    scanParts (n ++ ';' :: ptext ++ ':' :: w) 0 false none none =
      (some n.length, some (n.length + 1 + ptext.length)) := by
  have hc := validToken_chars n hn
  have hpos : 0 < n.length := List.length_pos_iff.mpr hc.1
  have e : n ++ ';' :: ptext ++ ':' :: w = n ++ (';' :: (ptext ++ ':' :: w)) := by simp
  rw [e, scanParts_plain _ n 0 (fun c h => ⟨(tokChar_ne' c (validToken_tok n hn c h)).1, (hc.2 c h).2.2.1, (hc.2 c h).1⟩)]
  simp only [scanParts, Nat.zero_add]
  have e1 : ((';' : Char) == ':') = false := by decide
  have e2 : ((';' : Char) == DQ) = false := by decide
  simp only [falsy_none, e1, e2, beq_self_eq_true, Bool.not_false, Bool.or_true, Bool.and_self,
    if_true, Bool.false_and, Bool.and_false, Bool.false_eq_true, if_false]
  rw [scanParts_balanced _ hpos _ ptext _ false false hb]
  have e3 : ((':' : Char) == DQ) = false := by decide
  simp only [scanParts, falsy_pos hpos, falsy_none, e3, beq_self_eq_true, Bool.not_false, Bool.true_and,
    Bool.and_self, if_true, Bool.and_false, Bool.false_eq_true, if_false]
  exact scanParts_done _ _ _ _ _ hpos (by omega)

end scan

/-! ## `parts()` on a line of known shape -/
section shape

/-- the re-keying loop at the end of `parts()` -/
def rekey (ps : Params) : Params :=
  ps.foldl (fun acc kv => Params.put acc (upper (unescapeString kv.1)) (unescapePVal kv.2)) []

theorem token_noPercent (n : Str) (hn : validToken n = true) : '%' ∉ n :=
  fun h => (tokChar_ne' _ (validToken_tok n hn _ h)).2.2.1 rfl

theorem token_noBS (n : Str) (hn : validToken n = true) : BS ∉ n :=
  fun h => (tokChar_ne' _ (validToken_tok n hn _ h)).2.1 rfl

theorem token_noLF (n : Str) (hn : validToken n = true) : LF ∉ n :=
  fun h => (tokChar_ne' _ (validToken_tok n hn _ h)).2.2.2 rfl

theorem token_noColon (n : Str) (hn : validToken n = true) : ':' ∉ n :=
  fun h => (tokChar_ne' _ (validToken_tok n hn _ h)).1 rfl

theorem unescapeString_token (n : Str) (hn : validToken n = true) : unescapeString n = n :=
  unescapeString_id n (npc_of_noPercent n (token_noPercent n hn))

theorem paramsFromIcal_nil : paramsFromIcal [] false = some [] := by decide

/-- a line that reads `NAME:rest` after the placeholder pass -/
theorem parts_name_colon (line n w : Str) (hn : validToken n = true)
    (hst : escapeString line = n ++ ':' :: w) :
    parts line = some (n, [], unescapeString w) := by
  have hne : n ≠ [] := (validToken_chars n hn).1
  have hie : n.isEmpty = false := by cases n <;> simp_all
  have hk : (n.length + 1 == n.length) = false := by simp
  unfold parts
  simp only [hst, scanParts_name_colon n w hn, List.take_left', unescapeString_token n hn, hie, hn,
    falsy_pos (List.length_pos_iff.mpr hne), Option.getD_some, hk, Bool.false_eq_true, if_false,
    Bool.not_true, Bool.or_self]
  have e0 : n.length - (n.length + 1) = 0 := by omega
  have e1 : List.drop (n.length + 1) (n ++ ':' :: w) = w := by
    rw [List.drop_append]; simp
  rw [e0, List.take_zero, paramsFromIcal_nil, e1]
  rfl

/-- a line that reads `NAME;params:rest` after the placeholder pass, `params` non-empty and
    without colon outside quotes -/
theorem parts_name_params (line n ptext w : Str) (hn : validToken n = true)
    (hb : Balanced ':' ptext) (hpne : ptext ≠ [])
    (hst : escapeString line = n ++ ';' :: ptext ++ ':' :: w) :
    parts line = (paramsFromIcal ptext false).map (fun ps => (n, rekey ps, unescapeString w)) := by
  have hne : n ≠ [] := (validToken_chars n hn).1
  have hie : n.isEmpty = false := by cases n <;> simp_all
  have hpl : 0 < ptext.length := List.length_pos_iff.mpr hpne
  have hk : (n.length + 1 == n.length + 1 + ptext.length) = false := by
    simp only [beq_eq_false_iff_ne]; omega
  have hst' : escapeString line = n ++ (';' :: ptext ++ ':' :: w) := by rw [hst]; simp
  have hsc := scanParts_name_params n ptext w hn hb
  rw [hst.symm.trans hst'] at hsc
  unfold parts
  simp only [hst', hsc, List.take_left', unescapeString_token n hn, hie, hn,
    falsy_pos (List.length_pos_iff.mpr hne), falsy_pos (show 0 < n.length + 1 + ptext.length by omega),
    Option.getD_some, hk, Bool.false_eq_true, if_false, Bool.not_true, Bool.or_self]
  have e0 : n.length + 1 + ptext.length - (n.length + 1) = ptext.length := by omega
  have e1 : List.drop (n.length + 1) (n ++ (';' :: ptext ++ ':' :: w)) = ptext ++ ':' :: w := by
    rw [List.drop_append]; simp
  have e2 : List.drop (n.length + 1 + ptext.length + 1) (n ++ (';' :: ptext ++ ':' :: w)) = w := by
    have : n.length + 1 + ptext.length + 1 = (n.length + 1) + (ptext.length + 1) := by omega
    rw [this, ← List.drop_drop, e1, List.drop_append]; simp
  rw [e0, e1, e2, List.take_left' rfl]
  cases paramsFromIcal ptext false <;> rfl

end shape

/-! ## walking over the serialised parameter text -/
section walk

/-- the strings of a parameter value -/
def pvalStrs : PVal → List Str
  | .one x => [x]
  | .many xs => xs

theorem joinWith_ind (Q : Str → Prop) (hnil : Q []) (happ : ∀ a b, Q a → Q b → Q (a ++ b))
    (sep : Str) (hsep : Q sep) : ∀ (l : List Str), (∀ x ∈ l, Q x) → Q (joinWith sep l) := by
  intro l
  induction l with
  | nil => intro _; exact hnil
  | cons x r ih =>
    intro h
    cases r with
    | nil => simpa [joinWith] using h x (by simp)
    | cons y r' =>
      simp only [joinWith]
      exact happ _ _ (happ _ _ (h x (by simp)) hsep) (ih (fun z hz => h z (List.mem_cons_of_mem _ hz)))

theorem paramValue_ind (Q : Str → Prop) (hnil : Q []) (happ : ∀ a b, Q a → Q b → Q (a ++ b))
    (hcomma : Q [',']) (v : PVal) (hv : ∀ x ∈ pvalStrs v, Q (dquote x)) : Q (paramValue v) := by
  cases v with
  | one x => exact hv x (by simp [pvalStrs])
  | many xs =>
    unfold paramValue qJoin
    refine joinWith_ind Q hnil happ _ hcomma _ ?_
    intro s hs
    obtain ⟨x, hx, rfl⟩ := List.mem_map.mp hs
    exact hv x (by simpa [pvalStrs] using hx)

/-- a property of texts that holds of the pieces and survives concatenation holds of `to_ical()` -/
theorem paramsText_ind (Q : Str → Prop) (hnil : Q []) (happ : ∀ a b, Q a → Q b → Q (a ++ b))
    (hsemi : Q [';']) (heq : Q ['=']) (hcomma : Q [',']) (p : Params) (sorted : Bool)
    (hk : ∀ kv ∈ p, Q (upper kv.1)) (hv : ∀ kv ∈ p, ∀ x ∈ pvalStrs kv.2, Q (dquote x)) :
    Q (paramsToIcal p sorted) := by
  unfold paramsToIcal
  refine joinWith_ind Q hnil happ _ hsemi _ ?_
  intro s hs
  obtain ⟨kv, hkv, rfl⟩ := List.mem_map.mp hs
  have hmem : kv ∈ p := by
    cases sorted with
    | true => exact (sortByKey_perm p).mem_iff.mp (by simpa using hkv)
    | false => simpa using hkv
  exact happ _ _ (happ _ _ (hk kv hmem) heq) (paramValue_ind Q hnil happ hcomma kv.2 (hv kv hmem))

theorem paramsToIcal_ne_nil (p : Params) (sorted : Bool) (hp : p ≠ []) : paramsToIcal p sorted ≠ [] := by
  unfold paramsToIcal
  have hl : (if sorted = true then sortByKey p else p) ≠ [] := by
    cases sorted with
    | true =>
      intro e
      have := (sortByKey_perm p).length_eq
      simp only [if_true] at e
      rw [e] at this
      exact hp (List.length_eq_zero_iff.mp this.symm)
    | false => simpa using hp
  generalize (if sorted = true then sortByKey p else p) = items at hl
  cases items with
  | nil => exact absurd rfl hl
  | cons kv r => simp only [List.map_cons]; exact joinWith_ne_nil _ _ _ (by simp)

/-- `to_ical()` shows no colon outside double quotes -/
theorem paramsToIcal_balanced_colon (p : Params) (hd : ParamDomain p) (sorted : Bool) :
    Balanced ':' (paramsToIcal p sorted) := by
  refine paramsText_ind (Balanced ':') (by decide) (fun _ _ => Balanced.append) (by decide) (by decide)
    (by decide) p sorted ?_ ?_
  · intro kv hkv
    have := (hd.2 kv hkv).1
    rw [this.2]
    exact balanced_plain ':' _ (validToken_noDQ _ this.1) (token_noColon _ this.1)
  · intro kv _ x _
    exact dquote_balanced_any ':' quotable_colon (by decide) x

theorem mem_dquote (c : Char) (x : Str) (hx : DQ ∉ x) (h : c ∈ dquote x) : c = DQ ∨ c ∈ x := by
  rw [dquote_of_noDQ x hx] at h
  split at h
  · simp only [List.cons_append, List.mem_cons, List.mem_append, List.not_mem_nil, or_false] at h
    rcases h with h | h | h
    · exact Or.inl h
    · exact Or.inr h
    · exact Or.inl h
  · exact Or.inr h

/-- `to_ical()` of a map of the domain holds no line feed -/
theorem paramsToIcal_noLF (p : Params) (hd : ParamDomain p) (sorted : Bool) : LF ∉ paramsToIcal p sorted := by
  refine paramsText_ind (fun s => LF ∉ s) (by simp) (fun a b ha hb => by simp [ha, hb]) (by decide) (by decide)
    (by decide) p sorted ?_ ?_
  · intro kv hkv
    have := (hd.2 kv hkv).1
    rw [this.2]
    exact token_noLF _ this.1
  · intro kv hkv x hx
    have hok : ValueOk x := by
      have := (hd.2 kv hkv).2
      cases hv : kv.2 with
      | one y => rw [hv] at this hx; simp only [pvalStrs, List.mem_singleton] at hx; subst hx; exact this
      | many ys => rw [hv] at this hx; exact this.2 x hx
    intro hm
    rcases mem_dquote LF x hok.1 hm with e | e
    · exact absurd e (by decide)
    · have := hok.2 LF e
      rw [qunsafe_LF] at this
      exact Bool.noConfusion this

end walk

/-! ## hazard-free parameter text is left alone by the placeholder pass -/
section safe

theorem npp_single_cons (c : Char) (hc : c ≠ BS) (b : Str) (hb : NoPlaceholderPair b = true) :
    NoPlaceholderPair (c :: b) = true := by
  cases b with
  | nil => rfl
  | cons d ds => rw [npp_cons_cons, hb]; simp [hc]

/-- a character that is no backslash and no second pattern character separates two hazard-free texts -/
theorem npp_append_neutral (c : Char) (hc : special c = false) (b : Str) (hb : NoPlaceholderPair b = true) :
    ∀ (a : Str), NoPlaceholderPair a = true → NoPlaceholderPair (a ++ c :: b) = true := by
  have hcb : c ≠ BS := by
    rintro rfl; revert hc; decide
  intro a
  induction a with
  | nil => intro _; exact npp_single_cons c hcb b hb
  | cons e es ih =>
    intro h
    cases es with
    | nil =>
      have := ih rfl
      simp only [List.nil_append] at this
      simp only [List.cons_append, List.nil_append, npp_cons_cons, hc, this, Bool.and_false, Bool.not_false, Bool.and_self]
    | cons f fs =>
      rw [npp_cons_cons] at h
      simp only [Bool.and_eq_true] at h
      have := ih h.2
      simp only [List.cons_append] at this ⊢
      rw [npp_cons_cons, this, h.1]
      rfl

theorem npp_append : ∀ (a b : Str), NoPlaceholderPair a = true → NoBSEnd a → NoPlaceholderPair b = true →
    NoPlaceholderPair (a ++ b) = true := by
  intro a
  induction a with
  | nil => intro b _ _ hb; exact hb
  | cons e es ih =>
    intro b h he hb
    cases es with
    | nil =>
      have : e ≠ BS := by simpa [NoBSEnd] using he
      exact npp_single_cons e this b hb
    | cons f fs =>
      rw [npp_cons_cons] at h
      simp only [Bool.and_eq_true] at h
      have := ih b h.2 (noBSEnd_tail (by simp) he) hb
      simp only [List.cons_append] at this ⊢
      rw [npp_cons_cons, this, h.1]
      rfl

/-- hazard-free and not ending in a backslash: such text can be followed by anything -/
def Safe (s : Str) : Prop := NoPlaceholderPair s = true ∧ NoBSEnd s

instance (s : Str) : Decidable (Safe s) := by unfold Safe; infer_instance

theorem Safe.append {a b : Str} (ha : Safe a) (hb : Safe b) : Safe (a ++ b) :=
  ⟨npp_append a b ha.1 ha.2 hb.1, noBSEnd_append ha.2 hb.2⟩

theorem safe_of_noBS (s : Str) (h : BS ∉ s) : Safe s := ⟨npp_of_noBS s h, noBSEnd_of_not_mem s h⟩

theorem noBS_of_noQuotable (x : Str) (h : ¬ x.any (inClass Gen.quotable) = true) : BS ∉ x :=
  fun hm => h (List.any_eq_true.mpr ⟨BS, hm, quotable_BS⟩)

theorem dquote_safe (x : Str) (hx : DQ ∉ x) (h : NoPlaceholderPair x = true) : Safe (dquote x) := by
  rw [dquote_of_noDQ x hx]
  split
  · refine ⟨?_, ?_⟩
    · have h1 : NoPlaceholderPair (x ++ DQ :: []) = true := npp_append_neutral DQ (by decide) [] rfl x h
      have := npp_append_neutral DQ (by decide) _ h1 [] rfl
      simpa using this
    · have : DQ :: x ++ [DQ] = (DQ :: x) ++ [DQ] := by simp
      rw [this]
      exact noBSEnd_append_right _ (by simp) (by decide)
  · next hq => exact safe_of_noBS x (noBS_of_noQuotable x hq)

/-- every string among the parameter values is left alone by both passes of `parts()` -/
def ParamsHazardless (p : Params) : Prop := ∀ kv ∈ p, ∀ x ∈ pvalStrs kv.2, Hazardless x

instance (p : Params) : Decidable (ParamsHazardless p) := by unfold ParamsHazardless; infer_instance

theorem pvalOk_strs (v : PVal) (hv : PValOk v) : ∀ x ∈ pvalStrs v, ValueOk x := by
  intro x hx
  cases v with
  | one y => simp only [pvalStrs, List.mem_singleton] at hx; subst hx; exact hv
  | many ys => exact hv.2 x hx

theorem paramsToIcal_safe (p : Params) (hd : ParamDomain p) (sorted : Bool)
    (hz : ∀ kv ∈ p, ∀ x ∈ pvalStrs kv.2, NoPlaceholderPair x = true) : Safe (paramsToIcal p sorted) := by
  refine paramsText_ind Safe (by decide) (fun _ _ => Safe.append) (by decide) (by decide)
    (by decide) p sorted ?_ ?_
  · intro kv hkv
    have := (hd.2 kv hkv).1
    rw [this.2]
    exact safe_of_noBS _ (token_noBS _ this.1)
  · intro kv hkv x hx
    exact dquote_safe x (pvalOk_strs kv.2 (hd.2 kv hkv).2 x hx).1 (hz kv hkv x hx)

end safe

/-! ## the re-keying loop -/
section rekey

theorem rekey_go (ps : Params) : ∀ (acc : Params), (ps.map Prod.fst).Nodup →
    (∀ kv ∈ ps, validToken kv.1 = true ∧ upper kv.1 = kv.1) →
    (∀ k ∈ ps.map Prod.fst, k ∉ acc.map Prod.fst) →
    ps.foldl (fun acc kv => Params.put acc (upper (unescapeString kv.1)) (unescapePVal kv.2)) acc =
      acc ++ ps.map (fun kv => (kv.1, unescapePVal kv.2)) := by
  induction ps with
  | nil => intro acc _ _ _; simp
  | cons kv r ih =>
    intro acc hn hk hf
    rw [List.map_cons, List.nodup_cons] at hn
    have hkv := hk kv (by simp)
    rw [List.foldl_cons, unescapeString_token _ hkv.1, hkv.2, put_fresh acc kv.1 _ (hf kv.1 (by simp)),
      ih _ hn.2 (fun x hx => hk x (List.mem_cons_of_mem _ hx))]
    · simp
    · intro k hk' hacc
      rw [List.map_append, List.mem_append] at hacc
      rcases hacc with h | h
      · exact hf k (by simp [hk']) h
      · simp only [List.map_cons, List.map_nil, List.mem_singleton] at h
        exact hn.1 (h ▸ hk')

/-- distinct upper-cased NAME keys are kept by the re-keying loop; values are un-placeholdered -/
theorem rekey_eq (ps : Params) (hn : (ps.map Prod.fst).Nodup)
    (hk : ∀ kv ∈ ps, validToken kv.1 = true ∧ upper kv.1 = kv.1) :
    rekey ps = ps.map (fun kv => (kv.1, unescapePVal kv.2)) := by
  unfold rekey
  rw [rekey_go ps [] hn hk (by simp)]
  simp

theorem canon_keys_ok (p : Params) (hd : ParamDomain p) :
    ∀ kv ∈ canon p, validToken kv.1 = true ∧ upper kv.1 = kv.1 := by
  intro kv hkv
  obtain ⟨kv', hm, rfl⟩ := List.mem_map.mp hkv
  exact (hd.2 kv' ((sortByKey_perm p).mem_iff.mp hm)).1

theorem unescapePVal_canonVal_id (v : PVal) (h : ∀ x ∈ pvalStrs v, NoPercentCode x = true) :
    unescapePVal (canonVal v) = canonVal v := by
  cases v with
  | one x => simp [canonVal, unescapePVal, unescapeString_id x (h x (by simp [pvalStrs]))]
  | many xs =>
    have hm : xs.map unescapeString = xs := by
      rw [List.map_congr_left (g := id) (fun x hx => unescapeString_id x (h x (by simpa [pvalStrs] using hx)))]
      simp
    match xs, h, hm with
    | [], _, _ => rfl
    | [x], h, _ => simp [canonVal, unescapePVal, unescapeString_id x (h x (by simp [pvalStrs]))]
    | x :: y :: r, _, hm => simp only [canonVal, unescapePVal, hm]

theorem rekey_canon (p : Params) (hd : ParamDomain p)
    (hz : ∀ kv ∈ p, ∀ x ∈ pvalStrs kv.2, NoPercentCode x = true) : rekey (canon p) = canon p := by
  rw [rekey_eq _ (canon_nodup p hd) (canon_keys_ok p hd)]
  unfold canon
  rw [List.map_map]
  apply List.map_congr_left
  intro kv hkv
  have hm : kv ∈ p := (sortByKey_perm p).mem_iff.mp hkv
  simp only [Function.comp, unescapePVal_canonVal_id kv.2 (hz kv hm)]

end rekey

/-! ## `from_parts` and `parts()` -/
section joinsplit

/-- the text `from_parts` builds before the line-feed check -/
def lineText (n : Str) (p : Params) (v : Str) (sorted : Bool) : Str :=
  if p.isEmpty then n ++ [':'] ++ v else n ++ [';'] ++ paramsToIcal p sorted ++ [':'] ++ v

theorem fromParts_eq (n : Str) (p : Params) (v : Str) (sorted : Bool) :
    fromParts n p v sorted = mkLine (lineText n p v sorted) := by
  unfold fromParts lineText
  split <;> rfl

theorem mkLine_ok (s : Str) (h : LF ∉ s) : mkLine s = .ok s := by
  unfold mkLine
  rw [if_neg]
  simpa using h

theorem mkLine_inv (s l : Str) (h : mkLine s = .ok l) : l = s := by
  unfold mkLine at h
  split at h
  · cases h
  · injection h with h; exact h.symm

theorem mkLine_lf (s : Str) (h : LF ∈ s) : mkLine s = .error .assertion := by
  unfold mkLine
  rw [if_pos]
  simpa using h

theorem lineText_noLF (n : Str) (p : Params) (v : Str) (sorted : Bool) (hn : validToken n = true)
    (hd : ParamDomain p) (hv : LF ∉ v) : LF ∉ lineText n p v sorted := by
  have h1 := token_noLF n hn
  have h2 := paramsToIcal_noLF p hd sorted
  have h3 : LF ≠ ':' := by decide
  have h4 : LF ≠ ';' := by decide
  unfold lineText
  split <;> simp [h1, h2, h3, h4, hv]

theorem fromParts_ok (n : Str) (p : Params) (v : Str) (sorted : Bool) (hn : validToken n = true)
    (hd : ParamDomain p) (hv : LF ∉ v) : fromParts n p v sorted = .ok (lineText n p v sorted) := by
  rw [fromParts_eq]
  exact mkLine_ok _ (lineText_noLF n p v sorted hn hd hv)

/-- the split of a joined line, for every value text: name and parameters are exactly those that
    were joined, the value went through both placeholder passes -/
theorem parts_lineText (n : Str) (p : Params) (v : Str) (hn : validToken n = true) (hd : ParamDomain p)
    (hz : ParamsHazardless p) :
    parts (lineText n p v true) = some (n, canon p, unescapeString (escapeString v)) := by
  have hsn : Safe n := safe_of_noBS n (token_noBS n hn)
  cases p with
  | nil =>
    have hs : Safe (n ++ [':']) := hsn.append (by decide)
    have e : lineText n [] v true = n ++ [':'] ++ v := rfl
    rw [e]
    have := parts_name_colon (n ++ [':'] ++ v) n (escapeString v) hn (by
      rw [escapeString_prefix _ _ hs.1 hs.2]; simp)
    rw [this]
    rfl
  | cons kv r =>
    have hP : Safe (paramsToIcal (kv :: r) true) :=
      paramsToIcal_safe _ hd true (fun kv' h x hx => (hz kv' h x hx).1)
    have hs : Safe (n ++ [';'] ++ paramsToIcal (kv :: r) true ++ [':']) :=
      ((hsn.append (by decide)).append hP).append (by decide)
    have e : lineText n (kv :: r) v true = n ++ [';'] ++ paramsToIcal (kv :: r) true ++ [':'] ++ v := rfl
    rw [e]
    have := parts_name_params (n ++ [';'] ++ paramsToIcal (kv :: r) true ++ [':'] ++ v) n
      (paramsToIcal (kv :: r) true) (escapeString v) hn (paramsToIcal_balanced_colon _ hd true)
      (paramsToIcal_ne_nil _ true (by simp)) (by
        rw [escapeString_prefix _ _ hs.1 hs.2]; simp)
    rw [this, fromIcal_toIcal _ hd, Option.map_some,
      rekey_canon _ hd (fun kv' h x hx => (hz kv' h x hx).2)]

end joinsplit

/-! ## the placeholder pass on parameter text with arbitrary values

  For parameter values that hold backslashes or `%XX` the pass does change the serialised text,
  but only inside the values: it never adds or removes a double quote, never adds a delimiter,
  and every value holding a backslash sits inside double quotes. -/
section escaped

theorem mem_rep2 (a b : Char) (r : Str) (c : Char) : ∀ (s : Str), c ∈ rep2 a b r s → c ∈ r ∨ c ∈ s := by
  intro s
  induction s using rep2.induct a b with
  | case1 => intro h; exact Or.inr h
  | case2 e => intro h; exact Or.inr h
  | case3 e d cs hm ih =>
    intro h
    simp only [rep2, hm, and_self, if_true, List.mem_append] at h
    rcases h with h | h
    · exact Or.inl h
    · rcases ih h with h' | h'
      · exact Or.inl h'
      · exact Or.inr (List.mem_cons_of_mem _ (List.mem_cons_of_mem _ h'))
  | case4 e d cs hm ih =>
    intro h
    simp only [rep2, hm, if_false, List.mem_cons] at h
    rcases h with h | h
    · exact Or.inr (by simp [h])
    · rcases ih h with h' | h'
      · exact Or.inl h'
      · exact Or.inr (List.mem_cons_of_mem _ h')

/-- the characters of the placeholder codes -/
def codeChars : Str := ['%', '2', 'C', '3', 'A', 'B', '5']

theorem mem_escapeString (c : Char) (s : Str) (h : c ∈ escapeString s) : c ∈ codeChars ∨ c ∈ s := by
  rw [escapeString_eq] at h
  rcases mem_rep2 _ _ _ c _ h with h | h
  · left; revert h; simp [codeChars]; grind
  rcases mem_rep2 _ _ _ c _ h with h | h
  · left; revert h; simp [codeChars]; grind
  rcases mem_rep2 _ _ _ c _ h with h | h
  · left; revert h; simp [codeChars]; grind
  rcases mem_rep2 _ _ _ c _ h with h | h
  · left; revert h; simp [codeChars]; grind
  · exact Or.inr h

theorem escapeString_valueOk (x : Str) (h : ValueOk x) : ValueOk (escapeString x) := by
  refine ⟨?_, ?_⟩
  · intro hm
    rcases mem_escapeString DQ x hm with e | e
    · revert e; decide
    · exact h.1 e
  · intro c hc
    rcases mem_escapeString c x hc with e | e
    · have hcc : ∀ d ∈ codeChars, inClass Gen.qunsafeChar d = false := by decide
      exact hcc c e
    · exact h.2 c e

/-- the pass keeps "no `sep` outside double quotes" -/
theorem scanQ_rep2 (sep b : Char) (r : Str) (hsep : sep ≠ BS) (hb : b ≠ DQ) (hr1 : DQ ∉ r) (hr2 : sep ∉ r) :
    ∀ (s : Str) (q q' : Bool), scanQ sep q s = some q' → scanQ sep q (rep2 BS b r s) = some q' := by
  intro s
  induction s using rep2.induct BS b with
  | case1 => intro q q' h; exact h
  | case2 e => intro q q' h; exact h
  | case3 e d cs hm ih =>
    intro q q' h
    obtain ⟨rfl, rfl⟩ := hm
    have n1 : nextQ q BS = q := by simp [nextQ, BS, DQ]
    have n2 : nextQ q d = q := by simp [nextQ, hb]
    have e1 : (BS == sep) = false := by simpa using Ne.symm hsep
    simp only [scanQ, n1, n2, e1, Bool.and_false, Bool.false_eq_true, if_false] at h
    simp only [rep2, and_self, if_true]
    rw [scanQ_append, scanQ_plain sep r q hr1 hr2]
    split at h
    · cases h
    · exact ih q q' h
  | case4 e d cs hm ih =>
    intro q q' h
    simp only [rep2, hm, if_false]
    simp only [scanQ] at h ⊢
    split
    · next hc => simp [hc] at h
    · next hc => simp only [hc] at h; exact ih _ q' h

theorem balanced_escapeString (sep : Char) (hs : sep = ',' ∨ sep = ';' ∨ sep = ':') (s : Str)
    (h : Balanced sep s) : Balanced sep (escapeString s) := by
  unfold Balanced at *
  rw [escapeString_eq]
  have h0 : sep ≠ BS := by rcases hs with e | e | e <;> (rw [e]; decide)
  have hc : ∀ r : Str, r ∈ percentCodes → sep ∉ r := by
    intro r hr
    rcases hs with e | e | e <;> (rw [e]; revert r; decide)
  refine scanQ_rep2 sep _ _ h0 (by decide) (by decide) (hc _ (by decide)) _ _ _ ?_
  refine scanQ_rep2 sep _ _ h0 (by decide) (by decide) (hc _ (by decide)) _ _ _ ?_
  refine scanQ_rep2 sep _ _ h0 (by decide) (by decide) (hc _ (by decide)) _ _ _ ?_
  exact scanQ_rep2 sep _ _ h0 (by decide) (by decide) (hc _ (by decide)) _ _ _ h

/-- a character that is in no pattern separates the text for the pass -/
theorem rep2_append_neutral (a b : Char) (r : Str) (c : Char) (hca : c ≠ a) (hcb : c ≠ b) (t : Str) :
    ∀ (s : Str), rep2 a b r (s ++ c :: t) = rep2 a b r s ++ c :: rep2 a b r t := by
  intro s
  induction s using rep2.induct a b with
  | case1 => simp [rep2, rep2_cons_ne a b c r t hca]
  | case2 e =>
    have : ¬ (e = a ∧ c = b) := fun h => hcb h.2
    simp [rep2, this, rep2_cons_ne a b c r t hca]
  | case3 e d cs hm ih => simp only [List.cons_append, rep2, hm, and_self, if_true, ih, List.append_assoc]
  | case4 e d cs hm ih =>
    simp only [List.cons_append] at ih ⊢
    simp only [rep2, hm, if_false, ih, List.cons_append]

theorem escapeString_neutral (c : Char) (hc : special c = false) (s t : Str) :
    escapeString (s ++ c :: t) = escapeString s ++ c :: escapeString t := by
  have h1 : c ≠ BS := by rintro rfl; revert hc; decide
  have h2 : c ≠ ',' := by rintro rfl; revert hc; decide
  have h3 : c ≠ ':' := by rintro rfl; revert hc; decide
  have h4 : c ≠ ';' := by rintro rfl; revert hc; decide
  simp only [escapeString_eq]
  rw [rep2_append_neutral _ _ _ c h1 h2, rep2_append_neutral _ _ _ c h1 h3, rep2_append_neutral _ _ _ c h1 h4,
    rep2_append_neutral _ _ _ c h1 h1]

/-- apply `f` to every string of a parameter value -/
def mapPVal (f : Str → Str) : PVal → PVal
  | .one x => .one (f x)
  | .many xs => .many (xs.map f)

/-- what `parts()` makes of a string: placeholder pass, then the reverse pass -/
def viaPlaceholders (x : Str) : Str := unescapeString (escapeString x)

/-- the text of one value string after the placeholder pass -/
def escVal (x : Str) : Str := if x.any (inClass Gen.quotable) then DQ :: escapeString x ++ [DQ] else x

/-- the text of a value after the placeholder pass -/
def escPValText : PVal → Str
  | .one x => escVal x
  | .many xs => joinWith [','] (xs.map escVal)

/-- the text of an item after the placeholder pass -/
def escItemText (kv : Str × PVal) : Str := kv.1 ++ '=' :: escPValText kv.2

theorem escapeString_joinWith (c : Char) (hc : c ≠ BS) : ∀ (l : List Str), (∀ x ∈ l, NoBSEnd x) →
    escapeString (joinWith [c] l) = joinWith [c] (l.map escapeString) := by
  intro l
  induction l with
  | nil => intro _; exact escapeString_nil
  | cons x r ih =>
    intro h
    cases r with
    | nil => simp [joinWith]
    | cons y r' =>
      have ih' := ih (fun z hz => h z (List.mem_cons_of_mem _ hz))
      simp only [joinWith, List.map_cons, List.append_assoc, List.singleton_append] at ih' ⊢
      rw [escapeString_append _ _ (h x (by simp)), escapeString_cons c hc, ih']

theorem escapeString_dquote (x : Str) (hx : DQ ∉ x) : escapeString (dquote x) = escVal x := by
  rw [dquote_of_noDQ x hx]
  unfold escVal
  split
  · have : DQ :: x ++ [DQ] = DQ :: (x ++ DQ :: []) := by simp
    rw [this, escapeString_cons DQ (by decide), escapeString_neutral DQ (by decide), escapeString_nil]
    simp
  · next hq => exact escapeString_id x (npp_of_noBS x (noBS_of_noQuotable x hq))

theorem dquote_noBSEnd (x : Str) (hx : DQ ∉ x) : NoBSEnd (dquote x) := by
  rw [dquote_of_noDQ x hx]
  split
  · have : DQ :: x ++ [DQ] = (DQ :: x) ++ [DQ] := by simp
    rw [this]
    exact noBSEnd_append_right _ (by simp) (by decide)
  · next hq => exact noBSEnd_of_not_mem x (noBS_of_noQuotable x hq)

theorem paramValue_noBSEnd (v : PVal) (hv : PValOk v) : NoBSEnd (paramValue v) :=
  paramValue_ind NoBSEnd noBSEnd_nil (fun _ _ => noBSEnd_append) (by decide) v
    (fun x hx => dquote_noBSEnd x (pvalOk_strs v hv x hx).1)

theorem escapeString_paramValue (v : PVal) (hv : PValOk v) : escapeString (paramValue v) = escPValText v := by
  cases v with
  | one x => exact escapeString_dquote x hv.1
  | many xs =>
    unfold paramValue qJoin escPValText
    rw [escapeString_joinWith ',' (by decide), List.map_map]
    · congr 1
      apply List.map_congr_left
      intro x hx
      exact escapeString_dquote x (hv.2 x hx).1
    · intro s hs
      obtain ⟨x, hx, rfl⟩ := List.mem_map.mp hs
      exact dquote_noBSEnd x (hv.2 x hx).1

theorem itemText_noBSEnd (kv : Str × PVal) (hk : validToken kv.1 = true) (hu : upper kv.1 = kv.1)
    (hv : PValOk kv.2) : NoBSEnd (itemText kv) := by
  unfold itemText
  rw [hu]
  exact noBSEnd_append (noBSEnd_append (noBSEnd_of_not_mem _ (token_noBS _ hk)) (by decide))
    (paramValue_noBSEnd kv.2 hv)

theorem escapeString_itemText (kv : Str × PVal) (hk : validToken kv.1 = true) (hu : upper kv.1 = kv.1)
    (hv : PValOk kv.2) : escapeString (itemText kv) = escItemText kv := by
  unfold itemText escItemText
  have : upper kv.1 ++ ['='] ++ paramValue kv.2 = kv.1 ++ '=' :: paramValue kv.2 := by rw [hu]; simp
  rw [this, escapeString_neutral '=' (by decide), escapeString_paramValue kv.2 hv,
    escapeString_id kv.1 (npp_of_noBS _ (token_noBS _ hk))]

theorem paramsToIcal_eq_items (p : Params) :
    paramsToIcal p true = joinWith [';'] ((sortByKey p).map itemText) := rfl

theorem paramsToIcal_noBSEnd (p : Params) (hd : ParamDomain p) : NoBSEnd (paramsToIcal p true) := by
  refine paramsText_ind NoBSEnd noBSEnd_nil (fun _ _ => noBSEnd_append) (by decide) (by decide)
    (by decide) p true ?_ ?_
  · intro kv hkv
    have := (hd.2 kv hkv).1
    rw [this.2]
    exact noBSEnd_of_not_mem _ (token_noBS _ this.1)
  · intro kv hkv x hx
    exact dquote_noBSEnd x (pvalOk_strs kv.2 (hd.2 kv hkv).2 x hx).1

/-- the placeholder pass works item by item, and inside an item only on the quoted values -/
theorem escapeString_paramsToIcal (p : Params) (hd : ParamDomain p) :
    escapeString (paramsToIcal p true) = joinWith [';'] ((sortByKey p).map escItemText) := by
  have hs := paramDomain_sort p hd
  rw [paramsToIcal_eq_items, escapeString_joinWith ';' (by decide), List.map_map]
  · congr 1
    apply List.map_congr_left
    intro kv hkv
    exact escapeString_itemText kv (hs.2 kv hkv).1.1 (hs.2 kv hkv).1.2 (hs.2 kv hkv).2
  · intro s hs'
    obtain ⟨kv, hkv, rfl⟩ := List.mem_map.mp hs'
    exact itemText_noBSEnd kv (hs.2 kv hkv).1.1 (hs.2 kv hkv).1.2 (hs.2 kv hkv).2


theorem escVal_balanced (sep : Char) (hs : sep = ',' ∨ sep = ';' ∨ sep = ':') (x : Str) (hx : DQ ∉ x) :
    Balanced sep (escVal x) := by
  rw [← escapeString_dquote x hx]
  refine balanced_escapeString sep hs _ (dquote_balanced_any sep ?_ ?_ x)
  · rcases hs with e | e | e <;> (rw [e]; decide)
  · rcases hs with e | e | e <;> (rw [e]; decide)

theorem escVal_eq_nil (x : Str) (h : escVal x = []) : x = [] := by
  unfold escVal at h
  split at h
  · simp at h
  · exact h

theorem escapeString_noQuotable (x : Str) (hq : ¬ x.any (inClass Gen.quotable) = true) : escapeString x = x :=
  escapeString_id x (npp_of_noBS x (noBS_of_noQuotable x hq))

theorem parse_escVal (x : Str) (hx : ValueOk x) (rest : List Str) :
    parseParamVals false (escVal x :: rest) = (parseParamVals false rest).map (escapeString x :: ·) := by
  by_cases hq : x.any (inClass Gen.quotable) = true
  · have hy := escapeString_valueOk x hx
    have ev : escVal x = DQ :: escapeString x ++ [DQ] := by simp [escVal, hq]
    rw [ev]
    have s : startsWithDQ (DQ :: escapeString x ++ [DQ]) = true := by simp [startsWithDQ]
    have e : endsWithDQ (DQ :: escapeString x ++ [DQ]) = true := by
      have : DQ :: escapeString x ++ [DQ] = (DQ :: escapeString x) ++ [DQ] := by simp
      rw [endsWithDQ, this, List.getLast?_concat]; simp
    have v : validParamValue (escapeString x) true = true := by
      simp only [validParamValue, if_true, Bool.not_eq_true', List.any_eq_false]
      intro c hc; simp [hy.2 c hc]
    rw [parseParamVals]
    simp only [s, e, Bool.and_self, if_true, stripDQ_quoted _ hy.1, v]
  · have ev : escVal x = dquote x := by
      rw [dquote_of_noDQ x hx.1]; simp [escVal, hq]
    rw [ev, parse_dquote x hx, escapeString_noQuotable x hq]

theorem parse_map_escVal : ∀ (xs : List Str), (∀ x ∈ xs, ValueOk x) →
    parseParamVals false (xs.map escVal) = some (xs.map escapeString) := by
  intro xs
  induction xs with
  | nil => intro _; simp [parseParamVals]
  | cons x r ih =>
    intro h
    rw [List.map_cons, parse_escVal x (h x (by simp)), ih (fun y hy => h y (List.mem_cons_of_mem _ hy))]
    simp

theorem parse_escJoin (xs : List Str) (hd : ∀ x ∈ xs, ValueOk x) (hq : joinWith [','] (xs.map escVal) ≠ []) :
    parseParamVals false (qSplit (joinWith [','] (xs.map escVal)) ',') = some (xs.map escapeString) := by
  rw [qSplit_join ',' (by decide) _ hq, parse_map_escVal xs hd]
  intro s hs
  obtain ⟨x, hx, rfl⟩ := List.mem_map.mp hs
  exact escVal_balanced ',' (Or.inl rfl) x (hd x hx).1

theorem escJoin_eq_nil (xs : List Str) (hne : xs ≠ []) (h : joinWith [','] (xs.map escVal) = []) : xs = [[]] := by
  rcases joinWith_eq_nil ',' _ h with e | e
  · simp [hne] at e
  · cases xs with
    | nil => simp at e
    | cons x r =>
      cases r with
      | nil => simp at e; rw [escVal_eq_nil x e]
      | cons y r' => simp at e

theorem canonVal_mapPVal (f : Str → Str) (v : PVal) : canonVal (mapPVal f v) = mapPVal f (canonVal v) := by
  cases v with
  | one x => rfl
  | many xs =>
    match xs with
    | [] => rfl
    | [x] => rfl
    | x :: y :: r => rfl

theorem unescapePVal_eq (v : PVal) : unescapePVal v = mapPVal unescapeString v := by
  cases v <;> rfl

theorem mapPVal_comp (f g : Str → Str) (v : PVal) : mapPVal f (mapPVal g v) = mapPVal (fun x => f (g x)) v := by
  cases v <;> simp [mapPVal]

theorem parseParam_escItem (kv : Str × PVal) (hk : validToken kv.1 = true) (hu : upper kv.1 = kv.1)
    (hv : PValOk kv.2) :
    parseParam false (escItemText kv) = some (kv.1, canonVal (mapPVal escapeString kv.2)) := by
  obtain ⟨k, v⟩ := kv
  simp only at hk hu hv ⊢
  unfold parseParam escItemText
  simp only
  rw [qSplit_key_val k _ hk]
  simp only [hk, Bool.not_true, Bool.false_eq_true, if_false, hu]
  cases v with
  | one x =>
    have hv : ValueOk x := hv
    simp only [escPValText, mapPVal]
    by_cases he : escVal x = []
    · have : x = [] := escVal_eq_nil x he
      subst this
      rw [he]
      simp [qSplit, qSplitGo, parseParamVals, canonVal, escapeString_nil]
    · have := parse_escJoin [x] (by simpa using hv) (by simpa [joinWith] using he)
      simp only [List.map_cons, List.map_nil, joinWith] at this
      rw [this]
      simp [canonVal]
  | many xs =>
    have hv : xs ≠ [] ∧ ∀ x ∈ xs, ValueOk x := hv
    simp only [escPValText, mapPVal]
    by_cases he : joinWith [','] (xs.map escVal) = []
    · have : xs = [[]] := escJoin_eq_nil xs hv.1 he
      subst this
      rw [he]
      simp [qSplit, qSplitGo, parseParamVals, canonVal, escapeString_nil]
    · rw [parse_escJoin xs hv.2 he]
      match xs, hv.1 with
      | [x], _ => simp [canonVal]
      | x :: y :: r, _ => simp [canonVal]

theorem escItem_balanced (kv : Str × PVal) (hk : validToken kv.1 = true) (hu : upper kv.1 = kv.1)
    (hv : PValOk kv.2) : Balanced ';' (escItemText kv) := by
  rw [← escapeString_itemText kv hk hu hv]
  exact balanced_escapeString ';' (Or.inr (Or.inl rfl)) _ (item_balanced kv hk hu)

theorem escItem_ne_nil (kv : Str × PVal) : escItemText kv ≠ [] := by
  unfold escItemText; simp

/-- `fold_items` for any item text `T` that parses to key and `G value` -/
theorem fold_items' (F : Option Params → Str → Option Params)
    (hF : ∀ ps param k v, parseParam false param = some (k, v) → F (some ps) param = some (Params.put ps k v))
    (T : Str × PVal → Str) (G : PVal → PVal) :
    ∀ (s : Params) (acc : Params), (s.map Prod.fst).Nodup →
    (∀ kv ∈ s, parseParam false (T kv) = some (kv.1, G kv.2)) →
    (∀ k ∈ s.map Prod.fst, k ∉ acc.map Prod.fst) →
    (s.map T).foldl F (some acc) = some (acc ++ s.map (fun kv => (kv.1, G kv.2))) := by
  intro s
  induction s with
  | nil => intro acc _ _ _; simp
  | cons kv r ih =>
    intro acc hnd hT hf
    rw [List.map_cons, List.nodup_cons] at hnd
    rw [List.map_cons, List.foldl_cons, hF acc _ _ _ (hT kv (by simp))]
    rw [put_fresh acc kv.1 _ (hf kv.1 (by simp))]
    rw [ih _ hnd.2 (fun x hx => hT x (List.mem_cons_of_mem _ hx))]
    · simp
    · intro k hk hacc
      rw [List.map_append, List.mem_append] at hacc
      rcases hacc with h | h
      · exact hf k (by simp [hk]) h
      · simp only [List.map_cons, List.map_nil, List.mem_singleton] at h
        exact hnd.1 (h ▸ hk)

/-- parsing the parameter text after the placeholder pass: same keys in the same order, every
    value string replaced by its placeholder form -/
theorem paramsFromIcal_escaped (p : Params) (hd : ParamDomain p) (hp : p ≠ []) :
    paramsFromIcal (escapeString (paramsToIcal p true)) false =
      some ((sortByKey p).map (fun kv => (kv.1, canonVal (mapPVal escapeString kv.2)))) := by
  have hs := paramDomain_sort p hd
  have hne : sortByKey p ≠ [] := by
    intro e
    have := (sortByKey_perm p).length_eq
    rw [e] at this
    exact hp (List.length_eq_zero_iff.mp this.symm)
  rw [escapeString_paramsToIcal p hd]
  unfold paramsFromIcal
  generalize sortByKey p = s at hs hne
  cases s with
  | nil => exact absurd rfl hne
  | cons kv r =>
    rw [qSplit_join ';' (by decide) _ (by
        rw [List.map_cons]; exact joinWith_ne_nil _ _ _ (escItem_ne_nil kv)) (by
        intro t ht
        obtain ⟨x, hx, rfl⟩ := List.mem_map.mp ht
        exact escItem_balanced x (hs.2 x hx).1.1 (hs.2 x hx).1.2 (hs.2 x hx).2)]
    rw [fold_items' _ (by intro ps param k v h; simp only [h]) escItemText (fun v => canonVal (mapPVal escapeString v))
      (kv :: r) [] hs.1 (fun x hx => parseParam_escItem x (hs.2 x hx).1.1 (hs.2 x hx).1.2 (hs.2 x hx).2) (by simp)]
    simp


theorem escapeString_ne_nil (s : Str) (h : s ≠ []) : escapeString s ≠ [] := by
  rw [escapeString_eq]
  exact rep2_ne_nil _ _ _ (by simp) _ (rep2_ne_nil _ _ _ (by simp) _ (rep2_ne_nil _ _ _ (by simp) _
    (rep2_ne_nil _ _ _ (by simp) _ h)))

/-- what `parts()` returns for the parameters of a joined line: same names, same order, every value
    string sent through both placeholder passes -/
def readBack (p : Params) : Params := (canon p).map (fun kv => (kv.1, mapPVal viaPlaceholders kv.2))

theorem readBack_keys (p : Params) : (readBack p).map Prod.fst = (canon p).map Prod.fst := by
  simp [readBack, List.map_map, Function.comp_def]

theorem viaPlaceholders_id (x : Str) (h : Hazardless x) : viaPlaceholders x = x := by
  unfold viaPlaceholders
  rw [escapeString_id x h.1, unescapeString_id x h.2]

theorem readBack_eq (p : Params) :
    List.map (fun kv => (kv.1, unescapePVal kv.2))
      ((sortByKey p).map (fun kv => (kv.1, canonVal (mapPVal escapeString kv.2)))) = readBack p := by
  unfold readBack canon
  simp only [List.map_map]
  apply List.map_congr_left
  intro x _
  simp only [Function.comp, unescapePVal_eq, canonVal_mapPVal, mapPVal_comp]
  rfl

/-- the split of a joined line for EVERY value text and EVERY parameter map of the domain -/
theorem parts_lineText_any (n : Str) (p : Params) (v : Str) (hn : validToken n = true) (hd : ParamDomain p) :
    parts (lineText n p v true) = some (n, readBack p, viaPlaceholders v) := by
  have hsn : Safe n := safe_of_noBS n (token_noBS n hn)
  cases p with
  | nil =>
    have hs : Safe (n ++ [':']) := hsn.append (by decide)
    have e : lineText n [] v true = n ++ [':'] ++ v := rfl
    rw [e]
    have := parts_name_colon (n ++ [':'] ++ v) n (escapeString v) hn (by
      rw [escapeString_prefix _ _ hs.1 hs.2]; simp)
    rw [this]
    rfl
  | cons kv r =>
    have hs := paramDomain_sort (kv :: r) hd
    have hP := paramsToIcal_noBSEnd (kv :: r) hd
    have hs1 : Safe (n ++ [';']) := hsn.append (by decide)
    have e : lineText n (kv :: r) v true =
        (n ++ [';']) ++ (paramsToIcal (kv :: r) true ++ ([':'] ++ v)) := by
      simp [lineText]
    rw [e]
    have hst : escapeString ((n ++ [';']) ++ (paramsToIcal (kv :: r) true ++ ([':'] ++ v))) =
        n ++ ';' :: escapeString (paramsToIcal (kv :: r) true) ++ ':' :: escapeString v := by
      rw [escapeString_prefix _ _ hs1.1 hs1.2, escapeString_append _ _ hP,
        List.singleton_append, escapeString_cons ':' (by decide)]
      simp
    have := parts_name_params _ n (escapeString (paramsToIcal (kv :: r) true)) (escapeString v) hn
      (balanced_escapeString ':' (Or.inr (Or.inr rfl)) _ (paramsToIcal_balanced_colon _ hd true))
      (escapeString_ne_nil _ (paramsToIcal_ne_nil _ true (by simp))) hst
    rw [this, paramsFromIcal_escaped _ hd (by simp), Option.map_some]
    rw [rekey_eq _ (by simpa [List.map_map, Function.comp_def] using hs.1) (by
      intro x hx
      obtain ⟨y, hy, rfl⟩ := List.mem_map.mp hx
      exact (hs.2 y hy).1)]
    rw [readBack_eq]
    rfl

theorem readBack_hazardless (p : Params) (hz : ParamsHazardless p) : readBack p = canon p := by
  unfold readBack canon
  rw [List.map_map]
  apply List.map_congr_left
  intro kv hkv
  have hm : kv ∈ p := (sortByKey_perm p).mem_iff.mp hkv
  have : mapPVal viaPlaceholders (canonVal kv.2) = canonVal kv.2 := by
    rw [← canonVal_mapPVal]
    congr 1
    cases hv : kv.2 with
    | one x =>
      have := hz kv hm x (by simp [hv, pvalStrs])
      simp [mapPVal, viaPlaceholders_id x this]
    | many xs =>
      have hm' : xs.map viaPlaceholders = xs := by
        rw [List.map_congr_left (g := id) (fun x hx => viaPlaceholders_id x (hz kv hm x (by simpa [hv, pvalStrs] using hx)))]
        simp
      simp [mapPVal, hm']
  simp only [Function.comp, this]


end escaped

/-! ## `raw_value()` -/
section raw

/-- `raw_value()`'s walk over a prefix of the line: `none` if it would return inside the prefix
    or skip a pair that straddles its end, otherwise the quote state after it -/
def rawScan : Bool → Str → Option Bool
  | q, [] => some q
  | q, [c] => if c == BS || (c == ':' && !q) then none else some (if c == DQ then !q else q)
  | q, c :: d :: cs =>
    if c == BS && special d then rawScan q cs
    else if c == ':' && !q then none
    else rawScan (if c == DQ then !q else q) (d :: cs)

theorem rawValueGo_cons_cons (c d : Char) (rest : Str) (q : Bool) :
    rawValueGo (c :: d :: rest) q =
      if c == BS && special d then rawValueGo rest q
      else if c == ':' && !q then d :: rest
      else rawValueGo (d :: rest) (if c == DQ then !q else q) := by
  simp only [rawValueGo, special]
  rfl

/-- after a prefix that `rawScan` accepts the walk continues on the rest -/
theorem rawValueGo_prefix (t : Str) (ht : t ≠ []) : ∀ (n : Nat) (s : Str) (q q' : Bool), s.length ≤ n →
    rawScan q s = some q' → rawValueGo (s ++ t) q = rawValueGo t q' := by
  intro n
  induction n with
  | zero =>
    intro s q q' hl h
    have : s = [] := List.length_eq_zero_iff.mp (by omega)
    subst this
    simp only [rawScan, Option.some.injEq] at h
    simp [h]
  | succ n ih =>
    intro s q q' hl h
    match s, hl, h with
    | [], _, h => simp only [rawScan, Option.some.injEq] at h; simp [h]
    | [c], _, h =>
      obtain ⟨e, t', rfl⟩ := List.exists_cons_of_ne_nil ht
      simp only [rawScan] at h
      split at h
      · cases h
      · next hc =>
        simp only [Bool.or_eq_true, not_or, Bool.not_eq_true] at hc
        simp only [Option.some.injEq] at h
        simp only [List.cons_append, List.nil_append, rawValueGo_cons_cons, hc.1, hc.2, Bool.false_and,
          Bool.false_eq_true, if_false, h]
    | c :: d :: cs, hl, h =>
      simp only [List.length_cons] at hl
      simp only [rawScan] at h
      simp only [List.cons_append, rawValueGo_cons_cons]
      split
      · next hp => simp only [hp, if_true] at h; exact ih cs q q' (by omega) h
      · next hp =>
        simp only [hp, Bool.false_eq_true, if_false] at h
        split
        · next hc => simp [hc] at h
        · next hc =>
          simp only [hc, Bool.false_eq_true, if_false] at h
          exact ih (d :: cs) _ q' (by simp; omega) h

theorem rawScan_append : ∀ (n : Nat) (a b : Str) (q q' : Bool), a.length ≤ n → rawScan q a = some q' →
    rawScan q (a ++ b) = rawScan q' b := by
  intro n
  induction n with
  | zero =>
    intro a b q q' hl h
    have : a = [] := List.length_eq_zero_iff.mp (by omega)
    subst this
    simp only [rawScan, Option.some.injEq] at h
    simp [h]
  | succ n ih =>
    intro a b q q' hl h
    match a, hl, h with
    | [], _, h => simp only [rawScan, Option.some.injEq] at h; simp [h]
    | [c], _, h =>
      simp only [rawScan] at h
      split at h
      · cases h
      · next hc =>
        simp only [Bool.or_eq_true, not_or, Bool.not_eq_true] at hc
        simp only [Option.some.injEq] at h
        cases b with
        | nil => simpa [rawScan, hc.1, hc.2] using h
        | cons e es =>
          simp only [List.cons_append, List.nil_append, rawScan, hc.1, hc.2, Bool.false_and,
            Bool.false_eq_true, if_false, h]
    | c :: d :: cs, hl, h =>
      simp only [List.length_cons] at hl
      simp only [rawScan] at h
      simp only [List.cons_append, rawScan]
      split
      · next hp => simp only [hp, if_true] at h; exact ih cs b q q' (by omega) h
      · next hp =>
        simp only [hp, Bool.false_eq_true, if_false] at h
        split
        · next hc => simp [hc] at h
        · next hc =>
          simp only [hc, Bool.false_eq_true, if_false] at h
          have := ih (d :: cs) b _ q' (by simp; omega) h
          simpa using this

/-- `raw_value()` passes over the text outside quotes and ends outside quotes -/
def RawBal (s : Str) : Prop := rawScan false s = some false

instance (s : Str) : Decidable (RawBal s) := by unfold RawBal; infer_instance

theorem RawBal.append {a b : Str} (ha : RawBal a) (hb : RawBal b) : RawBal (a ++ b) := by
  unfold RawBal at *
  rw [rawScan_append a.length a b false false (Nat.le_refl _) ha]; exact hb

/-- text without backslash, colon and double quote is passed over -/
theorem rawScan_plain : ∀ (s : Str) (q : Bool), BS ∉ s → ':' ∉ s → DQ ∉ s → rawScan q s = some q := by
  intro s
  induction s with
  | nil => intros; rfl
  | cons c cs ih =>
    intro q h1 h2 h3
    have c1 : (c == BS) = false := by simpa using fun e : c = BS => h1 (by simp [e])
    have c2 : (c == ':') = false := by simpa using fun e : c = ':' => h2 (by simp [e])
    have c3 : (c == DQ) = false := by simpa using fun e : c = DQ => h3 (by simp [e])
    have := ih q (fun e => h1 (by simp [e])) (fun e => h2 (by simp [e])) (fun e => h3 (by simp [e]))
    cases cs with
    | nil => simp [rawScan, c1, c2, c3]
    | cons d ds => simp only [rawScan, c1, c2, c3, Bool.false_and, Bool.false_eq_true, if_false, this]

/-- inside quotes everything up to the closing quote is passed over -/
theorem rawScan_inq : ∀ (n : Nat) (x : Str), x.length ≤ n → DQ ∉ x → rawScan true (x ++ [DQ]) = some false := by
  intro n
  induction n with
  | zero =>
    intro x hl _
    have : x = [] := List.length_eq_zero_iff.mp (by omega)
    subst this
    decide
  | succ n ih =>
    intro x hl hx
    match x, hl, hx with
    | [], _, _ => decide
    | [c], _, hx =>
      have c3 : (c == DQ) = false := by simpa using fun e : c = DQ => hx (by simp [e])
      have s : special DQ = false := by decide
      simp only [List.cons_append, List.nil_append, rawScan, s, c3, Bool.and_false, Bool.not_true,
        Bool.false_eq_true, if_false]
      decide
    | c :: d :: cs, hl, hx =>
      simp only [List.length_cons] at hl
      have c3 : (c == DQ) = false := by simpa using fun e : c = DQ => hx (by simp [e])
      simp only [List.cons_append, rawScan, c3, Bool.not_true, Bool.and_false, Bool.false_eq_true, if_false]
      split
      · exact ih cs (by omega) (fun e => hx (by simp [e]))
      · have := ih (d :: cs) (by simp; omega) (fun e => hx (by simp [e]))
        simpa using this

theorem dquote_rawBal (x : Str) (hx : DQ ∉ x) : RawBal (dquote x) := by
  rw [dquote_of_noDQ x hx]
  split
  · unfold RawBal
    have : DQ :: x ++ [DQ] = [DQ] ++ (x ++ [DQ]) := by simp
    rw [this, rawScan_append 1 [DQ] _ false true (by simp) (by decide)]
    exact rawScan_inq x.length x (Nat.le_refl _) hx
  · next hq =>
    refine rawScan_plain x false (noBS_of_noQuotable x hq) ?_ hx
    exact fun hm => hq (List.any_eq_true.mpr ⟨':', hm, quotable_colon⟩)

theorem token_rawBal (n : Str) (hn : validToken n = true) : RawBal n :=
  rawScan_plain n false (token_noBS n hn) (token_noColon n hn) (validToken_noDQ n hn)

theorem paramsToIcal_rawBal (p : Params) (hd : ParamDomain p) (sorted : Bool) :
    RawBal (paramsToIcal p sorted) := by
  refine paramsText_ind RawBal (by decide) (fun _ _ => RawBal.append) (by decide) (by decide)
    (by decide) p sorted ?_ ?_
  · intro kv hkv
    have := (hd.2 kv hkv).1
    rw [this.2]
    exact token_rawBal _ this.1
  · intro kv hkv x hx
    exact dquote_rawBal x (pvalOk_strs kv.2 (hd.2 kv hkv).2 x hx).1

/-- `raw_value()` of a joined line is the value text as written — for every value text and every
    parameter map of the domain -/
theorem rawValue_lineText (n : Str) (p : Params) (v : Str) (sorted : Bool) (hn : validToken n = true)
    (hd : ParamDomain p) : rawValue (lineText n p v sorted) = v := by
  have hfin : ∀ pre : Str, RawBal pre → rawValue (pre ++ ':' :: v) = v := by
    intro pre hpre
    unfold rawValue
    rw [rawValueGo_prefix _ (by simp) pre.length pre false false (Nat.le_refl _) hpre]
    cases v with
    | nil => rfl
    | cons d ds => simp [rawValueGo_cons_cons, BS]
  unfold lineText
  split
  · have := hfin n (token_rawBal n hn)
    simpa using this
  · have := hfin (n ++ [';'] ++ paramsToIcal p sorted)
      (((token_rawBal n hn).append (by decide)).append (paramsToIcal_rawBal p hd sorted))
    simpa using this

end raw

/-- a concrete map with hostile values for the non-vacuity checks of C05:
    `K=a\;L=1:b%3A` and the list `M=[x\ , ;Y=2:]` -/
def hostileParams : Params :=
  [(['M'], .many [['x', '\\'], [';', 'Y', '=', '2', ':']]),
   (['K'], .one ['a', '\\', ';', 'L', '=', '1', ':', 'b', '%', '3', 'A'])]

end ICal
