/-
  Equality of the regenerated bodies of parser.py (ICal/Gen/BodiesParser.lean, tools/py2lean.py) with
  the hand model of ICal/Model/Params.lean.  `QUOTABLE.search(val)` is a predicate parameter of the
  translated `dquote`; the hand model instantiates it with "some character is in the generated class
  `Gen.quotable`" (`quotableSearch`), which is what `re.search` of a one-class pattern answers and is
  compared with the real `QUOTABLE.search` every run (harness/props/C08.py, op `body_quotable`).
  `q_split` (wave 3): a `for .. in enumerate(st)` loop with `break`, int-indexed slices `st[cursor:i]`
  and a flag that starts as the int 0 and becomes a bool; the hand model `qSplitGo` carries the
  current segment instead of the cursor, the invariant `cur = st[cursor:i]` connects them.
-/
import ICal.Gen.BodiesParser
import ICal.Model.Params
import ICal.Lemmas.PyStr
import ICal.Lemmas.BodiesRT
set_option linter.unusedSimpArgs false
namespace ICal.Bodies
open ICal ICal.PyRT

/-- `bool(QUOTABLE.search(s))` for the one-class pattern `QUOTABLE` -/
def quotableSearch (s : Str) : Bool := s.any (inClass Gen.quotable)

theorem dquote_eq (v : Str) : Gen.BodiesParser.dquote v quotableSearch = ICal.dquote v := by
  have hf : Gen.dquoteFrom = '"' := by decide
  have ht : Gen.dquoteTo = ['\''] := by decide
  simp only [Gen.BodiesParser.dquote, ICal.dquote, quotableSearch, replaceAll_one, hf, ht, DQ]
  split <;> simp

theorem q_join_eq (l : List Str) : Gen.BodiesParser.q_join l [','] quotableSearch = qJoin l := by
  simp only [Gen.BodiesParser.q_join, qJoin, dquote_eq]

/-! ## `q_split` -/

/-- the `maxsplit` argument of the hand model: `-1` (any negative int) never stops the loop -/
def maxsplitOf (m : Int) : Option Nat := if m < 0 then none else some m.toNat

theorem q_split_loop (st : Str) (c : Char) (m : Int) : ∀ (l pre : Str), st = pre ++ l →
    ∀ (cursor splits : Nat) (inq : Bool) (res : List Str), cursor ≤ pre.length →
    (Gen.BodiesParser.q_split_loop1 st [c] m (st.length : Int) (pre.length : Int) inq res (cursor : Int) (splits : Int) l).2.1 =
      res ++ qSplitGo c (maxsplitOf m) inq splits (pre.drop cursor) l := by
  intro l
  induction l with
  | nil => intro pre _ cursor splits inq res _; simp [Gen.BodiesParser.q_split_loop1, qSplitGo]
  | cons ch rest ih =>
    intro pre hst cursor splits inq res hc
    have hst' : st = (pre ++ [ch]) ++ rest := by simp [hst]
    have hlen : st.length = pre.length + 1 + rest.length := by rw [hst]; simp; omega
    have e1 : ((pre.length : Int) + 1) = (((pre ++ [ch]).length : Nat) : Int) := by simp
    have e2 : ((splits : Int) + 1) = ((splits + 1 : Nat) : Int) := by push_cast; rfl
    have hsl : pySliceI st (cursor : Int) (pre.length : Int) = pre.drop cursor := by
      rw [pySliceI_nat, hst, List.drop_append_of_le_length hc, List.take_append_of_le_length (by simp)]
      exact List.take_of_length_le (by simp)
    have hfrom : ∀ k, k ≤ pre.length + 1 → pySliceFromI st (k : Int) = (pre ++ [ch]).drop k ++ rest := by
      intro k hk
      rw [pySliceFromI_nat, hst', List.drop_append_of_le_length (by simp; omega)]
    have hend : (((pre.length : Int) + 1 == (st.length : Int))) = rest.isEmpty := by
      rw [hlen]; cases rest <;> simp <;> omega
    have hms : ∀ k : Nat, ((k : Int) == m) = (maxsplitOf m == some k) := by
      intro k
      unfold maxsplitOf
      by_cases hm : m < 0
      · have : ¬ ((k : Int) = m) := by omega
        simp [hm, this]
      · have : ((k : Int) = m) ↔ m.toNat = k := by omega
        simp only [hm, if_false]
        rw [Bool.eq_iff_iff]; simp [this]
    have hfr1 := hfrom (pre.length + 1) (Nat.le_refl _)
    have hfr2 := hfrom cursor (by omega)
    have ecur : ((pre.length + 1 : Nat) : Int) = (pre.length : Int) + 1 := by push_cast; rfl
    rw [ecur] at hfr1
    have hd1 : (pre ++ [ch]).drop (pre.length + 1) = [] := List.drop_of_length_le (by simp)
    have hd2 : (pre ++ [ch]).drop cursor = pre.drop cursor ++ [ch] := List.drop_append_of_le_length hc
    have ih1 := ih (pre ++ [ch]) hst' (pre.length + 1) (splits + 1) (if ch = DQ then !inq else inq) (res ++ [pre.drop cursor]) (by simp)
    have ih2 := ih (pre ++ [ch]) hst' cursor splits (if ch = DQ then !inq else inq) res (by simp; omega)
    rw [← e1, hd1] at ih1
    rw [← e1, hd2] at ih2
    rw [ecur] at ih1
    have hsep : ([ch] == [c]) = (ch == c) := by rw [Bool.eq_iff_iff]; simp
    have hq : (ch == '"') = (ch == DQ) := rfl
    simp only [Gen.BodiesParser.q_split_loop1, qSplitGo, hsl, e2, hq, hsep, beq_iff_eq]
    generalize (if ch = DQ then !inq else inq) = inq' at ih1 ih2 ⊢
    by_cases hB : ((!inq') && ch == c) = true
    · simp only [hB, if_true, hms, hend, hfr1, hd1, List.nil_append]
      by_cases hS : (rest.isEmpty || maxsplitOf m == some (splits + 1)) = true
      · simp only [hS, if_true]; simp
      · simp only [hS, if_false, Bool.false_eq_true]; rw [ih1]; simp
    · simp only [hB, if_false, hms, hend, hfr2, hd2, Bool.false_eq_true]
      by_cases hS : (rest.isEmpty || maxsplitOf m == some splits) = true
      · simp only [hS, if_true]; simp
      · simp only [hS, if_false, Bool.false_eq_true]; rw [ih2]; simp

theorem q_split_eq (st : Str) (c : Char) (m : Int) :
    Gen.BodiesParser.q_split st [c] m = qSplit st c (maxsplitOf m) := by
  simp only [Gen.BodiesParser.q_split, qSplit]
  by_cases h0 : m = 0
  · subst h0; simp [maxsplitOf]
  · have h1 : (m == 0) = false := by simp [h0]
    have h2 : (maxsplitOf m == some 0) = false := by
      unfold maxsplitOf
      by_cases hm : m < 0
      · simp [hm]
      · simp [hm]; omega
    simp only [h1, h2, Bool.false_eq_true, if_false]
    have := q_split_loop st c m st [] (by simp) 0 0 false [] (by simp)
    simpa [strLen_eq] using this

end ICal.Bodies
