/-
  Equality of the regenerated bodies of parser.py (ICal/Gen/BodiesParser.lean, tools/py2lean.py) with
  the hand model of ICal/Model/Params.lean.  `QUOTABLE.search(val)` is a predicate parameter of the
  translated `dquote`; the hand model instantiates it with "some character is in the generated class
  `Gen.quotable`" (`quotableSearch`), which is what `re.search` of a one-class pattern answers and is
  compared with the real `QUOTABLE.search` every run (harness/props/C08.py, op `body_quotable`).
-/
import ICal.Gen.BodiesParser
import ICal.Model.Params
import ICal.Lemmas.PyStr
namespace ICal.Bodies
open ICal ICal.PyRT

/-- `bool(QUOTABLE.search(s))` for the one-class pattern `QUOTABLE` -/
def quotableSearch (s : Str) : Bool := s.any (inClass Gen.quotable)

theorem dquote_eq (v : Str) : Gen.BodiesParser.dquote v quotableSearch = ICal.dquote v := by
  have hf : Gen.dquoteFrom = '"' := by decide
  have ht : Gen.dquoteTo = ['\''] := by decide
  simp only [Gen.BodiesParser.dquote, ICal.dquote, quotableSearch, replaceAll_one, hf, ht, DQ]
  split <;> simp

theorem q_join_eq (l : List Str) : Gen.BodiesParser.q_join l [','] quotableSearch = qJoin l := by
  simp only [Gen.BodiesParser.q_join, qJoin, dquote_eq]

end ICal.Bodies
