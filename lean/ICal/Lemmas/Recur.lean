import ICal.Model.Recur
import ICal.Lemmas.CDict
import ICal.Props.C03
import ICal.Props.C07
namespace ICal.Recur
end ICal.Recur
